(* Proofs about the model of pkg/masks/get.go (Masks/Get.v). *)
From SC Require Import Base.Prelude Msg.Msg Msg.MsgProofs Msg.Schema Msg.Path Msg.PathProofs
  Msg.FmUtils Msg.FmUtilsProofs Masks.Get.

(* ------------------------------------------------------------------------------------------- *)
(* path sets                                                                                     *)

Lemma in_deriv : forall k t ps, In t (deriv k ps) <-> In (k :: t) ps.
Proof.
  unfold deriv. intros k t ps. rewrite in_flat_map. split.
  - intros [[|s r] [Hin H]]; [destruct H|].
    destruct (String.eqb s k) eqn:E; [|destruct H]. apply String.eqb_eq in E. subst s.
    destruct H as [<-|[]]. exact Hin.
  - intros H. exists (k :: t). split; auto. rewrite String.eqb_refl. left. reflexivity.
Qed.

Lemma ends_here_iff : forall ps, ends_here ps = true <-> In [] ps.
Proof.
  unfold ends_here. intros ps. rewrite existsb_exists. split.
  - intros [[|s r] [Hin H]]; [exact Hin|discriminate].
  - intros H. exists []. auto.
Qed.

Lemma all_nil_iff : forall ps, forallb is_nil ps = true <-> forall p, In p ps -> p = [].
Proof.
  intros ps. rewrite forallb_forall. split; intros H p Hp.
  - specialize (H p Hp). destruct p; [reflexivity|discriminate].
  - rewrite (H p Hp). reflexivity.
Qed.

Lemma prefix_free_deriv : forall k ps, prefix_free ps -> prefix_free (deriv k ps).
Proof.
  intros k ps H p q Hp Hq Hpre. apply in_deriv in Hp. apply in_deriv in Hq.
  assert (k :: p = k :: q) as E. { apply H; auto. simpl. rewrite String.eqb_refl. exact Hpre. }
  inversion E. reflexivity.
Qed.

(* in a prefix-free set, as soon as one remainder is empty all are *)
Lemma prefix_free_nil : forall ps, prefix_free ps -> In [] ps -> forall p, In p ps -> p = [].
Proof. intros ps H Hn p Hp. symmetry. apply H; auto. Qed.

(* ------------------------------------------------------------------------------------------- *)
(* when fmutils can descend: the message shape under every selected field                       *)

Fixpoint fsafe (ps : list path) (v : value) {struct v} : bool :=
  match v with
  | VM fields =>
      forallb (fun kx : string * value =>
                 let '(k, x) := kx in
                 let d := deriv k ps in
                 forallb is_nil d ||
                 match x with
                 | VS _ => true
                 | VM _ => fsafe d x
                 | VL l => forallb (fun e => is_msg e && fsafe d e) l
                 | VMap _ => false
                 end) fields
  | _ => true
  end.

Lemma project_whole : forall ps v, ends_here ps = true -> project ps v = v.
Proof. intros ps v H. destruct v; simpl; rewrite H; reflexivity. Qed.

Lemma nm_filter_msg : forall m fs,
  nm_filter m (VM fs) =
  if nm_empty m then Some (VM fs) else
  option_map VM
    (otraverse (fun kx : string * value =>
                  let '(k, x) := kx in
                  match alookup k (nm_children m) with
                  | None => Some []
                  | Some sub =>
                      if nm_empty sub then Some [(k, x)] else
                      match x with
                      | VS _ => Some [(k, x)]
                      | VM _ => osingle (option_map (pair k) (nm_filter sub x))
                      | VL l =>
                          osingle (option_map (fun l' => (k, VL l'))
                            (otraverse (fun e => if is_msg e then osingle (nm_filter sub e) else None) l))
                      | VMap _ => None
                      end
                  end) fs).
Proof. reflexivity. Qed.

Lemma flat_map_single : forall {A B} (f : A -> B) l, flat_map (fun x => [f x]) l = map f l.
Proof. induction l; simpl; congruence. Qed.

(* The heart of C06: on a prefix-free path set under which fmutils can descend, NestedMask.Filter
   over the nested mask of the paths computes the reference projection. *)
Definition filter_stmt (v : value) : Prop :=
  forall ps,
    is_msg v = true -> prefix_free ps -> fsafe ps v = true -> ends_here ps = false -> ps <> [] ->
    nm_filter (ins_all ps (NM [])) v = Some (project ps v).

Lemma filter_core_aux : forall v,
  filter_stmt v /\ (forall l, v = VL l -> forall e, In e l -> filter_stmt e).
Proof.
  induction v as [s|fs IH|l IH|kv IH] using value_ind'.
  - split; [intros ps Hm; discriminate|intros l E; discriminate].
  - split; [|intros l E; discriminate].
    intros ps Hm Hpf Hsafe Hend Hne.
    rewrite nm_filter_msg. rewrite nm_empty_ins_all. simpl nm_empty.
    assert (forallb is_nil ps = false) as Hnn.
    { destruct (forallb is_nil ps) eqn:E; auto. rewrite all_nil_iff in E.
      destruct ps as [|p ps]; [congruence|]. rewrite (E p (or_introl eq_refl)) in Hend. discriminate. }
    rewrite Hnn. simpl andb. cbv iota.
    simpl project. rewrite Hend.
    erewrite otraverse_flat_map; [reflexivity|].
    intros [k x] Hin. cbv beta iota.
    rewrite ins_all_lookup. simpl nm_children. simpl alookup. simpl sub_or_empty.
    simpl in Hsafe. rewrite forallb_forall in Hsafe. specialize (Hsafe (k, x) Hin). simpl in Hsafe.
    rewrite Forall_forall in IH. specialize (IH (k, x) Hin). simpl in IH. destruct IH as [IHx IHl].
    destruct (deriv k ps) as [|t d] eqn:Ed; [reflexivity|].
    rewrite <- Ed in *.
    assert (deriv k ps <> []) as Hdne by (rewrite Ed; discriminate).
    pose proof (prefix_free_deriv k ps Hpf) as Hpfd.
    rewrite nm_empty_ins_all. simpl nm_empty. simpl andb.
    destruct (forallb is_nil (deriv k ps)) eqn:Enil.
    + (* every path through k ends at k: the whole field *)
      rewrite project_whole; [reflexivity|].
      rewrite all_nil_iff in Enil. apply ends_here_iff. rewrite Ed in *.
      rewrite <- (Enil t (or_introl eq_refl)). left. reflexivity.
    + (* some path continues below k, hence (prefix-free) none ends at k *)
      simpl in Hsafe.
      assert (ends_here (deriv k ps) = false) as Hend'.
      { destruct (ends_here (deriv k ps)) eqn:E; auto. apply ends_here_iff in E.
        assert (forallb is_nil (deriv k ps) = true) as C.
        { apply all_nil_iff. apply prefix_free_nil; auto. }
        congruence. }
      destruct x as [s|fs'|l|kv].
      * simpl. rewrite Hend'. reflexivity.
      * rewrite (IHx (deriv k ps)); auto.
      * assert (otraverse (fun e => if is_msg e then osingle (nm_filter (ins_all (deriv k ps) (NM [])) e) else None) l
                = Some (map (project (deriv k ps)) l)) as Hl.
        { rewrite <- flat_map_single. apply otraverse_flat_map. intros e He.
          rewrite forallb_forall in Hsafe. specialize (Hsafe e He). apply andb_true_iff in Hsafe.
          destruct Hsafe as [Hmsg Hs]. rewrite Hmsg.
          rewrite (IHl l eq_refl e He (deriv k ps)); auto. }
        rewrite Hl. simpl. rewrite Hend'. reflexivity.
      * discriminate.
  - split; [intros ps Hm; discriminate|].
    intros l' E e He. inversion E. subst l'. rewrite Forall_forall in IH. apply (IH e He).
  - split; [intros ps Hm; discriminate|intros l E; discriminate].
Qed.

Lemma filter_core : forall v ps,
  is_msg v = true -> prefix_free ps -> fsafe ps v = true -> ends_here ps = false -> ps <> [] ->
  nm_filter (ins_all ps (NM [])) v = Some (project ps v).
Proof. intros v. apply (filter_core_aux v). Qed.

(* ------------------------------------------------------------------------------------------- *)
(* no panic whenever fmutils can descend (no prefix-freeness needed)                            *)

Definition total_stmt (v : value) : Prop :=
  forall ps, fsafe ps v = true -> exists r, nm_filter (ins_all ps (NM [])) v = Some r.

Lemma filter_total_aux : forall v,
  total_stmt v /\ (forall l, v = VL l -> forall e, In e l -> total_stmt e).
Proof.
  induction v as [s|fs IH|l IH|kv IH] using value_ind'.
  - split; [intros ps _; simpl; eauto|intros l E; discriminate].
  - split; [|intros l E; discriminate].
    intros ps Hsafe. rewrite nm_filter_msg.
    destruct (nm_empty (ins_all ps (NM []))); [eauto|].
    match goal with |- exists r, option_map VM ?o = Some r => assert (exists r, o = Some r) as [r Hr] end.
    2:{ rewrite Hr. simpl. eauto. }
    apply otraverse_total. intros [k x] Hin. cbv beta iota.
    rewrite ins_all_lookup. simpl nm_children. simpl alookup. simpl sub_or_empty.
    simpl in Hsafe. rewrite forallb_forall in Hsafe. specialize (Hsafe (k, x) Hin). simpl in Hsafe.
    rewrite Forall_forall in IH. specialize (IH (k, x) Hin). simpl in IH. destruct IH as [IHx IHl].
    destruct (deriv k ps) as [|t d] eqn:Ed; [eauto|]. rewrite <- Ed in *.
    rewrite nm_empty_ins_all. simpl nm_empty. simpl andb.
    destruct (forallb is_nil (deriv k ps)); [eauto|]. simpl in Hsafe.
    destruct x as [s|fs'|l|kv]; [eauto| | |discriminate].
    + destruct (IHx _ Hsafe) as [r Hr]. rewrite Hr. simpl. eauto.
    + assert (exists r, otraverse (fun e => if is_msg e then osingle (nm_filter (ins_all (deriv k ps) (NM [])) e) else None) l = Some r) as [r Hr].
      { apply otraverse_total. intros e He.
        rewrite forallb_forall in Hsafe. specialize (Hsafe e He). apply andb_true_iff in Hsafe.
        destruct Hsafe as [Hmsg Hs]. rewrite Hmsg.
        destruct (IHl l eq_refl e He _ Hs) as [r Hr]. rewrite Hr. simpl. eauto. }
      rewrite Hr. simpl. eauto.
  - split; [intros ps _; simpl; eauto|].
    intros l' E e He. inversion E. subst l'. rewrite Forall_forall in IH. apply (IH e He).
  - split; [intros ps _; simpl; eauto|intros l E; discriminate].
Qed.

Lemma filter_total : forall v ps, fsafe ps v = true -> exists r, nm_filter (ins_all ps (NM [])) v = Some r.
Proof. intros v. apply (filter_total_aux v). Qed.

(* ------------------------------------------------------------------------------------------- *)
(* schema-level safety of a path (empty segments dropped): below a field that holds no messages
   to descend into (scalar, map, repeated scalar) the path does not continue; below an unknown name
   anything may follow (no conforming message has that field)                                     *)

Fixpoint psafe (sch : schema) (ty : string) (p : path) : bool :=
  match p with
  | [] => true
  | s :: r =>
      match lookup_field sch ty s with
      | None => true
      | Some f =>
          match msg_type_of f with
          | None => is_nil r
          | Some ty' => psafe sch ty' r
          end
      end
  end.

Lemma conforms_msg : forall sch ty v, conforms sch ty v = true -> is_msg v = true.
Proof. intros sch ty [| | |] H; simpl in *; auto; discriminate. Qed.

Lemma conforms_VM : forall sch ty fs,
  conforms sch ty (VM fs) =
  nodup_keys (akeys fs) &&
  forallb (fun kx : string * value =>
             let '(k, x) := kx in
             match lookup_field sch ty k with
             | None => false
             | Some f =>
                 match fcard f, fkd f, x with
                 | CSingular, FScalar _, VS _ => true
                 | CSingular, FMsg ty', VM _ => conforms sch ty' x
                 | CList, FScalar _, VL l => forallb is_vs l
                 | CList, FMsg ty', VL l => forallb (fun e => is_msg e && conforms sch ty' e) l
                 | CMap, FScalar _, VMap kv => forallb (fun e : scalar * value => is_vs (snd e)) kv
                 | CMap, FMsg ty', VMap kv =>
                     forallb (fun e : scalar * value => let '(_, y) := e in is_msg y && conforms sch ty' y) kv
                 | _, _, _ => false
                 end
             end) fs.
Proof. reflexivity. Qed.

(* what conformance says about one populated field *)
Inductive field_shape (sch : schema) (f : fdesc) (x : value) : Prop :=
| shape_leaf : msg_type_of f = None ->
               (is_vs x = true \/ (exists kv, x = VMap kv) \/ (exists l, x = VL l /\ forallb is_vs l = true)) ->
               field_shape sch f x
| shape_msg : forall ty', msg_type_of f = Some ty' -> is_msg x = true -> conforms sch ty' x = true ->
              field_shape sch f x
| shape_list : forall ty' l, msg_type_of f = Some ty' -> x = VL l ->
               (forall e, In e l -> is_msg e = true /\ conforms sch ty' e = true) ->
               field_shape sch f x.

Lemma conforms_field : forall sch ty fs k x,
  conforms sch ty (VM fs) = true -> In (k, x) fs ->
  exists f, lookup_field sch ty k = Some f /\ field_shape sch f x.
Proof.
  intros sch ty fs k x H Hin. rewrite conforms_VM in H. apply andb_true_iff in H. destruct H as [_ H].
  rewrite forallb_forall in H. specialize (H (k, x) Hin). simpl in H.
  destruct (lookup_field sch ty k) as [f|]; [|discriminate]. exists f. split; auto.
  unfold msg_type_of.
  destruct (fcard f) eqn:Ec; destruct (fkd f) as [sk|ty'] eqn:Ek; destruct x as [s|fs'|l|kv]; try discriminate.
  - apply shape_leaf; [unfold msg_type_of; rewrite Ec, Ek; reflexivity|left; reflexivity].
  - eapply shape_msg; [unfold msg_type_of; rewrite Ec, Ek; reflexivity|reflexivity|exact H].
  - apply shape_leaf; [unfold msg_type_of; rewrite Ec, Ek; reflexivity|right; right; eauto].
  - eapply shape_list; [unfold msg_type_of; rewrite Ec, Ek; reflexivity|reflexivity|].
    intros e He. rewrite forallb_forall in H. specialize (H e He). apply andb_true_iff in H. exact H.
  - apply shape_leaf; [unfold msg_type_of; rewrite Ec; reflexivity|right; left; eauto].
  - apply shape_leaf; [unfold msg_type_of; rewrite Ec; reflexivity|right; left; eauto].
Qed.

Definition psafe_stmt (sch : schema) (v : value) : Prop :=
  forall ty ps, conforms sch ty v = true -> (forall p, In p ps -> psafe sch ty p = true) -> fsafe ps v = true.

Lemma psafe_fsafe_aux : forall sch v,
  psafe_stmt sch v /\ (forall l, v = VL l -> forall e, In e l -> psafe_stmt sch e).
Proof.
  intros sch. induction v as [s|fs IH|l IH|kv IH] using value_ind'.
  - split; [intros ty ps H; discriminate|intros l E; discriminate].
  - split; [|intros l E; discriminate].
    intros ty ps Hc Hps. simpl. apply forallb_forall. intros [k x] Hin.
    destruct (conforms_field _ _ _ _ _ Hc Hin) as [f [Hl Hshape]].
    rewrite Forall_forall in IH. specialize (IH (k, x) Hin). simpl in IH. destruct IH as [IHx IHl].
    assert (forall t, In t (deriv k ps) ->
                      match msg_type_of f with None => is_nil t | Some ty' => psafe sch ty' t end = true) as Hd.
    { intros t Ht. apply in_deriv in Ht. specialize (Hps _ Ht). simpl in Hps. rewrite Hl in Hps. exact Hps. }
    apply orb_true_iff.
    destruct Hshape as [Hleaf _|ty' Hmt Hmsg Hcx|ty' l Hmt -> Hel].
    + left. rewrite Hleaf in Hd. apply forallb_forall. exact Hd.
    + right. rewrite Hmt in Hd. destruct x; try discriminate. eapply IHx; eauto.
    + right. rewrite Hmt in Hd. apply forallb_forall. intros e He. destruct (Hel e He) as [Hm Hce].
      rewrite Hm. simpl. eapply (IHl l eq_refl e He); eauto.
  - split; [intros ty ps H; discriminate|].
    intros l' E e He. inversion E. subst l'. rewrite Forall_forall in IH. apply (IH e He).
  - split; [intros ty ps H; discriminate|intros l E; discriminate].
Qed.

Lemma psafe_fsafe : forall sch ty v ps,
  conforms sch ty v = true -> (forall p, In p ps -> psafe sch ty p = true) -> fsafe ps v = true.
Proof. intros sch ty v ps. apply (psafe_fsafe_aux sch v). Qed.

(* a path fieldmaskpb accepts is safe *)
Lemma path_valid_psafe : forall sch p ty, path_valid sch (Some ty) p = true -> psafe sch ty p = true.
Proof.
  induction p as [|s r IH]; intros ty H; simpl in *; auto.
  destruct (lookup_field sch ty s) as [f|]; [|discriminate].
  destruct r as [|s' r'].
  - destruct (msg_type_of f); reflexivity.
  - destruct (fcard f) eqn:Ec; try (simpl in H; discriminate).
    unfold msg_type_of in *. rewrite Ec in *.
    destruct (fkd f) as [sk|ty']; [simpl in H; discriminate|]. apply IH. exact H.
Qed.

(* ------------------------------------------------------------------------------------------- *)
(* selectablePath                                                                               *)

Lemma cut_nonnil : forall sch ty p, p <> [] -> cut_path sch ty p <> [].
Proof.
  intros sch ty [|s r] H; [congruence|]. simpl.
  destruct (String.eqb s ""); [discriminate|].
  destruct (lookup_field sch ty s) as [f|]; [|discriminate].
  destruct (msg_type_of f); discriminate.
Qed.

Lemma cut_psafe : forall sch p ty, psafe sch ty (drop_empty (cut_path sch ty p)) = true.
Proof.
  induction p as [|s r IH]; intros ty; simpl; auto.
  destruct (String.eqb s "") eqn:Es.
  - simpl. unfold seg_ok. rewrite Es. simpl. apply IH.
  - destruct (lookup_field sch ty s) as [f|] eqn:El.
    + destruct (msg_type_of f) as [ty'|] eqn:Em; simpl; unfold seg_ok; rewrite Es; simpl; rewrite El, Em; auto.
    + simpl. unfold seg_ok at 1. rewrite Es. simpl. rewrite El. reflexivity.
Qed.

Lemma cut_segs_ok : forall sch p ty, forallb seg_ok p = true -> forallb seg_ok (cut_path sch ty p) = true.
Proof.
  induction p as [|s r IH]; intros ty H; auto.
  simpl in H. apply andb_true_iff in H. destruct H as [Hs Hr].
  assert (String.eqb s "" = false) as Es by (unfold seg_ok in Hs; apply negb_true_iff in Hs; exact Hs).
  simpl cut_path. rewrite Es.
  destruct (lookup_field sch ty s) as [f|].
  - destruct (msg_type_of f); simpl forallb; rewrite Hs; simpl; auto.
  - simpl forallb. rewrite Hs, Hr. reflexivity.
Qed.

Lemma drop_empty_id : forall p, forallb seg_ok p = true -> drop_empty p = p.
Proof.
  unfold drop_empty. induction p as [|s r IH]; simpl; intros H; auto.
  apply andb_true_iff in H. destruct H as [Hs Hr]. rewrite Hs. f_equal. auto.
Qed.

(* ------------------------------------------------------------------------------------------- *)
(* the projection only depends on which paths are covered                                       *)

Definition pequiv (ps ps' : list path) : Prop :=
  (forall p, In p ps' -> In p ps) /\ (forall p, In p ps -> covered_by ps' p).

Lemma pequiv_ends : forall ps ps', pequiv ps ps' -> ends_here ps' = ends_here ps.
Proof.
  intros ps ps' [Hsub Hcov].
  destruct (ends_here ps) eqn:E.
  - apply ends_here_iff in E. destruct (Hcov _ E) as [q [Hq Hpre]].
    destruct q; [|discriminate]. apply ends_here_iff. exact Hq.
  - destruct (ends_here ps') eqn:E'; auto. apply ends_here_iff in E'. apply Hsub in E'.
    apply ends_here_iff in E'. congruence.
Qed.

Lemma pequiv_deriv : forall k ps ps', ends_here ps' = false -> pequiv ps ps' -> pequiv (deriv k ps) (deriv k ps').
Proof.
  intros k ps ps' Hend [Hsub Hcov]. split.
  - intros p Hp. apply in_deriv. apply Hsub. apply in_deriv. exact Hp.
  - intros p Hp. apply in_deriv in Hp. destruct (Hcov _ Hp) as [q [Hq Hpre]].
    destruct q as [|s q].
    + assert (ends_here ps' = true) by (apply ends_here_iff; exact Hq). congruence.
    + simpl in Hpre. apply andb_true_iff in Hpre. destruct Hpre as [Hs Hpre].
      apply String.eqb_eq in Hs. subst s. exists q. split; auto. apply in_deriv. exact Hq.
Qed.

Lemma pequiv_nil : forall ps ps', pequiv ps ps' -> (ps' = [] <-> ps = []).
Proof.
  intros ps ps' [Hsub Hcov]. split; intros ->.
  - destruct ps as [|p ps]; auto. destruct (Hcov p (or_introl eq_refl)) as [q [[] _]].
  - destruct ps' as [|p ps']; auto. destruct (Hsub p (or_introl eq_refl)).
Qed.

Lemma project_equiv : forall v ps ps', pequiv ps ps' -> project ps' v = project ps v.
Proof.
  induction v as [s|fs IH|l IH|kv IH] using value_ind'; intros ps ps' Heq;
    simpl; rewrite (pequiv_ends _ _ Heq); destruct (ends_here ps) eqn:Eend; auto.
  - f_equal. rewrite <- (pequiv_ends _ _ Heq) in Eend.
    induction IH as [|[k x] fs Hx _ IHfs]; simpl; auto.
    rewrite IHfs. f_equal.
    pose proof (pequiv_deriv k _ _ Eend Heq) as Hd.
    destruct (deriv k ps') as [|t' d'] eqn:E'.
    + rewrite (proj1 (pequiv_nil _ _ Hd) eq_refl). reflexivity.
    + destruct (deriv k ps) as [|t d] eqn:E.
      * destruct (pequiv_nil _ _ Hd) as [_ C]. specialize (C eq_refl). discriminate.
      * simpl in Hx. rewrite (Hx _ _ Hd). reflexivity.
  - f_equal. induction IH as [|x l Hx _ IHl]; simpl; auto. rewrite (Hx _ _ Heq), IHl. reflexivity.
Qed.

(* ------------------------------------------------------------------------------------------- *)
(* cutting paths at fields with nothing to select inside does not change the projection of a
   conforming message                                                                             *)

Lemma project_leaf : forall d x,
  (is_vs x = true \/ (exists kv, x = VMap kv) \/ (exists l, x = VL l /\ forallb is_vs l = true)) ->
  project d x = x.
Proof.
  intros d x [H|[[kv ->]|[l [-> H]]]].
  - destruct x; try discriminate. simpl. destruct (ends_here d); reflexivity.
  - simpl. destruct (ends_here d); reflexivity.
  - simpl. destruct (ends_here d); auto. f_equal.
    induction l as [|e l IHl]; simpl in *; auto. apply andb_true_iff in H. destruct H as [He Hl].
    rewrite IHl by auto. f_equal. destruct e; try discriminate. simpl. destruct (ends_here d); reflexivity.
Qed.

Lemma deriv_cut : forall sch ty k f ps,
  lookup_field sch ty k = Some f -> segs_ok ps = true ->
  deriv k (map (cut_path sch ty) ps) =
  map (fun r => match msg_type_of f with None => [] | Some ty' => cut_path sch ty' r end) (deriv k ps).
Proof.
  intros sch ty k f ps Hl. induction ps as [|p ps IH]; intros Hok; simpl; auto.
  simpl in Hok. apply andb_true_iff in Hok. destruct Hok as [Hp Hps]. specialize (IH Hps).
  change (deriv k (cut_path sch ty p :: map (cut_path sch ty) ps))
    with (deriv k [cut_path sch ty p] ++ deriv k (map (cut_path sch ty) ps)).
  change (deriv k (p :: ps)) with (deriv k [p] ++ deriv k ps).
  rewrite map_app, IH. f_equal.
  destruct p as [|s r]; [reflexivity|].
  simpl in Hp. apply andb_true_iff in Hp. destruct Hp as [Hs _]. unfold seg_ok in Hs.
  apply negb_true_iff in Hs. simpl cut_path. rewrite Hs.
  destruct (String.eqb s k) eqn:Esk.
  - apply String.eqb_eq in Esk. subst s. rewrite Hl.
    destruct (msg_type_of f); simpl; rewrite String.eqb_refl; reflexivity.
  - destruct (lookup_field sch ty s) as [f0|]; [destruct (msg_type_of f0)|]; simpl; rewrite Esk; reflexivity.
Qed.

Lemma ends_here_cut : forall sch ty ps, ends_here (map (cut_path sch ty) ps) = ends_here ps.
Proof.
  intros sch ty ps. unfold ends_here. induction ps as [|p ps IH]; simpl; auto. rewrite IH. f_equal.
  destruct p as [|s r]; auto. simpl.
  destruct (String.eqb s ""); auto.
  destruct (lookup_field sch ty s) as [f|]; auto. destruct (msg_type_of f); auto.
Qed.

Lemma segs_ok_deriv : forall k ps, segs_ok ps = true -> segs_ok (deriv k ps) = true.
Proof.
  unfold segs_ok. intros k ps H. rewrite forallb_forall in *. intros t Ht. apply in_deriv in Ht.
  specialize (H _ Ht). simpl in H. apply andb_true_iff in H. tauto.
Qed.

Lemma flat_map_ext_in : forall {A B} (f g : A -> list B) l,
  (forall x, In x l -> f x = g x) -> flat_map f l = flat_map g l.
Proof.
  induction l as [|x l IH]; intros H; simpl; auto.
  rewrite (H x (or_introl eq_refl)), IH; auto. intros y Hy. apply H. right. exact Hy.
Qed.

Definition cut_stmt (sch : schema) (v : value) : Prop :=
  forall ty ps, conforms sch ty v = true -> segs_ok ps = true ->
                project (map (cut_path sch ty) ps) v = project ps v.

Lemma project_cut_aux : forall sch v,
  cut_stmt sch v /\ (forall l, v = VL l -> forall e, In e l -> cut_stmt sch e).
Proof.
  intros sch. induction v as [s|fs IH|l IH|kv IH] using value_ind'.
  - split; [intros ty ps H; discriminate|intros l E; discriminate].
  - split; [|intros l E; discriminate].
    intros ty ps Hc Hok. simpl. rewrite ends_here_cut. destruct (ends_here ps); auto. f_equal.
    apply flat_map_ext_in. intros [k x] Hin.
    destruct (conforms_field _ _ _ _ _ Hc Hin) as [f [Hl Hshape]].
    rewrite Forall_forall in IH. specialize (IH (k, x) Hin). simpl in IH. destruct IH as [IHx IHl].
    rewrite (deriv_cut _ _ _ _ _ Hl Hok).
    destruct (deriv k ps) as [|t d] eqn:Ed; [reflexivity|]. rewrite <- Ed.
    assert (segs_ok (deriv k ps) = true) as Hokd by (apply segs_ok_deriv; auto).
    transitivity [(k, project (map (fun r => match msg_type_of f with None => [] | Some ty' => cut_path sch ty' r end)
                                   (deriv k ps)) x)]; [rewrite Ed; reflexivity|].
    do 2 f_equal.
    destruct Hshape as [Hleaf Hx|ty' Hmt Hmsg Hcx|ty' l Hmt -> Hel].
    + rewrite !project_leaf by auto. reflexivity.
    + rewrite Hmt. apply (IHx ty' _ Hcx Hokd).
    + rewrite Hmt.
      change (project (map (cut_path sch ty') (deriv k ps)) (VL l) = project (deriv k ps) (VL l)).
      simpl. rewrite (ends_here_cut sch ty' (deriv k ps)).
      destruct (ends_here (deriv k ps)); auto. f_equal.
      apply map_ext_in. intros e He. destruct (Hel e He) as [_ Hce].
      apply (IHl l eq_refl e He ty' _ Hce Hokd).
  - split; [intros ty ps H; discriminate|].
    intros l' E e He. inversion E. subst l'. rewrite Forall_forall in IH. apply (IH e He).
  - split; [intros ty ps H; discriminate|intros l E; discriminate].
Qed.

Lemma project_cut : forall sch ty v ps,
  conforms sch ty v = true -> segs_ok ps = true -> project (map (cut_path sch ty) ps) v = project ps v.
Proof. intros sch ty v ps. apply (project_cut_aux sch v). Qed.

(* ------------------------------------------------------------------------------------------- *)
(* the theorems of C06                                                                          *)

Lemma read_paths_facts : forall sch ty ps,
  segs_ok ps = true -> (forall p, In p ps -> p <> []) -> ps <> [] ->
  let ps2 := read_paths sch ty ps in
  map drop_empty ps2 = ps2 /\ prefix_free ps2 /\ ends_here ps2 = false /\ ps2 <> [] /\
  (forall p, In p ps2 -> psafe sch ty p = true) /\ pequiv (map (cut_path sch ty) ps) ps2.
Proof.
  intros sch ty ps Hok Hnn Hne ps2. unfold ps2, read_paths.
  set (ps1 := map (cut_path sch ty) ps).
  assert (forall q, In q (normalize_paths ps1) -> exists p, In p ps /\ q = cut_path sch ty p) as Hfrom.
  { intros q Hq. apply normalize_subset in Hq. unfold ps1 in Hq. apply in_map_iff in Hq.
    destruct Hq as [p [<- Hp]]. eauto. }
  assert (forall q, In q (normalize_paths ps1) -> forallb seg_ok q = true) as Hsegs.
  { intros q Hq. destruct (Hfrom q Hq) as [p [Hp ->]]. apply cut_segs_ok.
    unfold segs_ok in Hok. rewrite forallb_forall in Hok. auto. }
  split; [|split; [|split; [|split; [|split]]]].
  - rewrite <- (map_id (normalize_paths ps1)) at 2. apply map_ext_in. intros q Hq. apply drop_empty_id. auto.
  - apply normalize_prefix_free.
  - destruct (ends_here (normalize_paths ps1)) eqn:E; auto. apply ends_here_iff in E.
    destruct (Hfrom _ E) as [p [Hp Hc]]. symmetry in Hc. exfalso. revert Hc. apply cut_nonnil. auto.
  - destruct ps as [|p ps']; [congruence|].
    destruct (normalize_covers ps1 (cut_path sch ty p)) as [q [Hq _]]; [left; reflexivity|].
    intros C. rewrite C in Hq. destruct Hq.
  - intros q Hq. destruct (Hfrom q Hq) as [p [Hp ->]].
    rewrite <- (drop_empty_id (cut_path sch ty p)) by (apply Hsegs; exact Hq).
    apply cut_psafe.
  - split; [apply normalize_subset|apply normalize_covers].
Qed.

(* every schema-conformant message, every mask without empty segments: FilterClone = projection *)
Theorem filter_is_projection : forall sch ty v ps,
  conforms sch ty v = true -> segs_ok ps = true -> (forall p, In p ps -> p <> []) -> ps <> [] ->
  filter_clone sch ty (Some ps) v = Ok (project ps v).
Proof.
  intros sch ty v ps Hc Hok Hnn Hne.
  destruct (read_paths_facts sch ty ps Hok Hnn Hne) as [Hde [Hpf [Hend [Hne2 [Hsafe Heq]]]]].
  unfold filter_clone. destruct ps as [|p0 ps0]; [congruence|]. set (ps := p0 :: ps0) in *.
  rewrite nested_of_paths_ins, Hde.
  rewrite (filter_core v (read_paths sch ty ps)); auto.
  - rewrite (project_equiv v _ _ Heq). rewrite (project_cut sch ty v ps Hc Hok). reflexivity.
  - eapply conforms_msg; eauto.
  - eapply psafe_fsafe; eauto.
Qed.

Theorem nil_is_identity : forall sch ty v, filter_clone sch ty None v = Ok v.
Proof. reflexivity. Qed.

Theorem empty_is_empty : forall sch ty v, filter_clone sch ty (Some []) v = Ok (VM []).
Proof. reflexivity. Qed.

(* no mask whatsoever makes a read of a conformant message panic *)
Theorem never_panics : forall sch ty m v, conforms sch ty v = true -> filter_clone sch ty m v <> Panic.
Proof.
  intros sch ty m v Hc. unfold filter_clone. destruct m as [[|p0 ps0]|]; try discriminate.
  set (ps := p0 :: ps0). rewrite nested_of_paths_ins.
  destruct (filter_total v (map drop_empty (read_paths sch ty ps))) as [r Hr].
  - eapply psafe_fsafe; eauto. intros q Hq. apply in_map_iff in Hq. destruct Hq as [q' [<- Hq']].
    unfold read_paths in Hq'. apply normalize_subset in Hq'. apply in_map_iff in Hq'.
    destruct Hq' as [p [<- _]]. apply cut_psafe.
  - rewrite Hr. discriminate.
Qed.

(* Validate accepts exactly the masks all of whose paths are good *)
Theorem validate_ok_iff : forall sch ty ps,
  validate sch ty (Some ps) = code_ok <-> forall p, In p ps -> good_path sch ty p.
Proof.
  intros sch ty ps. unfold validate, fm_valid.
  destruct (forallb (fun p => match p with [] => false | _ :: _ => path_valid sch (Some ty) p end) ps) eqn:E.
  - split; auto. intros _ p Hp. rewrite forallb_forall in E. specialize (E p Hp).
    destruct p as [|s r]; [discriminate|]. apply path_valid_iff; [discriminate|exact E].
  - split; [discriminate|]. intros H. exfalso.
    assert (forallb (fun p => match p with [] => false | _ :: _ => path_valid sch (Some ty) p end) ps = true) as C.
    { apply forallb_forall. intros p Hp. specialize (H p Hp). destruct p as [|s r]; [inversion H|].
      apply path_valid_iff; [discriminate|exact H]. }
    congruence.
Qed.

(* descending through singular message fields *)
Fixpoint walk (sch : schema) (ty : string) (pre : path) : option string :=
  match pre with
  | [] => Some ty
  | s :: r =>
      match lookup_field sch ty s with
      | Some f => match fcard f, fkd f with CSingular, FMsg ty' => walk sch ty' r | _, _ => None end
      | None => None
      end
  end.

Lemma good_path_split : forall sch pre ty s r ty1,
  good_path sch ty (pre ++ s :: r) -> walk sch ty pre = Some ty1 -> good_path sch ty1 (s :: r).
Proof.
  induction pre as [|s0 pre IH]; intros ty s r ty1 Hg Hw; simpl in *.
  - inversion Hw. subst. exact Hg.
  - inversion Hg as [? ? f Hl Heq|? ? f ty' ? Hl Hc Hk Hne Hg']; subst.
    + destruct pre; discriminate.
    + rewrite Hl, Hc, Hk in Hw. eapply IH; eauto.
Qed.

(* an unknown segment, or a continuation below a field that is not a singular message (a scalar, a
   map, a repeated field), anywhere in any path, makes Validate answer InvalidArgument *)
Theorem invalid_detected : forall sch ty ps pre s r ty1,
  In (pre ++ s :: r) ps -> walk sch ty pre = Some ty1 ->
  (lookup_field sch ty1 s = None \/
   (r <> [] /\ forall f, lookup_field sch ty1 s = Some f ->
                         fcard f <> CSingular \/ forall ty', fkd f <> FMsg ty')) ->
  validate sch ty (Some ps) = code_invalid_argument.
Proof.
  intros sch ty ps pre s r ty1 Hin Hw Hbad.
  destruct (Z.eq_dec (validate sch ty (Some ps)) code_ok) as [E|E].
  - exfalso. rewrite validate_ok_iff in E. specialize (E _ Hin).
    pose proof (good_path_split _ _ _ _ _ _ E Hw) as Hg.
    inversion Hg as [? ? f Hl Heq|? ? f ty' ? Hl Hc Hk Hne Hg']; subst.
    + destruct Hbad as [Hn|[Hr _]]; congruence.
    + destruct Hbad as [Hn|[_ Hf]]; [congruence|].
      destruct (Hf f Hl) as [C|C]; [congruence|]. apply (C ty'). exact Hk.
  - unfold validate in *. destruct (fm_valid sch ty ps); [congruence|reflexivity].
Qed.

(* a mask fieldmaskpb accepts never made the pinned code panic either, and on normalized valid
   masks the pinned code already computed the projection *)
Theorem filter_v0_is_projection : forall sch ty v ps,
  conforms sch ty v = true -> fm_valid sch ty ps = true -> segs_ok ps = true -> prefix_free ps -> ps <> [] ->
  filter_clone_v0 (Some ps) v = Ok (project ps v).
Proof.
  intros sch ty v ps Hc Hv Hok Hpf Hne.
  assert (forall p, In p ps -> p <> [] /\ path_valid sch (Some ty) p = true) as Hp.
  { unfold fm_valid in Hv. rewrite forallb_forall in Hv. intros p Hin. specialize (Hv p Hin).
    destruct p; [discriminate|]. split; [discriminate|exact Hv]. }
  assert (forall p, In p ps -> forallb seg_ok p = true) as Hseg.
  { unfold segs_ok in Hok. rewrite forallb_forall in Hok. exact Hok. }
  unfold filter_clone_v0. destruct ps as [|p0 ps0]; [congruence|]. set (ps := p0 :: ps0) in *.
  rewrite nested_of_paths_ins.
  replace (map drop_empty ps) with ps.
  2:{ rewrite <- (map_id ps) at 1. apply map_ext_in. intros q Hq. symmetry. apply drop_empty_id. auto. }
  rewrite (filter_core v ps); auto.
  - eapply conforms_msg; eauto.
  - eapply psafe_fsafe; eauto. intros p Hin. apply path_valid_psafe. apply Hp. exact Hin.
  - destruct (ends_here ps) eqn:E; auto. apply ends_here_iff in E. destruct (Hp _ E). congruence.
Qed.
