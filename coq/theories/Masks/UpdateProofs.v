(* Proofs about the model of pkg/masks/update.go (Masks/Update.v). *)
From SC Require Import Base.Prelude Msg.Msg Msg.MsgProofs Msg.Schema Msg.Path Msg.PathProofs
  Msg.FmUtils Msg.FmUtilsProofs Msg.ProtoOps Masks.Get Masks.GetProofs Masks.Update.

(* ------------------------------------------------------------------------------------------- *)
(* Validate                                                                                     *)

Definition all_good (sch : schema) (ty : string) (m : mask) : Prop :=
  match m with None => True | Some ps => forall p, In p ps -> good_path sch ty p end.

Lemma valid_or_iff : forall sch ty m, valid_or sch ty m = true <-> all_good sch ty m.
Proof.
  intros sch ty [ps|]; simpl; [|tauto].
  pose proof (validate_ok_iff sch ty ps) as H. unfold validate in H.
  destruct (fm_valid sch ty ps); split; intros; auto; try (apply H; auto; fail).
  - discriminate.
  - assert (code_invalid_argument = code_ok) as C by (apply H; auto). discriminate.
Qed.

Definition all_within (um wm : mask) : Prop :=
  match um, wm with
  | Some ps, Some ws => forall p, In p ps -> exists w, In w ws /\ is_prefix w p = true
  | _, _ => True
  end.

Lemma all_within_dec : forall ps ws,
  forallb (fun p => within_any p ws) ps = true <-> all_within (Some ps) (Some ws).
Proof.
  intros ps ws. simpl. rewrite forallb_forall. unfold within_any.
  split; intros H p Hp; specialize (H p Hp).
  - apply existsb_exists in H. exact H.
  - apply existsb_exists. exact H.
Qed.

(* Validate accepts exactly: update mask valid, every update path equal to or nested inside a
   writable path, reset mask valid *)
Theorem validate_update_ok_iff : forall sch ty um wm rm,
  validate_update sch ty um wm rm = code_ok <->
  all_good sch ty um /\ all_within um wm /\ all_good sch ty rm.
Proof.
  intros sch ty um wm rm. unfold validate_update.
  rewrite <- !valid_or_iff.
  destruct um as [ps|]; simpl valid_or.
  - destruct (fm_valid sch ty ps) eqn:Ev; simpl negb; cbv iota.
    + destruct wm as [ws|].
      * destruct (forallb (fun p => within_any p ws) ps) eqn:Ew.
        -- apply all_within_dec in Ew. destruct (valid_or sch ty rm); split; try tauto; try discriminate.
           intros [_ [_ C]]. discriminate.
        -- split; [discriminate|]. intros [_ [Hw _]]. apply all_within_dec in Hw. congruence.
      * destruct (valid_or sch ty rm); split; simpl; try tauto; try discriminate.
        intros [_ [_ C]]. discriminate.
    + split; [discriminate|]. intros [C _]. discriminate.
  - destruct (valid_or sch ty rm); split; simpl; try tauto; try discriminate.
    intros [_ [_ C]]. discriminate.
Qed.

(* the codes of the three ways to be rejected *)
Theorem validate_update_codes : forall sch ty um wm rm,
  (all_good sch ty um -> all_within um wm -> ~ all_good sch ty rm ->
   validate_update sch ty um wm rm = code_internal) /\
  (~ (all_good sch ty um /\ all_within um wm) ->
   validate_update sch ty um wm rm = code_invalid_argument).
Proof.
  intros sch ty um wm rm. unfold validate_update. rewrite <- !valid_or_iff. split.
  - intros Hu Hw Hr. destruct um as [ps|]; simpl in Hu.
    + rewrite Hu. simpl. destruct wm as [ws|].
      * apply all_within_dec in Hw. rewrite Hw. destruct (valid_or sch ty rm); [exfalso; auto|reflexivity].
      * destruct (valid_or sch ty rm); [exfalso; auto|reflexivity].
    + destruct (valid_or sch ty rm); [exfalso; auto|reflexivity].
  - intros Hn. destruct um as [ps|]; simpl in Hn.
    + destruct (fm_valid sch ty ps) eqn:Ev; [|reflexivity]. simpl.
      destruct wm as [ws|]; [|exfalso; apply Hn; simpl; auto].
      destruct (forallb (fun p => within_any p ws) ps) eqn:Ew; [|reflexivity].
      exfalso. apply Hn. split; auto. apply all_within_dec. exact Ew.
    + exfalso. apply Hn. simpl. auto.
Qed.

(* a rejected write does not produce a new stored value *)
Theorem invalid_rejected_noop : forall sch ty allw resw more um rm stored written,
  validate_update sch ty um (effective_writable allw resw more) rm <> code_ok ->
  write sch ty allw resw more um rm stored written =
  WErr (validate_update sch ty um (effective_writable allw resw more) rm).
Proof.
  intros. unfold write.
  destruct (Z.eqb_spec (validate_update sch ty um (effective_writable allw resw more) rm) code_ok); [contradiction|reflexivity].
Qed.

(* ------------------------------------------------------------------------------------------- *)
(* Merge: the cases where nothing may change                                                    *)

Theorem nothing_writable_noop : forall sch ty um rm dst src,
  merge sch ty um (Some []) rm dst src = MOk dst src.
Proof. reflexivity. Qed.

(* schemas in which no field is named "" (every real schema): a valid path has no empty segment *)
Definition schema_names_ok (sch : schema) : bool :=
  forallb (fun e : string * list fdesc => forallb (fun f => seg_ok (fname f)) (snd e)) sch.

Lemma find_field_empty : forall l, forallb (fun f => seg_ok (fname f)) l = true -> find_field "" l = None.
Proof.
  induction l as [|f l IH]; intros H; simpl in *; auto.
  apply andb_true_iff in H. destruct H as [Hf Hl]. unfold seg_ok in Hf.
  destruct (fname f); [discriminate|]. auto.
Qed.

Lemma lookup_empty_none : forall sch ty, schema_names_ok sch = true -> lookup_field sch ty "" = None.
Proof.
  intros sch ty H. unfold lookup_field, type_fields.
  destruct (alookup ty sch) as [l|] eqn:E; [|reflexivity].
  apply alookup_in in E. unfold schema_names_ok in H. rewrite forallb_forall in H. specialize (H _ E).
  apply find_field_empty. exact H.
Qed.

Lemma valid_segs_ok : forall sch p md, schema_names_ok sch = true ->
  path_valid sch md p = true -> forallb seg_ok p = true.
Proof.
  induction p as [|s r IH]; intros md Hs H; simpl in *; auto.
  destruct md as [ty|]; [|discriminate].
  destruct (lookup_field sch ty s) as [f|] eqn:El; [|discriminate].
  rewrite (IH _ Hs H), andb_true_r. unfold seg_ok. destruct (String.eqb s "") eqn:E; auto.
  apply String.eqb_eq in E. subst s. rewrite lookup_empty_none in El by auto. discriminate.
Qed.

Lemma fm_valid_in : forall sch ty ps p, fm_valid sch ty ps = true -> In p ps ->
  p <> [] /\ path_valid sch (Some ty) p = true.
Proof.
  unfold fm_valid. intros sch ty ps p H Hin. rewrite forallb_forall in H. specialize (H p Hin).
  destruct p; [discriminate|]. split; [discriminate|exact H].
Qed.

Lemma valid_paths_filter_total : forall sch ty ws v,
  schema_names_ok sch = true -> fm_valid sch ty ws = true -> conforms sch ty v = true ->
  exists r, nm_filter (nested_of_paths (normalize_paths ws)) v = Some r.
Proof.
  intros sch ty ws v Hs Hv Hc. rewrite nested_of_paths_ins. apply filter_total.
  eapply psafe_fsafe; eauto. intros q Hq. apply in_map_iff in Hq. destruct Hq as [q' [<- Hq']].
  apply normalize_subset in Hq'. destruct (fm_valid_in _ _ _ _ Hv Hq') as [_ Hpv].
  rewrite drop_empty_id by (eapply valid_segs_ok; eauto). apply path_valid_psafe. exact Hpv.
Qed.

(* an empty, non-nil update mask changes nothing (src is still filtered to the writable fields) *)
Theorem empty_mask_noop : forall sch ty wm rm dst src,
  schema_names_ok sch = true -> valid_or sch ty wm = true -> conforms sch ty src = true ->
  exists src', merge sch ty (Some []) wm rm dst src = MOk dst src'.
Proof.
  intros sch ty wm rm dst src Hs Hw Hc. unfold merge, merge_gen.
  destruct wm as [[|w ws]|]; simpl in Hw.
  - eauto.
  - destruct (valid_paths_filter_total sch ty (w :: ws) src Hs Hw Hc) as [r Hr]. rewrite Hr. eauto.
  - simpl. destruct src; simpl; eauto.
Qed.

(* ------------------------------------------------------------------------------------------- *)
(* field-by-field reading of the passes over a message                                          *)

Definition first_out (o : option (list (string * value))) : option value :=
  match o with Some ((_, y) :: _) => Some y | _ => None end.

(* every element is dropped or rewritten under its own key, and whether a key is dropped does not
   depend on which of its entries is looked at *)
Definition keyed (F : string * value -> option (list (string * value))) (l : list (string * value)) : Prop :=
  (forall k x, In (k, x) l -> F (k, x) = None \/ F (k, x) = Some [] \/ exists y, F (k, x) = Some [(k, y)]) /\
  (forall k x x', In (k, x) l -> In (k, x') l -> F (k, x) = Some [] -> F (k, x') = Some []).

Lemma otraverse_lookup : forall F l l',
  keyed F l -> otraverse F l = Some l' ->
  forall k, alookup k l' = match alookup k l with None => None | Some x => first_out (F (k, x)) end.
Proof.
  intros F. induction l as [|[k0 x0] l IH]; intros l' [Hshape Hdrop] Ho k; simpl in Ho.
  - inversion Ho. reflexivity.
  - destruct (F (k0, x0)) as [ys|] eqn:EF; [|discriminate].
    destruct (otraverse F l) as [zs|] eqn:Ez; [|discriminate]. inversion Ho. subst l'. clear Ho.
    assert (keyed F l) as Hk.
    { split; intros; [apply Hshape; right; auto|eapply Hdrop; eauto; right; auto]. }
    specialize (IH zs Hk eq_refl).
    simpl alookup. destruct (String.eqb k k0) eqn:Ek.
    + apply String.eqb_eq in Ek. subst k0. rewrite EF.
      destruct (Hshape k x0 (or_introl eq_refl)) as [C|[C|[y C]]]; rewrite EF in C; inversion C; subst ys.
      * simpl. rewrite IH. destruct (alookup k l) as [x'|] eqn:El; auto.
        apply alookup_in in El.
        rewrite (Hdrop k x0 x' (or_introl eq_refl) (or_intror El) EF). reflexivity.
      * simpl. rewrite String.eqb_refl. reflexivity.
    + destruct (Hshape k0 x0 (or_introl eq_refl)) as [C|[C|[y C]]]; rewrite EF in C; inversion C; subst ys.
      * simpl. apply IH.
      * simpl. rewrite Ek. apply IH.
Qed.

Lemma keyed_nodup : forall F l,
  nodup_keys (akeys l) = true ->
  (forall k x, In (k, x) l -> F (k, x) = None \/ F (k, x) = Some [] \/ exists y, F (k, x) = Some [(k, y)]) ->
  keyed F l.
Proof.
  intros F l Hn Hs. split; auto. intros k x x' Hx Hx' HF.
  assert (x = x') as ->; auto.
  clear - Hn Hx Hx'. induction l as [|[k0 x0] l IH]; [destruct Hx|]. simpl in Hn.
  apply andb_true_iff in Hn. destruct Hn as [Hk Hl].
  assert (forall y, In (k0, y) l -> False) as Hno.
  { intros y Hy. apply negb_true_iff in Hk. assert (existsb (String.eqb k0) (akeys l) = true) as C.
    { apply existsb_exists. exists k0. split; [|apply String.eqb_refl]. unfold akeys. apply in_map_iff. exists (k0, y). auto. }
    congruence. }
  destruct Hx as [Ex|Hx]; destruct Hx' as [Ex'|Hx'].
  - congruence.
  - inversion Ex. subst. exfalso. eauto.
  - inversion Ex'. subst. exfalso. eauto.
  - auto.
Qed.

(* ---- proto.Merge, field by field ---- *)
Definition merge_val (sch : schema) (ty k : string) (d : option value) (x : value) : value :=
  match d with
  | None => x
  | Some d =>
      match x, d with
      | VM _, VM _ => proto_merge sch (sub_type sch ty k) d x
      | VM _, _ => proto_merge sch (sub_type sch ty k) (VM []) x
      | VL l, VL dl => VL (dl ++ l)
      | VMap kv, VMap dkv => VMap (merge_map dkv kv)
      | _, _ => x
      end
  end.

Lemma proto_merge_fields : forall sch ty df sf,
  proto_merge sch ty (VM df) (VM sf) =
  VM (flat_map (fun kd : string * value =>
                  let '(k, d) := kd in
                  match alookup k sf with
                  | Some x => [(k, merge_val sch ty k (Some d) x)]
                  | None => if cleared_by sch ty sf k then [] else [(k, d)]
                  end) df
      ++ flat_map (fun kx : string * value =>
                     let '(k, x) := kx in
                     match alookup k df with Some _ => [] | None => [(k, x)] end) sf).
Proof.
  intros sch ty df sf. simpl. f_equal. f_equal.
  apply flat_map_ext_in. intros [k d] _.
  generalize sf at 1 3. intros sf0. (* the scan *)
  induction sf0 as [|[k' x] r IH]; simpl.
  - reflexivity.
  - destruct (String.eqb k k'); auto.
Qed.

Lemma alookup_flat_map_keyed : forall (g : string -> value -> list (string * value)) l k,
  (forall k0 x, In (k0, x) l -> g k0 x = [] \/ exists y, g k0 x = [(k0, y)]) ->
  (forall k0 x x', In (k0, x) l -> In (k0, x') l -> g k0 x = [] -> g k0 x' = []) ->
  alookup k (flat_map (fun kx : string * value => let '(k0, x) := kx in g k0 x) l) =
  match alookup k l with
  | None => None
  | Some x => match g k x with (_, y) :: _ => Some y | [] => None end
  end.
Proof.
  intros g l k Hs Hd.
  assert (otraverse (fun kx : string * value => let '(k0, x) := kx in Some (g k0 x)) l =
          Some (flat_map (fun kx : string * value => let '(k0, x) := kx in g k0 x) l)) as Ho.
  { apply otraverse_flat_map. intros [k0 x] _. reflexivity. }
  assert (keyed (fun kx : string * value => let '(k0, x) := kx in Some (g k0 x)) l) as Hk.
  { split.
    - intros k0 x Hin. right. destruct (Hs k0 x Hin) as [E|[y E]]; rewrite E; eauto.
    - intros k0 x x' Hx Hx' E. inversion E as [E']. rewrite E'. rewrite (Hd k0 x x' Hx Hx' E'). reflexivity. }
  rewrite (otraverse_lookup _ _ _ Hk Ho k).
  destruct (alookup k l); reflexivity.
Qed.

Lemma alookup_app : forall {A} k (a b : list (string * A)),
  alookup k (a ++ b) = match alookup k a with Some x => Some x | None => alookup k b end.
Proof.
  induction a as [|[k0 x] a IH]; intros b; simpl; auto. destruct (String.eqb k k0); auto.
Qed.

Theorem proto_merge_lookup : forall sch ty df sf k,
  vget k (proto_merge sch ty (VM df) (VM sf)) =
  match alookup k df, alookup k sf with
  | Some d, Some x => Some (merge_val sch ty k (Some d) x)
  | Some d, None => if cleared_by sch ty sf k then None else Some d
  | None, Some x => Some x
  | None, None => None
  end.
Proof.
  intros sch ty df sf k. rewrite proto_merge_fields. unfold vget. simpl fields_of. rewrite alookup_app.
  rewrite (alookup_flat_map_keyed
             (fun k d => match alookup k sf with
                         | Some x => [(k, merge_val sch ty k (Some d) x)]
                         | None => if cleared_by sch ty sf k then [] else [(k, d)]
                         end)).
  2:{ intros k0 x _. destruct (alookup k0 sf); [eauto|]. destruct (cleared_by sch ty sf k0); eauto. }
  2:{ intros k0 x x' _ _. destruct (alookup k0 sf); [discriminate|]. destruct (cleared_by sch ty sf k0); [auto|discriminate]. }
  rewrite (alookup_flat_map_keyed (fun k x => match alookup k df with Some _ => [] | None => [(k, x)] end)).
  2:{ intros k0 x _. destruct (alookup k0 df); eauto. }
  2:{ intros k0 x x' _ _. destruct (alookup k0 df); [auto|discriminate]. }
  destruct (alookup k df) as [d|] eqn:Ed.
  - destruct (alookup k sf) as [x|] eqn:Es; [reflexivity|].
    destruct (cleared_by sch ty sf k); reflexivity.
  - destruct (alookup k sf) as [x|]; reflexivity.
Qed.

(* ---- fmutils Filter / Prune and pruneEmpty, field by field ---- *)
Definition nm_lookup (k : string) (m : nmask) : option nmask := alookup k (nm_children m).

Definition filter_field (sub : nmask) (x : value) : option value :=
  if nm_empty sub then Some x else
  match x with
  | VS _ => Some x
  | VM _ => nm_filter sub x
  | VL l => option_map VL (otraverse (fun e => if is_msg e then osingle (nm_filter sub e) else None) l)
  | VMap _ => None
  end.

Definition prune_field (sub : nmask) (x : value) : option value :=
  match x with
  | VS _ => Some x
  | VM _ => nm_prune sub x
  | VL l => option_map VL (otraverse (fun e => if is_msg e then osingle (nm_prune sub e) else None) l)
  | VMap _ => None
  end.

Lemma otraverse_ext : forall {A B} (f g : A -> option (list B)) l,
  (forall x, In x l -> f x = g x) -> otraverse f l = otraverse g l.
Proof.
  induction l as [|x l IH]; intros H; simpl; auto.
  rewrite (H x (or_introl eq_refl)), IH; auto. intros y Hy. apply H. right. exact Hy.
Qed.

Lemma nm_filter_fields : forall m fs,
  nm_filter m (VM fs) =
  if nm_empty m then Some (VM fs) else
  option_map VM (otraverse (fun kx : string * value =>
                              let '(k, x) := kx in
                              match nm_lookup k m with
                              | None => Some []
                              | Some sub => osingle (option_map (pair k) (filter_field sub x))
                              end) fs).
Proof.
  intros m fs. rewrite nm_filter_msg. destruct (nm_empty m); auto. f_equal.
  apply otraverse_ext. intros [k x] _. unfold nm_lookup, filter_field.
  destruct (alookup k (nm_children m)) as [sub|]; auto.
  destruct (nm_empty sub); auto. destruct x; auto.
  destruct (otraverse _ l); reflexivity.
Qed.

Lemma nm_prune_fields : forall m fs,
  nm_prune m (VM fs) =
  if nm_empty m then Some (VM fs) else
  option_map VM (otraverse (fun kx : string * value =>
                              let '(k, x) := kx in
                              match nm_lookup k m with
                              | None => Some [(k, x)]
                              | Some sub => if nm_empty sub then Some [] else osingle (option_map (pair k) (prune_field sub x))
                              end) fs).
Proof.
  intros m fs. simpl. destruct (nm_empty m); auto. f_equal.
  apply otraverse_ext. intros [k x] _. unfold nm_lookup, prune_field.
  destruct (alookup k (nm_children m)) as [sub|]; auto.
  destruct (nm_empty sub); auto. destruct x; auto.
  destruct (otraverse _ l); reflexivity.
Qed.

Lemma first_out_osingle : forall (k : string) (o : option value), first_out (osingle (option_map (pair k) o)) = o.
Proof. intros k [y|]; reflexivity. Qed.

Lemma osingle_shape : forall (k : string) (o : option value),
  osingle (option_map (pair k) o) = None \/ osingle (option_map (pair k) o) = Some [] \/
  exists y, osingle (option_map (pair k) o) = Some [(k, y)].
Proof. intros k [y|]; simpl; eauto. Qed.

Theorem filter_lookup : forall m sf v',
  nm_filter m (VM sf) = Some v' -> nm_empty m = false ->
  forall k, vget k v' =
            match nm_lookup k m with
            | None => None
            | Some sub => match alookup k sf with None => None | Some x => filter_field sub x end
            end.
Proof.
  intros m sf v' H Hne k. rewrite nm_filter_fields, Hne in H.
  destruct (otraverse _ sf) as [l'|] eqn:Eo; [|discriminate]. inversion H. subst v'. unfold vget. simpl fields_of.
  erewrite otraverse_lookup; [| |exact Eo].
  - destruct (alookup k sf) as [x|]; [|destruct (nm_lookup k m); reflexivity].
    destruct (nm_lookup k m); [apply first_out_osingle|reflexivity].
  - split.
    + intros k0 x _. destruct (nm_lookup k0 m); [apply osingle_shape|auto].
    + intros k0 x x' _ _. destruct (nm_lookup k0 m) as [sub|]; auto.
      destruct (filter_field sub x); discriminate.
Qed.

Theorem prune_lookup : forall m f v',
  nm_prune m (VM f) = Some v' -> nm_empty m = false ->
  forall k, vget k v' =
            match alookup k f with
            | None => None
            | Some x => match nm_lookup k m with
                        | None => Some x
                        | Some sub => if nm_empty sub then None else prune_field sub x
                        end
            end.
Proof.
  intros m f v' H Hne k. rewrite nm_prune_fields, Hne in H.
  destruct (otraverse _ f) as [l'|] eqn:Eo; [|discriminate]. inversion H. subst v'. unfold vget. simpl fields_of.
  erewrite otraverse_lookup; [| |exact Eo].
  - destruct (alookup k f) as [x|]; [|reflexivity].
    destruct (nm_lookup k m) as [sub|]; [|reflexivity].
    destruct (nm_empty sub); [reflexivity|apply first_out_osingle].
  - split.
    + intros k0 x _. destruct (nm_lookup k0 m) as [sub|]; [|eauto].
      destruct (nm_empty sub); [auto|apply osingle_shape].
    + intros k0 x x' _ _. destruct (nm_lookup k0 m) as [sub|]; [|discriminate].
      destruct (nm_empty sub); auto. destruct (prune_field sub x); discriminate.
Qed.

Lemma prune_empty_fields : forall fixed m df src,
  prune_empty fixed m (VM df) src =
  option_map VM
    (otraverse (fun kd : string * value =>
                  let '(k, d) := kd in
                  match nm_lookup k m with
                  | None => Some [(k, d)]
                  | Some sub =>
                      match vget k src with
                      | None =>
                          if fixed && negb (nm_empty sub) && is_msg d
                          then osingle (option_map (pair k) (nm_prune sub d))
                          else Some []
                      | Some s =>
                          if is_msg d then osingle (option_map (pair k) (prune_empty fixed sub d s))
                          else Some [(k, d)]
                      end
                  end) df).
Proof. reflexivity. Qed.

Theorem prune_empty_lookup : forall fixed m df src v',
  prune_empty fixed m (VM df) src = Some v' -> nodup_keys (akeys df) = true ->
  forall k, vget k v' =
            match alookup k df with
            | None => None
            | Some d =>
                match nm_lookup k m with
                | None => Some d
                | Some sub =>
                    match vget k src with
                    | None => if fixed && negb (nm_empty sub) && is_msg d then nm_prune sub d else None
                    | Some s => if is_msg d then prune_empty fixed sub d s else Some d
                    end
                end
            end.
Proof.
  intros fixed m df src v' H Hn k. rewrite prune_empty_fields in H.
  destruct (otraverse _ df) as [l'|] eqn:Eo; [|discriminate]. inversion H. subst v'. unfold vget at 1. simpl fields_of.
  erewrite otraverse_lookup; [| |exact Eo].
  - destruct (alookup k df) as [d|]; [|reflexivity].
    destruct (nm_lookup k m) as [sub|]; [|reflexivity].
    destruct (vget k src) as [s|].
    + destruct (is_msg d); [apply first_out_osingle|reflexivity].
    + destruct (fixed && negb (nm_empty sub) && is_msg d); [apply first_out_osingle|reflexivity].
  - apply keyed_nodup; auto. intros k0 d _.
    destruct (nm_lookup k0 m) as [sub|]; [|eauto].
    destruct (vget k0 src) as [s|].
    + destruct (is_msg d); [apply osingle_shape|eauto].
    + destruct (fixed && negb (nm_empty sub) && is_msg d); [apply osingle_shape|auto].
Qed.

(* ------------------------------------------------------------------------------------------- *)
(* distinct field names                                                                         *)

Lemma nodup_keys_NoDup : forall l, nodup_keys l = true <-> NoDup l.
Proof.
  induction l as [|k l IH]; simpl.
  - split; [constructor|reflexivity].
  - rewrite andb_true_iff, negb_true_iff, IH. split.
    + intros [Hk Hl]. constructor; auto. intros Hin.
      assert (existsb (String.eqb k) l = true) as C by (apply existsb_exists; exists k; split; [auto|apply String.eqb_refl]).
      congruence.
    + intros H. inversion H as [|? ? Hk Hl]; subst. split; auto.
      destruct (existsb (String.eqb k) l) eqn:E; auto. apply existsb_exists in E.
      destruct E as [k' [Hin Heq]]. apply String.eqb_eq in Heq. subst k'. contradiction.
Qed.

Lemma alookup_none_notin : forall {A} k (l : list (string * A)), alookup k l = None <-> ~ In k (akeys l).
Proof.
  induction l as [|[k0 x] l IH]; simpl; [tauto|].
  destruct (String.eqb k k0) eqn:E.
  - apply String.eqb_eq in E. subst. split; [discriminate|]. intros H. exfalso. apply H. auto.
  - rewrite IH. split; [intros H [C|C]; auto|intros H C; apply H; auto].
    subst. rewrite String.eqb_refl in E. discriminate.
Qed.

Lemma alookup_some_in_keys : forall {A} k (l : list (string * A)) x, alookup k l = Some x -> In k (akeys l).
Proof.
  intros A k l x H. destruct (in_dec string_dec k (akeys l)) as [|Hn]; auto.
  apply alookup_none_notin in Hn. congruence.
Qed.

(* a keyed pass keeps a sub-sequence of the keys *)
Lemma otraverse_keys : forall (F : string * value -> option (list (string * value))) l l',
  (forall k x, In (k, x) l -> F (k, x) = None \/ F (k, x) = Some [] \/ exists y, F (k, x) = Some [(k, y)]) ->
  otraverse F l = Some l' ->
  (forall k, In k (akeys l') -> In k (akeys l)) /\ (NoDup (akeys l) -> NoDup (akeys l')).
Proof.
  intros F. induction l as [|[k0 x0] l IH]; intros l' Hs Ho; simpl in Ho.
  - inversion Ho. split; auto.
  - destruct (F (k0, x0)) as [ys|] eqn:EF; [|discriminate].
    destruct (otraverse F l) as [zs|] eqn:Ez; [|discriminate]. inversion Ho. subst l'. clear Ho.
    destruct (IH zs (fun k x H => Hs k x (or_intror H)) eq_refl) as [Hsub Hnd].
    destruct (Hs k0 x0 (or_introl eq_refl)) as [C|[C|[y C]]]; rewrite EF in C; inversion C; subst ys; simpl.
    + split; [intros k Hk; right; auto|]. intros H. inversion H; auto.
    + split; [intros k [Hk|Hk]; auto|]. intros H. inversion H as [|? ? Hn Hl]; subst.
      constructor; auto.
Qed.

Lemma flat_map_as_otraverse : forall (g : string * value -> list (string * value)) l,
  otraverse (fun kx => Some (g kx)) l = Some (flat_map g l).
Proof. intros g l. apply otraverse_flat_map. auto. Qed.

Lemma NoDup_app_disjoint : forall {A} (a b : list A),
  NoDup a -> NoDup b -> (forall x, In x a -> ~ In x b) -> NoDup (a ++ b).
Proof.
  induction a as [|x a IH]; intros b Ha Hb Hd; simpl; auto.
  inversion Ha as [|? ? Hx Ha']; subst. constructor.
  - intros Hin. apply in_app_or in Hin. destruct Hin as [Hin|Hin]; [contradiction|]. apply (Hd x); auto. left. auto.
  - apply IH; auto. intros y Hy. apply Hd. right. auto.
Qed.

Lemma akeys_app : forall {A} (a b : list (string * A)), akeys (a ++ b) = akeys a ++ akeys b.
Proof. intros. unfold akeys. apply map_app. Qed.

Lemma proto_merge_nodup : forall sch ty df sf,
  NoDup (akeys df) -> NoDup (akeys sf) ->
  NoDup (akeys (fields_of (proto_merge sch ty (VM df) (VM sf)))).
Proof.
  intros sch ty df sf Hd Hs. rewrite proto_merge_fields. simpl fields_of. rewrite akeys_app.
  set (g1 := fun kd : string * value =>
               let '(k, d) := kd in
               match alookup k sf with
               | Some x => [(k, merge_val sch ty k (Some d) x)]
               | None => if cleared_by sch ty sf k then [] else [(k, d)]
               end).
  set (g2 := fun kx : string * value =>
               let '(k, x) := kx in match alookup k df with Some _ => [] | None => [(k, x)] end).
  assert (forall k x, In (k, x) df -> Some (g1 (k, x)) = None \/ Some (g1 (k, x)) = Some [] \/
                                      exists y, Some (g1 (k, x)) = Some [(k, y)]) as H1.
  { intros k d _. right. unfold g1. destruct (alookup k sf); [eauto|]. destruct (cleared_by sch ty sf k); eauto. }
  assert (forall k x, In (k, x) sf -> Some (g2 (k, x)) = None \/ Some (g2 (k, x)) = Some [] \/
                                      exists y, Some (g2 (k, x)) = Some [(k, y)]) as H2.
  { intros k x _. right. unfold g2. destruct (alookup k df); eauto. }
  destruct (otraverse_keys (fun kx => Some (g1 kx)) df _ H1 (flat_map_as_otraverse g1 df)) as [Hsub1 Hnd1].
  destruct (otraverse_keys (fun kx => Some (g2 kx)) sf _ H2 (flat_map_as_otraverse g2 sf)) as [Hsub2 Hnd2].
  apply NoDup_app_disjoint; auto.
  intros k Hk1 Hk2. apply Hsub1 in Hk1.
  unfold akeys in Hk2. apply in_map_iff in Hk2. destruct Hk2 as [[k' y] [E Hin]]. simpl in E. subst k'.
  apply in_flat_map in Hin. destruct Hin as [[k0 x0] [_ Hin]]. unfold g2 in Hin.
  destruct (alookup k0 df) eqn:El; [destruct Hin|]. destruct Hin as [E|[]]. inversion E. subst.
  apply alookup_none_notin in El. contradiction.
Qed.

Lemma otraverse_some_all : forall {A B} (F : A -> option (list B)) l l',
  otraverse F l = Some l' -> forall x, In x l -> F x <> None.
Proof.
  induction l as [|x0 l IH]; intros l' Ho x Hin; [destruct Hin|]. simpl in Ho.
  destruct (F x0) as [ys|] eqn:EF; [|discriminate].
  destruct (otraverse F l) as [zs|] eqn:Ez; [|discriminate].
  destruct Hin as [<-|Hin]; [congruence|]. eapply IH; eauto.
Qed.

Lemma merge_into_empty : forall sch ty sf, proto_merge sch ty (VM []) (VM sf) = VM sf.
Proof.
  intros. rewrite proto_merge_fields. simpl. f_equal. induction sf as [|[k x] sf IH]; simpl; congruence.
Qed.

(* deep distinctness of field names *)
Fixpoint wfv (v : value) : bool :=
  match v with
  | VS _ => true
  | VM f => nodup_keys (akeys f) && forallb (fun kx : string * value => wfv (snd kx)) f
  | VL l => forallb wfv l
  | VMap kv => forallb (fun e : scalar * value => wfv (snd e)) kv
  end.

Lemma wfv_field : forall f k x, wfv (VM f) = true -> alookup k f = Some x -> wfv x = true.
Proof.
  intros f k x H Hl. simpl in H. apply andb_true_iff in H. destruct H as [_ H].
  rewrite forallb_forall in H. apply (H (k, x)). apply alookup_in. exact Hl.
Qed.

Lemma wfv_nodup : forall f, wfv (VM f) = true -> NoDup (akeys f).
Proof. intros f H. simpl in H. apply andb_true_iff in H. apply nodup_keys_NoDup. tauto. Qed.

(* ------------------------------------------------------------------------------------------- *)
(* the core of Merge: filter src to the mask, proto.Merge, pruneEmpty                            *)

Definition tailf (fixed : bool) (sch : schema) (ty : string) (m : nmask) (dst src : value) : option value :=
  match nm_filter m src with
  | None => None
  | Some s2 => prune_empty fixed m (proto_merge sch ty dst s2) s2
  end.

Lemma nm_filter_is_msg : forall m sf v', nm_filter m (VM sf) = Some v' -> exists sf', v' = VM sf'.
Proof.
  intros m sf v' H. rewrite nm_filter_fields in H. destruct (nm_empty m); [inversion H; eauto|].
  destruct (otraverse _ sf); inversion H. eauto.
Qed.

Lemma filter_keys_nodup : forall m sf sf', nm_filter m (VM sf) = Some (VM sf') -> NoDup (akeys sf) -> NoDup (akeys sf').
Proof.
  intros m sf sf' H Hn. rewrite nm_filter_fields in H. destruct (nm_empty m); [inversion H; subst; auto|].
  match type of H with option_map VM (otraverse ?F sf) = _ =>
    assert (forall k x, In (k, x) sf -> F (k, x) = None \/ F (k, x) = Some [] \/ exists y, F (k, x) = Some [(k, y)]) as Hs
  end.
  { intros k x _. cbv beta iota. destruct (nm_lookup k m); [apply osingle_shape|auto]. }
  destruct (otraverse _ sf) as [l'|] eqn:Eo; inversion H. subst l'.
  exact (proj2 (otraverse_keys _ _ _ Hs Eo) Hn).
Qed.

(* field k after the three passes, from field k of dst and of the FILTERED src *)
Theorem tail_lookup : forall fixed sch ty m df sf s2f post,
  nm_filter m (VM sf) = Some (VM s2f) ->
  tailf fixed sch ty m (VM df) (VM sf) = Some post ->
  NoDup (akeys df) -> NoDup (akeys sf) ->
  forall k,
    vget k post =
    match (match alookup k df, alookup k s2f with
           | Some d, Some x => Some (merge_val sch ty k (Some d) x)
           | Some d, None => if cleared_by sch ty s2f k then None else Some d
           | None, Some x => Some x
           | None, None => None
           end) with
    | None => None
    | Some d2 =>
        match nm_lookup k m with
        | None => Some d2
        | Some sub =>
            match alookup k s2f with
            | None => if fixed && negb (nm_empty sub) && is_msg d2 then nm_prune sub d2 else None
            | Some s => if is_msg d2 then prune_empty fixed sub d2 s else Some d2
            end
        end
    end.
Proof.
  intros fixed sch ty m df sf s2f post Hf Ht Hnd Hns k. unfold tailf in Ht. rewrite Hf in Ht.
  pose proof (proto_merge_nodup sch ty df s2f Hnd (filter_keys_nodup _ _ _ Hf Hns)) as Hn2.
  pose proof (proto_merge_lookup sch ty df s2f k) as Hl.
  assert (proto_merge sch ty (VM df) (VM s2f) = VM (fields_of (proto_merge sch ty (VM df) (VM s2f)))) as HP.
  { rewrite proto_merge_fields. reflexivity. }
  remember (proto_merge sch ty (VM df) (VM s2f)) as P eqn:EP. clear EP.
  rewrite HP in Ht.
  rewrite (prune_empty_lookup _ _ _ _ _ Ht (proj2 (nodup_keys_NoDup _) Hn2) k).
  unfold vget in Hl at 1. rewrite Hl. unfold vget. simpl fields_of. reflexivity.
Qed.

(* positions that a nested mask does not reach: the walk leaves the mask before one of its paths
   ends.  [no_sibling]: not a member of a oneof another member of which the mask passes through. *)
Definition no_sibling (sch : schema) (ty : string) (m : nmask) (k : string) : Prop :=
  forall k', nm_lookup k' m <> None -> ~ In k (oneof_siblings sch ty k').

Fixpoint outside_p (m : nmask) (q : path) : Prop :=
  match q with
  | [] => False
  | k :: r =>
      match nm_lookup k m with
      | None => True
      | Some sub => nm_empty sub = false /\ outside_p sub r
      end
  end.

Fixpoint outside_t (sch : schema) (ty : string) (m : nmask) (q : path) : Prop :=
  match q with
  | [] => False
  | k :: r =>
      no_sibling sch ty m k /\
      match nm_lookup k m with
      | None => True
      | Some sub => nm_empty sub = false /\ outside_t sch (sub_type sch ty k) sub r
      end
  end.

Lemma outside_t_p : forall sch q ty m, outside_t sch ty m q -> outside_p m q.
Proof.
  induction q as [|k r IH]; intros ty m H; simpl in *; auto. destruct H as [_ H].
  destruct (nm_lookup k m); auto. destruct H. split; eauto.
Qed.

Lemma get_at_nonmsg : forall r x, r <> [] -> is_msg x = false -> get_at r x = None.
Proof. intros [|k r] x Hr Hx; [congruence|]. destruct x; try discriminate; reflexivity. Qed.

Lemma outside_p_nonnil : forall m q, outside_p m q -> q <> [].
Proof. intros m [|k r] H; [destruct H|discriminate]. Qed.

(* Prune leaves everything the mask does not reach *)
Theorem prune_frame : forall q m v v',
  nm_prune m v = Some v' -> outside_p m q -> get_at q v' = get_at q v.
Proof.
  induction q as [|k r IH]; intros m v v' Hp Ho; [destruct Ho|].
  destruct v as [s|f|l|kv]; try (simpl in Hp; inversion Hp; reflexivity).
  destruct (nm_empty m) eqn:Em.
  { rewrite nm_prune_fields, Em in Hp. inversion Hp. reflexivity. }
  simpl get_at. rewrite (prune_lookup _ _ _ Hp Em k). simpl in Ho. unfold vget. simpl fields_of.
  destruct (alookup k f) as [x|] eqn:Ex; [|reflexivity].
  destruct (nm_lookup k m) as [sub|] eqn:El; [|reflexivity]. destruct Ho as [Hne Ho]. rewrite Hne.
  destruct x as [s|fx|l|kv]; unfold prune_field.
  - reflexivity.
  - destruct (nm_prune sub (VM fx)) as [x'|] eqn:Ep.
    + eapply IH; eauto.
    + (* the pass over the fields would have failed *)
      exfalso. rewrite nm_prune_fields, Em in Hp.
      destruct (otraverse _ f) as [l'|] eqn:Eo; [|discriminate].
      apply (otraverse_some_all _ _ _ Eo (k, VM fx) (alookup_in _ _ _ Ex)).
      rewrite El, Hne. unfold prune_field. rewrite Ep. reflexivity.
  - destruct (otraverse _ l) as [l'|]; simpl.
    + rewrite !get_at_nonmsg; auto; eapply outside_p_nonnil; eauto.
    + rewrite get_at_nonmsg; auto. eapply outside_p_nonnil; eauto.
  - rewrite get_at_nonmsg; auto. eapply outside_p_nonnil; eauto.
Qed.

(* on the way to a masked position src holds messages (true of conformant messages under valid
   masks: a valid path only passes through singular message fields) *)
Fixpoint rsafe_t (m : nmask) (v : value) {struct v} : bool :=
  match v with
  | VM f =>
      forallb (fun kx : string * value =>
                 let '(k, x) := kx in
                 match nm_lookup k m with
                 | None => true
                 | Some sub => nm_empty sub || (is_msg x && rsafe_t sub x)
                 end) f
  | _ => true
  end.

Lemma rsafe_t_field : forall m f k x sub,
  rsafe_t m (VM f) = true -> alookup k f = Some x -> nm_lookup k m = Some sub -> nm_empty sub = false ->
  is_msg x = true /\ rsafe_t sub x = true.
Proof.
  intros m f k x sub H Hl Hm Hne. simpl in H. rewrite forallb_forall in H.
  specialize (H (k, x) (alookup_in _ _ _ Hl)). simpl in H. rewrite Hm, Hne in H. simpl in H.
  apply andb_true_iff in H. exact H.
Qed.

Lemma cleared_false : forall sch ty m sf s2f k,
  nm_filter m (VM sf) = Some (VM s2f) -> nm_empty m = false -> no_sibling sch ty m k ->
  cleared_by sch ty s2f k = false.
Proof.
  intros sch ty m sf s2f k Hf Hne Hns. destruct (cleared_by sch ty s2f k) eqn:E; auto. exfalso.
  unfold cleared_by in E. apply existsb_exists in E. destruct E as [[k' x'] [Hin E]]. simpl in E.
  apply existsb_exists in E. destruct E as [k0 [Hk0 E]]. apply String.eqb_eq in E. subst k0.
  apply (Hns k'); auto.
  assert (In k' (akeys s2f)) as Hk' by (unfold akeys; apply in_map_iff; exists (k', x'); auto).
  destruct (alookup k' s2f) as [y|] eqn:El.
  - pose proof (filter_lookup _ _ _ Hf Hne k') as Hfl. unfold vget in Hfl. simpl in Hfl. rewrite El in Hfl.
    destruct (nm_lookup k' m); [discriminate|discriminate].
  - apply alookup_none_notin in El. contradiction.
Qed.

Lemma prune_empty_entry_ok : forall fixed m df src v' k d,
  prune_empty fixed m (VM df) src = Some v' -> alookup k df = Some d ->
  match nm_lookup k m with
  | None => True
  | Some sub =>
      match vget k src with
      | None => fixed && negb (nm_empty sub) && is_msg d = true -> nm_prune sub d <> None
      | Some s => is_msg d = true -> prune_empty fixed sub d s <> None
      end
  end.
Proof.
  intros fixed m df src v' k d H Hl. rewrite prune_empty_fields in H.
  destruct (otraverse _ df) as [l'|] eqn:Eo; [|discriminate].
  pose proof (otraverse_some_all _ _ _ Eo (k, d) (alookup_in _ _ _ Hl)) as Hok. cbv beta iota in Hok.
  destruct (nm_lookup k m) as [sub|]; auto.
  destruct (vget k src) as [s|].
  - intros Hm. rewrite Hm in Hok. intros C. rewrite C in Hok. apply Hok. reflexivity.
  - intros Hc. rewrite Hc in Hok. intros C. rewrite C in Hok. apply Hok. reflexivity.
Qed.

(* FRAME for the core: a position the update mask does not reach (and that is not in a oneof with a
   field the mask passes through) holds after the three passes what it held before *)
Theorem frame_tail : forall q sch ty m df sf post,
  tailf true sch ty m (VM df) (VM sf) = Some post ->
  wfv (VM df) = true -> wfv (VM sf) = true -> rsafe_t m (VM sf) = true ->
  nm_empty m = false -> outside_t sch ty m q ->
  get_at q post = get_at q (VM df).
Proof.
  induction q as [|k r IH]; intros sch ty m df sf post Ht Hwd Hws Hrs Hne Ho; [destruct Ho|].
  assert (exists s2f, nm_filter m (VM sf) = Some (VM s2f)) as [s2f Hf].
  { unfold tailf in Ht. destruct (nm_filter m (VM sf)) as [s2|] eqn:Ef; [|discriminate].
    destruct (nm_filter_is_msg _ _ _ Ef) as [s2f ->]. eauto. }
  simpl get_at.
  rewrite (tail_lookup _ _ _ _ _ _ _ _ Hf Ht (wfv_nodup _ Hwd) (wfv_nodup _ Hws) k).
  (* the merged message, kept opaque, and what pruneEmpty says about its entry for k *)
  pose proof (proto_merge_lookup sch ty df s2f k) as Hl.
  assert (proto_merge sch ty (VM df) (VM s2f) = VM (fields_of (proto_merge sch ty (VM df) (VM s2f)))) as HP.
  { rewrite proto_merge_fields. reflexivity. }
  assert (prune_empty true m (proto_merge sch ty (VM df) (VM s2f)) (VM s2f) = Some post) as Hpe.
  { unfold tailf in Ht. rewrite Hf in Ht. exact Ht. }
  remember (proto_merge sch ty (VM df) (VM s2f)) as P eqn:EP. clear EP. rewrite HP in Hpe.
  unfold vget in Hl at 1.
  simpl in Ho. destruct Ho as [Hns Ho].
  rewrite (cleared_false _ _ _ _ _ _ Hf Hne Hns) in *.
  pose proof (filter_lookup _ _ _ Hf Hne k) as Hfl. unfold vget in Hfl at 1. simpl fields_of in Hfl.
  unfold vget. simpl fields_of.
  destruct (nm_lookup k m) as [sub|] eqn:El.
  - destruct Ho as [Hsne Ho]. rewrite Hsne. simpl negb. simpl andb.
    assert (r <> []) as Hr by (eapply outside_p_nonnil; eapply outside_t_p; eauto).
    destruct (alookup k s2f) as [x'|] eqn:Es2.
    + (* src has k: the field is the same three passes one level down *)
      destruct (alookup k sf) as [x|] eqn:Es; [|discriminate].
      destruct (rsafe_t_field _ _ _ _ _ Hrs Es El Hsne) as [Hxm Hxs].
      destruct x as [|fx| |]; try discriminate.
      unfold filter_field in Hfl. rewrite Hsne in Hfl. symmetry in Hfl.
      destruct (nm_filter_is_msg _ _ _ Hfl) as [fx' ->].
      set (dk := match alookup k df with Some (VM fd) => fd | _ => [] end).
      assert (match alookup k df with
              | Some d => Some (merge_val sch ty k (Some d) (VM fx'))
              | None => Some (VM fx')
              end = Some (proto_merge sch (sub_type sch ty k) (VM dk) (VM fx'))) as Em.
      { unfold dk, merge_val. destruct (alookup k df) as [[| fd | |]|]; try reflexivity.
        rewrite merge_into_empty. reflexivity. }
      rewrite Em in *.
      assert (is_msg (proto_merge sch (sub_type sch ty k) (VM dk) (VM fx')) = true) as Hmm.
      { rewrite proto_merge_fields. reflexivity. }
      rewrite Hmm.
      pose proof (prune_empty_entry_ok _ _ _ _ _ k _ Hpe Hl) as Hok. rewrite El in Hok.
      unfold vget in Hok. simpl fields_of in Hok. rewrite Es2 in Hok. specialize (Hok Hmm).
      destruct (prune_empty true sub (proto_merge sch (sub_type sch ty k) (VM dk) (VM fx')) (VM fx')) as [pk|] eqn:Ep;
        [|congruence].
      assert (tailf true sch (sub_type sch ty k) sub (VM dk) (VM fx) = Some pk) as Ht'.
      { unfold tailf. rewrite Hfl. exact Ep. }
      rewrite (IH _ _ _ _ _ _ Ht'); auto.
      * unfold dk. destruct (alookup k df) as [[| fd | |]|] eqn:Ed; try reflexivity;
          (destruct r; [congruence|reflexivity]).
      * unfold dk. destruct (alookup k df) as [[| fd | |]|] eqn:Ed; try reflexivity.
        exact (wfv_field df k _ Hwd Ed).
      * exact (wfv_field sf k _ Hws Es).
    + (* src lacks k: only the positions named below k are cleared *)
      destruct (alookup k df) as [d|] eqn:Ed; [|reflexivity].
      destruct (is_msg d) eqn:Edm.
      * pose proof (prune_empty_entry_ok _ _ _ _ _ k _ Hpe Hl) as Hok. rewrite El in Hok.
        unfold vget in Hok. simpl fields_of in Hok. rewrite Es2, Hsne, Edm in Hok. specialize (Hok eq_refl).
        destruct (nm_prune sub d) as [d'|] eqn:Ep; [|congruence].
        eapply prune_frame; eauto. eapply outside_t_p; eauto.
      * rewrite get_at_nonmsg; auto.
  - (* the mask does not name k at all *)
    rewrite Hfl. destruct (alookup k df); reflexivity.
Qed.

(* ------------------------------------------------------------------------------------------- *)
(* Filter preserves what the core needs of src                                                  *)

Lemma otraverse_forall : forall {A B} (F : A -> option (list B)) (Q : B -> Prop) l l',
  otraverse F l = Some l' ->
  (forall x ys, In x l -> F x = Some ys -> forall y, In y ys -> Q y) ->
  forall y, In y l' -> Q y.
Proof.
  induction l as [|x0 l IH]; intros l' Ho HQ y Hy; simpl in Ho.
  - inversion Ho. subst. destruct Hy.
  - destruct (F x0) as [ys|] eqn:EF; [|discriminate].
    destruct (otraverse F l) as [zs|] eqn:Ez; [|discriminate]. inversion Ho. subst l'.
    apply in_app_or in Hy. destruct Hy as [Hy|Hy].
    + eapply HQ; eauto. left. reflexivity.
    + eapply IH; eauto. intros. eapply HQ; eauto. right. assumption.
Qed.

Definition filt_stmt (v : value) : Prop :=
  forall m v', nm_filter m v = Some v' ->
               (wfv v = true -> wfv v' = true) /\
               (forall m2, rsafe_t m2 v = true -> rsafe_t m2 v' = true).

Lemma filter_field_cases : forall sub x x',
  filter_field sub x = Some x' ->
  x' = x \/ (is_msg x = true /\ nm_filter sub x = Some x') \/
  (exists l l', x = VL l /\ x' = VL l' /\
                otraverse (fun e => if is_msg e then osingle (nm_filter sub e) else None) l = Some l').
Proof.
  intros sub x x' H. unfold filter_field in H. destruct (nm_empty sub); [inversion H; auto|].
  destruct x as [s|f|l|kv].
  - inversion H. auto.
  - right. left. split; auto.
  - right. right. destruct (otraverse _ l) as [l'|] eqn:E; inversion H. eauto.
  - discriminate.
Qed.

Lemma filter_preserves_aux : forall v,
  filt_stmt v /\ (forall l, v = VL l -> forall e, In e l -> filt_stmt e).
Proof.
  induction v as [s|fs IH|l IH|kv IH] using value_ind'.
  - split; [|intros l E; discriminate]. intros m v' H. simpl in H. inversion H. auto.
  - split; [|intros l E; discriminate].
    intros m v' H. rewrite nm_filter_fields in H.
    destruct (nm_empty m) eqn:Em; [inversion H; auto|].
    destruct (otraverse _ fs) as [fs'|] eqn:Eo; [|discriminate]. inversion H. subst v'. clear H.
    assert (nm_filter m (VM fs) = Some (VM fs')) as Hfilt by (rewrite nm_filter_fields, Em, Eo; reflexivity).
    assert (forall k x', In (k, x') fs' ->
              exists x sub, In (k, x) fs /\ nm_lookup k m = Some sub /\ filter_field sub x = Some x') as Hfrom.
    { intros k x' Hin.
      change (exists x sub, In (fst (k, x'), x) fs /\ nm_lookup (fst (k, x')) m = Some sub /\
                            filter_field sub x = Some (snd (k, x'))).
      apply (otraverse_forall _ (fun e : string * value => exists x sub, In (fst e, x) fs /\ nm_lookup (fst e) m = Some sub /\
                                                    filter_field sub x = Some (snd e)) _ _ Eo); auto.
      intros [k0 x0] ys Hin0 HF y Hy. cbv beta iota in HF.
      destruct (nm_lookup k0 m) as [sub|] eqn:El; [|inversion HF; subst; destruct Hy].
      destruct (filter_field sub x0) as [x0'|] eqn:Ef; inversion HF. subst ys. destruct Hy as [<-|[]].
      simpl. eauto. }
    assert (forall k x x', In (k, x) fs -> forall sub, filter_field sub x = Some x' ->
              (wfv x = true -> wfv x' = true) /\ (forall m2, is_msg x = true -> rsafe_t m2 x = true -> is_msg x' = true /\ rsafe_t m2 x' = true)) as Hval.
    { intros k x x' Hin sub Hff. rewrite Forall_forall in IH. specialize (IH (k, x) Hin). simpl in IH.
      destruct IH as [IHx IHl].
      destruct (filter_field_cases _ _ _ Hff) as [->|[[Hm Hf]|[l [l' [-> [-> Hl]]]]]].
      - auto.
      - destruct (IHx _ _ Hf) as [Hw Hr]. split; auto. intros m2 _ Hrs. split; auto.
        destruct x; try discriminate. destruct (nm_filter_is_msg _ _ _ Hf) as [f' ->]. reflexivity.
      - split; [|intros m2 C; discriminate].
        intros Hw. simpl in *. apply forallb_forall. intros e' He'.
        apply (otraverse_forall _ (fun e' => wfv e' = true) _ _ Hl); auto.
        intros e ys He HF y Hy. destruct (is_msg e); [|discriminate].
        destruct (nm_filter sub e) as [e2|] eqn:Ee; inversion HF. subst ys. destruct Hy as [<-|[]].
        rewrite forallb_forall in Hw. apply (proj1 (IHl l eq_refl e He _ _ Ee)). auto. }
    split.
    + intros Hw. simpl. apply andb_true_iff. split.
      * apply nodup_keys_NoDup. eapply filter_keys_nodup; [exact Hfilt|apply wfv_nodup; exact Hw].
      * apply forallb_forall. intros [k x'] Hin. simpl.
        destruct (Hfrom k x' Hin) as [x [sub [Hx [_ Hff]]]].
        apply (proj1 (Hval k x x' Hx sub Hff)). simpl in Hw. apply andb_true_iff in Hw. destruct Hw as [_ Hw].
        rewrite forallb_forall in Hw. apply (Hw (k, x) Hx).
    + intros m2 Hrs. simpl. apply forallb_forall. intros [k x'] Hin.
      destruct (Hfrom k x' Hin) as [x [sub [Hx [_ Hff]]]].
      simpl in Hrs. rewrite forallb_forall in Hrs. specialize (Hrs (k, x) Hx). simpl in Hrs.
      destruct (nm_lookup k m2) as [sub2|]; auto.
      destruct (nm_empty sub2); auto. simpl in *. apply andb_true_iff in Hrs. destruct Hrs as [Hm Hr].
      apply andb_true_iff. apply (proj2 (Hval k x x' Hx sub Hff) sub2 Hm Hr).
  - split; [intros m v' H; simpl in H; inversion H; auto|].
    intros l' E e He. inversion E. subst l'. rewrite Forall_forall in IH. apply (IH e He).
  - split; [|intros l E; discriminate]. intros m v' H. simpl in H. inversion H. auto.
Qed.

Lemma filter_preserves : forall m v v', nm_filter m v = Some v' ->
  (wfv v = true -> wfv v' = true) /\ (forall m2, rsafe_t m2 v = true -> rsafe_t m2 v' = true).
Proof. intros m v. apply (proj1 (filter_preserves_aux v)). Qed.

(* ------------------------------------------------------------------------------------------- *)
(* FRAME for FieldUpdater.Merge with a non-empty update mask                                    *)

Definition trie (ps : list path) : nmask := nested_of_paths (normalize_paths ps).

Lemma nm_filter_empty_mask : forall v, nm_filter (NM []) v = Some v.
Proof. intros [s|f|l|kv]; reflexivity. Qed.

Lemma frame_update_core : forall sch ty T rm df sf1 post src' q,
  match nm_filter T (VM sf1) with
  | Some src2 =>
      match prune_empty true T (proto_merge sch ty (VM df) src2) src2 with
      | Some dst3 =>
          match rm with
          | Some rs =>
              match nm_prune (nested_of_paths (normalize_paths rs)) dst3 with
              | Some dst4 => MOk dst4 src2
              | None => MPanic
              end
          | None => MOk dst3 src2
          end
      | None => MPanic
      end
  | None => MPanic
  end = MOk post src' ->
  wfv (VM df) = true -> wfv (VM sf1) = true -> rsafe_t T (VM sf1) = true -> nm_empty T = false ->
  outside_t sch ty T q -> outside_p (trie (mask_paths rm)) q ->
  get_at q post = get_at q (VM df).
Proof.
  intros sch ty T rm df sf1 post src' q H Hwd Hws Hrs Hte Ho Hor.
  destruct (nm_filter T (VM sf1)) as [s2|] eqn:Ef; [|discriminate].
  destruct (prune_empty true T (proto_merge sch ty (VM df) s2) s2) as [d3|] eqn:Ep; [|discriminate].
  assert (tailf true sch ty T (VM df) (VM sf1) = Some d3) as Ht by (unfold tailf; rewrite Ef; exact Ep).
  rewrite <- (frame_tail q sch ty T df sf1 d3 Ht Hwd Hws Hrs Hte Ho).
  destruct rm as [rs|].
  - destruct (nm_prune (nested_of_paths (normalize_paths rs)) d3) as [d4|] eqn:Er; inversion H. subst.
    eapply prune_frame; eauto.
  - inversion H. reflexivity.
Qed.

Theorem frame_update : forall sch ty ups wm rm df sf post src',
  ups <> [] ->
  merge sch ty (Some ups) wm rm (VM df) (VM sf) = MOk post src' ->
  wfv (VM df) = true -> wfv (VM sf) = true ->
  rsafe_t (trie ups) (VM sf) = true -> nm_empty (trie ups) = false ->
  forall q, outside_t sch ty (trie ups) q -> outside_p (trie (mask_paths rm)) q ->
  get_at q post = get_at q (VM df).
Proof.
  intros sch ty ups wm rm df sf post src' Hne H Hwd Hws Hrs Hte q Ho Hor.
  unfold merge, merge_gen in H. cbv zeta in H. simpl mask_paths in H. fold (trie ups) in H.
  destruct ups as [|u0 us]; [congruence|]. set (ups := u0 :: us) in *.
  destruct wm as [[|w ws]|]; cbv iota beta in H.
  - inversion H. reflexivity.
  - destruct (nm_filter (nested_of_paths (normalize_paths (w :: ws))) (VM sf)) as [s1|] eqn:E1; [|discriminate].
    destruct (nm_filter_is_msg _ _ _ E1) as [sf1 ->].
    destruct (filter_preserves _ _ _ E1) as [A B].
    eapply frame_update_core; eauto.
  - rewrite nm_filter_empty_mask in H. eapply frame_update_core; eauto.
Qed.

(* ------------------------------------------------------------------------------------------- *)
(* from schema-level hypotheses (conformance, valid masks) to the hypotheses of the core         *)

Definition wfv_stmt (sch : schema) (v : value) : Prop := forall ty, conforms sch ty v = true -> wfv v = true.

Lemma conforms_wfv_aux : forall sch v,
  wfv_stmt sch v /\
  (forall l, v = VL l -> forall e, In e l -> wfv_stmt sch e) /\
  (forall kv, v = VMap kv -> forall e, In e kv -> wfv_stmt sch (snd e)).
Proof.
  intros sch. induction v as [s|fs IH|l IH|kv IH] using value_ind'.
  - split; [intros ty H; reflexivity|split; intros ? E; discriminate].
  - split; [|split; intros ? E; discriminate].
    intros ty Hc. pose proof Hc as Hc'. rewrite conforms_VM in Hc'. apply andb_true_iff in Hc'. destruct Hc' as [Hn _].
    simpl. rewrite Hn. simpl. apply forallb_forall. intros [k x] Hin. simpl.
    destruct (conforms_field _ _ _ _ _ Hc Hin) as [f [Hl Hshape]].
    rewrite Forall_forall in IH. specialize (IH (k, x) Hin). simpl in IH. destruct IH as [IHx [IHl IHm]].
    (* re-read the shape from conforms to reach map values as well *)
    rewrite conforms_VM in Hc. apply andb_true_iff in Hc. destruct Hc as [_ Hc].
    rewrite forallb_forall in Hc. specialize (Hc (k, x) Hin). simpl in Hc. rewrite Hl in Hc.
    destruct (fcard f); destruct (fkd f) as [sk|ty']; destruct x as [s|fx|l|kv]; try discriminate; simpl.
    + reflexivity.
    + eapply IHx; eauto.
    + apply forallb_forall. intros e He. rewrite forallb_forall in Hc. specialize (Hc e He).
      destruct e; try discriminate. reflexivity.
    + apply forallb_forall. intros e He. rewrite forallb_forall in Hc. specialize (Hc e He).
      apply andb_true_iff in Hc. destruct Hc as [_ Hc]. eapply (IHl l eq_refl e He); eauto.
    + apply forallb_forall. intros e He. rewrite forallb_forall in Hc. specialize (Hc e He).
      destruct (snd e); try discriminate. reflexivity.
    + apply forallb_forall. intros e He. rewrite forallb_forall in Hc. specialize (Hc e He).
      destruct e as [ke y]. apply andb_true_iff in Hc. destruct Hc as [_ Hc]. simpl.
      eapply (IHm kv eq_refl (ke, y) He); eauto.
  - split; [intros ty H; discriminate|]. split; [|intros ? E; discriminate].
    intros l' E e He. inversion E. subst l'. rewrite Forall_forall in IH. apply (proj1 (IH e He)).
  - split; [intros ty H; discriminate|]. split; [intros ? E; discriminate|].
    intros kv' E e He. inversion E. subst kv'. rewrite Forall_forall in IH. apply (proj1 (IH e He)).
Qed.

Lemma conforms_wfv : forall sch ty v, conforms sch ty v = true -> wfv v = true.
Proof. intros sch ty v. apply (proj1 (conforms_wfv_aux sch v)). Qed.

Definition rs_stmt (sch : schema) (v : value) : Prop :=
  forall ty ps, conforms sch ty v = true -> (forall p, In p ps -> path_valid sch (Some ty) p = true) ->
                rsafe_t (ins_all ps (NM [])) v = true.

Lemma nm_lookup_ins_all : forall ps k,
  nm_lookup k (ins_all ps (NM [])) =
  match deriv k ps with [] => None | d => Some (ins_all d (NM [])) end.
Proof. intros. unfold nm_lookup. rewrite ins_all_lookup. simpl. destruct (deriv k ps); reflexivity. Qed.

Lemma valid_rsafe : forall sch v, rs_stmt sch v.
Proof.
  intros sch. induction v as [s|fs IH|l IH|kv IH] using value_ind'; intros ty ps Hc Hps; try discriminate.
  simpl. apply forallb_forall. intros [k x] Hin.
  rewrite nm_lookup_ins_all. destruct (deriv k ps) as [|t0 d0] eqn:Ed; auto. rewrite <- Ed.
  rewrite nm_empty_ins_all. simpl nm_empty. simpl andb.
  destruct (forallb is_nil (deriv k ps)) eqn:En; auto. simpl.
  (* some path continues below k: k is a singular message field *)
  assert (exists t, In t (deriv k ps) /\ t <> []) as [t [Ht Htn]].
  { clear - En. induction (deriv k ps) as [|a l IHl]; [discriminate|]. simpl in En.
    destruct a; [destruct (IHl En) as [t [? ?]]; exists t; split; auto; right; auto|].
    eexists. split; [left; reflexivity|discriminate]. }
  destruct (conforms_field _ _ _ _ _ Hc Hin) as [f [Hl Hshape]].
  assert (exists ty', fcard f = CSingular /\ fkd f = FMsg ty' /\
                      forall t', In t' (deriv k ps) -> path_valid sch (Some ty') t' = true) as [ty' [Hcs [Hk Hall]]].
  { pose proof (Hps _ (proj1 (in_deriv k t ps) Ht)) as Hv. simpl in Hv. rewrite Hl in Hv.
    destruct t as [|s r]; [congruence|].
    destruct (fcard f) eqn:Ec; try (simpl in Hv; discriminate).
    unfold msg_type_of in Hv. rewrite Ec in Hv. destruct (fkd f) as [sk|ty'] eqn:Ek; [simpl in Hv; discriminate|].
    exists ty'. repeat split; auto. intros t' Ht'.
    pose proof (Hps _ (proj1 (in_deriv k t' ps) Ht')) as Hv'. simpl in Hv'. rewrite Hl, Ec in Hv'.
    unfold msg_type_of in Hv'. rewrite Ec, Ek in Hv'. exact Hv'. }
  rewrite conforms_VM in Hc. apply andb_true_iff in Hc. destruct Hc as [_ Hc].
  rewrite forallb_forall in Hc. specialize (Hc (k, x) Hin). simpl in Hc. rewrite Hl, Hcs, Hk in Hc.
  destruct x as [s|fx|l|kv]; try discriminate. simpl.
  rewrite Forall_forall in IH. apply (IH (k, VM fx) Hin ty'); auto.
Qed.

Lemma valid_trie_facts : forall sch ty ups v,
  schema_names_ok sch = true -> fm_valid sch ty ups = true -> conforms sch ty v = true ->
  rsafe_t (trie ups) v = true /\ (ups <> [] -> nm_empty (trie ups) = false).
Proof.
  intros sch ty ups v Hs Hv Hc. unfold trie. rewrite nested_of_paths_ins.
  assert (forall p, In p (normalize_paths ups) -> p <> [] /\ path_valid sch (Some ty) p = true) as Hp.
  { intros p Hp. apply normalize_subset in Hp. eapply fm_valid_in; eauto. }
  assert (map drop_empty (normalize_paths ups) = normalize_paths ups) as Hd.
  { rewrite <- (map_id (normalize_paths ups)) at 2. apply map_ext_in. intros p Hin.
    apply drop_empty_id. eapply valid_segs_ok; eauto. apply Hp. exact Hin. }
  rewrite Hd. split.
  - apply (valid_rsafe sch v ty); auto. intros p Hin. apply Hp. exact Hin.
  - intros Hne. rewrite nm_empty_ins_all. simpl.
    destruct ups as [|u us]; [congruence|].
    destruct (normalize_covers (u :: us) u (or_introl eq_refl)) as [q [Hq _]].
    destruct (forallb is_nil (normalize_paths (u :: us))) eqn:E; auto.
    rewrite all_nil_iff in E. specialize (E q Hq). destruct (Hp q Hq). congruence.
Qed.

(* ------------------------------------------------------------------------------------------- *)
(* FRAME, stated with schema-level hypotheses                                                   *)

Theorem frame : forall sch ty ups wm rm dst src post src',
  schema_names_ok sch = true ->
  conforms sch ty dst = true -> conforms sch ty src = true ->
  fm_valid sch ty ups = true -> ups <> [] ->
  merge sch ty (Some ups) wm rm dst src = MOk post src' ->
  forall q, outside_t sch ty (trie ups) q -> outside_p (trie (mask_paths rm)) q ->
  get_at q post = get_at q dst.
Proof.
  intros sch ty ups wm rm dst src post src' Hs Hcd Hcs Hv Hne H q Ho Hor.
  destruct dst as [|df| |]; try discriminate. destruct src as [|sf| |]; try discriminate.
  destruct (valid_trie_facts sch ty ups (VM sf) Hs Hv Hcs) as [Hrs Hte].
  eapply frame_update; eauto; eapply conforms_wfv; eauto.
Qed.

(* ------------------------------------------------------------------------------------------- *)
(* RESET: every position a reset path names is cleared                                          *)

(* the walk along p ends at a path of the mask (at p or at one of its prefixes) *)
Fixpoint leaf_at (m : nmask) (p : path) : Prop :=
  match p with
  | [] => False
  | k :: r =>
      match nm_lookup k m with
      | None => False
      | Some sub => if nm_empty sub then True else leaf_at sub r
      end
  end.

Lemma leaf_at_nonnil : forall m p, leaf_at m p -> p <> [].
Proof. intros m [|k r] H; [destruct H|discriminate]. Qed.

Theorem prune_clears : forall p m v v',
  nm_prune m v = Some v' -> is_msg v = true -> leaf_at m p -> get_at p v' = None.
Proof.
  induction p as [|k r IH]; intros m v v' Hp Hm Hl; [destruct Hl|].
  destruct v as [s|f|l|kv]; try discriminate.
  destruct (nm_empty m) eqn:Em.
  { simpl in Hl. unfold nm_lookup in Hl. destruct m as [[|c cs]]; [simpl in Hl; destruct Hl|discriminate]. }
  simpl get_at. rewrite (prune_lookup _ _ _ Hp Em k). simpl in Hl.
  destruct (alookup k f) as [x|] eqn:Ex; [|reflexivity].
  destruct (nm_lookup k m) as [sub|] eqn:El; [|destruct Hl].
  destruct (nm_empty sub) eqn:Es; [reflexivity|].
  destruct x as [s|fx|l|kv]; unfold prune_field.
  - apply get_at_nonmsg; [eapply leaf_at_nonnil; eauto|reflexivity].
  - destruct (nm_prune sub (VM fx)) as [x'|] eqn:Ep; [|reflexivity]. eapply IH; eauto.
  - destruct (otraverse _ l); simpl; [|reflexivity]. apply get_at_nonmsg; [eapply leaf_at_nonnil; eauto|reflexivity].
  - reflexivity.
Qed.

(* a path of the list leads to a leaf of the nested mask of the (normalized) list *)
Lemma leaf_at_ins_all : forall p ps, prefix_free ps -> In p ps -> p <> [] -> leaf_at (ins_all ps (NM [])) p.
Proof.
  induction p as [|k r IH]; intros ps Hpf Hin Hne; [congruence|].
  simpl. rewrite nm_lookup_ins_all.
  assert (In r (deriv k ps)) as Hr by (apply in_deriv; exact Hin).
  destruct (deriv k ps) as [|t d] eqn:Ed; [destruct Hr|]. rewrite <- Ed in *.
  rewrite nm_empty_ins_all. simpl nm_empty. simpl andb.
  destruct (forallb is_nil (deriv k ps)) eqn:En; auto.
  apply IH; auto.
  - apply prefix_free_deriv. exact Hpf.
  - intros ->. (* r = []: then (prefix-free) every remainder is [] *)
    assert (forallb is_nil (deriv k ps) = true) as C.
    { apply all_nil_iff. apply prefix_free_nil; auto. apply prefix_free_deriv. exact Hpf. }
    congruence.
Qed.

Lemma leaf_at_extend : forall p m r, leaf_at m p -> leaf_at m (p ++ r).
Proof.
  induction p as [|k p IH]; intros m r H; [destruct H|]. simpl in *.
  destruct (nm_lookup k m) as [sub|]; auto. destruct (nm_empty sub); auto.
Qed.

Lemma merge_reset_stage : forall sch ty um wm rs dst src post src',
  merge sch ty um wm (Some rs) dst src = MOk post src' ->
  um <> Some [] -> wm <> Some [] ->
  exists d3, nm_prune (trie rs) d3 = Some post /\ (is_msg dst = true -> is_msg src = true -> is_msg d3 = true).
Proof.
  intros sch ty um wm rs dst src post src' H Hu Hw.
  unfold merge, merge_gen in H. cbv zeta in H. fold (trie rs) in H.
  assert (forall d1 s1, match nm_filter (nested_of_paths (normalize_paths (mask_paths um))) s1 with
                        | Some src2 =>
                            match prune_empty true (nested_of_paths (normalize_paths (mask_paths um))) (proto_merge sch ty d1 src2) src2 with
                            | Some dst3 => match nm_prune (trie rs) dst3 with Some dst4 => MOk dst4 src2 | None => MPanic end
                            | None => MPanic
                            end
                        | None => MPanic
                        end = MOk post src' ->
                        exists d3, nm_prune (trie rs) d3 = Some post /\ (is_msg d1 = true -> is_msg s1 = true -> is_msg d3 = true)) as Hcore.
  { intros d1 s1 Hc. destruct (nm_filter _ s1) as [s2|] eqn:Ef; [|discriminate].
    destruct (prune_empty true _ (proto_merge sch ty d1 s2) s2) as [d3|] eqn:Ep; [|discriminate].
    destruct (nm_prune (trie rs) d3) as [d4|] eqn:Er; inversion Hc. subst. exists d3. split; auto.
    intros Hd1 Hs1. destruct s1 as [|f1| |]; try discriminate. destruct (nm_filter_is_msg _ _ _ Ef) as [f2 ->].
    destruct d1 as [|fd| |]; try discriminate. rewrite proto_merge_fields, prune_empty_fields in Ep.
    destruct (otraverse _ _) in Ep; inversion Ep. reflexivity. }
  destruct wm as [[|w ws]|]; [congruence| |].
  - destruct (nm_filter (nested_of_paths (normalize_paths (w :: ws))) src) as [s1|] eqn:E1; [|discriminate].
    destruct um as [[|u us]|]; [congruence| |].
    + destruct (Hcore dst s1 H) as [d3 [A B]]. exists d3. split; auto. intros Hd Hsm. apply B; auto.
      destruct src; try discriminate. destruct (nm_filter_is_msg _ _ _ E1) as [? ->]. reflexivity.
    + destruct (nm_prune (nested_of_paths (normalize_paths (w :: ws))) dst) as [d1|] eqn:Ed; [|discriminate].
      destruct (Hcore d1 s1 H) as [d3 [A B]]. exists d3. split; auto. intros Hd Hsm. apply B.
      * destruct dst as [|fd| |]; try discriminate. rewrite nm_prune_fields in Ed.
        destruct (nm_empty _); [inversion Ed; reflexivity|]. destruct (otraverse _ fd); inversion Ed. reflexivity.
      * destruct src; try discriminate. destruct (nm_filter_is_msg _ _ _ E1) as [? ->]. reflexivity.
  - rewrite nm_filter_empty_mask in H.
    destruct um as [[|u us]|]; [congruence| |].
    + destruct (Hcore dst src H) as [d3 [A B]]. eauto.
    + destruct (Hcore (VM []) src H) as [d3 [A B]]. exists d3. split; auto.
Qed.

Theorem reset_cleared : forall sch ty um wm rs dst src post src' p r,
  schema_names_ok sch = true -> fm_valid sch ty rs = true ->
  is_msg dst = true -> is_msg src = true ->
  merge sch ty um wm (Some rs) dst src = MOk post src' ->
  um <> Some [] -> wm <> Some [] ->
  In p rs -> get_at (p ++ r) post = None.
Proof.
  intros sch ty um wm rs dst src post src' p r Hs Hv Hd Hsm H Hu Hw Hin.
  destruct (merge_reset_stage _ _ _ _ _ _ _ _ _ H Hu Hw) as [d3 [Hp Hm3]].
  destruct (normalize_covers rs p Hin) as [q [Hq Hpre]].
  apply is_prefix_app in Hpre. destruct Hpre as [r0 ->]. rewrite <- app_assoc.
  eapply prune_clears; eauto. apply leaf_at_extend.
  unfold trie. rewrite nested_of_paths_ins.
  assert (map drop_empty (normalize_paths rs) = normalize_paths rs) as Hde.
  { rewrite <- (map_id (normalize_paths rs)) at 2. apply map_ext_in. intros p0 Hp0.
    apply drop_empty_id. apply normalize_subset in Hp0. destruct (fm_valid_in _ _ _ _ Hv Hp0).
    eapply valid_segs_ok; eauto. }
  rewrite Hde. apply leaf_at_ins_all; auto.
  - apply normalize_prefix_free.
  - apply normalize_subset in Hq. destruct (fm_valid_in _ _ _ _ Hv Hq). auto.
Qed.

(* ------------------------------------------------------------------------------------------- *)
(* INSIDE: what a position named by the update mask holds after the core                        *)

Lemma flat_map_id : forall {A} (l : list A), flat_map (fun x => [x]) l = l.
Proof. induction l; simpl; congruence. Qed.

Lemma prune_empty_nil : forall fixed d s, prune_empty fixed (NM []) d s = Some d.
Proof.
  intros fixed [x|df|l|kv] s; try reflexivity. rewrite prune_empty_fields.
  rewrite (otraverse_flat_map _ (fun kd => [kd])).
  - rewrite flat_map_id. reflexivity.
  - intros [k d] _. reflexivity.
Qed.

Lemma nm_empty_eq : forall m, nm_empty m = true -> m = NM [].
Proof. intros [[|c cs]] H; [reflexivity|discriminate]. Qed.

(* the walk along p ends exactly at p *)
Fixpoint leaf_exact (m : nmask) (p : path) : Prop :=
  match p with
  | [] => False
  | k :: r =>
      match nm_lookup k m with
      | None => False
      | Some sub => if nm_empty sub then r = [] else leaf_exact sub r
      end
  end.

Lemma leaf_exact_leaf_at : forall p m, leaf_exact m p -> leaf_at m p.
Proof.
  induction p as [|k r IH]; intros m H; simpl in *; auto.
  destruct (nm_lookup k m) as [sub|]; auto. destruct (nm_empty sub); auto.
Qed.

(* what FieldMask update semantics puts at p: nothing if the written message has nothing there,
   else the written value merged onto the old one (scalars replace, lists append, maps overwrite per
   key, messages merge); missing parents of the old message count as empty *)
Fixpoint expect_at (sch : schema) (ty : string) (p : path) (dst src : value) : option value :=
  match p with
  | [] => None
  | k :: r =>
      match vget k src with
      | None => None
      | Some x =>
          match r with
          | [] => Some (merge_val sch ty k (vget k dst) x)
          | _ :: _ =>
              expect_at sch (sub_type sch ty k) r
                        (match vget k dst with Some (VM fd) => VM fd | _ => VM [] end) x
          end
      end
  end.

Theorem inside_tail : forall p sch ty m df sf post,
  tailf true sch ty m (VM df) (VM sf) = Some post ->
  wfv (VM df) = true -> wfv (VM sf) = true -> rsafe_t m (VM sf) = true ->
  nm_empty m = false -> leaf_exact m p ->
  get_at p post = expect_at sch ty p (VM df) (VM sf).
Proof.
  induction p as [|k r IH]; intros sch ty m df sf post Ht Hwd Hws Hrs Hne Hle; [destruct Hle|].
  assert (exists s2f, nm_filter m (VM sf) = Some (VM s2f)) as [s2f Hf].
  { unfold tailf in Ht. destruct (nm_filter m (VM sf)) as [s2|] eqn:Ef; [|discriminate].
    destruct (nm_filter_is_msg _ _ _ Ef) as [s2f ->]. eauto. }
  simpl get_at.
  rewrite (tail_lookup _ _ _ _ _ _ _ _ Hf Ht (wfv_nodup _ Hwd) (wfv_nodup _ Hws) k).
  pose proof (proto_merge_lookup sch ty df s2f k) as Hl.
  assert (proto_merge sch ty (VM df) (VM s2f) = VM (fields_of (proto_merge sch ty (VM df) (VM s2f)))) as HP.
  { rewrite proto_merge_fields. reflexivity. }
  assert (prune_empty true m (proto_merge sch ty (VM df) (VM s2f)) (VM s2f) = Some post) as Hpe.
  { unfold tailf in Ht. rewrite Hf in Ht. exact Ht. }
  remember (proto_merge sch ty (VM df) (VM s2f)) as P eqn:EP. clear EP. rewrite HP in Hpe.
  unfold vget in Hl at 1.
  pose proof (filter_lookup _ _ _ Hf Hne k) as Hfl. unfold vget in Hfl at 1. simpl fields_of in Hfl.
  simpl in Hle. simpl expect_at. unfold vget. simpl fields_of.
  destruct (nm_lookup k m) as [sub|] eqn:El; [|destruct Hle].
  destruct (nm_empty sub) eqn:Esub.
  - (* p ends here *)
    subst r. apply nm_empty_eq in Esub. subst sub. unfold filter_field in Hfl. simpl nm_empty in Hfl. cbv iota in Hfl.
    destruct (alookup k sf) as [x|] eqn:Es.
    + rewrite Hfl.
      assert (match alookup k df with
              | Some d => Some (merge_val sch ty k (Some d) x)
              | None => Some x
              end = Some (merge_val sch ty k (alookup k df) x)) as Em.
      { destruct (alookup k df); reflexivity. }
      rewrite Em. rewrite prune_empty_nil. destruct (is_msg (merge_val sch ty k (alookup k df) x)); reflexivity.
    + rewrite Hfl. simpl negb. rewrite andb_false_r. simpl.
      destruct (alookup k df) as [d|]; [destruct (cleared_by sch ty s2f k)|]; reflexivity.
  - (* p continues below k *)
    simpl negb. simpl andb.
    assert (r <> []) as Hr by (eapply leaf_at_nonnil; eapply leaf_exact_leaf_at; eauto).
    destruct (alookup k s2f) as [x'|] eqn:Es2.
    + destruct (alookup k sf) as [x|] eqn:Es; [|discriminate].
      destruct (rsafe_t_field _ _ _ _ _ Hrs Es El Esub) as [Hxm Hxs].
      destruct x as [|fx| |]; try discriminate.
      unfold filter_field in Hfl. rewrite Esub in Hfl. symmetry in Hfl.
      destruct (nm_filter_is_msg _ _ _ Hfl) as [fx' ->].
      set (dk := match alookup k df with Some (VM fd) => fd | _ => [] end).
      assert (match alookup k df with
              | Some d => Some (merge_val sch ty k (Some d) (VM fx'))
              | None => Some (VM fx')
              end = Some (proto_merge sch (sub_type sch ty k) (VM dk) (VM fx'))) as Em.
      { unfold dk, merge_val. destruct (alookup k df) as [[| fd | |]|]; try reflexivity.
        rewrite merge_into_empty. reflexivity. }
      rewrite Em in *.
      assert (is_msg (proto_merge sch (sub_type sch ty k) (VM dk) (VM fx')) = true) as Hmm.
      { rewrite proto_merge_fields. reflexivity. }
      rewrite Hmm.
      pose proof (prune_empty_entry_ok _ _ _ _ _ k _ Hpe Hl) as Hok. rewrite El in Hok.
      unfold vget in Hok. simpl fields_of in Hok. rewrite Es2 in Hok. specialize (Hok Hmm).
      destruct (prune_empty true sub (proto_merge sch (sub_type sch ty k) (VM dk) (VM fx')) (VM fx')) as [pk|] eqn:Ep;
        [|congruence].
      assert (tailf true sch (sub_type sch ty k) sub (VM dk) (VM fx) = Some pk) as Ht'.
      { unfold tailf. rewrite Hfl. exact Ep. }
      rewrite (IH _ _ _ _ _ _ Ht'); auto.
      * destruct r; [congruence|]. unfold dk. destruct (alookup k df) as [[| fd | |]|]; reflexivity.
      * unfold dk. destruct (alookup k df) as [[| fd | |]|] eqn:Ed; try reflexivity.
        exact (wfv_field df k _ Hwd Ed).
      * exact (wfv_field sf k _ Hws Es).
    + (* the written message has no k: everything the mask names below k is cleared *)
      assert (alookup k sf = None) as Es.
      { destruct (alookup k sf) as [x|] eqn:Es; auto.
        destruct (rsafe_t_field _ _ _ _ _ Hrs Es El Esub) as [Hxm _]. destruct x as [|fx| |]; try discriminate.
        unfold filter_field in Hfl. rewrite Esub in Hfl.
        (* the filter of the sub-message succeeded, so the entry would be there *)
        exfalso. rewrite nm_filter_fields, Hne in Hf.
        destruct (otraverse _ sf) as [l'|] eqn:Eo; [|discriminate].
        apply (otraverse_some_all _ _ _ Eo (k, VM fx) (alookup_in _ _ _ Es)).
        cbv beta iota. rewrite El. unfold filter_field. rewrite Esub. rewrite <- Hfl. reflexivity. }
      rewrite Es.
      destruct (match alookup k df with
                | Some d => if cleared_by sch ty s2f k then None else Some d
                | None => None
                end) as [d2|] eqn:Ed2; [|reflexivity].
      destruct (is_msg d2) eqn:Edm; [|reflexivity].
      pose proof (prune_empty_entry_ok _ _ _ _ _ k _ Hpe Hl) as Hok. rewrite El in Hok.
      unfold vget in Hok. simpl fields_of in Hok. rewrite Es2, Esub, Edm in Hok. specialize (Hok eq_refl).
      destruct (nm_prune sub d2) as [d'|] eqn:Ep; [|congruence].
      eapply prune_clears; eauto. apply leaf_exact_leaf_at. exact Hle.
Qed.

(* expect_at, read through get_at *)
Fixpoint parent_type (sch : schema) (ty : string) (p : path) : string :=
  match p with
  | [] => ty
  | k :: r => match r with [] => ty | _ :: _ => parent_type sch (sub_type sch ty k) r end
  end.
Fixpoint last_seg (p : path) : string :=
  match p with
  | [] => ""
  | k :: r => match r with [] => k | _ :: _ => last_seg r end
  end.

Lemma get_at_single : forall k v, get_at [k] v = vget k v.
Proof. intros. simpl. destruct (vget k v); reflexivity. Qed.

Theorem expect_at_spec : forall p sch ty dst src, p <> [] ->
  expect_at sch ty p dst src =
  match get_at p src with
  | None => None
  | Some x => Some (merge_val sch (parent_type sch ty p) (last_seg p) (get_at p dst) x)
  end.
Proof.
  induction p as [|k r IH]; intros sch ty dst src Hne; [congruence|].
  destruct r as [|k' r'].
  - simpl expect_at. rewrite !get_at_single. simpl. destruct (vget k src); reflexivity.
  - change (expect_at sch ty (k :: k' :: r') dst src)
      with (match vget k src with
            | None => None
            | Some x => expect_at sch (sub_type sch ty k) (k' :: r')
                                  (match vget k dst with Some (VM fd) => VM fd | _ => VM [] end) x
            end).
    change (get_at (k :: k' :: r') src) with (match vget k src with Some x => get_at (k' :: r') x | None => None end).
    destruct (vget k src) as [x|]; [|reflexivity].
    rewrite IH by discriminate.
    assert (get_at (k' :: r') (match vget k dst with Some (VM fd) => VM fd | _ => VM [] end)
            = get_at (k :: k' :: r') dst) as E.
    { change (get_at (k :: k' :: r') dst) with (match vget k dst with Some y => get_at (k' :: r') y | None => None end).
      destruct (vget k dst) as [[| fd | |]|]; reflexivity. }
    rewrite E. reflexivity.
Qed.

(* Filter does not disturb what lies at or below one of its paths *)
Theorem expect_filter : forall p sch ty mW d sf sf1,
  nm_filter mW (VM sf) = Some (VM sf1) -> nm_empty mW = false -> leaf_at mW p ->
  expect_at sch ty p d (VM sf1) = expect_at sch ty p d (VM sf).
Proof.
  induction p as [|k r IH]; intros sch ty mW d sf sf1 Hf Hne Hl; [destruct Hl|].
  pose proof (filter_lookup _ _ _ Hf Hne k) as Hfl. simpl in Hl.
  destruct (nm_lookup k mW) as [sub|] eqn:El; [|destruct Hl].
  simpl expect_at. rewrite Hfl. change (vget k (VM sf)) with (alookup k sf).
  destruct (alookup k sf) as [x|] eqn:Es; [|reflexivity].
  unfold filter_field. destruct (nm_empty sub) eqn:Esub; [reflexivity|].
  assert (r <> []) as Hr by (eapply leaf_at_nonnil; eauto).
  destruct r as [|k' r']; [congruence|].
  destruct x as [s|fx|l|kv].
  - reflexivity.
  - destruct (nm_filter sub (VM fx)) as [x1|] eqn:E1.
    + destruct (nm_filter_is_msg _ _ _ E1) as [fx1 ->]. eapply IH; eauto.
    + exfalso. rewrite nm_filter_fields, Hne in Hf.
      destruct (otraverse _ sf) as [l'|] eqn:Eo; [|discriminate].
      apply (otraverse_some_all _ _ _ Eo (k, VM fx) (alookup_in _ _ _ Es)).
      cbv beta iota. rewrite El. unfold filter_field. rewrite Esub, E1. reflexivity.
  - destruct (otraverse _ l); reflexivity.
  - reflexivity.
Qed.

Lemma leaf_exact_ins_all : forall p ps, prefix_free ps -> In p ps -> p <> [] -> leaf_exact (ins_all ps (NM [])) p.
Proof.
  induction p as [|k r IH]; intros ps Hpf Hin Hne; [congruence|].
  simpl. rewrite nm_lookup_ins_all.
  assert (In r (deriv k ps)) as Hr by (apply in_deriv; exact Hin).
  destruct (deriv k ps) as [|t d] eqn:Ed; [destruct Hr|]. rewrite <- Ed in *.
  rewrite nm_empty_ins_all. simpl nm_empty. simpl andb.
  destruct (forallb is_nil (deriv k ps)) eqn:En.
  - rewrite all_nil_iff in En. auto.
  - apply IH; auto.
    + apply prefix_free_deriv. exact Hpf.
    + intros ->.
      assert (forallb is_nil (deriv k ps) = true) as C.
      { apply all_nil_iff. apply prefix_free_nil; auto. apply prefix_free_deriv. exact Hpf. }
      congruence.
Qed.

Lemma valid_trie_paths : forall sch ty ps,
  schema_names_ok sch = true -> fm_valid sch ty ps = true ->
  trie ps = ins_all (normalize_paths ps) (NM []) /\
  forall p, In p (normalize_paths ps) -> p <> [].
Proof.
  intros sch ty ps Hs Hv. unfold trie. rewrite nested_of_paths_ins.
  assert (forall p, In p (normalize_paths ps) -> p <> [] /\ path_valid sch (Some ty) p = true) as Hp.
  { intros p Hp. apply normalize_subset in Hp. eapply fm_valid_in; eauto. }
  split; [|intros p Hin; apply Hp; exact Hin].
  f_equal. rewrite <- (map_id (normalize_paths ps)) at 2. apply map_ext_in. intros p Hin.
  apply drop_empty_id. eapply valid_segs_ok; eauto. apply Hp. exact Hin.
Qed.

(* INSIDE for FieldUpdater.Merge with a non-empty update mask: at every (normalized) update path the
   result holds what FieldMask update semantics says, unless the reset mask touches it *)
Theorem inside : forall sch ty ups wm rm dst src post src' p,
  schema_names_ok sch = true ->
  conforms sch ty dst = true -> conforms sch ty src = true ->
  fm_valid sch ty ups = true -> ups <> [] ->
  valid_or sch ty wm = true -> all_within (Some ups) wm -> wm <> Some [] ->
  merge sch ty (Some ups) wm rm dst src = MOk post src' ->
  In p (normalize_paths ups) -> outside_p (trie (mask_paths rm)) p ->
  get_at p post = expect_at sch ty p dst src.
Proof.
  intros sch ty ups wm rm dst src post src' p Hs Hcd Hcs Hv Hne Hvw Hwi Hwn H Hin Hor.
  destruct dst as [|df| |]; try discriminate. destruct src as [|sf| |]; try discriminate.
  destruct (valid_trie_facts sch ty ups (VM sf) Hs Hv Hcs) as [Hrs Hte]. specialize (Hte Hne).
  destruct (valid_trie_paths sch ty ups Hs Hv) as [Htrie Hnn].
  assert (leaf_exact (trie ups) p) as Hle.
  { rewrite Htrie. apply leaf_exact_ins_all; auto. apply normalize_prefix_free. }
  pose proof (conforms_wfv _ _ _ Hcd) as Hwd. pose proof (conforms_wfv _ _ _ Hcs) as Hws.
  unfold merge, merge_gen in H. cbv zeta in H. simpl mask_paths in H. fold (trie ups) in H.
  destruct ups as [|u0 us]; [congruence|]. set (ups := u0 :: us) in *.
  (* the common end: core, then reset *)
  assert (forall sf1,
            wfv (VM sf1) = true -> rsafe_t (trie ups) (VM sf1) = true ->
            match nm_filter (trie ups) (VM sf1) with
            | Some src2 =>
                match prune_empty true (trie ups) (proto_merge sch ty (VM df) src2) src2 with
                | Some dst3 =>
                    match rm with
                    | Some rs =>
                        match nm_prune (nested_of_paths (normalize_paths rs)) dst3 with
                        | Some dst4 => MOk dst4 src2
                        | None => MPanic
                        end
                    | None => MOk dst3 src2
                    end
                | None => MPanic
                end
            | None => MPanic
            end = MOk post src' ->
            get_at p post = expect_at sch ty p (VM df) (VM sf1)) as Hcore.
  { intros sf1 Hw1 Hr1 Hc.
    destruct (nm_filter (trie ups) (VM sf1)) as [s2|] eqn:Ef; [|discriminate].
    destruct (prune_empty true (trie ups) (proto_merge sch ty (VM df) s2) s2) as [d3|] eqn:Ep; [|discriminate].
    assert (tailf true sch ty (trie ups) (VM df) (VM sf1) = Some d3) as Ht by (unfold tailf; rewrite Ef; exact Ep).
    rewrite <- (inside_tail p sch ty (trie ups) df sf1 d3 Ht Hwd Hw1 Hr1 Hte Hle).
    destruct rm as [rs|].
    - destruct (nm_prune (nested_of_paths (normalize_paths rs)) d3) as [d4|] eqn:Er; inversion Hc. subst.
      eapply prune_frame; eauto.
    - inversion Hc. reflexivity. }
  destruct wm as [[|w ws]|]; cbv iota beta in H.
  - congruence.
  - destruct (nm_filter (nested_of_paths (normalize_paths (w :: ws))) (VM sf)) as [s1|] eqn:E1; [|discriminate].
    destruct (nm_filter_is_msg _ _ _ E1) as [sf1 ->].
    destruct (filter_preserves _ _ _ E1) as [A B].
    rewrite (Hcore sf1 (A Hws) (B _ Hrs) H).
    (* p lies at or below a writable path *)
    simpl in Hvw.
    destruct (valid_trie_facts sch ty (w :: ws) (VM sf) Hs Hvw Hcs) as [_ HteW]. specialize (HteW ltac:(discriminate)).
    destruct (valid_trie_paths sch ty (w :: ws) Hs Hvw) as [HtrieW HnnW].
    fold (trie (w :: ws)) in E1.
    apply (expect_filter p sch ty (trie (w :: ws)) (VM df) sf sf1 E1 HteW).
    simpl in Hwi. destruct (Hwi p (normalize_subset _ _ Hin)) as [w0 [Hw0 Hpre]].
    destruct (normalize_covers (w :: ws) w0 Hw0) as [w1 [Hw1 Hpre1]].
    pose proof (is_prefix_trans _ _ _ Hpre1 Hpre) as Hpre2.
    apply is_prefix_app in Hpre2. destruct Hpre2 as [r0 ->].
    apply leaf_at_extend. rewrite HtrieW. apply leaf_at_ins_all; auto. apply normalize_prefix_free.
  - rewrite nm_filter_empty_mask in H. apply (Hcore sf Hws Hrs H).
Qed.

(* the readings of expect_at the property names *)
Corollary inside_absent_cleared : forall sch ty p dst src,
  p <> [] -> get_at p src = None -> expect_at sch ty p dst src = None.
Proof. intros. rewrite expect_at_spec by auto. rewrite H0. reflexivity. Qed.

Corollary inside_scalar : forall sch ty p dst src s,
  p <> [] -> get_at p src = Some (VS s) -> expect_at sch ty p dst src = Some (VS s).
Proof.
  intros. rewrite expect_at_spec by auto. rewrite H0. unfold merge_val.
  destruct (get_at p dst) as [[| | |]|]; reflexivity.
Qed.

Corollary inside_list_appended : forall sch ty p dst src l,
  p <> [] -> get_at p src = Some (VL l) ->
  expect_at sch ty p dst src = Some (match get_at p dst with Some (VL dl) => VL (dl ++ l) | _ => VL l end).
Proof.
  intros. rewrite expect_at_spec by auto. rewrite H0. unfold merge_val.
  destruct (get_at p dst) as [[| | |]|]; reflexivity.
Qed.

Corollary inside_map_overlaid : forall sch ty p dst src kv,
  p <> [] -> get_at p src = Some (VMap kv) ->
  expect_at sch ty p dst src = Some (match get_at p dst with Some (VMap dkv) => VMap (merge_map dkv kv) | _ => VMap kv end).
Proof.
  intros. rewrite expect_at_spec by auto. rewrite H0. unfold merge_val.
  destruct (get_at p dst) as [[| | |]|]; reflexivity.
Qed.

Corollary inside_message_merged : forall sch ty p dst src f,
  p <> [] -> get_at p src = Some (VM f) ->
  expect_at sch ty p dst src =
  Some (match get_at p dst with
        | Some (VM fd) => proto_merge sch (sub_type sch (parent_type sch ty p) (last_seg p)) (VM fd) (VM f)
        | Some _ => proto_merge sch (sub_type sch (parent_type sch ty p) (last_seg p)) (VM []) (VM f)
        | None => VM f
        end).
Proof.
  intros. rewrite expect_at_spec by auto. rewrite H0. unfold merge_val.
  destruct (get_at p dst) as [[| | |]|]; reflexivity.
Qed.

(* nil update mask on a resource where every field is writable: the stored message becomes the written
   one (minus the reset fields) *)
Theorem nil_masks_replace : forall sch ty dst sf,
  merge sch ty None None None dst (VM sf) = MOk (VM sf) (VM sf).
Proof.
  intros. unfold merge, merge_gen. cbv zeta. simpl mask_paths.
  change (nested_of_paths (normalize_paths [])) with (NM []).
  rewrite !nm_filter_empty_mask. rewrite merge_into_empty, prune_empty_nil. reflexivity.
Qed.

Theorem nil_masks_replace_reset : forall sch ty rs dst sf post src',
  merge sch ty None None (Some rs) dst (VM sf) = MOk post src' ->
  nm_prune (trie rs) (VM sf) = Some post.
Proof.
  intros sch ty rs dst sf post src' H. unfold merge, merge_gen in H. cbv zeta in H. simpl mask_paths in H.
  change (nested_of_paths (normalize_paths [])) with (NM []) in H.
  rewrite !nm_filter_empty_mask in H. rewrite merge_into_empty, prune_empty_nil in H. fold (trie rs) in H.
  destruct (nm_prune (trie rs) (VM sf)); inversion H. reflexivity.
Qed.

(* ------------------------------------------------------------------------------------------- *)
(* NIL update mask with a writable mask: dst is pruned to the writable paths, then the            *)
(* writable-filtered src is merged in                                                             *)

(* Filter keeps what lies at or below one of its paths *)
Theorem filter_keeps : forall p m sf s1f,
  nm_filter m (VM sf) = Some (VM s1f) -> nm_empty m = false -> leaf_at m p ->
  get_at p (VM s1f) = get_at p (VM sf).
Proof.
  induction p as [|k r IH]; intros m sf s1f Hf Hne Hl; [destruct Hl|].
  pose proof (filter_lookup _ _ _ Hf Hne k) as Hfl. simpl in Hl.
  destruct (nm_lookup k m) as [sub|] eqn:El; [|destruct Hl].
  simpl get_at. rewrite Hfl. change (vget k (VM sf)) with (alookup k sf).
  destruct (alookup k sf) as [x|] eqn:Es; [|reflexivity].
  unfold filter_field. destruct (nm_empty sub) eqn:Esub; [reflexivity|].
  assert (r <> []) as Hr by (eapply leaf_at_nonnil; eauto).
  destruct x as [s|fx|l|kv].
  - reflexivity.
  - destruct (nm_filter sub (VM fx)) as [x1|] eqn:E1.
    + destruct (nm_filter_is_msg _ _ _ E1) as [fx1 ->]. eapply IH; eauto.
    + exfalso. rewrite nm_filter_fields, Hne in Hf.
      destruct (otraverse _ sf) as [l'|] eqn:Eo; [|discriminate].
      apply (otraverse_some_all _ _ _ Eo (k, VM fx) (alookup_in _ _ _ Es)).
      cbv beta iota. rewrite El. unfold filter_field. rewrite Esub, E1. reflexivity.
  - destruct (otraverse _ l); simpl; rewrite ?get_at_nonmsg; auto.
  - simpl. rewrite get_at_nonmsg; auto.
Qed.

Lemma get_at_cons : forall k r v, get_at (k :: r) v = match vget k v with Some x => get_at r x | None => None end.
Proof. reflexivity. Qed.

(* merging into a message that has nothing at p puts there exactly what src has at p *)
Theorem merge_at_fresh : forall p sch ty df sf,
  p <> [] -> get_at p (VM df) = None ->
  get_at p (proto_merge sch ty (VM df) (VM sf)) = get_at p (VM sf).
Proof.
  induction p as [|k r IH]; intros sch ty df sf Hne Hd; [congruence|].
  rewrite get_at_cons in Hd. rewrite !get_at_cons. rewrite proto_merge_lookup. change (vget k (VM sf)) with (alookup k sf).
  change (vget k (VM df)) with (alookup k df) in Hd.
  destruct (alookup k df) as [d|] eqn:Ed; destruct (alookup k sf) as [x|] eqn:Es; try reflexivity.
  - destruct r as [|k' r']; [discriminate|].
    unfold merge_val.
    destruct x as [s|fx|l|kv]; destruct d as [sd|fd|ld|kd]; try reflexivity;
      try (rewrite merge_into_empty; reflexivity).
    apply IH; [discriminate|exact Hd].
  - destruct (cleared_by sch ty sf k); [reflexivity|exact Hd].
Qed.

(* merging a message filtered to a mask leaves alone what the mask does not reach *)
Theorem merge_filtered_frame : forall q sch ty m df sf s1f,
  nm_filter m (VM sf) = Some (VM s1f) -> nm_empty m = false -> rsafe_t m (VM sf) = true ->
  outside_t sch ty m q ->
  get_at q (proto_merge sch ty (VM df) (VM s1f)) = get_at q (VM df).
Proof.
  induction q as [|k r IH]; intros sch ty m df sf s1f Hf Hne Hrs Ho; [destruct Ho|].
  simpl in Ho. destruct Ho as [Hns Ho].
  rewrite !get_at_cons. rewrite proto_merge_lookup. rewrite (cleared_false _ _ _ _ _ _ Hf Hne Hns).
  pose proof (filter_lookup _ _ _ Hf Hne k) as Hfl. unfold vget in Hfl at 1. simpl fields_of in Hfl.
  change (vget k (VM df)) with (alookup k df).
  destruct (nm_lookup k m) as [sub|] eqn:El.
  - destruct Ho as [Hsne Ho].
    assert (r <> []) as Hr by (eapply outside_p_nonnil; eapply outside_t_p; eauto).
    destruct (alookup k sf) as [x|] eqn:Es.
    + destruct (rsafe_t_field _ _ _ _ _ Hrs Es El Hsne) as [Hxm Hxs].
      destruct x as [|fx| |]; try discriminate.
      unfold filter_field in Hfl. rewrite Hsne in Hfl.
      destruct (nm_filter sub (VM fx)) as [x1|] eqn:E1.
      * destruct (nm_filter_is_msg _ _ _ E1) as [fx1 ->]. rewrite Hfl.
        destruct (alookup k df) as [[| fd | |]|] eqn:Ed; unfold merge_val.
        -- rewrite (IH _ _ _ [] _ _ E1 Hsne Hxs Ho). destruct r; [congruence|reflexivity].
        -- apply (IH _ _ _ fd _ _ E1 Hsne Hxs Ho).
        -- rewrite (IH _ _ _ [] _ _ E1 Hsne Hxs Ho). destruct r; [congruence|reflexivity].
        -- rewrite (IH _ _ _ [] _ _ E1 Hsne Hxs Ho). destruct r; [congruence|reflexivity].
        -- rewrite <- (merge_into_empty sch (sub_type sch ty k) fx1).
           rewrite (IH _ _ _ [] _ _ E1 Hsne Hxs Ho). destruct r; [congruence|reflexivity].
      * rewrite Hfl. destruct (alookup k df); reflexivity.
    + rewrite Hfl. destruct (alookup k df); reflexivity.
  - rewrite Hfl. destruct (alookup k df); reflexivity.
Qed.

Lemma nm_prune_is_msg : forall m f v', nm_prune m (VM f) = Some v' -> exists f', v' = VM f'.
Proof.
  intros m f v' H. rewrite nm_prune_fields in H. destruct (nm_empty m); [inversion H; eauto|].
  destruct (otraverse _ f); inversion H. eauto.
Qed.

Lemma merge_nil_update_stages : forall sch ty w ws rm dst sf post src',
  merge sch ty None (Some (w :: ws)) rm dst (VM sf) = MOk post src' ->
  exists s1f d1,
    nm_filter (trie (w :: ws)) (VM sf) = Some (VM s1f) /\
    nm_prune (trie (w :: ws)) dst = Some d1 /\
    match rm with
    | None => post = proto_merge sch ty d1 (VM s1f)
    | Some rs => nm_prune (trie rs) (proto_merge sch ty d1 (VM s1f)) = Some post
    end.
Proof.
  intros sch ty w ws rm dst sf post src' H.
  unfold merge, merge_gen in H. cbv zeta in H. simpl mask_paths in H. cbv iota beta in H.
  change (nested_of_paths (normalize_paths [])) with (NM []) in H. fold (trie (w :: ws)) in H.
  destruct (nm_filter (trie (w :: ws)) (VM sf)) as [s1|] eqn:E1; [|discriminate].
  destruct (nm_filter_is_msg _ _ _ E1) as [s1f ->].
  destruct (nm_prune (trie (w :: ws)) dst) as [d1|] eqn:Ed; [|discriminate].
  rewrite nm_filter_empty_mask, prune_empty_nil in H.
  exists s1f, d1. repeat split; auto.
  destruct rm as [rs|].
  - fold (trie rs) in H. destruct (nm_prune (trie rs) _) as [d4|]; inversion H. reflexivity.
  - inversion H. reflexivity.
Qed.

(* FRAME, nil update mask: what the writable mask (and the reset mask) does not reach is unchanged *)
Theorem frame_nil_update : forall sch ty ws rm dst src post src',
  schema_names_ok sch = true ->
  conforms sch ty dst = true -> conforms sch ty src = true ->
  fm_valid sch ty ws = true -> ws <> [] ->
  merge sch ty None (Some ws) rm dst src = MOk post src' ->
  forall q, outside_t sch ty (trie ws) q -> outside_p (trie (mask_paths rm)) q ->
  get_at q post = get_at q dst.
Proof.
  intros sch ty ws rm dst src post src' Hs Hcd Hcs Hv Hne H q Ho Hor.
  destruct dst as [|df| |]; try discriminate. destruct src as [|sf| |]; try discriminate.
  destruct ws as [|w ws]; [congruence|].
  destruct (valid_trie_facts sch ty (w :: ws) (VM sf) Hs Hv Hcs) as [Hrs Hte]. specialize (Hte Hne).
  destruct (merge_nil_update_stages _ _ _ _ _ _ _ _ _ H) as [s1f [d1 [Hf [Hp Hr]]]].
  destruct (nm_prune_is_msg _ _ _ Hp) as [d1f ->].
  assert (get_at q (proto_merge sch ty (VM d1f) (VM s1f)) = get_at q (VM df)) as E.
  { rewrite (merge_filtered_frame q sch ty _ d1f sf s1f Hf Hte Hrs Ho).
    eapply prune_frame; eauto. eapply outside_t_p; eauto. }
  destruct rm as [rs|].
  - rewrite <- E. eapply prune_frame; eauto.
  - subst post. exact E.
Qed.

(* INSIDE, nil update mask: every (normalized) writable path holds exactly what the written message
   has there — nothing if it has nothing — unless the reset mask touches it *)
Theorem inside_nil_update : forall sch ty ws rm dst src post src' p,
  schema_names_ok sch = true ->
  conforms sch ty dst = true -> conforms sch ty src = true ->
  fm_valid sch ty ws = true ->
  merge sch ty None (Some ws) rm dst src = MOk post src' ->
  In p (normalize_paths ws) -> outside_p (trie (mask_paths rm)) p ->
  get_at p post = get_at p src.
Proof.
  intros sch ty ws rm dst src post src' p Hs Hcd Hcs Hv H Hin Hor.
  destruct dst as [|df| |]; try discriminate. destruct src as [|sf| |]; try discriminate.
  destruct ws as [|w ws]; [destruct Hin|].
  destruct (valid_trie_facts sch ty (w :: ws) (VM sf) Hs Hv Hcs) as [Hrs Hte]. specialize (Hte ltac:(discriminate)).
  destruct (valid_trie_paths sch ty (w :: ws) Hs Hv) as [Htrie Hnn].
  assert (leaf_at (trie (w :: ws)) p) as Hl.
  { rewrite Htrie. apply leaf_at_ins_all; auto. apply normalize_prefix_free. }
  destruct (merge_nil_update_stages _ _ _ _ _ _ _ _ _ H) as [s1f [d1 [Hf [Hp Hr]]]].
  destruct (nm_prune_is_msg _ _ _ Hp) as [d1f ->].
  assert (get_at p (proto_merge sch ty (VM d1f) (VM s1f)) = get_at p (VM sf)) as E.
  { rewrite merge_at_fresh.
    - eapply filter_keeps; eauto.
    - apply Hnn. exact Hin.
    - eapply prune_clears; eauto. }
  destruct rm as [rs|].
  - rewrite <- E. eapply prune_frame; eauto.
  - subst post. exact E.
Qed.

(* ------------------------------------------------------------------------------------------- *)
(* NO PANIC: every pass of Merge succeeds on messages whose masked routes pass through messages  *)

Lemma rsafe_t_VM : forall m f,
  rsafe_t m (VM f) =
  forallb (fun kx : string * value =>
             let '(k, x) := kx in
             match nm_lookup k m with
             | None => true
             | Some sub => nm_empty sub || (is_msg x && rsafe_t sub x)
             end) f.
Proof. reflexivity. Qed.

Lemma rsafe_t_empty : forall m v, nm_empty m = true -> rsafe_t m v = true.
Proof.
  intros m v H. apply nm_empty_eq in H. subst m. destruct v as [|f| |]; try reflexivity.
  rewrite rsafe_t_VM. apply forallb_forall. intros [k x] _. reflexivity.
Qed.

Lemma rsafe_t_sub : forall m f k x sub,
  rsafe_t m (VM f) = true -> In (k, x) f -> nm_lookup k m = Some sub ->
  rsafe_t sub x = true /\ (nm_empty sub = false -> is_msg x = true).
Proof.
  intros m f k x sub H Hin Hm. rewrite rsafe_t_VM, forallb_forall in H. specialize (H (k, x) Hin).
  simpl in H. rewrite Hm in H. destruct (nm_empty sub) eqn:E.
  - split; [apply rsafe_t_empty; exact E|discriminate].
  - simpl in H. apply andb_true_iff in H. tauto.
Qed.

Theorem filter_total_t : forall v m, rsafe_t m v = true -> exists r, nm_filter m v = Some r.
Proof.
  induction v as [s|fs IH|l IH|kv IH] using value_ind'; intros m Hrs; try (simpl; eauto; fail).
  rewrite nm_filter_fields. destruct (nm_empty m); [eauto|].
  match goal with |- exists r, option_map VM ?o = Some r => assert (exists r, o = Some r) as [r Hr] end.
  2:{ rewrite Hr. simpl. eauto. }
  apply otraverse_total. intros [k x] Hin. cbv beta iota.
  destruct (nm_lookup k m) as [sub|] eqn:El; [|eauto].
  destruct (rsafe_t_sub _ _ _ _ _ Hrs Hin El) as [Hsx Hmx].
  unfold filter_field. destruct (nm_empty sub) eqn:Es; [simpl; eauto|].
  specialize (Hmx eq_refl). destruct x as [|fx| |]; try discriminate.
  rewrite Forall_forall in IH. destruct (IH (k, VM fx) Hin sub Hsx) as [r Hr]. cbn [snd] in Hr. rewrite Hr. simpl. eauto.
Qed.

Theorem prune_total_t : forall v m, rsafe_t m v = true -> exists r, nm_prune m v = Some r.
Proof.
  induction v as [s|fs IH|l IH|kv IH] using value_ind'; intros m Hrs; try (simpl; eauto; fail).
  rewrite nm_prune_fields. destruct (nm_empty m); [eauto|].
  match goal with |- exists r, option_map VM ?o = Some r => assert (exists r, o = Some r) as [r Hr] end.
  2:{ rewrite Hr. simpl. eauto. }
  apply otraverse_total. intros [k x] Hin. cbv beta iota.
  destruct (nm_lookup k m) as [sub|] eqn:El; [|eauto].
  destruct (rsafe_t_sub _ _ _ _ _ Hrs Hin El) as [Hsx Hmx].
  destruct (nm_empty sub) eqn:Es; [eauto|].
  specialize (Hmx eq_refl). destruct x as [|fx| |]; try discriminate. unfold prune_field.
  rewrite Forall_forall in IH. destruct (IH (k, VM fx) Hin sub Hsx) as [r Hr]. cbn [snd] in Hr. rewrite Hr. simpl. eauto.
Qed.

Theorem prune_empty_total : forall d fixed m s, rsafe_t m d = true -> exists r, prune_empty fixed m d s = Some r.
Proof.
  induction d as [x|fs IH|l IH|kv IH] using value_ind'; intros fixed m s Hrs; try (simpl; eauto; fail).
  rewrite prune_empty_fields.
  match goal with |- exists r, option_map VM ?o = Some r => assert (exists r, o = Some r) as [r Hr] end.
  2:{ rewrite Hr. simpl. eauto. }
  apply otraverse_total. intros [k d0] Hin. cbv beta iota.
  destruct (nm_lookup k m) as [sub|] eqn:El; [|eauto].
  destruct (rsafe_t_sub _ _ _ _ _ Hrs Hin El) as [Hsx Hmx].
  destruct (vget k s) as [s0|].
  - destruct (is_msg d0); [|eauto].
    rewrite Forall_forall in IH. destruct (IH (k, d0) Hin fixed sub s0 Hsx) as [r Hr]. cbn [snd] in Hr. rewrite Hr. simpl. eauto.
  - destruct (fixed && negb (nm_empty sub) && is_msg d0); [|eauto].
    destruct (prune_total_t d0 sub Hsx) as [r Hr]. rewrite Hr. simpl. eauto.
Qed.

(* ... and every pass keeps that shape, for any other mask *)
Lemma prune_field_cases : forall sub x x',
  prune_field sub x = Some x' ->
  x' = x \/ (is_msg x = true /\ nm_prune sub x = Some x') \/ (is_msg x = false /\ is_msg x' = false).
Proof.
  intros sub x x' H. unfold prune_field in H. destruct x as [s|f|l|kv].
  - inversion H. auto.
  - right. left. auto.
  - right. right. destruct (otraverse _ l); inversion H. auto.
  - discriminate.
Qed.

Definition keeps_rsafe (v v' : value) : Prop := forall m2, rsafe_t m2 v = true -> rsafe_t m2 v' = true.

(* entry-wise criterion: every field of the result comes from a field of the same name whose value it
   refines, shape-wise *)
Lemma keeps_rsafe_fields : forall f f',
  (forall k x', In (k, x') f' -> exists x, In (k, x) f /\ keeps_rsafe x x' /\ (is_msg x = true -> is_msg x' = true)) ->
  keeps_rsafe (VM f) (VM f').
Proof.
  intros f f' H m2 Hrs. rewrite rsafe_t_VM. apply forallb_forall. intros [k x'] Hin.
  destruct (H k x' Hin) as [x [Hx [Hk Hm]]].
  destruct (nm_lookup k m2) as [sub2|] eqn:El; auto.
  destruct (rsafe_t_sub _ _ _ _ _ Hrs Hx El) as [Hsx Hmx].
  destruct (nm_empty sub2) eqn:Es; auto. simpl. rewrite (Hm (Hmx eq_refl)). simpl. apply Hk. exact Hsx.
Qed.

Lemma keeps_rsafe_refl : forall v, keeps_rsafe v v.
Proof. intros v m2 H. exact H. Qed.

Lemma keeps_rsafe_nonmsg : forall x x', is_msg x = false -> is_msg x' = false -> keeps_rsafe x x'.
Proof. intros x x' H H' m2 _. destruct x'; try discriminate; reflexivity. Qed.

Theorem prune_keeps_rsafe : forall v m v', nm_prune m v = Some v' -> keeps_rsafe v v'.
Proof.
  induction v as [s|fs IH|l IH|kv IH] using value_ind'; intros m v' H;
    try (simpl in H; inversion H; apply keeps_rsafe_refl).
  rewrite nm_prune_fields in H. destruct (nm_empty m); [inversion H; apply keeps_rsafe_refl|].
  destruct (otraverse _ fs) as [fs'|] eqn:Eo; [|discriminate]. inversion H. subst v'. clear H.
  apply keeps_rsafe_fields. intros k x' Hin.
  change (exists x, In (fst (k, x'), x) fs /\ keeps_rsafe x (snd (k, x')) /\ (is_msg x = true -> is_msg (snd (k, x')) = true)).
  apply (otraverse_forall _ (fun e : string * value => exists x, In (fst e, x) fs /\ keeps_rsafe x (snd e) /\
                                                         (is_msg x = true -> is_msg (snd e) = true)) _ _ Eo); auto.
  intros [k0 x0] ys Hin0 HF y Hy. cbv beta iota in HF.
  destruct (nm_lookup k0 m) as [sub|].
  - destruct (nm_empty sub); [inversion HF; subst; destruct Hy|].
    destruct (prune_field sub x0) as [x0'|] eqn:Ef; inversion HF. subst ys. destruct Hy as [<-|[]]. simpl.
    exists x0. split; auto.
    destruct (prune_field_cases _ _ _ Ef) as [->|[[Hm Hp]|[Hm Hm']]].
    + split; [apply keeps_rsafe_refl|auto].
    + rewrite Forall_forall in IH. split; [apply (IH (k0, x0) Hin0 _ _ Hp)|].
      intros _. destruct x0; try discriminate. destruct (nm_prune_is_msg _ _ _ Hp) as [? ->]. reflexivity.
    + split; [apply keeps_rsafe_nonmsg; auto|congruence].
  - inversion HF. subst ys. destruct Hy as [<-|[]]. simpl. exists x0. split; auto. split; [apply keeps_rsafe_refl|auto].
Qed.

Lemma prune_empty_is_msg : forall fixed m f s d', prune_empty fixed m (VM f) s = Some d' -> exists f', d' = VM f'.
Proof. intros. rewrite prune_empty_fields in H. destruct (otraverse _ f); inversion H. eauto. Qed.

Theorem prune_empty_keeps_rsafe : forall d fixed m s d', prune_empty fixed m d s = Some d' -> keeps_rsafe d d'.
Proof.
  induction d as [x|fs IH|l IH|kv IH] using value_ind'; intros fixed m s d' H;
    try (simpl in H; inversion H; apply keeps_rsafe_refl).
  rewrite prune_empty_fields in H.
  destruct (otraverse _ fs) as [fs'|] eqn:Eo; [|discriminate]. inversion H. subst d'. clear H.
  apply keeps_rsafe_fields. intros k x' Hin.
  change (exists x, In (fst (k, x'), x) fs /\ keeps_rsafe x (snd (k, x')) /\ (is_msg x = true -> is_msg (snd (k, x')) = true)).
  apply (otraverse_forall _ (fun e : string * value => exists x, In (fst e, x) fs /\ keeps_rsafe x (snd e) /\
                                                         (is_msg x = true -> is_msg (snd e) = true)) _ _ Eo); auto.
  intros [k0 d0] ys Hin0 HF y Hy. cbv beta iota in HF.
  assert (forall z, y = (k0, z) -> keeps_rsafe d0 z -> (is_msg d0 = true -> is_msg z = true) ->
                    exists x, In (fst y, x) fs /\ keeps_rsafe x (snd y) /\ (is_msg x = true -> is_msg (snd y) = true)) as Hdone.
  { intros z -> A B. exists d0. simpl. auto. }
  destruct (nm_lookup k0 m) as [sub|].
  - destruct (vget k0 s) as [s0|].
    + destruct (is_msg d0) eqn:Edm.
      * destruct (prune_empty fixed sub d0 s0) as [z|] eqn:Ep; inversion HF. subst ys. destruct Hy as [<-|[]].
        apply (Hdone z eq_refl).
        -- rewrite Forall_forall in IH. apply (IH (k0, d0) Hin0 _ _ _ _ Ep).
        -- intros _. destruct d0; try discriminate. destruct (prune_empty_is_msg _ _ _ _ _ Ep) as [? ->]. reflexivity.
      * inversion HF. subst ys. destruct Hy as [<-|[]]. apply (Hdone d0 eq_refl); [apply keeps_rsafe_refl|intros H0; try exact H0; congruence].
    + destruct (fixed && negb (nm_empty sub) && is_msg d0) eqn:Ec.
      * destruct (nm_prune sub d0) as [z|] eqn:Ep; inversion HF. subst ys. destruct Hy as [<-|[]].
        apply (Hdone z eq_refl).
        -- eapply prune_keeps_rsafe; eauto.
        -- intros _. apply andb_true_iff in Ec. destruct Ec as [_ Ec]. destruct d0; try discriminate.
           destruct (nm_prune_is_msg _ _ _ Ep) as [? ->]. reflexivity.
      * inversion HF. subst ys. destruct Hy.
  - inversion HF. subst ys. destruct Hy as [<-|[]]. apply (Hdone d0 eq_refl); [apply keeps_rsafe_refl|intros H0; try exact H0; congruence].
Qed.

Theorem merge_keeps_rsafe : forall s sch ty df m2,
  rsafe_t m2 (VM df) = true -> rsafe_t m2 s = true -> is_msg s = true ->
  rsafe_t m2 (proto_merge sch ty (VM df) s) = true.
Proof.
  induction s as [x|sf IH|l IH|kv IH] using value_ind'; intros sch ty df m2 Hd Hs Hm; try discriminate.
  rewrite proto_merge_fields. rewrite rsafe_t_VM. rewrite forallb_app. apply andb_true_iff. split.
  - apply forallb_forall. intros [k y] Hin. apply in_flat_map in Hin. destruct Hin as [[k0 d0] [Hin0 Hy]].
    destruct (alookup k0 sf) as [x0|] eqn:Es.
    + destruct Hy as [E|[]]. inversion E. subst k y. clear E.
      destruct (nm_lookup k0 m2) as [sub2|] eqn:El; auto.
      destruct (rsafe_t_sub _ _ _ _ _ Hd Hin0 El) as [Hsd Hmd].
      destruct (rsafe_t_sub _ _ _ _ _ Hs (alookup_in _ _ _ Es) El) as [Hsx Hmx].
      destruct (nm_empty sub2) eqn:Ee; auto. simpl.
      specialize (Hmd eq_refl). specialize (Hmx eq_refl).
      destruct x0 as [|fx| |]; try discriminate. destruct d0 as [|fd| |]; try discriminate.
      unfold merge_val. rewrite proto_merge_fields at 1. simpl is_msg. simpl andb.
      rewrite Forall_forall in IH. apply (IH (k0, VM fx) (alookup_in _ _ _ Es)); auto.
    + destruct (cleared_by sch ty sf k0); [destruct Hy|]. destruct Hy as [E|[]]. inversion E. subst k y.
      rewrite rsafe_t_VM, forallb_forall in Hd. apply (Hd (k0, d0) Hin0).
  - apply forallb_forall. intros [k y] Hin. apply in_flat_map in Hin. destruct Hin as [[k0 x0] [Hin0 Hy]].
    destruct (alookup k0 df); [destruct Hy|]. destruct Hy as [E|[]]. inversion E. subst k y.
    rewrite rsafe_t_VM, forallb_forall in Hs. apply (Hs (k0, x0) Hin0).
Qed.

Lemma valid_mask_rsafe : forall sch ty m v,
  schema_names_ok sch = true -> valid_or sch ty m = true -> conforms sch ty v = true ->
  rsafe_t (trie (mask_paths m)) v = true.
Proof.
  intros sch ty [ps|] v Hs Hv Hc; simpl mask_paths.
  - apply (valid_trie_facts sch ty ps v Hs Hv Hc).
  - apply rsafe_t_empty. reflexivity.
Qed.

Lemma merge_tail_total : forall sch ty Tm rm d1f s1f,
  rsafe_t Tm (VM d1f) = true -> rsafe_t Tm (VM s1f) = true ->
  rsafe_t (trie (mask_paths rm)) (VM d1f) = true -> rsafe_t (trie (mask_paths rm)) (VM s1f) = true ->
  match nm_filter Tm (VM s1f) with
  | Some src2 =>
      match prune_empty true Tm (proto_merge sch ty (VM d1f) src2) src2 with
      | Some dst3 =>
          match rm with
          | Some rs =>
              match nm_prune (nested_of_paths (normalize_paths rs)) dst3 with
              | Some dst4 => MOk dst4 src2
              | None => MPanic
              end
          | None => MOk dst3 src2
          end
      | None => MPanic
      end
  | None => MPanic
  end <> MPanic.
Proof.
  intros sch ty Tm rm d1f s1f Hd Hs Hdr Hsr.
  destruct (filter_total_t _ _ Hs) as [s2 E2]. rewrite E2.
  destruct (nm_filter_is_msg _ _ _ E2) as [s2f ->].
  destruct (filter_preserves _ _ _ E2) as [_ K2].
  pose proof (merge_keeps_rsafe (VM s2f) sch ty d1f Tm Hd (K2 _ Hs) eq_refl) as Hm2.
  pose proof (merge_keeps_rsafe (VM s2f) sch ty d1f _ Hdr (K2 _ Hsr) eq_refl) as Hm2r.
  destruct (prune_empty_total _ true Tm (VM s2f) Hm2) as [d3 E3]. rewrite E3.
  destruct rm as [rs|]; [|discriminate].
  pose proof (prune_empty_keeps_rsafe _ _ _ _ _ E3 _ Hm2r) as H3. simpl mask_paths in H3. unfold trie in H3.
  destruct (prune_total_t _ _ H3) as [d4 E4]. rewrite E4. discriminate.
Qed.

(* NO PANIC: conformant messages, every mask valid for the type (the update and reset masks are
   validated by Validate; the writable mask is the developer's) — whatever their mutual relation *)
Theorem merge_never_panics : forall sch ty um wm rm dst src,
  schema_names_ok sch = true ->
  conforms sch ty dst = true -> conforms sch ty src = true ->
  valid_or sch ty um = true -> valid_or sch ty wm = true -> valid_or sch ty rm = true ->
  merge sch ty um wm rm dst src <> MPanic.
Proof.
  intros sch ty um wm rm dst src Hs Hcd Hcs Hu Hw Hr.
  pose proof (valid_mask_rsafe sch ty um dst Hs Hu Hcd) as Hud.
  pose proof (valid_mask_rsafe sch ty um src Hs Hu Hcs) as Hus.
  pose proof (valid_mask_rsafe sch ty wm dst Hs Hw Hcd) as Hwd.
  pose proof (valid_mask_rsafe sch ty wm src Hs Hw Hcs) as Hws.
  pose proof (valid_mask_rsafe sch ty rm dst Hs Hr Hcd) as Hrd.
  pose proof (valid_mask_rsafe sch ty rm src Hs Hr Hcs) as Hrs.
  destruct dst as [|df| |]; try discriminate. destruct src as [|sf| |]; try discriminate.
  unfold merge, merge_gen. cbv zeta. fold (trie (mask_paths um)).
  destruct wm as [[|w ws]|]; cbv iota beta.
  - discriminate.
  - simpl mask_paths in Hwd, Hws. unfold trie in Hwd, Hws.
    destruct (filter_total_t _ _ Hws) as [s1 E1]. rewrite E1.
    destruct (nm_filter_is_msg _ _ _ E1) as [s1f ->].
    destruct (filter_preserves _ _ _ E1) as [_ K1].
    destruct um as [[|u us]|].
    + discriminate.
    + apply merge_tail_total; auto.
    + destruct (prune_total_t _ _ Hwd) as [d1 Ed]. rewrite Ed.
      destruct (nm_prune_is_msg _ _ _ Ed) as [d1f ->].
      pose proof (prune_keeps_rsafe _ _ _ Ed) as Kd.
      apply merge_tail_total; auto.
  - rewrite nm_filter_empty_mask.
    destruct um as [[|u us]|].
    + discriminate.
    + apply merge_tail_total; auto.
    + apply merge_tail_total; auto; reflexivity.
Qed.

(* write-level corollary: Value.Set never panics in Merge when the configured writable masks are valid *)
Lemma fm_valid_subset : forall sch ty ps qs,
  fm_valid sch ty ps = true -> (forall q, In q qs -> In q ps) -> fm_valid sch ty qs = true.
Proof.
  unfold fm_valid. intros sch ty ps qs H Hs. rewrite forallb_forall in *. intros q Hq. apply H. apply Hs. exact Hq.
Qed.

Lemma fm_valid_app : forall sch ty a b, fm_valid sch ty a = true -> fm_valid sch ty b = true -> fm_valid sch ty (a ++ b) = true.
Proof. unfold fm_valid. intros sch ty a b Ha Hb. rewrite forallb_app. apply andb_true_iff. split; assumption. Qed.

Lemma effective_writable_valid : forall sch ty allw resw more,
  valid_or sch ty resw = true -> valid_or sch ty more = true ->
  valid_or sch ty (effective_writable allw resw more) = true.
Proof.
  intros sch ty allw resw more Hr Hm. unfold effective_writable. destruct allw; [reflexivity|].
  destruct resw as [w|]; [|reflexivity]. simpl in *. unfold fm_union.
  eapply fm_valid_subset; [|apply normalize_subset].
  apply fm_valid_app; auto. destruct more as [x|]; [|reflexivity]. simpl in Hm.
  eapply fm_valid_subset; [exact Hm|apply normalize_subset].
Qed.

Theorem write_never_panics : forall sch ty allw resw more um rm stored written,
  schema_names_ok sch = true ->
  conforms sch ty stored = true -> conforms sch ty written = true ->
  valid_or sch ty resw = true -> valid_or sch ty more = true ->
  write sch ty allw resw more um rm stored written <> WPanic.
Proof.
  intros sch ty allw resw more um rm stored written Hs Hcs Hcw Hr Hm. unfold write.
  destruct (Z.eqb_spec (validate_update sch ty um (effective_writable allw resw more) rm) code_ok) as [E|E];
    simpl; [|discriminate].
  apply validate_update_ok_iff in E. destruct E as [Hu [_ Hrm]].
  apply valid_or_iff in Hu. apply valid_or_iff in Hrm.
  pose proof (merge_never_panics sch ty um (effective_writable allw resw more) rm stored written Hs Hcs Hcw Hu
                (effective_writable_valid _ _ _ _ _ Hr Hm) Hrm) as Hn.
  destruct (merge sch ty um (effective_writable allw resw more) rm stored written); [discriminate|congruence].
Qed.

(* ------------------------------------------------------------------------------------------- *)
(* FRAME, exactly: what happens to the other members of a oneof                                 *)

(* a field of the written message that the mask passes through is another member of k's oneof *)
Definition sib_written (sch : schema) (ty : string) (m : nmask) (sf : list (string * value)) (k : string) : bool :=
  existsb (fun kx : string * value =>
             match nm_lookup (fst kx) m with
             | Some _ => existsb (String.eqb k) (oneof_siblings sch ty (fst kx))
             | None => false
             end) sf.

(* position q is cleared as a side effect: at some level, the field on q's way is not itself
   written, and another member of its oneof, named by the mask, is *)
Fixpoint cleared_along (sch : schema) (ty : string) (m : nmask) (src : value) (q : path) : bool :=
  match q with
  | [] => false
  | k :: r =>
      match nm_lookup k m, vget k src with
      | Some sub, Some x => cleared_along sch (sub_type sch ty k) sub x r
      | _, _ => sib_written sch ty m (fields_of src) k
      end
  end.

Lemma filter_key_facts : forall m sf s2f k,
  nm_filter m (VM sf) = Some (VM s2f) -> nm_empty m = false ->
  (In k (akeys s2f) <-> In k (akeys sf) /\ nm_lookup k m <> None).
Proof.
  intros m sf s2f k Hf Hne. pose proof (filter_lookup _ _ _ Hf Hne k) as Hfl.
  unfold vget in Hfl. simpl fields_of in Hfl. split.
  - intros Hin. destruct (alookup k s2f) as [y|] eqn:E; [|apply alookup_none_notin in E; contradiction].
    destruct (nm_lookup k m) as [sub|]; [|discriminate].
    destruct (alookup k sf) as [x|] eqn:Es; [|discriminate]. split; [eapply alookup_some_in_keys; eauto|discriminate].
  - intros [Hin Hl]. destruct (nm_lookup k m) as [sub|] eqn:El; [|congruence].
    destruct (alookup k sf) as [x|] eqn:Es; [|apply alookup_none_notin in Es; contradiction].
    destruct (filter_field sub x) as [y|] eqn:Ef.
    + eapply alookup_some_in_keys; eauto.
    + exfalso. rewrite nm_filter_fields, Hne in Hf.
      destruct (otraverse _ sf) as [l'|] eqn:Eo; [|discriminate].
      apply (otraverse_some_all _ _ _ Eo (k, x) (alookup_in _ _ _ Es)). cbv beta iota. rewrite El, Ef. reflexivity.
Qed.

Lemma cleared_by_sib_written : forall sch ty m sf s2f k,
  nm_filter m (VM sf) = Some (VM s2f) -> nm_empty m = false ->
  cleared_by sch ty s2f k = sib_written sch ty m sf k.
Proof.
  intros sch ty m sf s2f k Hf Hne. unfold cleared_by, sib_written.
  apply Bool.eq_iff_eq_true. rewrite !existsb_exists. split.
  - intros [[k' y] [Hin Hs]]. simpl in Hs.
    assert (In k' (akeys s2f)) as Hk by (unfold akeys; apply in_map_iff; exists (k', y); auto).
    apply (filter_key_facts _ _ _ k' Hf Hne) in Hk. destruct Hk as [Hk Hl].
    unfold akeys in Hk. apply in_map_iff in Hk. destruct Hk as [[k0 x] [E Hx]]. simpl in E. subst k0.
    exists (k', x). split; auto. simpl. destruct (nm_lookup k' m); [exact Hs|congruence].
  - intros [[k' x] [Hin Hs]]. simpl in Hs. destruct (nm_lookup k' m) as [sub|] eqn:El; [|discriminate].
    assert (In k' (akeys s2f)) as Hk.
    { apply (filter_key_facts _ _ _ k' Hf Hne). split; [|congruence].
      unfold akeys. apply in_map_iff. exists (k', x). auto. }
    unfold akeys in Hk. apply in_map_iff in Hk. destruct Hk as [[k0 y] [E Hy]]. simpl in E. subst k0.
    exists (k', y). split; auto.
Qed.

Theorem frame_tail_exact : forall q sch ty m df sf post,
  tailf true sch ty m (VM df) (VM sf) = Some post ->
  wfv (VM df) = true -> wfv (VM sf) = true -> rsafe_t m (VM sf) = true ->
  nm_empty m = false -> outside_p m q ->
  get_at q post = if cleared_along sch ty m (VM sf) q then None else get_at q (VM df).
Proof.
  induction q as [|k r IH]; intros sch ty m df sf post Ht Hwd Hws Hrs Hne Ho; [destruct Ho|].
  assert (exists s2f, nm_filter m (VM sf) = Some (VM s2f)) as [s2f Hf].
  { unfold tailf in Ht. destruct (nm_filter m (VM sf)) as [s2|] eqn:Ef; [|discriminate].
    destruct (nm_filter_is_msg _ _ _ Ef) as [s2f ->]. eauto. }
  rewrite !get_at_cons.
  rewrite (tail_lookup _ _ _ _ _ _ _ _ Hf Ht (wfv_nodup _ Hwd) (wfv_nodup _ Hws) k).
  pose proof (proto_merge_lookup sch ty df s2f k) as Hl.
  assert (proto_merge sch ty (VM df) (VM s2f) = VM (fields_of (proto_merge sch ty (VM df) (VM s2f)))) as HP.
  { rewrite proto_merge_fields. reflexivity. }
  assert (prune_empty true m (proto_merge sch ty (VM df) (VM s2f)) (VM s2f) = Some post) as Hpe.
  { unfold tailf in Ht. rewrite Hf in Ht. exact Ht. }
  remember (proto_merge sch ty (VM df) (VM s2f)) as P eqn:EP. clear EP. rewrite HP in Hpe.
  unfold vget in Hl at 1.
  rewrite (cleared_by_sib_written _ _ _ _ _ k Hf Hne) in *.
  pose proof (filter_lookup _ _ _ Hf Hne k) as Hfl. unfold vget in Hfl at 1. simpl fields_of in Hfl.
  simpl in Ho. simpl cleared_along. change (vget k (VM sf)) with (alookup k sf). change (vget k (VM df)) with (alookup k df).
  simpl fields_of.
  destruct (nm_lookup k m) as [sub|] eqn:El.
  - destruct Ho as [Hsne Ho]. rewrite Hsne. simpl negb. simpl andb.
    assert (r <> []) as Hr by (eapply outside_p_nonnil; eauto).
    destruct (alookup k s2f) as [x'|] eqn:Es2.
    + destruct (alookup k sf) as [x|] eqn:Es; [|discriminate].
      destruct (rsafe_t_field _ _ _ _ _ Hrs Es El Hsne) as [Hxm Hxs].
      destruct x as [|fx| |]; try discriminate.
      unfold filter_field in Hfl. rewrite Hsne in Hfl. symmetry in Hfl.
      destruct (nm_filter_is_msg _ _ _ Hfl) as [fx' ->].
      set (dk := match alookup k df with Some (VM fd) => fd | _ => [] end).
      assert (match alookup k df with
              | Some d => Some (merge_val sch ty k (Some d) (VM fx'))
              | None => Some (VM fx')
              end = Some (proto_merge sch (sub_type sch ty k) (VM dk) (VM fx'))) as Em.
      { unfold dk, merge_val. destruct (alookup k df) as [[| fd | |]|]; try reflexivity.
        rewrite merge_into_empty. reflexivity. }
      rewrite Em in *.
      assert (is_msg (proto_merge sch (sub_type sch ty k) (VM dk) (VM fx')) = true) as Hmm.
      { rewrite proto_merge_fields. reflexivity. }
      rewrite Hmm.
      pose proof (prune_empty_entry_ok _ _ _ _ _ k _ Hpe Hl) as Hok. rewrite El in Hok.
      unfold vget in Hok. simpl fields_of in Hok. rewrite Es2 in Hok. specialize (Hok Hmm).
      destruct (prune_empty true sub (proto_merge sch (sub_type sch ty k) (VM dk) (VM fx')) (VM fx')) as [pk|] eqn:Ep;
        [|congruence].
      assert (tailf true sch (sub_type sch ty k) sub (VM dk) (VM fx) = Some pk) as Ht'.
      { unfold tailf. rewrite Hfl. exact Ep. }
      rewrite (IH _ _ _ _ _ _ Ht'); auto.
      * destruct (cleared_along sch (sub_type sch ty k) sub (VM fx) r); [reflexivity|].
        unfold dk. destruct (alookup k df) as [[| fd | |]|] eqn:Ed; try reflexivity;
          (destruct r; [congruence|reflexivity]).
      * unfold dk. destruct (alookup k df) as [[| fd | |]|] eqn:Ed; try reflexivity.
        exact (wfv_field df k _ Hwd Ed).
      * exact (wfv_field sf k _ Hws Es).
    + assert (alookup k sf = None) as Es.
      { destruct (alookup k sf) as [x|] eqn:Es; auto.
        destruct (rsafe_t_field _ _ _ _ _ Hrs Es El Hsne) as [Hxm _]. destruct x as [|fx| |]; try discriminate.
        unfold filter_field in Hfl. rewrite Hsne in Hfl.
        exfalso. rewrite nm_filter_fields, Hne in Hf.
        destruct (otraverse _ sf) as [l'|] eqn:Eo; [|discriminate].
        apply (otraverse_some_all _ _ _ Eo (k, VM fx) (alookup_in _ _ _ Es)).
        cbv beta iota. rewrite El. unfold filter_field. rewrite Hsne. rewrite <- Hfl. reflexivity. }
      rewrite Es.
      destruct (alookup k df) as [d|] eqn:Ed; [|destruct (sib_written sch ty m sf k); reflexivity].
      destruct (sib_written sch ty m sf k) eqn:Esw; [reflexivity|].
      destruct (is_msg d) eqn:Edm.
      * pose proof (prune_empty_entry_ok _ _ _ _ _ k _ Hpe Hl) as Hok. rewrite El in Hok.
        unfold vget in Hok. simpl fields_of in Hok. rewrite Es2, Hsne, Edm in Hok. specialize (Hok eq_refl).
        destruct (nm_prune sub d) as [d'|] eqn:Ep; [|congruence].
        eapply prune_frame; eauto.
      * rewrite get_at_nonmsg; auto.
  - rewrite Hfl. destruct (alookup k df) as [d|]; destruct (sib_written sch ty m sf k); reflexivity.
Qed.

(* the written message as Merge sees it after the writable filter *)
Definition writable_filtered (wm : mask) (src src1 : value) : Prop :=
  match wm with
  | None => src1 = src
  | Some ws => nm_filter (trie ws) src = Some src1
  end.

(* FRAME, exact: a position the update and reset masks do not reach is unchanged — unless, on its
   way, a field that is not itself written is a member of a oneof another member of which the mask
   names and the written message sets: then it is cleared (setting a oneof member clears the others) *)
Theorem frame_exact : forall sch ty ups wm rm dst src post src',
  schema_names_ok sch = true ->
  conforms sch ty dst = true -> conforms sch ty src = true ->
  fm_valid sch ty ups = true -> ups <> [] -> wm <> Some [] ->
  merge sch ty (Some ups) wm rm dst src = MOk post src' ->
  exists src1, writable_filtered wm src src1 /\
    forall q, outside_p (trie ups) q -> outside_p (trie (mask_paths rm)) q ->
              get_at q post = if cleared_along sch ty (trie ups) src1 q then None else get_at q dst.
Proof.
  intros sch ty ups wm rm dst src post src' Hs Hcd Hcs Hv Hne Hwn H.
  destruct dst as [|df| |]; try discriminate. destruct src as [|sf| |]; try discriminate.
  destruct (valid_trie_facts sch ty ups (VM sf) Hs Hv Hcs) as [Hrs Hte]. specialize (Hte Hne).
  pose proof (conforms_wfv _ _ _ Hcd) as Hwd. pose proof (conforms_wfv _ _ _ Hcs) as Hws.
  unfold merge, merge_gen in H. cbv zeta in H. simpl mask_paths in H. fold (trie ups) in H.
  destruct ups as [|u0 us]; [congruence|]. set (ups := u0 :: us) in *.
  assert (forall sf1,
            wfv (VM sf1) = true -> rsafe_t (trie ups) (VM sf1) = true ->
            match nm_filter (trie ups) (VM sf1) with
            | Some src2 =>
                match prune_empty true (trie ups) (proto_merge sch ty (VM df) src2) src2 with
                | Some dst3 =>
                    match rm with
                    | Some rs =>
                        match nm_prune (nested_of_paths (normalize_paths rs)) dst3 with
                        | Some dst4 => MOk dst4 src2
                        | None => MPanic
                        end
                    | None => MOk dst3 src2
                    end
                | None => MPanic
                end
            | None => MPanic
            end = MOk post src' ->
            forall q, outside_p (trie ups) q -> outside_p (trie (mask_paths rm)) q ->
                      get_at q post = if cleared_along sch ty (trie ups) (VM sf1) q then None else get_at q (VM df)) as Hcore.
  { intros sf1 Hw1 Hr1 Hc q Ho Hor.
    destruct (nm_filter (trie ups) (VM sf1)) as [s2|] eqn:Ef; [|discriminate].
    destruct (prune_empty true (trie ups) (proto_merge sch ty (VM df) s2) s2) as [d3|] eqn:Ep; [|discriminate].
    assert (tailf true sch ty (trie ups) (VM df) (VM sf1) = Some d3) as Ht by (unfold tailf; rewrite Ef; exact Ep).
    rewrite <- (frame_tail_exact q sch ty (trie ups) df sf1 d3 Ht Hwd Hw1 Hr1 Hte Ho).
    destruct rm as [rs|].
    - destruct (nm_prune (nested_of_paths (normalize_paths rs)) d3) as [d4|] eqn:Er; inversion Hc. subst.
      eapply prune_frame; eauto.
    - inversion Hc. reflexivity. }
  destruct wm as [[|w ws]|]; cbv iota beta in H.
  - congruence.
  - destruct (nm_filter (nested_of_paths (normalize_paths (w :: ws))) (VM sf)) as [s1|] eqn:E1; [|discriminate].
    destruct (nm_filter_is_msg _ _ _ E1) as [sf1 ->].
    destruct (filter_preserves _ _ _ E1) as [A B].
    exists (VM sf1). split; [exact E1|]. apply Hcore; auto.
  - rewrite nm_filter_empty_mask in H. exists (VM sf). split; [reflexivity|]. apply Hcore; auto.
Qed.

(* WithMoreUpdateMask: a nil update mask ("all writable fields") stays nil; extra paths only ever add *)
Theorem more_update_spec : forall um moreu,
  effective_update None moreu = None /\
  effective_update um None = um /\
  (forall ps extra p, um = Some ps -> moreu = Some extra ->
     exists qs, effective_update um moreu = Some qs /\
                (In p (ps ++ extra) -> exists q, In q qs /\ is_prefix q p = true) /\
                (In p qs -> In p (ps ++ extra))).
Proof.
  intros um moreu. split; [destruct moreu; reflexivity|]. split; [reflexivity|].
  intros ps extra p -> ->. simpl. exists (ps ++ extra). split; auto. split; auto.
  intros H. exists p. split; auto. apply is_prefix_refl.
Qed.

(* the same statement about the pinned option (fieldmaskpb.Union) *)
Theorem more_update_v0_spec : forall um moreu,
  effective_update_v0 None moreu = None /\
  effective_update_v0 um None = um /\
  (forall ps extra p, um = Some ps -> moreu = Some extra ->
     exists qs, effective_update_v0 um moreu = Some qs /\
                (In p (ps ++ extra) -> exists q, In q qs /\ is_prefix q p = true) /\
                (In p qs -> In p (ps ++ extra))).
Proof.
  intros um moreu. split; [destruct moreu; reflexivity|]. split; [reflexivity|].
  intros ps extra p -> ->. simpl. exists (fm_union ps extra). split; auto. unfold fm_union. split.
  - apply normalize_covers.
  - apply normalize_subset.
Qed.

(* after 3a4e7e7 every path either option was given reaches Validate: one path of the update mask or
   of the extra update paths that is not a valid path of the type, or lies outside the writable
   fields, and the write is rejected with InvalidArgument - whatever the other paths are *)
Theorem more_update_all_validated : forall sch ty ps extra wm rm p,
  In p (ps ++ extra) ->
  (~ good_path sch ty p \/ (exists ws, wm = Some ws /\ forall w, In w ws -> is_prefix w p = false)) ->
  validate_update sch ty (effective_update (Some ps) (Some extra)) wm rm = code_invalid_argument.
Proof.
  intros sch ty ps extra wm rm p Hin Hbad. simpl.
  apply (proj2 (validate_update_codes sch ty (Some (ps ++ extra)) wm rm)).
  intros [Hg Hw]. destruct Hbad as [Hb|[ws [-> Hb]]].
  - apply Hb. apply Hg. exact Hin.
  - destruct (Hw p Hin) as [w [Hi Hp]]. rewrite (Hb w Hi) in Hp. discriminate.
Qed.
