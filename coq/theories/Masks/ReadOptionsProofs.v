(* The effective READ mask as a function of the option list (Masks/Options.v). *)
From SC Require Import Base.Prelude Msg.Msg Msg.Schema Msg.Path Msg.PathProofs Msg.FmUtils
  Masks.Get Masks.GetProofs Masks.Update Masks.Options.

(* ------------------------------------------------------------------------------------------- *)
(* Reads                                                                                         *)

Definition is_mask_ropt (o : ropt) : bool := match o with OOtherR => false | _ => true end.

Lemma rfold_none : forall sch ty opts, fold_left (apply_ropt sch ty) opts None = None.
Proof. induction opts; simpl; auto. Qed.

Lemma rfold_other : forall sch ty opts r,
  forallb (fun o => negb (is_mask_ropt o)) opts = true ->
  fold_left (apply_ropt sch ty) opts r = r.
Proof.
  induction opts as [|o opts IH]; intros r H; simpl; auto.
  simpl in H. apply andb_true_iff in H. destruct H as [Ho H]. rewrite IH by auto.
  destruct o; simpl in Ho; try discriminate. destruct r; reflexivity.
Qed.

(* a WithReadPaths with an invalid path panics where the option is BUILT (never inside a read) ... *)
Theorem read_paths_invalid_panics : forall sch ty pre ps post,
  fm_valid sch ty ps = false ->
  compute_rreq sch ty (pre ++ OReadPaths ps :: post) = None.
Proof.
  intros sch ty pre ps post H. unfold compute_rreq. rewrite fold_left_app. simpl.
  destruct (fold_left (apply_ropt sch ty) pre (Some None)); simpl; [rewrite H|]; apply rfold_none.
Qed.

(* ... otherwise the LAST read-mask option decides, and no option at all means nil = everything *)
Theorem read_mask_of_opts : forall sch ty,
  (forall opts, forallb (fun o => negb (is_mask_ropt o)) opts = true ->
     compute_rreq sch ty opts = Some None) /\
  (forall pre m post, compute_rreq sch ty pre <> None ->
     forallb (fun o => negb (is_mask_ropt o)) post = true ->
     compute_rreq sch ty (pre ++ OReadMask m :: post) = Some m) /\
  (forall pre ps post, compute_rreq sch ty pre <> None -> fm_valid sch ty ps = true ->
     forallb (fun o => negb (is_mask_ropt o)) post = true ->
     compute_rreq sch ty (pre ++ OReadPaths ps :: post) = Some (Some ps)).
Proof.
  intros sch ty. unfold compute_rreq. split; [|split].
  - intros opts H. apply rfold_other; auto.
  - intros pre m post Hpre H. rewrite fold_left_app. simpl.
    destruct (fold_left (apply_ropt sch ty) pre (Some None)); [|congruence]. simpl. apply rfold_other; auto.
  - intros pre ps post Hpre Hv H. rewrite fold_left_app. simpl.
    destruct (fold_left (apply_ropt sch ty) pre (Some None)); [|congruence]. simpl. rewrite Hv.
    apply rfold_other; auto.
Qed.

(* a mask that came through WithReadPaths passes Validate *)
Theorem read_paths_mask_valid : forall sch ty pre ps post m,
  forallb (fun o => negb (is_mask_ropt o)) post = true ->
  compute_rreq sch ty (pre ++ OReadPaths ps :: post) = Some m ->
  m = Some ps /\ validate sch ty m = code_ok.
Proof.
  intros sch ty pre ps post m H Hc. unfold compute_rreq in Hc. rewrite fold_left_app in Hc. simpl in Hc.
  destruct (fold_left (apply_ropt sch ty) pre (Some None)) as [cur|]; simpl in Hc; [|rewrite rfold_none in Hc; discriminate].
  destruct (fm_valid sch ty ps) eqn:Ev; [|rewrite rfold_none in Hc; discriminate].
  rewrite rfold_other in Hc by auto. inversion Hc. subst. split; auto. simpl. rewrite Ev. reflexivity.
Qed.
