(* The effective masks of a write / read as a function of the option LIST (Masks/Options.v), and what
   Merge makes of un-normalized masks. *)
From SC Require Import Base.Prelude Msg.Msg Msg.MsgProofs Msg.Schema Msg.Path Msg.PathProofs Msg.PathAlgebra
  Msg.FmUtils Msg.FmUtilsProofs Msg.ProtoOps Masks.Get Masks.GetProofs Masks.Update Masks.UpdateProofs
  Masks.Options.

(* ------------------------------------------------------------------------------------------- *)
(* Merge only ever looks at normalized copies of its three masks                                *)

Definition norm_mask (m : mask) : mask :=
  match m with None => None | Some ps => Some (normalize_paths ps) end.

Lemma norm_mask_paths : forall m, normalize_paths (mask_paths (norm_mask m)) = normalize_paths (mask_paths m).
Proof. intros [ps|]; simpl; [apply normalize_idempotent|reflexivity]. Qed.

Theorem merge_norm_writable : forall sch ty um wm rm dst src,
  merge sch ty um (norm_mask wm) rm dst src = merge sch ty um wm rm dst src.
Proof.
  intros sch ty um [ws|] rm dst src; [|reflexivity].
  unfold merge, merge_gen, norm_mask.
  destruct ws as [|w ws]; [reflexivity|].
  destruct (normalize_paths (w :: ws)) as [|n ns] eqn:En.
  - apply (proj1 (normalize_nil_iff _)) in En. discriminate.
  - rewrite <- En. rewrite normalize_idempotent. reflexivity.
Qed.

Theorem merge_norm_reset : forall sch ty um wm rm dst src,
  merge sch ty um wm (norm_mask rm) dst src = merge sch ty um wm rm dst src.
Proof.
  intros sch ty um wm [rs|] dst src; [|reflexivity].
  unfold merge, merge_gen, norm_mask. rewrite normalize_idempotent. reflexivity.
Qed.

Theorem merge_norm_update : forall sch ty um wm rm dst src,
  merge sch ty (norm_mask um) wm rm dst src = merge sch ty um wm rm dst src.
Proof.
  intros sch ty [ps|] wm rm dst src; [|reflexivity].
  unfold merge, merge_gen, norm_mask.
  destruct ps as [|p ps]; [reflexivity|].
  destruct (normalize_paths (p :: ps)) as [|n ns] eqn:En.
  - apply (proj1 (normalize_nil_iff _)) in En. discriminate.
  - rewrite <- En. cbn [mask_paths]. rewrite normalize_idempotent. reflexivity.
Qed.

(* the repair 3a4e7e7 changed what Validate sees, not what an accepted write does *)
Theorem more_update_merge_same : forall sch ty um moreu wm rm dst src,
  merge sch ty (effective_update um moreu) wm rm dst src =
  merge sch ty (effective_update_v0 um moreu) wm rm dst src.
Proof.
  intros sch ty [ps|] [extra|] wm rm dst src; try reflexivity.
  simpl. rewrite <- (merge_norm_update sch ty (Some (ps ++ extra))). reflexivity.
Qed.

(* Validate depends on the writable mask only through what it covers *)
Lemma within_any_covers : forall p ws, within_any p ws = true <-> covers ws p.
Proof.
  intros p ws. unfold within_any, covers, covered_by. rewrite existsb_exists. tauto.
Qed.

Theorem validate_writable_covers : forall sch ty um ws ws' rm,
  (forall p, covers ws p <-> covers ws' p) ->
  validate_update sch ty um (Some ws) rm = validate_update sch ty um (Some ws') rm.
Proof.
  intros sch ty um ws ws' rm H. unfold validate_update.
  destruct um as [ps|]; [|reflexivity].
  destruct (fm_valid sch ty ps); simpl; [|reflexivity].
  assert (True) as Hdummy by exact I.
  assert (forallb (fun p => within_any p ws) ps = forallb (fun p => within_any p ws') ps) as ->; [|reflexivity].
  clear Hdummy. induction ps as [|p ps IHps]; [reflexivity|]. simpl. rewrite IHps. f_equal.
  destruct (within_any p ws) eqn:E1, (within_any p ws') eqn:E2; auto.
  - apply within_any_covers in E1. apply H in E1. apply within_any_covers in E1. congruence.
  - apply within_any_covers in E2. apply H in E2. apply within_any_covers in E2. congruence.
Qed.

(* more writable paths never turn an accepted write into a rejected one *)
Theorem validate_writable_monotone : forall sch ty um ws ws' rm,
  (forall p, covers ws p -> covers ws' p) ->
  validate_update sch ty um (Some ws) rm = code_ok ->
  validate_update sch ty um (Some ws') rm = code_ok.
Proof.
  intros sch ty um ws ws' rm H Hv.
  apply validate_update_ok_iff in Hv. destruct Hv as [Hg [Hw Hr]].
  apply validate_update_ok_iff. split; [|split]; auto.
  destruct um as [ps|]; simpl in *; auto.
  intros p Hp. destruct (Hw p Hp) as [w [Hi Hpre]].
  assert (covers ws p) as Hc by (exists w; auto).
  destruct (H p Hc) as [w' [Hi' Hp']]. exists w'. auto.
Qed.

(* ------------------------------------------------------------------------------------------- *)
(* The request record as a function of the option list                                          *)

Lemma fold_app : forall opts r o, fold_left apply_wopt (opts ++ [o]) r = apply_wopt (fold_left apply_wopt opts r) o.
Proof. intros. rewrite fold_left_app. reflexivity. Qed.

(* options that are not update options leave a nil update mask nil *)
Lemma update_none_stays : forall opts r,
  forallb (fun o => negb (is_update_opt o)) opts = true -> w_update r = None ->
  w_update (fold_left apply_wopt opts r) = None.
Proof.
  induction opts as [|o opts IH]; intros r Hn Hr; simpl; auto.
  simpl in Hn. apply andb_true_iff in Hn. destruct Hn as [Ho Hn].
  apply IH; auto. destruct o; simpl in *; try discriminate; auto.
  rewrite Hr. exact Hr.
Qed.

Lemma update_some_grows : forall opts r ps,
  forallb (fun o => negb (is_update_opt o)) opts = true -> w_update r = Some ps ->
  w_update (fold_left apply_wopt opts r) = Some (ps ++ flat_map more_update_paths opts).
Proof.
  induction opts as [|o opts IH]; intros r ps Hn Hr; simpl.
  - rewrite app_nil_r. exact Hr.
  - simpl in Hn. apply andb_true_iff in Hn. destruct Hn as [Ho Hn].
    destruct o; simpl in *; try discriminate; try (apply IH; auto; fail).
    rewrite Hr. rewrite app_assoc. apply IH; auto.
Qed.

(* UPDATE MASK.  No WithUpdateMask at all: nil, whatever WithMoreUpdateMask says.  Otherwise the LAST
   WithUpdateMask decides: nil stays nil; a non-nil mask gets exactly the paths of the
   WithMoreUpdateMask options that FOLLOW it appended, in order, as given. *)
Theorem update_mask_of_opts :
  (forall opts, forallb (fun o => negb (is_update_opt o)) opts = true ->
     w_update (compute_wreq opts) = None) /\
  (forall pre m post, forallb (fun o => negb (is_update_opt o)) post = true ->
     w_update (compute_wreq (pre ++ OUpdateMask m :: post)) =
     match m with None => None | Some ps => Some (ps ++ flat_map more_update_paths post) end).
Proof.
  split.
  - intros opts H. apply update_none_stays; auto.
  - intros pre m post H. unfold compute_wreq. rewrite fold_left_app. simpl.
    destruct m as [ps|].
    + apply update_some_grows; auto.
    + apply update_none_stays; auto.
Qed.

Lemma reset_keeps : forall opts r,
  forallb (fun o => negb (is_reset_opt o)) opts = true ->
  w_reset (fold_left apply_wopt opts r) = w_reset r.
Proof.
  induction opts as [|o opts IH]; intros r Hn; simpl; auto.
  simpl in Hn. apply andb_true_iff in Hn. destruct Hn as [Ho Hn].
  rewrite IH by auto. destruct o; simpl in *; try discriminate; auto.
  destruct (w_update r); reflexivity.
Qed.

(* RESET MASK: the last WithResetMask decides; none: nil *)
Theorem reset_mask_of_opts :
  (forall opts, forallb (fun o => negb (is_reset_opt o)) opts = true -> w_reset (compute_wreq opts) = None) /\
  (forall pre m post, forallb (fun o => negb (is_reset_opt o)) post = true ->
     w_reset (compute_wreq (pre ++ OResetMask m :: post)) = m).
Proof.
  split.
  - intros opts H. unfold compute_wreq. rewrite reset_keeps; auto.
  - intros pre m post H. unfold compute_wreq. rewrite fold_left_app. simpl. rewrite reset_keeps; auto.
Qed.

(* ALL FIELDS WRITABLE: set by the option anywhere in the list, never unset *)
Lemma allw_fold : forall opts r,
  w_allw (fold_left apply_wopt opts r) = w_allw r || existsb is_allw_opt opts.
Proof.
  induction opts as [|o opts IH]; intros r; simpl; [rewrite orb_false_r; reflexivity|].
  rewrite IH. destruct o; simpl; try reflexivity.
  - destruct (w_update r); reflexivity.
  - rewrite orb_true_r. reflexivity.
Qed.

Theorem all_writable_of_opts : forall opts,
  w_allw (compute_wreq opts) = existsb is_allw_opt opts.
Proof. intros. unfold compute_wreq. rewrite allw_fold. reflexivity. Qed.

(* EXTRA WRITABLE PATHS: nil iff the option never occurs; otherwise a normalized list that covers exactly
   what the given masks cover, in whatever order they were given *)
Lemma covers_nil : forall p, covers [] p <-> False.
Proof. intros p. split; [intros [q [[] _]]|tauto]. Qed.

Lemma w_more_other : forall r o, is_more_writable o = false -> w_more (apply_wopt r o) = w_more r.
Proof. intros r o H. destruct o; simpl in *; try discriminate; auto. destruct (w_update r); reflexivity. Qed.

Lemma more_paths_other : forall o, is_more_writable o = false -> more_writable_paths o = [].
Proof. intros o H. destruct o; simpl in *; try discriminate; auto. Qed.

Lemma more_fold_covers : forall opts r p,
  covers (mask_paths (w_more (fold_left apply_wopt opts r))) p <->
  covers (mask_paths (w_more r)) p \/ covers (flat_map more_writable_paths opts) p.
Proof.
  induction opts as [|o opts IH]; intros r p; simpl.
  - rewrite covers_nil. tauto.
  - rewrite IH. rewrite covers_app.
    destruct (is_more_writable o) eqn:Eo.
    + destruct o; simpl in Eo; try discriminate. simpl. rewrite union_covers_iff. tauto.
    + rewrite (w_more_other r o Eo), (more_paths_other o Eo), covers_nil. tauto.
Qed.

Lemma more_fold_none : forall opts r,
  w_more (fold_left apply_wopt opts r) = None <-> (w_more r = None /\ existsb is_more_writable opts = false).
Proof.
  induction opts as [|o opts IH]; intros r; simpl; [tauto|].
  rewrite IH. destruct o; simpl; try tauto; try (destruct (w_update r); simpl; tauto).
  split; [intros [C _]; discriminate|intros [_ C]; discriminate].
Qed.

Lemma more_fold_normal : forall opts r,
  (forall l, w_more r = Some l -> normal l) ->
  forall l, w_more (fold_left apply_wopt opts r) = Some l -> normal l.
Proof.
  induction opts as [|o opts IH]; intros r Hr l H; simpl in H; [auto|].
  eapply IH; [|exact H]. intros l' Hl'.
  destruct o; simpl in Hl'; auto; try (destruct (w_update r); simpl in Hl'; auto; fail).
  inversion Hl'. subst. unfold fm_union. apply normalize_is_normal.
Qed.

Theorem more_writable_of_opts : forall opts,
  (w_more (compute_wreq opts) = None <-> existsb is_more_writable opts = false) /\
  (forall l, w_more (compute_wreq opts) = Some l -> normal l) /\
  (forall p, covers (mask_paths (w_more (compute_wreq opts))) p <->
             covers (flat_map more_writable_paths opts) p).
Proof.
  intros opts. unfold compute_wreq. split; [|split].
  - rewrite more_fold_none. simpl. tauto.
  - apply more_fold_normal. simpl. discriminate.
  - intros p. rewrite more_fold_covers. simpl. split; [intros [[q [[] _]]|H]; auto|auto].
Qed.

(* EFFECTIVE WRITABLE MASK handed to the FieldUpdater: nil (every field) when the resource has no writable
   mask or WithAllFieldsWritable occurs; otherwise it covers exactly the resource's writable paths and
   every extra writable path - extra writable paths never restrict, and their order is irrelevant *)
Theorem writable_of_opts : forall resw opts,
  (existsb is_allw_opt opts = true -> wreq_writable resw (compute_wreq opts) = None) /\
  (resw = None -> wreq_writable resw (compute_wreq opts) = None) /\
  (forall w, resw = Some w -> existsb is_allw_opt opts = false ->
     exists l, wreq_writable resw (compute_wreq opts) = Some l /\ normal l /\
               forall p, covers l p <-> covers w p \/ covers (flat_map more_writable_paths opts) p).
Proof.
  intros resw opts. unfold wreq_writable. rewrite all_writable_of_opts. split; [|split].
  - intros ->. reflexivity.
  - intros ->. destruct (existsb is_allw_opt opts); reflexivity.
  - intros w -> ->. eexists. split; [reflexivity|]. split.
    + unfold fm_union. apply normalize_is_normal.
    + intros p. rewrite union_covers_iff.
      rewrite (proj2 (proj2 (more_writable_of_opts opts)) p). tauto.
Qed.

(* the single-option plumbing of Masks/Update.v is this fold on a one-option list *)
Theorem effective_writable_is_fold : forall allw resw more,
  effective_writable allw resw more =
  wreq_writable resw (compute_wreq ((if allw then [OAllWritable] else []) ++
                                    match more with Some x => [OMoreWritable (Some x)] | None => [] end)).
Proof.
  intros [|] resw [x|]; unfold effective_writable, wreq_writable, compute_wreq; simpl; try reflexivity;
    destruct resw; reflexivity.
Qed.

Theorem effective_update_is_fold : forall um moreu,
  effective_update um moreu =
  w_update (compute_wreq (OUpdateMask um :: match moreu with Some x => [OMoreUpdateMask (Some x)] | None => [] end)).
Proof. intros [ps|] [x|]; reflexivity. Qed.

(* EVERY UPDATE PATH IS VALIDATED: a path of the last WithUpdateMask or of a later WithMoreUpdateMask that
   is not a valid path of the type, or that no writable path covers, and the write is rejected with
   InvalidArgument and stores nothing *)
Theorem opts_every_update_path_validated : forall sch ty resw pre ps post stored written p,
  forallb (fun o => negb (is_update_opt o)) post = true ->
  In p (ps ++ flat_map more_update_paths post) ->
  (~ good_path sch ty p \/
   (exists ws, wreq_writable resw (compute_wreq (pre ++ OUpdateMask (Some ps) :: post)) = Some ws /\
               ~ covers ws p)) ->
  write_opts sch ty resw (pre ++ OUpdateMask (Some ps) :: post) stored written = WErr code_invalid_argument.
Proof.
  intros sch ty resw pre ps post stored written p Hpost Hin Hbad.
  unfold write_opts.
  rewrite (proj2 update_mask_of_opts pre (Some ps) post Hpost).
  set (wm := wreq_writable resw (compute_wreq (pre ++ OUpdateMask (Some ps) :: post))) in *.
  set (rm := w_reset (compute_wreq (pre ++ OUpdateMask (Some ps) :: post))).
  assert (validate_update sch ty (Some (ps ++ flat_map more_update_paths post)) wm rm = code_invalid_argument) as ->.
  { apply (proj2 (validate_update_codes sch ty _ wm rm)).
    intros [Hg Hw]. destruct Hbad as [Hb|[ws [Hws Hb]]].
    - apply Hb. apply Hg. exact Hin.
    - rewrite Hws in Hw. simpl in Hw. destruct (Hw p Hin) as [w [Hi Hp]]. apply Hb. exists w. auto. }
  reflexivity.
Qed.

(* a rejected option list stores nothing; an accepted one stores what Merge computes *)
Theorem write_opts_spec : forall sch ty resw opts stored written,
  let r := compute_wreq opts in
  let wm := wreq_writable resw r in
  (validate_update sch ty (w_update r) wm (w_reset r) <> code_ok ->
   write_opts sch ty resw opts stored written = WErr (validate_update sch ty (w_update r) wm (w_reset r))) /\
  (validate_update sch ty (w_update r) wm (w_reset r) = code_ok ->
   write_opts sch ty resw opts stored written =
   match merge sch ty (w_update r) wm (w_reset r) stored written with MOk d _ => WOk d | MPanic => WPanic end).
Proof.
  intros sch ty resw opts stored written r wm. unfold write_opts. fold r. fold wm. split; intros H.
  - destruct (validate_update sch ty (w_update r) wm (w_reset r) =? code_ok) eqn:E; [|reflexivity].
    apply Z.eqb_eq in E. congruence.
  - rewrite H. reflexivity.
Qed.

