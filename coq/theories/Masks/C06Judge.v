(* Correspondence cases for C06 (reads return exactly the read-mask projection and never mutate).
   A case is one read of a message through a read mask, by ResponseFilter.FilterClone (with the
   verdict of ResponseFilter.Validate), ResponseFilter.Filter, resource.Value.Get, Collection.List or
   the seed event of Value.Pull, together with what came back.  Non-mutation of the message read
   and of the mask is checked by the harness on deep copies (Directs). *)
From SC Require Import Base.Prelude Msg.Msg Msg.Schema Msg.Path Msg.FmUtils Msg.Tagged Masks.Get Masks.Aliasing
  Masks.ChangeFilter Masks.ChangeAlias Gen.Schema.

Inductive c06case :=
| KRead (op : Z)             (* 0 FilterClone 1 Filter 2 Value.Get 3 Collection.List 4 Value.Pull seed *)
        (ty : string)        (* message type *)
        (m : mask)           (* read mask *)
        (corrupt : Z)        (* how the generator built the mask from the DESCRIPTOR: 0 = every path valid
                                by construction, k > 0 = one path corrupted in way k (PathKind) *)
        (v : value)          (* the message read *)
        (code : Z)           (* gRPC code of Validate, -1 = not observed (ops other than 0) *)
        (obs : outcome)      (* what the read returned, or Panic *)
| KAlias (ty : string) (m : mask) (v : value)
         (shared : Z)        (* message structs (pointers) of the result of FilterClone that are structs of the
                                message passed in *)
         (same_root : bool)  (* the result IS the message passed in *)
| KEvent (kind : Z)          (* ChangeType of a change delivered by Collection.Pull WITHOUT backpressure: 1 ADD
                                2 UPDATE 3 REMOVE 4 REPLACE (only the merge stage makes those) *)
         (ty : string) (m : mask)
         (sold snew : option value)   (* what was stored before / after (None = absent), from the writes' results *)
         (oold onew : option value)   (* OldValue / NewValue of the delivered change (None = nil) *)
| KFan (ty : string) (ms : list mask) (* one published change taken, unmerged, by several subscriptions without
                                         backpressure whose masks these are *)
       (kind : Z) (sold snew : option value)
       (distinct : bool).            (* the CollectionChange structs (pointers) the subscriptions were handed are
                                         pairwise different *)

Definition agrees (c : c06case) : bool :=
  match c with
  | KRead op ty m corrupt v code obs =>
      outcome_eqb obs (filter_clone the_schema ty m v)
      && ((code =? -1) || (code =? validate the_schema ty m))
  | KAlias ty m v shared same_root =>
      (* the ownership-aware model (Masks/Aliasing.v): nil mask: the very message; otherwise all new *)
      let t := graph_of v in
      match filter_clone_t the_schema ty m (count t) t with
      | TOk r => (shared =? shared_nodes r t) && Bool.eqb same_root (root_id r =? root_id t)
      | TPanic => false
      end
  | KEvent kind ty m sold snew oold onew =>
      match change_filter the_schema ty m (mkV kind sold snew) with
      | Some c => vchange_eqb c (mkV kind oold onew)
      | None => false
      end
  | KFan ty ms kind sold snew distinct =>
      (* the ownership model (Masks/ChangeAlias.v): every subscription is handed its own struct *)
      match fan_out the_schema ty ms (mkH 1 (fun q => if q =? 0 then Some (mkV kind sold snew) else None)) 0 with
      | Some (_, ds) => Bool.eqb distinct (nodupb Z.eqb ds)
      | None => false
      end
  end.

(* masks the projection clause is stated for: no empty segment (every path string splits into at
   least one segment, so a path is never the empty list) *)
Definition mask_segs_ok (m : mask) : bool :=
  match m with None => true | Some ps => segs_ok ps && forallb (fun p => negb (is_nil p)) ps end.

(* The property on one observation, not through the model's algorithm:
   - the read did not panic, whatever the mask;
   - Validate accepted the mask iff the generator built it valid from the descriptor;
   - the result is the reference projection (masks without empty segments). *)
Definition C06_ok (c : c06case) : bool :=
  match c with
  | KRead op ty m corrupt v code obs =>
      match obs with
      | Panic => false
      | Ok r =>
          ((code =? -1) || (code =? (if corrupt =? 0 then code_ok else code_invalid_argument)))
          && (if mask_segs_ok m then value_eqb r (project_mask m v) else true)
      end
  | KAlias _ _ _ _ _ =>
      (* sharing is not a violation by itself (mutation of the message read is: Directs read-mutated);
         the observation is there to tie Masks/Aliasing.v to the code: [agrees] *)
      true
  | KEvent kind ty m sold snew oold onew =>
      (* whatever the kind: each delivered value is the projection of the stored one (nil stays nil) *)
      if mask_segs_ok m then vchange_eqb (mkV kind oold onew) (change_projection m (mkV kind sold snew))
      else Bool.eqb (is_some oold) (is_some sold) && Bool.eqb (is_some onew) (is_some snew)
  | KFan _ _ _ _ _ _ =>
      (* sharing a struct is not a violation by itself (a value that is not the projection is: KEvent; a struct
         that changes after delivery is: Direct event-mutated-after-delivery); the observation ties
         Masks/ChangeAlias.v to the code: [agrees] *)
      true
  end.

(* hypotheses of the theorems: the message read is a tree of its type *)
Definition C06_guard (c : c06case) : bool :=
  match c with
  | KRead _ ty _ _ v _ _ => conforms the_schema ty v
  | KAlias ty _ v _ _ => conforms the_schema ty v
  | KEvent _ ty _ sold snew _ _ => vconforms the_schema ty (mkV 0 sold snew)
  | KFan ty _ _ sold snew _ => vconforms the_schema ty (mkV 0 sold snew)
  end.

Definition judge (c : c06case) : Z :=
  verdict (agrees c) (if C06_guard c then C06_ok c else true) None.
