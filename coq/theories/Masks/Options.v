(* Model of the mask options of /repo/pkg/resource/opt.go: the options are functions applied IN ORDER to a
   request record; this file folds a list of options exactly as ComputeWriteConfig / ComputeReadConfig do
   and hands the resulting masks to FieldUpdater (WriteRequest.fieldUpdater) / ResponseFilter
   (ReadRequest.ResponseFilter).  Masks are [option (list path)] (None = nil *FieldMask); the algebra is
   fieldmaskpb's as modelled in Msg/Path.v.  No proofs here.

     WithUpdateMask m            request.UpdateMask = m
     WithUpdatePaths ps...       = WithUpdateMask(&FieldMask{Paths: ps})
     WithMoreUpdateMask m        nil UpdateMask: nothing; else UpdateMask = {Paths: UpdateMask.Paths ++ m.GetPaths()}
     WithMoreUpdatePaths ps...   = WithMoreUpdateMask(&FieldMask{Paths: ps})
     WithResetMask m             request.resetMask = m          (WithResetPaths ps... likewise)
     WithAllFieldsWritable       request.nilWritableFields = true
     WithMoreWritableFields m    request.moreWritableFields = Union(request.moreWritableFields, m)
     WithMoreWritablePaths ps... = WithMoreWritableFields(&FieldMask{Paths: ps})
     WithReadMask m              rr.ReadMask = m
     WithReadPaths msg ps...     fieldmaskpb.New(msg, ps...): panics unless every path is valid; then
                                 WithReadMask(&FieldMask{Paths: ps}) (never nil: no paths = "nothing") *)
From SC Require Import Base.Prelude Msg.Msg Msg.Schema Msg.Path Msg.FmUtils Msg.ProtoOps Masks.Get Masks.Update.

Inductive wopt :=
| OUpdateMask (m : mask)
| OMoreUpdateMask (m : mask)
| OResetMask (m : mask)
| OAllWritable
| OMoreWritable (m : mask)
| OOtherW.                       (* any write option that touches no mask: write time, interceptors, ... *)

Record wreq := mkW { w_update : mask; w_reset : mask; w_allw : bool; w_more : mask }.

Definition wreq0 : wreq := mkW None None false None.

Definition apply_wopt (r : wreq) (o : wopt) : wreq :=
  match o with
  | OUpdateMask m => mkW m (w_reset r) (w_allw r) (w_more r)
  | OMoreUpdateMask m =>
      match w_update r with
      | None => r                                             (* nil = all writable fields anyway *)
      | Some ps => mkW (Some (ps ++ mask_paths m)) (w_reset r) (w_allw r) (w_more r)
      end
  | OResetMask m => mkW (w_update r) m (w_allw r) (w_more r)
  | OAllWritable => mkW (w_update r) (w_reset r) true (w_more r)
  | OMoreWritable m =>
      mkW (w_update r) (w_reset r) (w_allw r) (Some (fm_union (mask_paths (w_more r)) (mask_paths m)))
  | OOtherW => r
  end.

(* ComputeWriteConfig *)
Definition compute_wreq (opts : list wopt) : wreq := fold_left apply_wopt opts wreq0.

(* WriteRequest.fieldUpdater(writableFields): the writable mask handed to the FieldUpdater *)
Definition wreq_writable (resw : mask) (r : wreq) : mask :=
  if w_allw r then None else
  match resw with
  | None => None
  | Some w => Some (fm_union w (mask_paths (w_more r)))
  end.

(* Value.Set(written, opts...) as far as masks go *)
Definition write_opts (sch : schema) (ty : string) (resw : mask) (opts : list wopt)
           (stored written : value) : wres :=
  let r := compute_wreq opts in
  let wm := wreq_writable resw r in
  let code := validate_update sch ty (w_update r) wm (w_reset r) in
  if negb (code =? code_ok) then WErr code else
  match merge sch ty (w_update r) wm (w_reset r) stored written with
  | MOk d _ => WOk d
  | MPanic => WPanic
  end.

(* ---------------- reads ---------------- *)
Inductive ropt :=
| OReadMask (m : mask)
| OReadPaths (ps : list path)
| OOtherR.                       (* updates-only, backpressure, include, ... *)

(* None = the option constructor panicked (WithReadPaths with a path that is not valid for the type) *)
Definition apply_ropt (sch : schema) (ty : string) (r : option mask) (o : ropt) : option mask :=
  match r with
  | None => None
  | Some cur =>
      match o with
      | OReadMask m => Some m
      | OReadPaths ps => if fm_valid sch ty ps then Some (Some ps) else None
      | OOtherR => Some cur
      end
  end.

Definition compute_rreq (sch : schema) (ty : string) (opts : list ropt) : option mask :=
  fold_left (apply_ropt sch ty) opts (Some None).

Inductive rres := RPanicOpt | RRead (o : outcome).

(* Value.Get(opts...) / each item of List / each event of Pull *)
Definition read_opts (sch : schema) (ty : string) (opts : list ropt) (v : value) : rres :=
  match compute_rreq sch ty opts with
  | None => RPanicOpt
  | Some m => RRead (filter_clone sch ty m v)
  end.

(* ---------------- what the options MEAN (specification side) ---------------- *)
Definition is_update_opt (o : wopt) : bool := match o with OUpdateMask _ => true | _ => false end.
Definition is_reset_opt (o : wopt) : bool := match o with OResetMask _ => true | _ => false end.
Definition is_allw_opt (o : wopt) : bool := match o with OAllWritable => true | _ => false end.
Definition more_update_paths (o : wopt) : list path :=
  match o with OMoreUpdateMask m => mask_paths m | _ => [] end.
Definition more_writable_paths (o : wopt) : list path :=
  match o with OMoreWritable m => mask_paths m | _ => [] end.
Definition is_more_writable (o : wopt) : bool := match o with OMoreWritable _ => true | _ => false end.
