(* Every subscription without backpressure ends up holding its OWN struct, whose values are the
   projections by ITS mask, whatever the other subscriptions' masks are and in whatever order their
   loops run; nothing that existed before is written.  The shared-struct alternative is refuted. *)
From SC Require Import Base.Prelude Msg.Msg Msg.MsgProofs Msg.Schema Msg.Path Msg.FmUtils
  Masks.Get Masks.GetProofs Masks.C06Judge Masks.ChangeFilter Masks.ChangeFilterProofs Masks.ChangeAlias Gen.Schema.

Lemma option_map_id : forall (o : option value), option_map (project_mask None) o = o.
Proof. intros [v|]; reflexivity. Qed.

Lemma projection_nil_mask : forall c, change_projection None c = c.
Proof. intros [k o n]. unfold change_projection. simpl. rewrite !option_map_id. reflexivity. Qed.

Lemma projection_no_values : forall m k, change_projection m (mkV k None None) = mkV k None None.
Proof. reflexivity. Qed.

Lemma hupd_same : forall f p c, hupd f p c p = Some c.
Proof. intros. unfold hupd. rewrite Z.eqb_refl. reflexivity. Qed.

Lemma hupd_other : forall f p c q, q <> p -> hupd f p c q = f q.
Proof. intros f p c q H. unfold hupd. destruct (Z.eqb_spec q p); [contradiction|reflexivity]. Qed.

Lemma alloc_wf : forall h c, wf h -> wf (fst (alloc h c)).
Proof.
  intros h c Hw q Hq. simpl in *. rewrite hupd_other by lia. apply Hw. lia.
Qed.

Lemma deliver_lossy_spec : forall sch ty m h p c,
  wf h -> p < hnext h -> hmap h p = Some c -> vconforms sch ty c = true -> mask_segs_ok m = true ->
  exists h1 d, deliver_lossy sch ty m h p = Some (h1, d) /\ wf h1 /\
    hnext h <= d < hnext h1 /\ hmap h1 d = Some (change_projection m c) /\
    (forall q, q < hnext h -> hmap h1 q = hmap h q).
Proof.
  intros sch ty m h p c Hw Hp Hc Hv Hm.
  unfold deliver_lossy, merge_copy. rewrite Hc. unfold alloc at 1.
  unfold filter_alloc. cbn [hmap hnext]. rewrite hupd_same.
  rewrite (change_filter_is_projection _ _ _ _ Hv Hm).
  set (h1 := mkH (hnext h + 1) (hupd (hmap h) (hnext h) c)).
  assert (Hw1 : wf h1).
  { intros q Hq. unfold h1 in *. simpl in *. rewrite hupd_other by lia. apply Hw. lia. }
  assert (Same : exists h2 d, Some (h1, hnext h) = Some (h2, d) /\ wf h2 /\ hnext h <= d < hnext h2 /\
            hmap h2 d = Some c /\ (forall q, q < hnext h -> hmap h2 q = hmap h q)).
  { exists h1, (hnext h). split; [reflexivity|]. split; [exact Hw1|]. unfold h1. simpl.
    split; [lia|]. split; [apply hupd_same|]. intros q Hq. apply hupd_other. lia. }
  assert (New : exists h2 d, Some (alloc h1 (change_projection m c)) = Some (h2, d) /\ wf h2 /\
            hnext h <= d < hnext h2 /\ hmap h2 d = Some (change_projection m c) /\
            (forall q, q < hnext h -> hmap h2 q = hmap h q)).
  { eexists. eexists. split; [reflexivity|]. split; [apply (alloc_wf h1 _ Hw1)|].
    unfold h1. simpl. split; [lia|]. split; [apply hupd_same|].
    intros q Hq. rewrite !hupd_other by lia. reflexivity. }
  destruct m as [ps|].
  - destruct c as [k o n]. simpl. destruct o as [ov|].
    + exact New.
    + destruct n as [nv|]; [exact New|].
      rewrite projection_no_values. exact Same.
  - rewrite projection_nil_mask. exact Same.
Qed.

Theorem fan_out_own_projection : forall sch ty ms h p c,
  wf h -> p < hnext h -> hmap h p = Some c -> vconforms sch ty c = true ->
  (forall m, In m ms -> mask_segs_ok m = true) ->
  exists h' ds, fan_out sch ty ms h p = Some (h', ds) /\
    wf h' /\ hnext h <= hnext h' /\
    List.length ds = List.length ms /\
    (forall d, In d ds -> hnext h <= d < hnext h') /\
    (forall i m d, nth_error ms i = Some m -> nth_error ds i = Some d ->
                   hmap h' d = Some (change_projection m c)) /\
    NoDup ds /\
    (forall q, q < hnext h -> hmap h' q = hmap h q).
Proof.
  intros sch ty ms. induction ms as [|m r IH]; intros h p c Hw Hp Hc Hv Hms.
  - exists h, []. simpl. split; [reflexivity|]. split; [exact Hw|]. split; [lia|]. split; [reflexivity|].
    split; [intros d []|]. split; [intros [|i] m d H; discriminate|]. split; [constructor|reflexivity].
  - destruct (deliver_lossy_spec sch ty m h p c Hw Hp Hc Hv (Hms m (or_introl eq_refl)))
      as [h1 [d [E1 [Hw1 [Hd [Hc1 Hf1]]]]]].
    assert (Hp1 : p < hnext h1) by lia.
    assert (Hcp : hmap h1 p = Some c) by (rewrite Hf1 by lia; exact Hc).
    destruct (IH h1 p c Hw1 Hp1 Hcp Hv (fun m' H => Hms m' (or_intror H)))
      as [h2 [ds [E2 [Hw2 [Hn2 [Hl [Hr [Hi [Hnd Hf2]]]]]]]]].
    exists h2, (d :: ds). simpl. rewrite E1, E2.
    split; [reflexivity|]. split; [exact Hw2|]. split; [lia|]. split; [simpl; rewrite Hl; reflexivity|].
    split.
    { intros x [Hx|Hx]; [subst; lia|]. specialize (Hr x Hx). lia. }
    split.
    { intros [|i] m' d' Hm' Hd'; simpl in Hm', Hd'.
      - inversion Hm'; inversion Hd'; subst. rewrite Hf2 by lia. exact Hc1.
      - apply (Hi i); assumption. }
    split.
    { constructor; [|exact Hnd]. intros Hin. specialize (Hr d Hin). lia. }
    intros q Hq. rewrite Hf2 by lia. apply Hf1. exact Hq.
Qed.

(* the alternative (no copy in the merge stage, filtered where it is): two subscriptions with different
   masks both hold the published struct, which ends up projected by BOTH masks - not the projection by
   the first subscription's mask, and the published struct itself has changed *)
Local Open Scope string_scope.
Theorem shared_struct_refuted :
  let c := mkV 2
             (Some (VM [("default_int32", VS (SInt 1)); ("default_string", VS (SStr "one"))]))
             (Some (VM [("default_int32", VS (SInt 2)); ("default_string", VS (SStr "two"))])) in
  let h := mkH 1 (fun q : Z => if Z.eqb q 0 then Some c else None) in
  let m0 := Some [["default_int32"]] in
  let m1 := Some [["default_string"]] in
  exists h' , fan_out_shared the_schema "sc.go.test.TestAllTypes" [m0; m1] h 0 = Some (h', [0; 0]) /\
    hmap h' 0 = Some (mkV 2 (Some (VM [])) (Some (VM []))) /\
    hmap h' 0 <> Some (change_projection m0 c) /\ hmap h' 0 <> hmap h 0.
Proof.
  vm_compute. eexists. split; [reflexivity|]. split; [reflexivity|]. split; intros H; discriminate.
Qed.
