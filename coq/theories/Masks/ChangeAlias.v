(* Who owns the change a subscriber is handed.  Model only, no proofs.

   The bus hands the SAME CollectionChange struct to every subscription of a collection.  Without
   backpressure each subscription runs its own merge stage, which copies the struct it is sent
   (backpressure.go: the struct is dereferenced on arrival and its address taken on hand-over), and filter
   allocates a new struct whenever a value changed (change.go), returning the struct it was given only
   when neither value did (nil mask).  Change structs are cells of a heap; a cell is never written
   after its allocation.  [deliver_shared] is the alternative in which the merge stage passes the
   pointer on and the subscription's loop filters the struct where it is. *)
From SC Require Import Base.Prelude Msg.Msg Msg.Schema Msg.Path Msg.FmUtils Masks.Get Masks.ChangeFilter.

Record heap := mkH { hnext : Z; hmap : Z -> option vchange }.

Definition hupd (f : Z -> option vchange) (p : Z) (c : vchange) : Z -> option vchange :=
  fun q => if q =? p then Some c else f q.

Definition alloc (h : heap) (c : vchange) : heap * Z := (mkH (hnext h + 1) (hupd (hmap h) (hnext h) c), hnext h).

(* the merge stage of one subscription: a copy of the struct that arrived *)
Definition merge_copy (h : heap) (p : Z) : heap * Z :=
  match hmap h p with Some c => alloc h c | None => (h, p) end.

(* CollectionChange.filter: the struct itself when both FilterClone results are the pointers they were
   given (nil mask, or nothing to filter), a new struct otherwise; None = panic *)
Definition filter_alloc (sch : schema) (ty : string) (m : mask) (h : heap) (p : Z) : option (heap * Z) :=
  match hmap h p with
  | None => Some (h, p)
  | Some c =>
      match change_filter sch ty m c with
      | None => None
      | Some c' =>
          match m, vold c, vnew c with
          | None, _, _ => Some (h, p)
          | _, None, None => Some (h, p)
          | _, _, _ => Some (alloc h c')
          end
      end
  end.

(* one subscription without backpressure takes the published struct p *)
Definition deliver_lossy (sch : schema) (ty : string) (m : mask) (h : heap) (p : Z) : option (heap * Z) :=
  let '(h1, q) := merge_copy h p in filter_alloc sch ty m h1 q.

(* all subscriptions (their masks in the order in which their loops get to run) take p *)
Fixpoint fan_out (sch : schema) (ty : string) (ms : list mask) (h : heap) (p : Z) : option (heap * list Z) :=
  match ms with
  | [] => Some (h, [])
  | m :: r =>
      match deliver_lossy sch ty m h p with
      | None => None
      | Some (h1, d) =>
          match fan_out sch ty r h1 p with
          | None => None
          | Some (h2, ds) => Some (h2, d :: ds)
          end
      end
  end.

(* the alternative: no copy in the merge stage, the loop writes the filtered values into the struct *)
Definition deliver_shared (sch : schema) (ty : string) (m : mask) (h : heap) (p : Z) : option (heap * Z) :=
  match hmap h p with
  | None => Some (h, p)
  | Some c =>
      match change_filter sch ty m c with
      | None => None
      | Some c' => Some (mkH (hnext h) (hupd (hmap h) p c'), p)
      end
  end.

Fixpoint fan_out_shared (sch : schema) (ty : string) (ms : list mask) (h : heap) (p : Z) : option (heap * list Z) :=
  match ms with
  | [] => Some (h, [])
  | m :: r =>
      match deliver_shared sch ty m h p with
      | None => None
      | Some (h1, d) =>
          match fan_out_shared sch ty r h1 p with
          | None => None
          | Some (h2, ds) => Some (h2, d :: ds)
          end
      end
  end.

(* a heap in which everything from hnext on is free *)
Definition wf (h : heap) : Prop := forall q, hnext h <= q -> hmap h q = None.

Fixpoint nodupb {A} (eqb : A -> A -> bool) (l : list A) : bool :=
  match l with
  | [] => true
  | x :: r => negb (existsb (eqb x) r) && nodupb eqb r
  end.
