(* Model of /repo/pkg/masks/update.go: FieldUpdater.Validate, Merge, pruneEmpty, fullMask, and of the
   mask combination in WriteRequest.fieldUpdater (/repo/pkg/resource/opt.go) — the code as it is after
   the three fix commits in update.go; the pinned behaviour is kept as [_v0].  No proofs here. *)
From SC Require Import Base.Prelude Msg.Msg Msg.Schema Msg.Path Msg.FmUtils Msg.ProtoOps Masks.Get.

(* withinAny(path, paths): path equals one of paths or is nested inside it *)
Definition within_any (p : path) (ws : list path) : bool := existsb (fun w => is_prefix w p) ws.

Definition valid_or (sch : schema) (ty : string) (m : mask) : bool :=
  match m with None => true | Some ps => fm_valid sch ty ps end.

(* FieldUpdater.Validate -> gRPC code *)
Definition validate_update (sch : schema) (ty : string) (um wm rm : mask) : Z :=
  match um with
  | Some ps =>
      if negb (fm_valid sch ty ps) then code_invalid_argument
      else
        match wm with
        | Some ws =>
            if forallb (fun p => within_any p ws) ps
            then (if valid_or sch ty rm then code_ok else code_internal)
            else code_invalid_argument
        | None => if valid_or sch ty rm then code_ok else code_internal
        end
  | None => if valid_or sch ty rm then code_ok else code_internal
  end.

(* pinned code: fullMask() = Intersect(writable, update); read-only iff the COUNTS differ *)
Definition full_mask (um wm : mask) : mask :=
  match wm, um with
  | None, None => None
  | Some ws, None => Some ws
  | None, Some ps => Some ps
  | Some ws, Some ps => Some (fm_intersect ws ps)
  end.

Definition validate_update_v0 (sch : schema) (ty : string) (um wm rm : mask) : Z :=
  match um with
  | Some ps =>
      if negb (fm_valid sch ty ps) then code_invalid_argument
      else
        match wm with
        | Some ws =>
            if (List.length (fm_intersect ws ps) =? List.length ps)%nat
            then (if valid_or sch ty rm then code_ok else code_internal)
            else code_invalid_argument
        | None => if valid_or sch ty rm then code_ok else code_internal
        end
  | None => if valid_or sch ty rm then code_ok else code_internal
  end.

(* pruneEmpty(dst, src, mask): a field of dst named by the mask that src does not have is cleared —
   if the mask names fields INSIDE it (and it is a singular message) only those are cleared; where
   both have a singular message, recurse.  [fixed = false] is the pinned code: always clear. *)
Fixpoint prune_empty (fixed : bool) (m : nmask) (dst src : value) {struct dst} : option value :=
  match dst with
  | VM dfields =>
      option_map VM
        (otraverse (fun kd : string * value =>
                      let '(k, d) := kd in
                      match alookup k (nm_children m) with
                      | None => Some [(k, d)]
                      | Some sub =>
                          match vget k src with
                          | None =>
                              if fixed && negb (nm_empty sub) && is_msg d
                              then osingle (option_map (pair k) (nm_prune sub d))
                              else Some []
                          | Some s =>
                              if is_msg d then osingle (option_map (pair k) (prune_empty fixed sub d s))
                              else Some [(k, d)]
                          end
                      end) dfields)
  | _ => Some dst
  end.

Inductive mres := MOk (dst src : value) | MPanic.

Definition mask_paths (m : mask) : list path := match m with Some ps => ps | None => [] end.

(* FieldUpdater.Merge(dst, src): returns the new dst and what src has become (Merge filters the
   caller's src in place).  [norm] is applied to every path list before NestedMaskFromPaths:
   normalize_paths in the current code, the identity in the pinned code. *)
Definition merge_gen (fixed : bool) (norm : list path -> list path)
           (sch : schema) (ty : string) (um wm rm : mask) (dst src : value) : mres :=
  match wm with
  | Some [] => MOk dst src                                   (* nothing is writable *)
  | _ =>
      let wmask := match wm with Some ws => nested_of_paths (norm ws) | None => NM [] end in
      match nm_filter wmask src with
      | None => MPanic
      | Some src1 =>
          let tail (dst1 : value) : mres :=
            let nmask := nested_of_paths (norm (mask_paths um)) in
            match nm_filter nmask src1 with
            | None => MPanic
            | Some src2 =>
                let dst2 := proto_merge sch ty dst1 src2 in
                match prune_empty fixed nmask dst2 src2 with
                | None => MPanic
                | Some dst3 =>
                    match rm with
                    | None => MOk dst3 src2
                    | Some rs =>
                        match nm_prune (nested_of_paths (norm rs)) dst3 with
                        | None => MPanic
                        | Some dst4 => MOk dst4 src2
                        end
                    end
                end
            end in
          match um with
          | None =>
              match wm with
              | None => tail (VM [])                          (* proto.Reset(dst) *)
              | Some _ => match nm_prune wmask dst with None => MPanic | Some d1 => tail d1 end
              end
          | Some [] => MOk dst src1                           (* non-nil mask with no paths *)
          | Some _ => tail dst
          end
      end
  end.

Definition merge := merge_gen true normalize_paths.
Definition merge_v0 := merge_gen false (fun ps => ps).

(* WriteRequest.fieldUpdater: the writable mask handed to the FieldUpdater.
   allw = WithAllFieldsWritable; resw = the resource's WithWritableFields; more = what
   WithMoreWritableFields accumulated (nil when the option was not used; the option itself stores
   Union(nil, given) = the normalized paths). *)
Definition effective_writable (allw : bool) (resw more : mask) : mask :=
  if allw then None else
  match resw with
  | None => None
  | Some w => Some (fm_union w (match more with Some x => normalize_paths x | None => [] end))
  end.

(* WithUpdateMask followed by WithMoreUpdateMask / WithMoreUpdatePaths: a nil update mask ("all writable
   fields") stays nil; otherwise the extra paths are appended AS GIVEN (fix 3a4e7e7: no normalization here,
   so that Validate sees every path either option was given; Merge normalizes a copy). [moreu] = None when
   the option is not used. *)
Definition effective_update (um moreu : mask) : mask :=
  match moreu with
  | None => um
  | Some extra =>
      match um with
      | None => None
      | Some ps => Some (ps ++ extra)
      end
  end.

(* before 3a4e7e7: fieldmaskpb.Union(update, extra), which normalizes — a path nested below another path
   of either mask disappears before validation *)
Definition effective_update_v0 (um moreu : mask) : mask :=
  match moreu with
  | None => um
  | Some extra =>
      match um with
      | None => None
      | Some ps => Some (fm_union ps extra)
      end
  end.

(* Value.Set as far as masks are concerned: validate the written message against the masks, then
   merge into a clone of the stored value; an error leaves the stored value as it was. *)
Inductive wres := WErr (code : Z) | WOk (stored : value) | WPanic.

Definition write (sch : schema) (ty : string) (allw : bool) (resw more um rm : mask)
           (stored written : value) : wres :=
  let wm := effective_writable allw resw more in
  let code := validate_update sch ty um wm rm in
  if negb (code =? code_ok) then WErr code else
  match merge sch ty um wm rm stored written with
  | MOk d _ => WOk d
  | MPanic => WPanic
  end.
