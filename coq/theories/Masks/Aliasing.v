(* Ownership-aware model of /repo/pkg/masks/get.go: FilterClone and Filter on identity-carrying trees
   (Msg/Tagged.v).  [n] is the allocation counter: every identity in use is below it.  No proofs here. *)
From SC Require Import Base.Prelude Msg.Msg Msg.Schema Msg.Path Msg.FmUtils Msg.Tagged Masks.Get.

Inductive toutcome := TOk (t : tvalue) | TPanic.

(* ResponseFilter.FilterClone(msg): nil mask: msg ITSELF; empty mask: a new empty message; otherwise
   proto.Clone(msg) and fmutils.Filter on the clone *)
Definition filter_clone_t (sch : schema) (ty : string) (m : mask) (n : Z) (t : tvalue) : toutcome :=
  match m with
  | None => TOk t
  | Some [] => TOk (TM n [])
  | Some ps =>
      match t_filter (nested_of_paths (read_paths sch ty ps)) (retag n t) with
      | Some r => TOk r
      | None => TPanic
      end
  end.

(* ResponseFilter.Filter(msg): in place *)
Definition filter_t (sch : schema) (ty : string) (m : mask) (t : tvalue) : toutcome :=
  match m with
  | None => TOk t
  | Some [] => match t with TM id _ => TOk (TM id []) | _ => TOk t end      (* proto.Reset(msg) *)
  | Some ps =>
      match t_filter (nested_of_paths (read_paths sch ty ps)) t with
      | Some r => TOk r
      | None => TPanic
      end
  end.

(* FilterClone with the clone of seeded change C06-r3-1 *)
Definition filter_clone_shallow (sch : schema) (ty : string) (m : mask) (n : Z) (t : tvalue) : toutcome :=
  match m with
  | None => TOk t
  | Some [] => TOk (TM n [])
  | Some ps =>
      match t_filter (nested_of_paths (read_paths sch ty ps)) (shallow_clone n t) with
      | Some r => TOk r
      | None => TPanic
      end
  end.

Definition erase_outcome (o : toutcome) : outcome :=
  match o with TOk t => Ok (erase t) | TPanic => Panic end.

Definition below (n : Z) (t : tvalue) : Prop := forall i, In i (ids t) -> i < n.
