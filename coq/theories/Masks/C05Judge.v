(* Correspondence cases for C05 (writes respect update, writable-field and reset masks).
   KMerge: masks.NewFieldUpdater(WithUpdateMask um, WithWritableFields wm, WithResetMask rm):
           Validate(src), then (only if it accepted) Merge(dst, src) — observed: code, new dst, what
           became of src (Merge filters it in place), or a panic.
   KSet:   resource.NewValue(WithInitialValue stored, WithWritableFields resw).Set(written,
           WithUpdateMask um, WithMoreUpdateMask moreu, WithResetMask rm, WithMoreWritableFields more,
           WithAllFieldsWritable) — (more / moreu = None when the option is not used; mtag <> 0 also when a
           path of moreu is corrupt and um is not nil) —
           observed: code, returned message, the next Get.
   mtag / rtag: how the generator built the update / reset mask from the Go descriptor (0 = every path
   valid by construction, k > 0 = one path corrupted in way k). *)
From SC Require Import Base.Prelude Msg.Msg Msg.Schema Msg.Path Msg.FmUtils Msg.ProtoOps
  Masks.Get Masks.Update Masks.Options Gen.Schema.

Inductive sobs := SRet (ret : option value) (next : value) | SPanic.

Inductive c05case :=
| KMerge (ty : string) (um wm rm : mask) (mtag rtag : Z) (dst src : value) (code : Z) (obs : option mres)
| KSet (ty : string) (allw : bool) (resw more um moreu rm : mask) (mtag rtag : Z)
       (stored written : value) (code : Z) (obs : sobs)
(* KOpts: resource.NewValue(WithInitialValue stored, WithWritableFields resw).Set(written, opts...) with a LIST
   of mask options applied in order (Masks/Options.v); mtag / rtag: the generator's own reading of which
   update / reset paths are in force and whether one of them is corrupt *)
| KOpts (ty : string) (resw : mask) (opts : list wopt) (mtag rtag : Z)
        (stored written : value) (code : Z) (obs : sobs).

Definition mres_equiv (a b : mres) : bool :=
  match a, b with
  | MOk d s, MOk d' s' => value_equiv d d' && value_equiv d' d && value_equiv s s' && value_equiv s' s
  | MPanic, MPanic => true
  | _, _ => false
  end.

Definition veq (a b : value) : bool := value_equiv a b && value_equiv b a.

Definition agrees (c : c05case) : bool :=
  match c with
  | KMerge ty um wm rm _ _ dst src code obs =>
      (code =? validate_update the_schema ty um wm rm) &&
      match obs with
      | None => negb (code =? code_ok)
      | Some o => (code =? code_ok) && mres_equiv o (merge the_schema ty um wm rm dst src)
      end
  | KSet ty allw resw more um moreu rm _ _ stored written code obs =>
      match write the_schema ty allw resw more (effective_update um moreu) rm stored written, obs with
      | WErr c, SRet None next => (code =? c) && veq next stored
      | WOk d, SRet (Some r) next => (code =? code_ok) && veq r d && veq next d
      | WPanic, SPanic => true
      | _, _ => false
      end
  | KOpts ty resw opts _ _ stored written code obs =>
      match write_opts the_schema ty resw opts stored written, obs with
      | WErr c, SRet None next => (code =? c) && veq next stored
      | WOk d, SRet (Some r) next => (code =? code_ok) && veq r d && veq next d
      | WPanic, SPanic => true
      | _, _ => false
      end
  end.

(* ---------------- the property, evaluated on the observation ---------------- *)

(* v without everything the paths select; a message on the way to a selected position that is (or
   becomes) empty is dropped, so that "absent" and "present but empty" parents are identified *)
Fixpoint erase (ps : list path) (v : value) {struct v} : value :=
  match v with
  | VM fields =>
      VM (flat_map (fun kx : string * value =>
                      let '(k, x) := kx in
                      match deriv k ps with
                      | [] => [(k, x)]
                      | d =>
                          if ends_here d then [] else
                          match x with
                          | VM _ => match erase d x with VM [] => [] | x' => [(k, x')] end
                          | _ => [(k, x)]
                          end
                      end) fields)
  | _ => v
  end.

(* positions cleared as a side effect of writing p: the other members of every oneof that a
   populated prefix of p (in the written message w) belongs to *)
Fixpoint sib_paths (sch : schema) (ty : string) (p : path) (w : value) : list path :=
  match p with
  | [] => []
  | s :: r =>
      match vget s w with
      | None => []
      | Some ws =>
          map (fun x => [x]) (oneof_siblings sch ty s) ++ map (cons s) (sib_paths sch (sub_type sch ty s) r ws)
      end
  end.

(* paths without a proper prefix in the same list *)
Definition minimal (ps : list path) : list path :=
  filter (fun p => negb (existsb (fun q => is_prefix q p && negb (path_eqb q p)) ps)) ps.

Definition related (p q : path) : bool := is_prefix p q || is_prefix q p.

Definition type_at (sch : schema) (ty : string) (p : path) : string :=
  fold_left (fun t s => sub_type sch t s) p ty.

Definition opt_veq (a b : option value) : bool :=
  match a, b with
  | None, None => true
  | Some x, Some y => veq x y
  | _, _ => false
  end.

(* what a write of x over d at a position named by the update mask must leave there: scalars are
   replaced, repeated fields appended, map entries overwritten per key, messages merged (protobuf
   FieldMask update semantics) *)
Definition combine (sch : schema) (ty : string) (d : option value) (x : value) : value :=
  match x, d with
  | VM _, Some (VM df) => proto_merge sch ty (VM df) x
  | VL l, Some (VL dl) => VL (dl ++ l)
  | VMap kv, Some (VMap dkv) => VMap (merge_map dkv kv)
  | _, _ => x
  end.

(* pre: message before; w: written message; post: message after.
   um: update mask; weff: the writable paths in force (None = every field); rm: reset mask. *)
Definition write_ok (sch : schema) (ty : string) (um weff rm : mask) (pre w post : value) : bool :=
  match um, weff with
  | Some [], _ => veq post pre                                   (* empty update mask: nothing changes *)
  | _, Some [] => veq post pre                                   (* nothing writable: nothing changes *)
  | None, None =>
      (* everything is written: the result is the written message minus the reset fields *)
      veq (erase (mask_paths rm) post) (erase (mask_paths rm) w)
      && forallb (fun r => match get_at r post with None => true | Some _ => false end) (mask_paths rm)
  | _, _ =>
      let eff := minimal (match um with Some ps => ps | None => mask_paths weff end) in
      let rs := mask_paths rm in
      let sibs := flat_map (fun p => sib_paths sch ty p w) eff in
      (* frame: outside the effective mask, the reset mask and cleared oneof siblings nothing moved *)
      veq (erase (eff ++ rs ++ sibs) post) (erase (eff ++ rs ++ sibs) pre)
      (* inside: every position named by the effective mask holds what the written message says *)
      && forallb (fun p =>
                    existsb (related p) rs ||
                    opt_veq (get_at p post)
                            (match get_at p w with
                             | None => None
                             | Some x =>
                                 Some (match um with
                                       | Some _ => combine sch (type_at sch ty p) (get_at p pre) x
                                       | None => x              (* nil update mask: replaced *)
                                       end)
                             end)) eff
      (* reset: every reset path is cleared *)
      && forallb (fun r => match get_at r post with None => true | Some _ => false end) rs
  end.

(* nil update mask means all writable fields, with or without extra update paths *)
Definition spec_update (um moreu : mask) : mask :=
  match um with None => None | Some ps => Some (ps ++ mask_paths moreu) end.

Definition spec_union (allw : bool) (resw more : mask) : mask :=
  if allw then None else
  match resw with None => None | Some w => Some (w ++ mask_paths more) end.

(* the code a write must answer: built from the generator's knowledge of which masks are valid and
   from the plain reading of "names a field outside the writable fields" *)
Definition expected_code (um weff : mask) (mtag rtag : Z) (rm : mask) : Z :=
  match um with
  | Some ps =>
      if negb (mtag =? 0) then code_invalid_argument
      else match weff with
           | Some ws => if forallb (fun p => existsb (fun w => is_prefix w p) ws) ps
                        then (if (rtag =? 0) then code_ok else code_internal)
                        else code_invalid_argument
           | None => if (rtag =? 0) then code_ok else code_internal
           end
  | None => if (rtag =? 0) then code_ok else code_internal
  end.

(* what a list of options MEANS, read right to left (not the fold the library and the model perform): the
   LAST WithUpdateMask and the extra update paths given after it; the last WithResetMask; all fields
   writable if the option occurs anywhere; every extra writable path wherever it was given *)
Fixpoint spec_um_opts (opts : list wopt) : mask :=
  match opts with
  | [] => None
  | o :: r =>
      if existsb is_update_opt r then spec_um_opts r else
      match o with
      | OUpdateMask (Some ps) => Some (ps ++ flat_map more_update_paths r)
      | _ => None
      end
  end.

Fixpoint spec_rm_opts (opts : list wopt) : mask :=
  match opts with
  | [] => None
  | o :: r =>
      if existsb is_reset_opt r then spec_rm_opts r else
      match o with OResetMask m => m | _ => spec_rm_opts r end
  end.

Definition spec_weff_opts (resw : mask) (opts : list wopt) : mask :=
  if existsb is_allw_opt opts then None else
  match resw with None => None | Some w => Some (w ++ flat_map more_writable_paths opts) end.

Definition C05_ok (c : c05case) : bool :=
  match c with
  | KMerge ty um wm rm mtag rtag dst src code obs =>
      (code =? expected_code um wm mtag rtag rm) &&
      match obs with
      | None => negb (code =? code_ok)
      | Some MPanic => false
      | Some (MOk d' _) => write_ok the_schema ty um wm rm dst src d'
      end
  | KSet ty allw resw more um0 moreu rm mtag rtag stored written code obs =>
      let weff := spec_union allw resw more in
      let um := spec_update um0 moreu in
      (code =? expected_code um weff mtag rtag rm) &&
      match obs with
      | SPanic => false
      | SRet None next => negb (code =? code_ok) && veq next stored        (* rejected: nothing changed *)
      | SRet (Some r) next =>
          (code =? code_ok) && veq next r && write_ok the_schema ty um weff rm stored written r
      end
  | KOpts ty resw opts mtag rtag stored written code obs =>
      let weff := spec_weff_opts resw opts in
      let um := spec_um_opts opts in
      let rm := spec_rm_opts opts in
      (code =? expected_code um weff mtag rtag rm) &&
      match obs with
      | SPanic => false
      | SRet None next => negb (code =? code_ok) && veq next stored
      | SRet (Some r) next =>
          (code =? code_ok) && veq next r && write_ok the_schema ty um weff rm stored written r
      end
  end.

(* hypotheses of the theorems: both messages are trees of the type and the configured writable masks are
   valid for it AFTER NORMALIZATION (Merge only ever uses a normalized copy: an invalid path below a valid
   path of the writable masks is dropped there, theorem [merge_norm_writable]).  The request masks (update,
   extra update paths, reset) carry no hypothesis: an invalid path in them must be rejected.  With a nil
   update mask WithMoreUpdateMask ignores its argument, valid or not. *)
Definition norm_valid (sch : schema) (ty : string) (m : mask) : bool :=
  match m with None => true | Some ps => fm_valid sch ty (normalize_paths ps) end.

Definition C05_guard (c : c05case) : bool :=
  match c with
  | KMerge ty um wm rm _ _ dst src _ _ =>
      conforms the_schema ty dst && conforms the_schema ty src && norm_valid the_schema ty wm
  | KSet ty allw resw more um moreu rm _ _ stored written _ _ =>
      conforms the_schema ty stored && conforms the_schema ty written
      && norm_valid the_schema ty (spec_union allw resw more)
  | KOpts ty resw opts _ _ stored written _ _ =>
      conforms the_schema ty stored && conforms the_schema ty written
      && norm_valid the_schema ty (spec_weff_opts resw opts)
  end.

Definition judge (c : c05case) : Z :=
  verdict (agrees c) (if C05_guard c then C05_ok c else true) None.
