(* The event path of a masked Collection.Pull: whatever the change kind, and whatever the merge stage
   of the pipeline without backpressure made of the published changes, each value of a delivered
   change is the projection of the stored message it stands for. *)
From SC Require Import Base.Prelude Msg.Msg Msg.MsgProofs Msg.Schema Msg.Path Msg.PathProofs Msg.FmUtils
  Masks.Get Masks.GetProofs Masks.C06Judge Masks.C06JudgeProofs Masks.ChangeFilter
  Excess.Change Excess.MergeExcess Gen.Schema.

(* FilterClone is the projection for every mask without empty segments (nil, empty, any paths) *)
Lemma filter_clone_project_mask : forall sch ty m v,
  conforms sch ty v = true -> mask_segs_ok m = true ->
  filter_clone sch ty m v = Ok (project_mask m v).
Proof.
  intros sch ty m v Hc Hm. destruct m as [[|p0 ps0]|]; try reflexivity.
  unfold mask_segs_ok in Hm. apply andb_true_iff in Hm. destruct Hm as [Hs Hn].
  apply filter_is_projection.
  - exact Hc.
  - exact Hs.
  - intros p Hp. rewrite forallb_forall in Hn. specialize (Hn p Hp). destruct p; discriminate.
  - discriminate.
Qed.

Lemma filter_opt_projection : forall sch ty m o,
  oconforms sch ty o = true -> mask_segs_ok m = true ->
  filter_opt sch ty m o = Some (option_map (project_mask m) o).
Proof.
  intros sch ty m [v|] Hc Hm; simpl; [|reflexivity].
  simpl in Hc. rewrite (filter_clone_project_mask _ _ _ _ Hc Hm). reflexivity.
Qed.

Lemma filter_opt_never_panics : forall sch ty m o,
  oconforms sch ty o = true -> filter_opt sch ty m o <> None.
Proof.
  intros sch ty m [v|] Hc; simpl; [|discriminate].
  simpl in Hc. pose proof (never_panics sch ty m v Hc) as Hn.
  destruct (filter_clone sch ty m v); [discriminate|congruence].
Qed.

(* the filter of a change, for EVERY kind (ADD, UPDATE, REMOVE, REPLACE, any other number) *)
Theorem change_filter_is_projection : forall sch ty m c,
  vconforms sch ty c = true -> mask_segs_ok m = true ->
  change_filter sch ty m c = Some (change_projection m c).
Proof.
  intros sch ty m [k o n] Hc Hm. unfold vconforms in Hc. simpl in Hc.
  apply andb_true_iff in Hc. destruct Hc as [Ho Hn].
  unfold change_filter, change_projection. simpl.
  rewrite (filter_opt_projection _ _ _ _ Hn Hm), (filter_opt_projection _ _ _ _ Ho Hm). reflexivity.
Qed.

Theorem change_filter_never_panics : forall sch ty m c,
  vconforms sch ty c = true -> change_filter sch ty m c <> None.
Proof.
  intros sch ty m [k o n] Hc. unfold vconforms in Hc. simpl in Hc.
  apply andb_true_iff in Hc. destruct Hc as [Ho Hn].
  unfold change_filter. simpl.
  pose proof (filter_opt_never_panics sch ty m n Hn) as H1.
  pose proof (filter_opt_never_panics sch ty m o Ho) as H2.
  destruct (filter_opt sch ty m n); [|congruence].
  destruct (filter_opt sch ty m o); [discriminate|congruence].
Qed.

(* ---- through the merge stage ---- *)

Section Merge.
Variables (sch : schema) (ty : string) (st : store).

Definition P (c : change) : Prop := change_ok sch ty st c = true.

Lemma P_zero : P zero_change.
Proof. reflexivity. Qed.

Lemma P_intro : forall c, otok_ok sch ty st (cold c) = true -> otok_ok sch ty st (cnew c) = true -> P c.
Proof. intros c H1 H2. unfold P, change_ok. rewrite H1, H2. reflexivity. Qed.

Lemma P_old : forall c, P c -> otok_ok sch ty st (cold c) = true.
Proof. intros c H. unfold P, change_ok in H. apply andb_true_iff in H. tauto. Qed.
Lemma P_new : forall c, P c -> otok_ok sch ty st (cnew c) = true.
Proof. intros c H. unfold P, change_ok in H. apply andb_true_iff in H. tauto. Qed.

(* mergeChanges only copies values: old from a or b or nil, new from b *)
Lemma merge_values : forall a b,
  let r := fst (merge_changes a b) in
  (cold r = cold a \/ cold r = cold b \/ cold r = None) /\ (cnew r = cnew b \/ cnew r = None).
Proof.
  intros a b. unfold merge_changes.
  destruct (ckind a =? K_ADD).
  { cbn [ckind set_last].
    destruct (ckind b =? K_ADD); [cbn; tauto|].
    destruct ((ckind b =? K_UPDATE) || (ckind b =? K_REPLACE)); [cbn; tauto|].
    destruct (ckind b =? K_REMOVE); cbn; tauto. }
  destruct (ckind a =? K_UPDATE).
  { cbn [ckind set_last set_old]. destruct (ckind b =? K_ADD); cbn; tauto. }
  destruct (ckind a =? K_REPLACE).
  { cbn [ckind set_last set_old]. destruct ((ckind b =? K_ADD) || (ckind b =? K_UPDATE)); cbn; tauto. }
  destruct (ckind a =? K_REMOVE).
  { cbn [ckind set_last set_old]. destruct (negb (ckind b =? K_REMOVE)); cbn; tauto. }
  cbn. tauto.
Qed.

Lemma merge_P : forall a b, P a -> P b -> P (fst (merge_changes a b)).
Proof.
  intros a b Ha Hb. destruct (merge_values a b) as [Ho Hn].
  apply P_intro.
  - destruct Ho as [E|[E|E]]; rewrite E; [apply P_old; exact Ha|apply P_old; exact Hb|reflexivity].
  - destruct Hn as [E|E]; rewrite E; [apply P_new; exact Hb|reflexivity].
Qed.

Definition SInv (s : mstate) : Prop := forall i c, msgs s i = Some c -> P c.

Lemma sinv_init : SInv m_init.
Proof. intros i c H. discriminate. Qed.

Lemma sinv_mset : forall s i c q cl, SInv s -> P c -> SInv (mkM (mset (msgs s) i c) q cl).
Proof.
  intros s i c q cl Hs Hc j d H. simpl in H. unfold mset in H.
  destruct (j =? i); [inversion H; subst; exact Hc|apply (Hs j); exact H].
Qed.

Lemma sinv_mdel : forall s i q cl, SInv s -> SInv (mkM (mdel (msgs s) i) q cl).
Proof.
  intros s i q cl Hs j d H. simpl in H. unfold mdel in H.
  destruct (j =? i); [discriminate|apply (Hs j); exact H].
Qed.

Lemma step_inv : forall s a,
  SInv s -> (forall c, a = Send c -> P c) ->
  SInv (fst (m_step s a)) /\ (forall c, snd (m_step s a) = OGot c -> P c).
Proof.
  intros s a Hs Ha. unfold m_step.
  destruct (closed s); [split; [exact Hs|intros c H; discriminate]|].
  destruct a as [c| |].
  - specialize (Ha c eq_refl).
    destruct (queue s) as [|j q] eqn:Eq.
    + split; [apply sinv_mset; assumption|intros d H; discriminate].
    + destruct (msgs s (cid c)) as [old|] eqn:Eo.
      * pose proof (merge_P old c (Hs _ _ Eo) Ha) as Hm.
        destruct (merge_changes old c) as [mm send]. simpl in Hm.
        destruct send; (split; [|intros d H; discriminate]).
        -- apply sinv_mset; assumption.
        -- apply sinv_mdel; assumption.
      * split; [apply sinv_mset; assumption|intros d H; discriminate].
  - destruct (queue s) as [|j q] eqn:Eq.
    + split; [exact Hs|intros d H; discriminate].
    + split; [apply sinv_mdel; exact Hs|].
      intros d H. simpl in H. inversion H; subst.
      destruct (msgs s j) as [c|] eqn:Ec; [apply (Hs j); exact Ec|apply P_zero].
  - split; [intros i c H; discriminate|intros d H; discriminate].
Qed.

Lemma run_inv : forall l s,
  SInv s -> (forall c, In (Send c) l -> P c) ->
  forall c, In c (got_of (snd (m_run s l))) -> P c.
Proof.
  induction l as [|a r IH]; intros s Hs Hl c Hin.
  - simpl in Hin. contradiction.
  - simpl in Hin.
    destruct (step_inv s a Hs) as [Hs1 Hg].
    { intros d E. apply Hl. left. exact E. }
    destruct (m_step s a) as [s1 o] eqn:Es. simpl in Hs1, Hg.
    destruct (m_run s1 r) as [s2 os] eqn:Er. simpl in Hin.
    apply in_app_or in Hin. destruct Hin as [Hin|Hin].
    + destruct o; simpl in Hin; try contradiction.
      destruct Hin as [E|[]]. subst. apply Hg. reflexivity.
    + apply (IH s1 Hs1).
      * intros d Hd. apply Hl. right. exact Hd.
      * rewrite Er. exact Hin.
Qed.

Lemma P_interp_conforms : forall c, P c -> vconforms sch ty (interp st c) = true.
Proof.
  intros c H. unfold vconforms, interp. simpl.
  pose proof (P_old c H) as Ho. pose proof (P_new c H) as Hn.
  assert (A : forall o, otok_ok sch ty st o = true -> oconforms sch ty (tok st o) = true).
  { intros [t|] Ht; simpl in *; [|reflexivity]. destruct (st t); [exact Ht|reflexivity]. }
  rewrite (A _ Ho), (A _ Hn). reflexivity.
Qed.

End Merge.

(* every change a subscriber without backpressure is handed - for every interleaving of published
   changes and receives on the merge stage, so merged changes of kind REPLACE included - comes out of
   filter with both values projected and its kind kept *)
Theorem lossy_deliveries_are_projections : forall sch ty m st l,
  mask_segs_ok m = true ->
  (forall c, In (Send c) l -> change_ok sch ty st c = true) ->
  lossy_deliveries sch ty m st l =
  map (fun c => Some (change_projection m (interp st c))) (got_of (snd (m_run m_init l))).
Proof.
  intros sch ty m st l Hm Hl. unfold lossy_deliveries.
  apply map_ext_in. intros c Hin.
  apply change_filter_is_projection; [|exact Hm].
  apply P_interp_conforms.
  apply (run_inv sch ty st l m_init); [apply sinv_init|exact Hl|exact Hin].
Qed.

Theorem lossy_deliveries_never_panic : forall sch ty m st l,
  (forall c, In (Send c) l -> change_ok sch ty st c = true) ->
  ~ In None (lossy_deliveries sch ty m st l).
Proof.
  intros sch ty m st l Hl Hin. unfold lossy_deliveries in Hin.
  apply in_map_iff in Hin. destruct Hin as [c [E Hc]].
  apply (change_filter_never_panics sch ty m (interp st c)); [|exact E].
  apply P_interp_conforms.
  apply (run_inv sch ty st l m_init); [apply sinv_init|exact Hl|exact Hc].
Qed.

(* an observation that agrees with the model of filter satisfies the event clause of C06_ok *)
Theorem event_judge_sound : forall kind ty m sold snew oold onew,
  C06_guard (KEvent kind ty m sold snew oold onew) = true ->
  agrees (KEvent kind ty m sold snew oold onew) = true ->
  C06_ok (KEvent kind ty m sold snew oold onew) = true.
Proof.
  intros kind ty m sold snew oold onew Hg Ha. simpl in Hg, Ha. simpl.
  assert (Hg' : vconforms the_schema ty (mkV kind sold snew) = true) by exact Hg.
  destruct (mask_segs_ok m) eqn:Hm.
  - rewrite (change_filter_is_projection _ _ _ _ Hg' Hm) in Ha.
    unfold vchange_eqb in *. simpl in *.
    apply andb_true_iff in Ha. destruct Ha as [Ha Hn]. apply andb_true_iff in Ha. destruct Ha as [Hk Ho].
    rewrite Z.eqb_refl. simpl.
    assert (S : forall a b, ovalue_eqb a b = true -> ovalue_eqb b a = true).
    { intros [x|] [y|] H; simpl in *; try discriminate; auto.
      apply value_eqb_eq in H. subst. apply value_eqb_refl. }
    rewrite (S _ _ Ho), (S _ _ Hn). reflexivity.
  - unfold change_filter in Ha. simpl in Ha.
    destruct (filter_opt the_schema ty m snew) as [n|] eqn:En; [|discriminate].
    destruct (filter_opt the_schema ty m sold) as [o|] eqn:Eo; [|discriminate].
    unfold vchange_eqb in Ha. simpl in Ha.
    apply andb_true_iff in Ha. destruct Ha as [Ha Hn]. apply andb_true_iff in Ha. destruct Ha as [_ Ho].
    assert (S : forall s f x, filter_opt the_schema ty m s = Some f -> ovalue_eqb f x = true ->
                              Bool.eqb (is_some x) (is_some s) = true).
    { intros [s|] f x Hf Hx; simpl in Hf.
      - destruct (filter_clone the_schema ty m s); [|discriminate]. inversion Hf; subst.
        destruct x; simpl in *; [reflexivity|discriminate].
      - inversion Hf; subst. destruct x; simpl in *; [discriminate|reflexivity]. }
    rewrite (S _ _ _ Eo Ho), (S _ _ _ En Hn). reflexivity.
Qed.
