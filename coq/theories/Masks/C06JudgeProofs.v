(* An observation that agrees with the model satisfies the no-panic and projection clauses of C06_ok:
   the judge's "agrees" verdict is backed by the theorems. *)
From SC Require Import Base.Prelude Msg.Msg Msg.MsgProofs Msg.Schema Msg.Path Msg.PathProofs Msg.FmUtils
  Masks.Get Masks.GetProofs Masks.C06Judge Gen.Schema.

Lemma outcome_eqb_eq : forall a b, outcome_eqb a b = true -> a = b.
Proof.
  intros [x|] [y|] H; simpl in H; try discriminate; auto. f_equal. apply value_eqb_eq. exact H.
Qed.

Theorem judge_sound : forall op ty m corrupt v code obs,
  C06_guard (KRead op ty m corrupt v code obs) = true ->
  agrees (KRead op ty m corrupt v code obs) = true ->
  obs <> Panic /\ (mask_segs_ok m = true -> obs = Ok (project_mask m v)).
Proof.
  intros op ty m corrupt v code obs Hg Ha. simpl in Hg, Ha.
  apply andb_true_iff in Ha. destruct Ha as [Ha _]. apply outcome_eqb_eq in Ha. subst obs.
  split; [apply never_panics; exact Hg|].
  intros Hm. destruct m as [[|p0 ps0]|]; try reflexivity.
  unfold mask_segs_ok in Hm. apply andb_true_iff in Hm. destruct Hm as [Hs Hn].
  apply filter_is_projection.
  - exact Hg.
  - exact Hs.
  - intros p Hp. rewrite forallb_forall in Hn. specialize (Hn p Hp). destruct p; discriminate.
  - discriminate.
Qed.
