(* CollectionChange.filter (pkg/resource/change.go) and what a subscriber of Collection.Pull is
   handed through a read mask.  Model only, no proofs.

   A change as the subscriber's filter sees it: the change kind (ChangeType as a number: 1 ADD,
   2 UPDATE, 3 REMOVE, 4 REPLACE, anything else as well) and the old and new value, [None] = Go's nil.
   filter passes BOTH values through ResponseFilter.FilterClone whatever the kind is (FilterClone of
   a nil message is nil) and keeps the kind.  REPLACE is never published by a write: it comes out of
   mergeChanges in the pipeline without backpressure (Excess/Change.v, Excess/MergeExcess.v) when a
   REMOVE and a later ADD of one id are merged behind a reader that is not collecting.

   The merge stage never looks inside values: Excess/Change.v carries them as tokens.  [interp st c]
   is the change with its tokens replaced by the stored messages they stand for. *)
From SC Require Import Base.Prelude Msg.Msg Msg.Schema Msg.Path Msg.FmUtils Masks.Get Excess.Change Excess.MergeExcess.

Record vchange := mkV {
  vkind : Z;
  vold : option value;
  vnew : option value
}.

(* FilterClone on a possibly-nil message: [None] = panic *)
Definition filter_opt (sch : schema) (ty : string) (m : mask) (o : option value) : option (option value) :=
  match o with
  | None => Some None
  | Some v => match filter_clone sch ty m v with Ok r => Some (Some r) | Panic => None end
  end.

(* CollectionChange.filter; [None] = panic *)
Definition change_filter (sch : schema) (ty : string) (m : mask) (c : vchange) : option vchange :=
  match filter_opt sch ty m (vnew c), filter_opt sch ty m (vold c) with
  | Some n, Some o => Some (mkV (vkind c) o n)
  | _, _ => None
  end.

(* the reference: both values projected, kind untouched *)
Definition change_projection (m : mask) (c : vchange) : vchange :=
  mkV (vkind c) (option_map (project_mask m) (vold c)) (option_map (project_mask m) (vnew c)).

Definition ovalue_eqb := option_eqb value_eqb.
Definition vchange_eqb (a b : vchange) : bool :=
  (vkind a =? vkind b) && ovalue_eqb (vold a) (vold b) && ovalue_eqb (vnew a) (vnew b).

Definition oconforms (sch : schema) (ty : string) (o : option value) : bool :=
  match o with None => true | Some v => conforms sch ty v end.
Definition vconforms (sch : schema) (ty : string) (c : vchange) : bool :=
  oconforms sch ty (vold c) && oconforms sch ty (vnew c).

(* ---- composition with the merge stage ---- *)

(* what the tokens stand for: the messages the writes stored *)
Definition store := Z -> option value.

Definition tok (st : store) (o : option Z) : option value :=
  match o with None => None | Some t => st t end.

Definition interp (st : store) (c : change) : vchange := mkV (ckind c) (tok st (cold c)) (tok st (cnew c)).

(* every token of the change stands for a message of type ty *)
Definition otok_ok (sch : schema) (ty : string) (st : store) (o : option Z) : bool :=
  match o with
  | None => true
  | Some t => match st t with Some v => conforms sch ty v | None => false end
  end.
Definition change_ok (sch : schema) (ty : string) (st : store) (c : change) : bool :=
  otok_ok sch ty st (cold c) && otok_ok sch ty st (cnew c).

(* the events a subscriber without backpressure receives for a run of the merge stage (changes sent
   by the bus interleaved with the subscriber's receives), each passed through filter *)
Definition lossy_deliveries (sch : schema) (ty : string) (m : mask) (st : store) (l : list action) : list (option vchange) :=
  map (fun c => change_filter sch ty m (interp st c)) (got_of (snd (m_run m_init l))).

Definition is_some {A} (o : option A) : bool := match o with Some _ => true | None => false end.
