(* FilterClone never writes a node that existed before the call and hands out no node of its source;
   Filter writes only nodes of its argument. *)
From SC Require Import Base.Prelude Msg.Msg Msg.MsgProofs Msg.Schema Msg.Path Msg.FmUtils Msg.Tagged
  Msg.TaggedProofs Masks.Get Masks.Aliasing.

(* the ownership-aware model computes the tree the plain model computes *)
Theorem filter_clone_t_refines : forall sch ty m n t,
  erase_outcome (filter_clone_t sch ty m n t) = filter_clone sch ty m (erase t).
Proof.
  intros sch ty [[|p ps]|] n t; simpl; auto.
  rewrite <- (retag_erase t n). rewrite <- t_filter_erase.
  destruct (t_filter _ (retag n t)); reflexivity.
Qed.

Theorem filter_t_refines : forall sch ty m t, t_is_msg t = true ->
  erase_outcome (filter_t sch ty m t) = filter_clone sch ty m (erase t).
Proof.
  intros sch ty [[|p ps]|] t Hm; simpl; auto.
  - destruct t; try discriminate. reflexivity.
  - rewrite <- t_filter_erase. destruct (t_filter _ t); reflexivity.
Qed.

(* NON-MUTATION, as a theorem: with a non-nil mask every node of the result is a NEW allocation
   (identity >= n), so the source - and every other message that existed when the call was made -
   shows after the call exactly what it showed before *)
Theorem filter_clone_result_fresh : forall sch ty ps n t r,
  filter_clone_t sch ty (Some ps) n t = TOk r ->
  forall i, In i (ids r) -> n <= i.
Proof.
  intros sch ty [|p ps] n t r H i Hi; simpl in H.
  - inversion H. subst. simpl in Hi. destruct Hi as [<-|[]]. lia.
  - destruct (t_filter _ (retag n t)) as [r'|] eqn:E; inversion H. subst.
    apply (t_filter_ids _ _ _ E) in Hi. apply retag_fresh in Hi. lia.
Qed.

Theorem filter_clone_never_mutates : forall sch ty ps n t r v,
  filter_clone_t sch ty (Some ps) n t = TOk r ->
  below n v ->
  rebase r v = v.
Proof.
  intros sch ty ps n t r v H Hb. apply rebase_disjoint. intros i Hi Hr.
  pose proof (filter_clone_result_fresh sch ty ps n t r H i Hr). specialize (Hb i Hi). lia.
Qed.

Corollary filter_clone_source_untouched : forall sch ty ps n t r,
  filter_clone_t sch ty (Some ps) n t = TOk r -> below n t ->
  rebase r t = t /\ (forall i, In i (ids r) -> ~ In i (ids t)).
Proof.
  intros sch ty ps n t r H Hb. split; [eapply filter_clone_never_mutates; eauto|].
  intros i Hr Ht. pose proof (filter_clone_result_fresh sch ty ps n t r H i Hr). specialize (Hb i Ht). lia.
Qed.

(* with a nil mask the caller holds the very message that was passed in (for Value.Get: the stored one) *)
Theorem filter_clone_nil_is_the_source : forall sch ty n t, filter_clone_t sch ty None n t = TOk t.
Proof. reflexivity. Qed.

(* Filter (in place) keeps only nodes of its argument: a message that shares no node with the argument
   is not affected *)
Theorem filter_in_place_frame : forall sch ty m t r v,
  filter_t sch ty m t = TOk r ->
  (forall i, In i (ids v) -> ~ In i (ids t)) ->
  rebase r v = v.
Proof.
  intros sch ty m t r v H Hd. apply rebase_disjoint. intros i Hi Hr. apply (Hd i Hi).
  destruct m as [[|p ps]|]; simpl in H.
  - destruct t; inversion H; subst; auto. simpl in Hr. destruct Hr as [<-|[]]. left. reflexivity.
  - destruct (t_filter _ t) as [r'|] eqn:E; inversion H. subst. eapply t_filter_ids; eauto.
  - inversion H; subst; auto.
Qed.
