(* Correspondence cases for C04 / C08 with an EQUIVALENCE configured on the collection (the held map
   of Collection.Pull, Resource/Pull.v [pull_collection_held]) together with include predicates and
   read masks, over histories that delete and re-add items and move them out of and back into the
   include filter -- with backpressure (every field of every event against the model, and the folded
   view against List with the same options AFTER EVERY WRITE) and without (oracle only, after
   draining).

   A case records, for each call made while subscribed, its code and -- when the harness let the
   delivery settle after it -- a mark: how many events the subscriber had received by then and what
   List(same mask, same include) returned at that moment.  Settling is done by a write to the id
   [settle_id], which is therefore left out of the per-mark comparison (its own event may or may not
   have arrived) and included in the final one.  *)
From SC Require Import Base.Prelude Resource.Impl Resource.Spec Resource.Pull Resource.Flat Resource.Judge.

Definition settle_id : string := "~".

Inductive hcase :=
| CaseH (equiv : option eqv) (before : list fop) (ro : fro) (lossy : bool)
        (after : list (fop * Z * option (Z * list (string * fmsg))))
        (stream : list ochange) (final_list : list (string * fmsg)).

Definition h_ops (after : list (fop * Z * option (Z * list (string * fmsg)))) : list fop :=
  map (fun x => fst (fst x)) after.
Definition h_codes (after : list (fop * Z * option (Z * list (string * fmsg)))) : list Z :=
  map (fun x => snd (fst x)) after.

Definition h_eqv (e : option eqv) : option fmsg -> option fmsg -> bool :=
  match e with Some ev => interp_eqv ev | None => ofm_eqb end.

Definition agrees_h (c : hcase) : bool :=
  match c with
  | CaseH e before ro lossy after stream final =>
      if lossy then true       (* merged delivery is C09's model (and C08x's); judged by the oracle *)
      else
        let '(cs, s2) := model_cstream None None e before ro (h_ops after) in
        list_match cc_matches cs stream &&
        list_eqb kv_eqb (c_list fr_filter s2 (r_mask ro) (option_map interp_pred (r_include ro))) final
  end.

(* fold of the first n events vs the listing taken at that moment, up to the equivalence, id by id *)
Definition marks_ok (ev : option fmsg -> option fmsg -> bool) (stream : list ochange)
           (after : list (fop * Z * option (Z * list (string * fmsg)))) : bool :=
  forallb (fun x => match snd x with
                    | Some (n, lst) =>
                        (n <=? zlen stream) &&
                        equiv_map_except (Some settle_id) ev
                          (fold_view (map to_cc (firstn (Z.to_nat n) stream))) lst
                    | None => true
                    end) after.

(* C08's clause: the folded stream is List with the same options (up to the equivalence), at every
   mark and at the end *)
Definition C08H_ok (c : hcase) : bool :=
  match c with
  | CaseH e before ro lossy after stream final =>
      if r_updates_only ro then true
      else marks_ok (h_eqv e) stream after &&
           equiv_map (h_eqv e) (fold_view (map to_cc stream)) final
  end.

(* C04's clauses that do not need the writer's values: seeds first / sorted / flagged, projected
   values, no more events than successful writes (backpressure), nothing delivered that is
   equivalent to what the subscriber holds, and the fold clauses above (a suppressed non-equivalent
   change, or a suppressed ADD of an item the subscriber does not have, shows at the next mark) *)
Definition C04H_ok (c : hcase) : bool :=
  match c with
  | CaseH e before ro lossy after stream final =>
      seeds_then_updates false stream &&
      (if r_updates_only ro then forallb (fun o => negb (oc_seed o)) stream else true) &&
      (match r_mask ro with
       | Some k => forallb (fun o => ofm_eqb (option_map (fr_filter k) (oc_old o)) (oc_old o) &&
                                     ofm_eqb (option_map (fr_filter k) (oc_new o)) (oc_new o)) stream
       | None => true
       end) &&
      (lossy || (non_seed stream <=? ok_writes (h_ops after) (h_codes after))) &&
      (match e with Some ev => held_ok (interp_eqv ev) [] stream | None => true end) &&
      C08H_ok c
  end.

Definition judge04h (c : hcase) : Z := verdict (agrees_h c) (C04H_ok c) None.
Definition judge08h (c : hcase) : Z := verdict (agrees_h c) (C08H_ok c) None.
