(* C04 / C01, further theorems: the collection equivalence is applied to what the subscriber is sent
   (after the read mask), exactly; whole histories (every call sequence from every sorted contents);
   write times; initial records given to the constructor.  Arbitrary message algebra throughout. *)
From SC Require Import Base.Prelude Resource.Impl Resource.Spec Resource.Pull Resource.ImplProofs
  Resource.SpecProofs Resource.PullProofs.

Set Implicit Arguments.

Section Proofs.
  Variable M : Type.
  Variable m_eqb : M -> M -> bool.
  Variable m_empty : M.
  Variable writer : Type.
  Variable w_validate : writer -> option Z.
  Variable w_merge : writer -> M -> M -> M.
  Variable rmask : Type.
  Variable r_filter : rmask -> M -> M.
  Variable clock_at : Z -> Z.
  Variable str_ltb : string -> string -> bool.
  Variable idfun : option (string -> string).

  Hypothesis ltb_irrefl : forall a, str_ltb a a = false.
  Hypothesis ltb_trans : forall a b c, str_ltb a b = true -> str_ltb b c = true -> str_ltb a c = true.
  Hypothesis ltb_total : forall a b, str_ltb a b = false -> str_ltb b a = false -> a = b.

  Notation item := (item M).
  Notation cevent := (cevent M).
  Notation cstate := (cstate M).
  Notation ropts := (ropts M rmask).
  Notation cchange := (cchange M).
  Notation wopts := (wopts M writer).
  Notation spec_step := (spec_step m_eqb m_empty w_validate w_merge r_filter clock_at str_ltb idfun).
  Notation sorted := (sorted str_ltb).
  Notation filt := (filt r_filter).

  (* ---------- the collection equivalence, exactly ---------- *)
  (* what a subscriber without include predicate is sent for one published event *)
  Definition sent (ro : ropts) (e : cevent) : cchange := cc_filter r_filter ro (of_event e).

  Theorem collection_equivalence_exact cmp (ro : ropts) evs :
    ro_include ro = None ->
    c_forward_gen r_filter (Some cmp) false false ro evs =
    filter (fun c => negb (cmp (cc_old c) (cc_new c))) (map (sent ro) evs).
  Proof.
    intros RI. induction evs as [|e r IH]; simpl; [reflexivity|].
    rewrite RI. simpl. rewrite IH.
    destruct (cmp (option_map (filt ro) (ce_old e)) (option_map (filt ro) (ce_new e))); reflexivity.
  Qed.

  Theorem collection_stream_with_equivalence cmp (ro : ropts) (s : cstate) evs :
    ro_include ro = None ->
    pull_collection r_filter (Some cmp) s ro evs =
    (if ro_updates_only ro then [] else seeds r_filter ro (c_items s)) ++
    filter (fun c => negb (cmp (cc_old c) (cc_new c))) (map (sent ro) evs).
  Proof.
    intros RI. unfold pull_collection, pull_collection_gen.
    rewrite collection_equivalence_exact by exact RI.
    unfold included. rewrite RI.
    assert (E : filter (fun _ : string * item => true) (c_items s) = c_items s).
    { induction (c_items s) as [|x r IH]; simpl; [reflexivity|rewrite IH; reflexivity]. }
    rewrite E. reflexivity.
  Qed.

  (* a write that changes only what the read mask hides is not delivered by a resource whose
     equivalence is reflexive (WithNoDuplicates, every cmp.Message): the comparison is made on the
     projected values *)
  Theorem masked_out_write_suppressed cmp (ro : ropts) (e : cevent) :
    ro_include ro = None -> (forall x, cmp x x = true) ->
    option_map (filt ro) (ce_old e) = option_map (filt ro) (ce_new e) ->
    c_forward_gen r_filter (Some cmp) false false ro [e] = [].
  Proof.
    intros RI Hrefl Heq. rewrite collection_equivalence_exact by exact RI. simpl.
    unfold sent, cc_filter, of_event. simpl. rewrite Heq. rewrite Hrefl. reflexivity.
  Qed.

  (* ... and one that the subscriber can see is delivered, with the projected old and new values *)
  Theorem visible_write_delivered cmp (ro : ropts) (e : cevent) :
    ro_include ro = None ->
    cmp (option_map (filt ro) (ce_old e)) (option_map (filt ro) (ce_new e)) = false ->
    c_forward_gen r_filter (Some cmp) false false ro [e] =
    [mkCC (ce_id e) (ce_time e) (ce_kind e) (option_map (filt ro) (ce_old e)) (option_map (filt ro) (ce_new e)) false false].
  Proof.
    intros RI Hne. rewrite collection_equivalence_exact by exact RI. simpl.
    unfold sent, cc_filter, of_event. simpl. rewrite Hne. reflexivity.
  Qed.

  (* ---------- whole histories ---------- *)
  (* along every call sequence from sorted contents, every call publishes nothing or exactly one
     event, and failed calls publish nothing *)
  Theorem history_one_event_per_effective_write ops : forall s s' outs,
    run spec_step s ops = (s', outs) -> sorted (c_items s) ->
    Forall (fun p => (snd p = [] \/ exists e, snd p = [e] /\ failed (fst p) = false) /\
                     (failed (fst p) = true -> snd p = [])) outs.
  Proof.
    induction ops as [|op r IH]; intros s s' outs; simpl.
    - intros H _. inversion H. constructor.
    - destruct (spec_step s op) as [[s1 out] ev] eqn:E.
      destruct (run spec_step s1 r) as [s2 outs2] eqn:E2.
      intros H Hs. inversion H. subst. constructor.
      + simpl. split.
        * assert (HE := E). eapply step_events in HE; eauto.
          destruct HE as [[-> _]|(e & -> & _ & F)]; [left; reflexivity|right; eauto].
        * intros F. eapply failed_step_no_event; eauto.
      + eapply IH; eauto. eapply step_keeps_sorted; eauto.
  Qed.

  (* the subscriber opened at any point of a history (state s) receives the seed of s followed by
     exactly the events of the calls made afterwards, in order, each projected by the read mask *)
  Theorem history_stream (ro : ropts) ops s s' outs :
    ro_include ro = None -> run spec_step s ops = (s', outs) ->
    pull_collection r_filter None s ro (flat_map snd outs) =
    (if ro_updates_only ro then [] else seeds r_filter ro (c_items s)) ++
    flat_map (fun p => map (sent ro) (snd p)) outs.
  Proof.
    intros RI _. rewrite stream_is_seed_then_script by exact RI. f_equal.
    induction outs as [|p r IH]; simpl; [reflexivity|]. rewrite map_app. rewrite IH. reflexivity.
  Qed.

  (* ---------- initial records ---------- *)
  Notation c_new := (c_new clock_at str_ltb).
  Notation insert := (insert str_ltb).

  Lemma fold_insert_sorted (records : list (string * M)) : forall l,
    sorted l -> sorted (fold_left (fun l p => insert (fst p) (mkItem (snd p) (clock_at 0)) l) records l).
  Proof.
    induction records as [|[id v] r IH]; intros l Hs; simpl; [exact Hs|].
    apply IH. apply insert_sorted; assumption.
  Qed.

  Lemma fold_insert_lookup_other (records : list (string * M)) id : forall l,
    ~ In id (map fst records) ->
    lookup id (fold_left (fun l p => insert (fst p) (mkItem (snd p) (clock_at 0)) l) records l) = lookup id l.
  Proof.
    induction records as [|[k v] r IH]; intros l Hn; simpl; [reflexivity|].
    simpl in Hn. rewrite IH by tauto. apply lookup_insert_other. intros ->. tauto.
  Qed.

  Theorem c_new_contents (records : list (string * M)) :
    NoDup (map fst records) ->
    sorted (c_items (c_new records)) /\
    (forall id v, In (id, v) records -> lookup id (c_items (c_new records)) = Some (mkItem v (clock_at 0))) /\
    (forall id, ~ In id (map fst records) -> lookup id (c_items (c_new records)) = None).
  Proof.
    intros ND. unfold Impl.c_new. simpl. split; [|split].
    - apply fold_insert_sorted. exact I.
    - assert (G : forall (l : list (string * item)) id v, In (id, v) records ->
                 lookup id (fold_left (fun l p => insert (fst p) (mkItem (snd p) (clock_at 0)) l) records l)
                 = Some (mkItem v (clock_at 0))).
      { revert ND. induction records as [|[k x] r IH]; intros ND l id v Hin; [destruct Hin|].
        simpl. inversion ND as [|? ? Hk ND']. subst. destruct Hin as [Heq|Hin].
        - inversion Heq. subst. rewrite fold_insert_lookup_other by exact Hk.
          apply lookup_insert_same.
        - apply IH; assumption. }
      intros id v Hin. apply G. exact Hin.
    - intros id Hn. rewrite fold_insert_lookup_other by exact Hn. reflexivity.
  Qed.
  (* ---------- write times, preconditions ---------- *)
  (* a successful Set publishes exactly one change carrying the returned value and the write's
     change time — the explicit write time whatever it is, else the clock — and stores both *)
  Theorem value_set_event (s : vstate M) msg (o : wopts) s' nv ev :
    spec_v_set m_eqb m_empty w_validate w_merge clock_at s msg o = (s', inl nv, ev) ->
    let t := match wo_time o with Some t0 => t0 | None => clock_at (v_reads s) end in
    ev = [mkVE nv t] /\ v_val s' = Some nv /\ v_time s' = t.
  Proof.
    unfold spec_v_set. destruct (w_validate (wo_writer o)); [intros H; inversion H|].
    destruct (precondition m_eqb o (v_val s)); [intros H; inversion H|].
    unfold write_time. destruct (wo_time o); intros H; inversion H; subst; simpl; auto.
  Qed.

  (* both value preconditions are consulted: the reference lets a write through exactly when the
     expected value (if any) matches AND the expected check (if any) accepts *)
  Theorem precondition_none_iff (o : wopts) base :
    precondition m_eqb o base = None <->
    (forall e, wo_expected o = Some e -> option_eqb m_eqb base (Some e) = true) /\
    (forall chk, wo_check o = Some chk -> chk base = None).
  Proof.
    unfold precondition. destruct (wo_expected o) as [e|]; destruct (wo_check o) as [chk|].
    - destruct (option_eqb m_eqb base (Some e)) eqn:E.
      + split; [intros H; split; intros ? Hq; inversion Hq; subst; auto|intros [_ H]; auto].
      + split; [intros H; discriminate H|intros [H _]; specialize (H e eq_refl); rewrite E in H; discriminate H].
    - destruct (option_eqb m_eqb base (Some e)) eqn:E.
      + split; [intros _; split; intros ? Hq; inversion Hq; subst; auto|auto].
      + split; [intros H; discriminate H|intros [H _]; specialize (H e eq_refl); rewrite E in H; discriminate H].
    - split; [intros H; split; intros ? Hq; inversion Hq; subst; auto|intros [_ H]; auto].
    - split; [intros _; split; intros ? Hq; inversion Hq|auto].
  Qed.

  (* the same for the code-shaped closure of opt.go *)
  Theorem change_fn_success_needs_both (o : wopts) value old x :
    change_fn m_eqb m_empty w_merge o value old = inl x ->
    (forall e, wo_expected o = Some e -> option_eqb m_eqb old (Some e) = true) /\
    (forall chk, wo_check o = Some chk -> chk old = None).
  Proof.
    unfold change_fn, om_eqb. destruct (wo_expected o) as [e|]; destruct (wo_check o) as [chk|].
    - destruct (option_eqb m_eqb old (Some e)) eqn:E; [|discriminate].
      destruct (chk old) eqn:C; [discriminate|]. intros _. split; intros ? Hq; inversion Hq; subst; auto.
    - destruct (option_eqb m_eqb old (Some e)) eqn:E; [|discriminate].
      intros _. split; intros ? Hq; inversion Hq; subst; auto.
    - destruct (chk old) eqn:C; [discriminate|]. intros _. split; intros ? Hq; inversion Hq; subst; auto.
    - intros _. split; intros ? Hq; inversion Hq.
  Qed.
End Proofs.
