(* C01: the implementation-shaped model refines the plain reference (Spec.v), and the reference has
   the map / register properties the property statement lists.  Everything is proved for an
   arbitrary message algebra, arbitrary callbacks and an arbitrary strict total order on ids. *)
From SC Require Import Base.Prelude Resource.Impl Resource.Spec.

Set Implicit Arguments.

Section Proofs.
  Variable M : Type.
  Variable m_eqb : M -> M -> bool.
  Variable m_empty : M.
  Variable writer : Type.
  Variable w_validate : writer -> option Z.
  Variable w_merge : writer -> M -> M -> M.
  Variable rmask : Type.
  Variable r_filter : rmask -> M -> M.
  Variable clock_at : Z -> Z.
  Variable str_ltb : string -> string -> bool.
  Variable idfun : option (string -> string).

  Hypothesis m_eqb_refl : forall m, m_eqb m m = true.     (* proto.Equal is reflexive (NaN equals NaN there) *)
  Hypothesis ltb_irrefl : forall a, str_ltb a a = false.
  Hypothesis ltb_trans : forall a b c, str_ltb a b = true -> str_ltb b c = true -> str_ltb a c = true.
  Hypothesis ltb_total : forall a b, str_ltb a b = false -> str_ltb b a = false -> a = b.

  Notation wopts := (wopts M writer).
  Notation cstate := (cstate M).
  Notation item := (item M).
  Notation c_update := (c_update m_eqb m_empty w_validate w_merge clock_at str_ltb idfun).
  Notation c_delete := (c_delete m_eqb clock_at idfun).
  Notation spec_c_update := (spec_c_update m_eqb m_empty w_validate w_merge clock_at str_ltb idfun).
  Notation spec_c_delete := (spec_c_delete m_eqb clock_at idfun).
  Notation impl_step := (impl_step m_eqb m_empty w_validate w_merge r_filter clock_at str_ltb idfun).
  Notation spec_step := (spec_step m_eqb m_empty w_validate w_merge r_filter clock_at str_ltb idfun).
  Notation apply_id := (apply_id idfun).

  (* ---------- the association list as a map ---------- *)
  Lemma has_key_lookup id (l : list (string * item)) :
    has_key id l = match lookup id l with Some _ => true | None => false end.
  Proof.
    unfold has_key, keys. induction l as [|[k v] r IH]; simpl; [reflexivity|].
    rewrite (String.eqb_sym id k). destruct (String.eqb k id); [reflexivity|exact IH].
  Qed.

  Lemma lookup_insert_same id v (l : list (string * item)) : lookup id (insert str_ltb id v l) = Some v.
  Proof.
    induction l as [|[k x] r IH]; simpl.
    - rewrite String.eqb_refl. reflexivity.
    - destruct (String.eqb k id) eqn:E; simpl.
      + rewrite String.eqb_refl. reflexivity.
      + destruct (str_ltb id k); simpl.
        * rewrite String.eqb_refl. reflexivity.
        * rewrite E. exact IH.
  Qed.

  Lemma lookup_insert_other id id' v (l : list (string * item)) :
    id' <> id -> lookup id' (insert str_ltb id v l) = lookup id' l.
  Proof.
    intros Hne. induction l as [|[k x] r IH]; simpl.
    - destruct (String.eqb_spec id id'); [congruence|reflexivity].
    - destruct (String.eqb_spec k id) as [->|Hk]; simpl.
      + destruct (String.eqb_spec id id'); [congruence|reflexivity].
      + destruct (str_ltb id k); simpl.
        * destruct (String.eqb_spec id id'); [congruence|]. reflexivity.
        * destruct (String.eqb k id'); [reflexivity|exact IH].
  Qed.

  Lemma lookup_remove_other id id' (l : list (string * item)) :
    id' <> id -> lookup id' (remove id l) = lookup id' l.
  Proof.
    intros Hne. induction l as [|[k x] r IH]; simpl; [reflexivity|].
    destruct (String.eqb_spec k id) as [->|Hk]; simpl.
    - destruct (String.eqb_spec id id'); [congruence|reflexivity].
    - destruct (String.eqb k id'); [reflexivity|exact IH].
  Qed.

  (* sortedness: strictly increasing keys *)
  Definition sorted (l : list (string * item)) : Prop := sorted_keys str_ltb (keys l).

  Definition all_above (a : string) (l : list (string * item)) : Prop :=
    forall k, In k (keys l) -> str_ltb a k = true.

  Lemma sorted_cons k x (r : list (string * item)) :
    sorted ((k, x) :: r) <-> all_above k r /\ sorted r.
  Proof.
    unfold sorted, all_above. revert k x. induction r as [|[k2 x2] r IH]; intros k x; simpl.
    - split; [intros _; split; [intros ? []|exact I]|intros _; auto].
    - split.
      + intros [Hlt Hs]. split; [|exact Hs].
        intros k' [<-|Hin]; [exact Hlt|].
        simpl in Hs. apply (IH k2 x2) in Hs. destruct Hs as [Hab _].
        apply (ltb_trans Hlt). apply Hab. exact Hin.
      + intros [Hab Hs]. split; [apply Hab; left; reflexivity|exact Hs].
  Qed.

  Lemma lookup_above a (l : list (string * item)) : all_above a l -> lookup a l = None.
  Proof.
    induction l as [|[k x] r IH]; intros H; simpl; [reflexivity|].
    destruct (String.eqb_spec k a) as [->|Hk].
    - specialize (H a (or_introl eq_refl)). rewrite ltb_irrefl in H. discriminate.
    - apply IH. intros k' Hin. apply H. right. exact Hin.
  Qed.

  Lemma lookup_remove_same id (l : list (string * item)) : sorted l -> lookup id (remove id l) = None.
  Proof.
    induction l as [|[k x] r IH]; intros Hs; simpl; [reflexivity|].
    apply sorted_cons in Hs. destruct Hs as [Hab Hs].
    destruct (String.eqb_spec k id) as [->|Hk]; simpl.
    - apply lookup_above. exact Hab.
    - destruct (String.eqb_spec k id); [congruence|]. apply IH. exact Hs.
  Qed.

  Lemma keys_insert_in id v (l : list (string * item)) k :
    In k (keys (insert str_ltb id v l)) -> k = id \/ In k (keys l).
  Proof.
    induction l as [|[k2 x] r IH]; simpl.
    - intros [<-|[]]. left. reflexivity.
    - destruct (String.eqb_spec k2 id) as [->|Hk]; simpl.
      + intros [<-|H]; [left; reflexivity|right; right; exact H].
      + destruct (str_ltb id k2); simpl.
        * intros [<-|[<-|H]]; [left; reflexivity|right; left; reflexivity|right; right; exact H].
        * intros [<-|H]; [right; left; reflexivity|]. destruct (IH H) as [->|H']; [left; reflexivity|right; right; exact H'].
  Qed.

  Lemma insert_sorted id v (l : list (string * item)) : sorted l -> sorted (insert str_ltb id v l).
  Proof.
    induction l as [|[k x] r IH]; intros Hs; simpl.
    - unfold sorted. simpl. auto.
    - apply sorted_cons in Hs. destruct Hs as [Hab Hs].
      destruct (String.eqb_spec k id) as [->|Hk].
      + apply sorted_cons. split; assumption.
      + destruct (str_ltb id k) eqn:E.
        * apply sorted_cons. split.
          -- intros k' [<-|Hin]; [exact E|]. apply (ltb_trans E). apply Hab. exact Hin.
          -- apply sorted_cons. split; assumption.
        * apply sorted_cons. split; [|apply IH; exact Hs].
          intros k' Hin. apply keys_insert_in in Hin. destruct Hin as [->|Hin]; [|apply Hab; exact Hin].
          destruct (str_ltb k id) eqn:E2; [reflexivity|].
          exfalso. apply Hk. symmetry. apply ltb_total; assumption.
  Qed.

  Lemma keys_remove_in id (l : list (string * item)) k : In k (keys (remove id l)) -> In k (keys l).
  Proof.
    induction l as [|[k2 x] r IH]; simpl; [auto|].
    destruct (String.eqb k2 id); simpl; [auto|]. intros [<-|H]; [left; reflexivity|right; apply IH; exact H].
  Qed.

  Lemma remove_sorted id (l : list (string * item)) : sorted l -> sorted (remove id l).
  Proof.
    induction l as [|[k x] r IH]; intros Hs; simpl; [exact Hs|].
    apply sorted_cons in Hs. destruct Hs as [Hab Hs].
    destruct (String.eqb k id); [exact Hs|].
    apply sorted_cons. split; [|apply IH; exact Hs].
    intros k' Hin. apply Hab. apply keys_remove_in in Hin. exact Hin.
  Qed.

  (* ---------- refinement: the implementation-shaped model equals the reference ---------- *)
  Lemma gen_id_is_first_fresh cands n (l : list (string * item)) :
    gen_id_from idfun cands n l = first_fresh idfun cands n l.
  Proof.
    revert cands. induction n as [|n IH]; intros cands; destruct cands as [|c r]; simpl; try reflexivity.
    rewrite has_key_lookup. destruct (lookup (apply_id c) l); simpl; rewrite IH; reflexivity.
  Qed.

  Lemma change_fn_is_spec (o : wopts) msg (old : option M) :
    change_fn m_eqb m_empty w_merge o msg old =
    match precondition m_eqb o old with
    | Some code => inr code
    | None => inl (new_value m_empty w_merge o msg old)
    end.
  Proof.
    unfold change_fn, precondition, new_value, om_eqb.
    destruct (wo_expected o) as [e|].
    - destruct (option_eqb m_eqb old (Some e)).
      + destruct (wo_check o) as [chk|]; [destruct (chk old)|]; reflexivity.
      + reflexivity.
    - destruct (wo_check o) as [chk|]; [destruct (chk old)|]; reflexivity.
  Qed.

  Theorem c_update_is_spec s id msg (o : wopts) cands :
    c_update s id msg o cands = spec_c_update s id msg o cands.
  Proof.
    unfold Impl.c_update, c_update_gen, Spec.spec_c_update.
    destruct (w_validate (wo_writer o)); [reflexivity|].
    rewrite gen_id_is_first_fresh.
    destruct (String.eqb (apply_id id) "" && wo_gen_id o) eqn:G.
    - destruct (first_fresh idfun cands 10 (c_items s)) as [g|]; [|reflexivity].
      simpl andb.
      destruct (lookup (apply_id g) (c_items s)) as [it|] eqn:L.
      + destruct (wo_expect_absent o); [reflexivity|].
        rewrite change_fn_is_spec. simpl option_map.
        destruct (precondition m_eqb o (Some (it_body it))); [reflexivity|].
        unfold update_time, write_time. destruct (wo_time o); reflexivity.
      + destruct (wo_create o); simpl negb; [|reflexivity].
        rewrite change_fn_is_spec.
        destruct (precondition m_eqb o (Some m_empty)); [reflexivity|].
        unfold update_time, write_time. destruct (wo_time o); reflexivity.
    - simpl andb.
      destruct (lookup (apply_id id) (c_items s)) as [it|] eqn:L.
      + destruct (wo_expect_absent o); [reflexivity|].
        rewrite change_fn_is_spec. simpl option_map.
        destruct (precondition m_eqb o (Some (it_body it))); [reflexivity|].
        unfold update_time, write_time. destruct (wo_time o); reflexivity.
      + destruct (wo_create o); simpl negb; [|reflexivity].
        rewrite change_fn_is_spec.
        destruct (precondition m_eqb o (Some m_empty)); [reflexivity|].
        unfold update_time, write_time. destruct (wo_time o); reflexivity.
  Qed.

  Theorem c_delete_is_spec s id (o : wopts) : c_delete s id o = spec_c_delete s id o.
  Proof.
    unfold Impl.c_delete, c_delete_gen, Spec.spec_c_delete.
    destruct (lookup (apply_id id) (c_items s)) as [it|]; [|destruct (wo_allow_missing o); reflexivity].
    destruct (wo_check o) as [chk|].
    - destruct (chk (Some (it_body it))); [reflexivity|].
      destruct (wo_expected o) as [e|].
      + destruct (m_eqb (it_body it) e); [|reflexivity].
        unfold update_time, write_time. destruct (wo_time o); reflexivity.
      + unfold update_time, write_time. destruct (wo_time o); reflexivity.
    - destruct (wo_expected o) as [e|].
      + destruct (m_eqb (it_body it) e); [|reflexivity].
        unfold update_time, write_time. destruct (wo_time o); reflexivity.
      + unfold update_time, write_time. destruct (wo_time o); reflexivity.
  Qed.

  Theorem impl_step_is_spec s op : impl_step s op = spec_step s op.
  Proof.
    destruct op as [id mask|mask inc|id msg o cands|id msg o cands|id o]; simpl; try reflexivity.
    - rewrite c_update_is_spec. reflexivity.
    - unfold c_add. rewrite c_update_is_spec. reflexivity.
    - rewrite c_delete_is_spec. reflexivity.
  Qed.

  Theorem impl_run_is_spec ops : forall s,
    run impl_step s ops = run spec_step s ops.
  Proof.
    induction ops as [|op r IH]; intros s; simpl; [reflexivity|].
    rewrite impl_step_is_spec. destruct (spec_step s op) as [[s1 out] ev]. rewrite IH. reflexivity.
  Qed.

  Theorem v_set_is_spec (s : vstate M) msg (o : wopts) :
    v_set m_eqb m_empty w_validate w_merge clock_at s msg o = spec_v_set m_eqb m_empty w_validate w_merge clock_at s msg o.
  Proof.
    unfold v_set, v_set_gen, spec_v_set.
    destruct (w_validate (wo_writer o)); [reflexivity|].
    rewrite change_fn_is_spec.
    destruct (precondition m_eqb o (v_val s)); [reflexivity|].
    assert (E : om_eqb m_eqb (v_val s) (v_val s) = true).
    { unfold om_eqb, option_eqb. destruct (v_val s); [apply m_eqb_refl|reflexivity]. }
    rewrite E. unfold update_time, write_time. destruct (wo_time o); reflexivity.
  Qed.
End Proofs.
