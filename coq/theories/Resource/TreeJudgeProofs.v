(* The sortedness clause of the C01 judge over full messages (Resource/TreeJudge.v) is a
   consequence of its reference clause: an observation that matches the run of the plain
   reference from a sorted collection has every observed List sorted by id -- for every call
   sequence.  (value_equiv is only compared, never assumed reflexive or transitive here: the
   clause speaks about ids.) *)
From SC Require Import Base.Prelude Msg.Msg Resource.Impl Resource.Spec Resource.ImplProofs Resource.SpecProofs
  Resource.Pull04Proofs Resource.Flat Resource.FlatProofs Resource.Tree Resource.TreeJudge.

Lemma tkv_list_keys : forall a b, list_eqb tkv_eqb a b = true -> map fst a = map fst b.
Proof.
  induction a as [|[k x] a IH]; destruct b as [|[k' y] b]; simpl; try discriminate; auto.
  unfold tkv_eqb at 1. simpl. intros H. apply andb_prop in H. destruct H as [H H2].
  apply andb_prop in H. destruct H as [H1 _]. apply String.eqb_eq in H1. rewrite (IH _ H2). congruence.
Qed.

Lemma t_keys_sorted_of l : sorted_keys str_ltb (map fst l) -> t_keys_sorted l = true.
Proof.
  induction l as [|[a x] r IH]; simpl; auto.
  destruct r as [|[b y] r']; auto. simpl in *. intros [H1 H2]. rewrite H1. apply IH. exact H2.
Qed.

Lemma t_lists_sorted_sound i ty resw : forall steps s s' outs,
  run (t_spec_step i) s (map (to_tcop ty resw) (map fst steps)) = (s', outs) ->
  ttrace outs (map snd steps) = true ->
  sorted str_ltb (c_items s) ->
  t_lists_sorted steps = true.
Proof.
  induction steps as [|[op b] r IH]; intros s s' outs R T S; [reflexivity|].
  simpl in R. destruct (t_spec_step i s (to_tcop ty resw op)) as [[s1 out] ev] eqn:E.
  destruct (run (t_spec_step i) s1 (map (to_tcop ty resw) (map fst r))) as [s2 outs2] eqn:R2.
  inversion R. subst s' outs. simpl in T. apply andb_prop in T. destruct T as [Tm T].
  assert (S1 : sorted str_ltb (c_items s1)).
  { unfold t_spec_step in E.
    eapply step_keeps_sorted; [exact str_ltb_trans | exact str_ltb_total | exact E | exact S]. }
  unfold t_lists_sorted. simpl. fold (t_lists_sorted r). rewrite (IH _ _ _ R2 T S1), andb_true_r.
  destruct b as [g|l|wr code cr|dr code]; try reflexivity.
  destruct op as [id m|m|id msg o|id msg o|id o].
  - inversion E. subst. discriminate.
  - inversion E. subst. simpl in Tm. apply tkv_list_keys in Tm.
    apply t_keys_sorted_of. rewrite <- Tm. apply list_is_sorted; [exact str_ltb_trans|exact S].
  - unfold t_spec_step, spec_step, to_tcop in E.
    destruct (spec_c_update _ _ _ _ _ _ _ s id msg (t_wopts ty resw o) []) as [[[s3 r3] ev3] cb3].
    inversion E. subst. simpl in Tm. destruct r3; discriminate.
  - unfold t_spec_step, spec_step, to_tcop in E.
    destruct (spec_c_update _ _ _ _ _ _ _ s id msg (as_add (t_wopts ty resw o)) []) as [[[s3 r3] ev3] cb3].
    inversion E. subst. simpl in Tm. destruct r3; discriminate.
  - unfold t_spec_step, spec_step, to_tcop in E.
    destruct (spec_c_delete _ _ _ s id (t_wopts ty resw o)) as [[[s3 r3] e3] ev3].
    inversion E. subst. simpl in Tm. destruct e3; discriminate.
Qed.

(* for a collection constructed with initial records (distinct ids) and for an empty one *)
Theorem t_lists_sorted_records i ty resw records steps s' outs :
  NoDup (map fst records) ->
  run (t_spec_step i) (c_new fclock str_ltb records) (map (to_tcop ty resw) (map fst steps)) = (s', outs) ->
  ttrace outs (map snd steps) = true ->
  t_lists_sorted steps = true.
Proof.
  intros N R T. eapply t_lists_sorted_sound; eauto.
  eapply proj1. exact (@c_new_contents value value_equiv vempty fclock str_ltb str_ltb_trans str_ltb_total records N).
Qed.
