(* Correspondence cases for C04 over FULL messages: a backpressured subscriber of a Value /
   Collection whose messages are TestAllTypes or trait-message trees, with nested read masks,
   nested update / reset / writable masks, equivalences (cmp.Equal, or equality of a nested
   projection) and initial records given to the constructor.  Model = Pull.v instantiated with the
   message algebra of Msg/ and Masks/ (Resource/Tree.v); the oracle [C04T_ok] is evaluated on the
   observation and the writer's own log only. *)
From SC Require Import Base.Prelude Msg.Msg Msg.Schema Msg.Path Masks.Get Masks.Update
  Resource.Impl Resource.Spec Resource.Pull Resource.Flat Resource.Tree Resource.TreeJudge Gen.Schema.

(* equivalences that exist on both sides: WithNoDuplicates (cmp.Equal()), and "equal after
   projecting onto these paths" (a ComparerFunc built from masks.ResponseFilter + proto.Equal) *)
Inductive teqv := TEqAll | TEqPaths (ps : list path).
Definition interp_teqv (ty : string) (e : teqv) (x y : option value) : bool :=
  match e with
  | TEqAll => option_eqb value_equiv x y
  | TEqPaths ps =>
      match x, y with
      | Some a, Some b => value_equiv (tr_filter (mkTR ty ps) a) (tr_filter (mkTR ty ps) b)
      | None, None => true
      | _, _ => false
      end
  end.

Record tro := mkTRO { tro_mask : option (list path); tro_updates_only : bool }.
Definition to_tropts (ty : string) (r : tro) : ropts value trmask :=
  mkR (rmask_of ty (tro_mask r)) (tro_updates_only r) None.

Record tochange := mkTOC {
  toc_id : string; toc_time : Z; toc_kind : Z; toc_old : option value; toc_new : option value;
  toc_seed : bool; toc_last : bool }.
Record tovchange := mkTOV { tov_value : value; tov_time : Z; tov_seed : bool; tov_last : bool }.

Inductive t4case :=
| T4C (ty : string) (resw : mask) (idf : option idf) (equiv : option teqv) (records : list (string * value))
      (before : list top) (ro : tro) (after : list top) (codes : list Z) (results : list (option value))
      (stream : list tochange) (final : list (string * value))
| T4V (ty : string) (resw : mask) (initial : option value) (equiv : option teqv)
      (before : list tvop) (ro : tro) (after : list tvop) (codes : list Z) (results : list (option value))
      (stream : list tovchange) (final : option value).

(* ---------- model ---------- *)
Definition t_c_new (records : list (string * value)) : cstate value := c_new fclock str_ltb records.

Definition t4_model_c ty resw i e records before ro after :=
  let '(s1, _) := run (t_impl_step i) (t_c_new records) (map (to_tcop ty resw) before) in
  let '(s2, outs) := run (t_impl_step i) s1 (map (to_tcop ty resw) after) in
  (pull_collection_held tr_filter (option_map (interp_teqv ty) e) s1 (to_tropts ty ro) (flat_map snd outs), s2).
Definition t4_model_v ty resw initial e before ro after :=
  let '(s1, _) := v_run t_v_impl_step (v_init fclock initial) (map (to_tvop ty resw) before) in
  let '(s2, outs) := v_run t_v_impl_step s1 (map (to_tvop ty resw) after) in
  (pull_value tr_filter (option_map (interp_teqv ty) e) s1 (to_tropts ty ro) (flat_map snd outs), s2).

Definition tcc_matches (c : cchange value) (o : tochange) : bool :=
  String.eqb (cc_id c) (toc_id o) && (cc_time c =? toc_time o) &&
  ((match cc_kind c with KAdd => 1 | KUpdate => 2 | KRemove => 3 end) =? toc_kind o) &&
  ov_equiv (cc_old c) (toc_old o) && ov_equiv (cc_new c) (toc_new o) &&
  Bool.eqb (cc_seed c) (toc_seed o) && Bool.eqb (cc_last_seed c) (toc_last o).
Definition tvc_matches (c : vchange value) (o : tovchange) : bool :=
  value_equiv (vc_value c) (tov_value o) && (vc_time c =? tov_time o) &&
  Bool.eqb (vc_seed c) (tov_seed o) && Bool.eqb (vc_last_seed c) (tov_last o).

Fixpoint lmatch {A B} (f : A -> B -> bool) (a : list A) (b : list B) : bool :=
  match a, b with
  | [], [] => true
  | x :: a', y :: b' => f x y && lmatch f a' b'
  | _, _ => false
  end.

Definition t4_agrees (c : t4case) : bool :=
  match c with
  | T4C ty resw i e records before ro after codes results stream final =>
      let '(cs, s2) := t4_model_c ty resw i e records before ro after in
      lmatch tcc_matches cs stream &&
      list_eqb tkv_eqb (c_list tr_filter s2 (rmask_of ty (tro_mask ro)) None) final
  | T4V ty resw initial e before ro after codes results stream final =>
      let '(vs, s2) := t4_model_v ty resw initial e before ro after in
      lmatch tvc_matches vs stream && ov_equiv (v_get tr_filter s2 (rmask_of ty (tro_mask ro))) final
  end.

(* ---------- oracle on the observation ---------- *)
Definition tfilt (ty : string) (ro : tro) (v : value) : value :=
  match tro_mask ro with Some ps => tr_filter (mkTR ty ps) v | None => v end.

Fixpoint t_seeds_then_updates (seen_update : bool) (l : list tochange) : bool :=
  match l with
  | [] => true
  | o :: r =>
      if toc_seed o then
        negb seen_update && (toc_kind o =? 1) &&
        (match toc_old o with None => true | Some _ => false end) &&
        Bool.eqb (toc_last o) (match r with o' :: _ => negb (toc_seed o') | [] => true end) &&
        (match r with o' :: _ => if toc_seed o' then str_ltb (toc_id o) (toc_id o') else true | [] => true end) &&
        t_seeds_then_updates false r
      else negb (toc_last o) && t_seeds_then_updates true r
  end.

Fixpoint tview_lookup (id : string) (l : list (string * value)) : option value :=
  match l with [] => None | (k, v) :: r => if String.eqb k id then Some v else tview_lookup id r end.
Definition t_to_cc (o : tochange) : cchange value :=
  mkCC (toc_id o) (toc_time o)
       (if toc_kind o =? 3 then KRemove else if toc_kind o =? 1 then KAdd else KUpdate)
       (toc_old o) (toc_new o) (toc_seed o) (toc_last o).
Fixpoint t_old_chain (view : list (string * value)) (l : list tochange) : bool :=
  match l with
  | [] => true
  | o :: r =>
      let prev := tview_lookup (toc_id o) view in
      (if toc_seed o then true
       else match toc_kind o with
            | 1 => match prev, toc_old o with None, None => true | _, _ => false end
            | 2 => match toc_new o with Some _ => ov_equiv prev (toc_old o) | None => false end
            | _ => ov_equiv prev (toc_old o) && match toc_new o with None => true | Some _ => false end
            end) &&
      t_old_chain (apply_change view (t_to_cc o)) r
  end.
Definition t_same_map (a b : list (string * value)) : bool :=
  forallb (fun kv => ov_equiv (tview_lookup (fst kv) b) (Some (snd kv))) a &&
  forallb (fun kv => ov_equiv (tview_lookup (fst kv) a) (Some (snd kv))) b.

Definition top_is_write (op : top) : bool :=
  match op with TUpdate _ _ _ | TAdd _ _ _ | TDelete _ _ => true | _ => false end.
Definition top_time (op : top) : option Z :=
  match op with TUpdate _ _ o | TAdd _ _ o | TDelete _ o => t_time o | _ => None end.
Definition t_is_clock (t : Z) : bool := (1000 <=? t) && (t mod 10 =? 0).

(* the k-th successful write <-> the k-th non-seed event: its time, and for Update / Add its new value
   (= the projection of what the call returned) *)
Fixpoint t_script_ok (ty : string) (ro : tro) (lastclk : Z) (ops : list top) (codes : list Z)
         (results : list (option value)) (evs : list tochange) : bool :=
  match ops, codes, results with
  | op :: r, c :: r', res :: r'' =>
      if top_is_write op && (c =? 0) then
        match evs with
        | e :: evs' =>
            (match op, res with
             | TDelete _ _, _ => (toc_kind e =? 3) && match toc_new e with None => true | Some _ => false end
             | _, Some v => negb (toc_kind e =? 3) && ov_equiv (toc_new e) (Some (tfilt ty ro v))
             | _, None => false
             end) &&
            match top_time op with
            | Some t => (toc_time e =? t) && t_script_ok ty ro lastclk r r' r'' evs'
            | None => t_is_clock (toc_time e) && (lastclk <? toc_time e) && t_script_ok ty ro (toc_time e) r r' r'' evs'
            end
        | [] => false
        end
      else t_script_ok ty ro lastclk r r' r'' evs
  | _, _, _ => match evs with [] => true | _ => false end
  end.

Fixpoint tv_script_ok (ty : string) (ro : tro) (lastclk : Z) (ops : list tvop) (codes : list Z)
         (results : list (option value)) (evs : list tovchange) : bool :=
  match ops, codes, results with
  | TVSet _ o :: r, c :: r', res :: r'' =>
      if c =? 0 then
        match evs, res with
        | e :: evs', Some v =>
            value_equiv (tov_value e) (tfilt ty ro v) &&
            match t_time o with
            | Some t => (tov_time e =? t) && tv_script_ok ty ro lastclk r r' r'' evs'
            | None => t_is_clock (tov_time e) && (lastclk <? tov_time e) && tv_script_ok ty ro (tov_time e) r r' r'' evs'
            end
        | _, _ => false
        end
      else tv_script_ok ty ro lastclk r r' r'' evs
  | _ :: r, _ :: r', _ :: r'' => tv_script_ok ty ro lastclk r r' r'' evs
  | _, _, _ => match evs with [] => true | _ => false end
  end.

(* with an equivalence: the committed values (what each successful Set returned, projected),
   de-duplicated against the last delivered one *)
Fixpoint t_dedupe (cmp : option value -> option value -> bool) (last : option value) (vs : list value) : list value :=
  match vs with
  | [] => []
  | v :: r => if cmp last (Some v) then t_dedupe cmp last r else v :: t_dedupe cmp (Some v) r
  end.

Definition C04T_ok (c : t4case) : bool :=
  match c with
  | T4C ty resw i e records before ro after codes results stream final =>
      let updates := filter (fun o => negb (toc_seed o)) stream in
      t_seeds_then_updates false stream &&
      (if tro_updates_only ro then forallb (fun o => negb (toc_seed o)) stream else true) &&
      (* every value carried is already projected by the read mask *)
      forallb (fun o => ov_equiv (option_map (tfilt ty ro) (toc_old o)) (toc_old o) &&
                        ov_equiv (option_map (tfilt ty ro) (toc_new o)) (toc_new o)) stream &&
      (match e with
       | None => t_script_ok ty ro 0 after codes results updates &&
                 (tro_updates_only ro || t_old_chain [] stream)
       | Some TEqAll => tro_updates_only ro || t_old_chain [] stream
       | Some _ => true
       end) &&
      (match e with
       | Some ev => forallb (fun o => toc_seed o || negb (interp_teqv ty ev (toc_old o) (toc_new o))) stream
       | None => true
       end) &&
      (match e with
       | None | Some TEqAll =>
           if tro_updates_only ro then true else t_same_map (fold_view (map t_to_cc stream)) final
       | Some ev =>
           (* fold = List up to the equivalence, id by id (an item is in the one iff in the other) *)
           if tro_updates_only ro then true
           else let fv := fold_view (map t_to_cc stream) in
                forallb (fun id => interp_teqv ty ev (tview_lookup id fv) (tview_lookup id final))
                        (map fst fv ++ map fst final)
       end)
  | T4V ty resw initial e before ro after codes results stream final =>
      let seeds := filter tov_seed stream in
      let updates := filter (fun o => negb (tov_seed o)) stream in
      (zlen seeds <=? 1) && forallb tov_last seeds &&
      (match stream with o :: r => forallb (fun x => negb (tov_seed x)) r | [] => true end) &&
      forallb (fun o => negb (tov_last o)) updates &&
      (if tro_updates_only ro then zlen seeds =? 0 else true) &&
      (match e with
       | None =>
           tv_script_ok ty ro 0 after codes results updates &&
           match rev updates with
           | o :: _ => ov_equiv (Some (tov_value o)) final
           | [] => true
           end
       | Some ev =>
           let committed := flat_map (fun r => match r with Some v => [tfilt ty ro v] | None => [] end) results in
           list_eqb value_equiv (map tov_value updates)
                    (t_dedupe (interp_teqv ty ev) (match seeds with o :: _ => Some (tov_value o) | [] => None end) committed)
       end)
  end.

Definition judge04t (c : t4case) : Z := verdict (t4_agrees c) (C04T_ok c) None.

(* debugging aid: the model's stream *)
Definition t4_debug (c : t4case) :=
  match c with
  | T4C ty resw i e records before ro after _ _ _ _ => inl (fst (t4_model_c ty resw i e records before ro after))
  | T4V ty resw initial e before ro after _ _ _ _ => inr (fst (t4_model_v ty resw initial e before ro after))
  end.
