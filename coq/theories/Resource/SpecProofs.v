(* C01 / C04: what the reference model (Spec.v) guarantees — a failing call changes nothing and
   emits nothing, contents stay sorted, a successful write is exactly one map update described by
   exactly one event, generated ids are fresh and usable.  For every message algebra, callbacks,
   strict total order on ids; lifted to all call sequences by induction. *)
From SC Require Import Base.Prelude Resource.Impl Resource.Spec Resource.ImplProofs.

Set Implicit Arguments.

Section Proofs.
  Variable M : Type.
  Variable m_eqb : M -> M -> bool.
  Variable m_empty : M.
  Variable writer : Type.
  Variable w_validate : writer -> option Z.
  Variable w_merge : writer -> M -> M -> M.
  Variable rmask : Type.
  Variable r_filter : rmask -> M -> M.
  Variable clock_at : Z -> Z.
  Variable str_ltb : string -> string -> bool.
  Variable idfun : option (string -> string).

  Hypothesis ltb_irrefl : forall a, str_ltb a a = false.
  Hypothesis ltb_trans : forall a b c, str_ltb a b = true -> str_ltb b c = true -> str_ltb a c = true.
  Hypothesis ltb_total : forall a b, str_ltb a b = false -> str_ltb b a = false -> a = b.

  Notation wopts := (wopts M writer).
  Notation cstate := (cstate M).
  Notation item := (item M).
  Notation cevent := (cevent M).
  Notation spec_c_update := (spec_c_update m_eqb m_empty w_validate w_merge clock_at str_ltb idfun).
  Notation spec_c_delete := (spec_c_delete m_eqb clock_at idfun).
  Notation spec_step := (spec_step m_eqb m_empty w_validate w_merge r_filter clock_at str_ltb idfun).
  Notation apply_id := (apply_id idfun).
  Notation sorted := (sorted str_ltb).

  (* the id a write resolves to: the given id through the interceptor, or the first fresh candidate *)
  Definition resolves (s : cstate) (id0 : string) (o : wopts) (cands : list string) (id : string) (gen : option string) : Prop :=
    if String.eqb (apply_id id0) "" && wo_gen_id o
    then exists g, first_fresh idfun cands 10 (c_items s) = Some g /\ id = apply_id g /\ gen = Some g
    else id = apply_id id0 /\ gen = None.

  Lemma first_fresh_spec cands n (l : list (string * item)) g :
    first_fresh idfun cands n l = Some g ->
    g <> ""%string /\ lookup (apply_id g) l = None /\ In g cands.
  Proof.
    revert cands. induction n as [|n IH]; intros cands; destruct cands as [|c r]; simpl; try discriminate.
    rewrite has_key_lookup.
    destruct (String.eqb_spec c ""); simpl.
    - intros H. destruct (IH _ H) as (A & B & C). auto.
    - destruct (lookup (apply_id c) l) eqn:L; simpl.
      + intros H. destruct (IH _ H) as (A & B & C). auto.
      + intros H. inversion H. subst. auto.
  Qed.

  (* ---- Update / Add: every outcome ---- *)
  Ltac solve_success L :=
    right; eexists _, _, _, _; simpl;
    split; [reflexivity|];
    split; [first [eexists; split; [reflexivity|split; reflexivity] | split; reflexivity]|];
    split; [apply lookup_insert_same|];
    split; [intros id' Hne; apply lookup_insert_other; exact Hne|];
    rewrite ?L; simpl; repeat split; auto.

  Theorem update_outcomes s id0 msg (o : wopts) cands s' r ev cb :
    spec_c_update s id0 msg o cands = (s', r, ev, cb) ->
    (exists code, r = inr code /\ s' = s /\ ev = []) \/
    (exists id gen nv t,
        r = inl nv /\ resolves s id0 o cands id gen /\
        lookup id (c_items s') = Some (mkItem nv t) /\
        (forall id', id' <> id -> lookup id' (c_items s') = lookup id' (c_items s)) /\
        t = match wo_time o with Some t0 => t0 | None => clock_at (c_reads s) end /\
        ev = [mkCE id t (match lookup id (c_items s) with Some _ => KUpdate | None => KAdd end)
                   (option_map (@it_body M) (lookup id (c_items s))) (Some nv)] /\
        nv = new_value m_empty w_merge o msg (Some (match lookup id (c_items s) with Some it => it_body it | None => m_empty end)) /\
        cb_ids cb = (match gen with Some g => if wo_id_cb o then [g] else [] | None => [] end) /\
        (match lookup id (c_items s) with Some _ => wo_expect_absent o = false | None => wo_create o = true end)).
  Proof.
    unfold Spec.spec_c_update, resolves.
    destruct (w_validate (wo_writer o)) as [code|].
    { intros H. inversion H. left. eauto. }
    destruct (String.eqb (apply_id id0) "" && wo_gen_id o) eqn:G.
    - destruct (first_fresh idfun cands 10 (c_items s)) as [g|] eqn:F.
      2:{ intros H. inversion H. left. eauto. }
      destruct (lookup (apply_id g) (c_items s)) as [it|] eqn:L.
      + destruct (wo_expect_absent o) eqn:EA.
        { intros H. inversion H. left. eauto. }
        simpl option_map.
        destruct (precondition m_eqb o (Some (it_body it))) as [code|].
        { intros H. inversion H. left. eauto. }
        unfold write_time. destruct (wo_time o) as [t0|]; intros H; inversion H; subst; solve_success L.
      + destruct (wo_create o) eqn:CR; simpl negb.
        2:{ intros H. inversion H. left. eauto. }
        destruct (precondition m_eqb o (Some m_empty)) as [code|].
        { intros H. inversion H. left. eauto. }
        unfold write_time. destruct (wo_time o) as [t0|]; intros H; inversion H; subst; solve_success L.
    - destruct (lookup (apply_id id0) (c_items s)) as [it|] eqn:L.
      + destruct (wo_expect_absent o) eqn:EA.
        { intros H. inversion H. left. eauto. }
        simpl option_map.
        destruct (precondition m_eqb o (Some (it_body it))) as [code|].
        { intros H. inversion H. left. eauto. }
        unfold write_time. destruct (wo_time o) as [t0|]; intros H; inversion H; subst; solve_success L.
      + destruct (wo_create o) eqn:CR; simpl negb.
        2:{ intros H. inversion H. left. eauto. }
        destruct (precondition m_eqb o (Some m_empty)) as [code|].
        { intros H. inversion H. left. eauto. }
        unfold write_time. destruct (wo_time o) as [t0|]; intros H; inversion H; subst; solve_success L.
  Qed.

  Lemma update_sorted s id0 msg (o : wopts) cands s' r ev cb :
    spec_c_update s id0 msg o cands = (s', r, ev, cb) -> sorted (c_items s) -> sorted (c_items s').
  Proof.
    unfold Spec.spec_c_update. intros H Hs.
    repeat match type of H with
           | (match ?x with _ => _ end) = _ => destruct x eqn:?
           | (if ?x then _ else _) = _ => destruct x eqn:?
           | (let '(_, _) := ?x in _) = _ => destruct x eqn:?
           end; inversion H; subst; simpl; try exact Hs;
      apply insert_sorted; assumption.
  Qed.

  (* ---- Delete: every outcome ---- *)
  Theorem delete_outcomes s id0 (o : wopts) s' r e ev :
    spec_c_delete s id0 o = (s', r, e, ev) ->
    let id := apply_id id0 in
    (lookup id (c_items s) = None /\ s' = s /\ r = None /\ ev = [] /\
     e = (if wo_allow_missing o then None else Some 5)) \/
    (exists it code, lookup id (c_items s) = Some it /\ e = Some code /\ s' = s /\ ev = [] /\ r = Some (it_body it)) \/
    (exists it t, lookup id (c_items s) = Some it /\ e = None /\ r = Some (it_body it) /\
                  c_items s' = remove id (c_items s) /\
                  t = match wo_time o with Some t0 => t0 | None => clock_at (c_reads s) end /\
                  ev = [mkCE id t KRemove (Some (it_body it)) None] /\
                  (match wo_expected o with Some ex => m_eqb (it_body it) ex = true | None => True end)).
  Proof.
    unfold Spec.spec_c_delete. simpl.
    destruct (lookup (apply_id id0) (c_items s)) as [it|] eqn:L.
    2:{ intros H. inversion H. left. auto. }
    intros H. right.
    destruct (wo_check o) as [chk|].
    - destruct (chk (Some (it_body it))) as [code|].
      { inversion H. left. eauto 10. }
      destruct (wo_expected o) as [ex|].
      + destruct (m_eqb (it_body it) ex) eqn:E.
        * unfold write_time in H. destruct (wo_time o); inversion H; right; eexists _, _; repeat split; auto.
        * inversion H. left. eauto 10.
      + unfold write_time in H. destruct (wo_time o); inversion H; right; eexists _, _; repeat split; auto.
    - destruct (wo_expected o) as [ex|].
      + destruct (m_eqb (it_body it) ex) eqn:E.
        * unfold write_time in H. destruct (wo_time o); inversion H; right; eexists _, _; repeat split; auto.
        * inversion H. left. eauto 10.
      + unfold write_time in H. destruct (wo_time o); inversion H; right; eexists _, _; repeat split; auto.
  Qed.

  Lemma delete_sorted s id0 (o : wopts) s' r e ev :
    spec_c_delete s id0 o = (s', r, e, ev) -> sorted (c_items s) -> sorted (c_items s').
  Proof.
    intros H Hs. apply delete_outcomes in H. simpl in H.
    destruct H as [(_ & -> & _)|[(it & code & _ & _ & -> & _)|(it & t & _ & _ & _ & E & _)]]; try exact Hs.
    rewrite E. apply remove_sorted; assumption.
  Qed.

  (* ---- every step ---- *)
  Theorem failed_step_is_noop s op s' out ev :
    spec_step s op = (s', out, ev) -> failed out = true -> s' = s /\ ev = [].
  Proof.
    destruct op as [id mask|mask inc|id msg o cands|id msg o cands|id o]; simpl.
    - intros H. inversion H. subst. discriminate.
    - intros H. inversion H. subst. discriminate.
    - destruct (spec_c_update s id msg o cands) as [[[s1 r] ev1] cb] eqn:E.
      intros H. inversion H. subst. simpl. destruct r; [discriminate|]. intros _.
      apply update_outcomes in E. destruct E as [(code & _ & -> & ->)|(id1 & gen & nv & t & Hr & _)]; [auto|discriminate].
    - destruct (spec_c_update s id msg (as_add o) cands) as [[[s1 r] ev1] cb] eqn:E.
      intros H. inversion H. subst. simpl. destruct r; [discriminate|]. intros _.
      apply update_outcomes in E. destruct E as [(code & _ & -> & ->)|(id1 & gen & nv & t & Hr & _)]; [auto|discriminate].
    - destruct (spec_c_delete s id o) as [[[s1 r] e] ev1] eqn:E.
      intros H. inversion H. subst. simpl. destruct e as [code|]; [|discriminate]. intros _.
      apply delete_outcomes in E. simpl in E.
      destruct E as [(_ & -> & _ & -> & _)|[(it & c & _ & _ & -> & -> & _)|(it & t & _ & He & _)]]; auto; discriminate.
  Qed.

  Theorem step_keeps_sorted s op s' out ev :
    spec_step s op = (s', out, ev) -> sorted (c_items s) -> sorted (c_items s').
  Proof.
    destruct op as [id mask|mask inc|id msg o cands|id msg o cands|id o]; simpl.
    - intros H. inversion H. subst. auto.
    - intros H. inversion H. subst. auto.
    - destruct (spec_c_update s id msg o cands) as [[[s1 r] ev1] cb] eqn:E.
      intros H. inversion H. subst. eapply update_sorted; eauto.
    - destruct (spec_c_update s id msg (as_add o) cands) as [[[s1 r] ev1] cb] eqn:E.
      intros H. inversion H. subst. eapply update_sorted; eauto.
    - destruct (spec_c_delete s id o) as [[[s1 r] e] ev1] eqn:E.
      intros H. inversion H. subst. eapply delete_sorted; eauto.
  Qed.

  (* every reachable state is sorted *)
  Theorem run_keeps_sorted ops : forall s s' outs,
    run spec_step s ops = (s', outs) -> sorted (c_items s) -> sorted (c_items s').
  Proof.
    induction ops as [|op r IH]; intros s s' outs; simpl.
    - intros H. inversion H. subst. auto.
    - destruct (spec_step s op) as [[s1 out] ev] eqn:E.
      destruct (run spec_step s1 r) as [s2 outs2] eqn:E2.
      intros H Hs. inversion H. subst. eapply IH; eauto. eapply step_keeps_sorted; eauto.
  Qed.

  (* List is sorted by id *)
  Lemma sorted_keys_filter (f : string * item -> bool) (l : list (string * item)) :
    sorted l -> sorted (filter f l).
  Proof.
    induction l as [|[k x] r IH]; intros Hs; simpl; [exact Hs|].
    apply (sorted_cons str_ltb ltb_trans) in Hs. destruct Hs as [Hab Hs].
    destruct (f (k, x)); [|apply IH; exact Hs].
    apply (sorted_cons str_ltb ltb_trans). split; [|apply IH; exact Hs].
    intros k' Hin. apply Hab. unfold keys in *. apply in_map_iff in Hin. destruct Hin as (p & <- & Hp).
    apply filter_In in Hp. destruct Hp as [Hp _]. apply in_map. exact Hp.
  Qed.

  Theorem list_is_sorted s mask inc :
    sorted (c_items s) -> sorted_keys str_ltb (map fst (c_list r_filter s mask inc)).
  Proof.
    intros Hs. unfold c_list. rewrite map_map. simpl.
    apply (sorted_keys_filter (fun p => match inc with Some f => f (fst p) (Some (it_body (snd p))) | None => true end)) in Hs.
    exact Hs.
  Qed.

  (* a successful write is visible to Get under the id that was given / reported *)
  Theorem get_after_update s id0 msg (o : wopts) cands s' nv ev cb :
    spec_c_update s id0 msg o cands = (s', inl nv, ev, cb) ->
    (String.eqb (apply_id id0) "" && wo_gen_id o = false -> c_get r_filter idfun s' id0 None = Some nv) /\
    (String.eqb (apply_id id0) "" && wo_gen_id o = true ->
     exists g, first_fresh idfun cands 10 (c_items s) = Some g /\ g <> ""%string /\
               lookup (apply_id g) (c_items s) = None /\
               cb_ids cb = (if wo_id_cb o then [g] else []) /\
               c_get r_filter idfun s' g None = Some nv).
  Proof.
    intros H. apply update_outcomes in H.
    destruct H as [(code & Hr & _)|(id & gen & nv' & t & Hr & Hres & Hl & _ & _ & _ & _ & Hcb & _)]; [discriminate|].
    inversion Hr. subst nv'. unfold resolves in Hres. split; intros G; rewrite G in Hres.
    - destruct Hres as [-> _]. unfold c_get. rewrite Hl. reflexivity.
    - destruct Hres as (g & F & -> & ->). exists g. split; [exact F|].
      destruct (first_fresh_spec _ _ _ F) as (A & B & _). repeat split; auto.
      unfold c_get. rewrite Hl. reflexivity.
  Qed.

  (* a successful Delete removes exactly that item *)
  Theorem get_after_delete s id0 (o : wopts) s' body ev :
    spec_c_delete s id0 o = (s', Some body, None, ev) -> sorted (c_items s) ->
    c_get r_filter idfun s' id0 None = None /\
    (forall id', id' <> apply_id id0 -> lookup id' (c_items s') = lookup id' (c_items s)).
  Proof.
    intros H Hs. apply delete_outcomes in H. simpl in H.
    destruct H as [(_ & _ & Hr & _)|[(it & c & _ & He & _)|(it & t & L & _ & _ & E & _)]]; try discriminate.
    rewrite E. split.
    - unfold c_get. rewrite E. rewrite (lookup_remove_same str_ltb ltb_irrefl ltb_trans); auto.
    - intros id' Hne. apply lookup_remove_other. exact Hne.
  Qed.
End Proofs.
