(* Reading the token changes of Excess/Change.v as collection changes over an arbitrary message
   algebra: a value token stands for a message (tok: the heap of stored messages), a numbered id
   for a string id (idn).  The Pull loop on messages = include (Include.v) then the read mask
   (Pull.cc_filter), applied to what the bus (backpressure) or C09's merge stage (lossy) delivers.
   Model only, no proofs. *)
From SC Require Import Base.Prelude Resource.Impl Resource.Pull Excess.Change Excess.MergeExcess Resource.Include.

Set Implicit Arguments.

Section Denote.
  Variable M : Type.
  Variable rmask : Type.
  Variable r_filter : rmask -> M -> M.
  Variable tok : Z -> M.
  Variable idn : Z -> string.

  (* ChangeType as the three-way kind of Pull.v; REPLACE and anything else that carries a new value
     is applied by a subscriber like an UPDATE *)
  Definition d_kind (k : Z) : kind := if k =? K_REMOVE then KRemove else if k =? K_ADD then KAdd else KUpdate.

  Definition d_change (c : change) : cchange M :=
    mkCC (idn (cid c)) (ctime c) (d_kind (ckind c)) (option_map tok (cold c)) (option_map tok (cnew c))
         (cseed c) (clast c).

  (* a predicate on (id, message) seen on tokens *)
  Definition t_pred (f : string -> option M -> bool) : ipred := fun i t => f (idn i) (option_map tok t).
  Definition t_inc (ro : ropts M rmask) : option ipred := option_map t_pred (ro_include ro).

  (* the Pull loop (no equivalence configured): include, then the read mask *)
  Definition deliver (ro : ropts M rmask) (l : list change) : list (cchange M) :=
    map (fun c => cc_filter r_filter ro (d_change c)) (x_forward (t_inc ro) l).

  (* (a) with backpressure / (b) without, under the schedule l *)
  Definition bp_stream_M (ro : ropts M rmask) (sent : list change) : list (cchange M) := deliver ro sent.
  Definition lossy_stream_M (ro : ropts M rmask) (l : list action) : list (cchange M) :=
    deliver ro (got_of (snd (m_run m_init l))).
End Denote.
