(* A concrete message algebra on which the resource models are executed against the code:
   messages with three implicit-presence scalar fields (0 = unset; the harness uses
   TestAllTypes.default_int32 / default_int64 / default_uint32), top-level field masks, and the
   enumerated families of callbacks (interceptors, checks, id interceptors, include predicates,
   equivalences) that exist on both sides.  pkg/masks on such messages is modelled here in its
   flat form (its full tree form is C05/C06's subject).  No proofs here. *)
From SC Require Import Base.Prelude Resource.Impl Resource.Spec Resource.Pull.
From Coq Require Import Ascii.

Record fmsg := mkF { fa : Z; fb : Z; fc : Z }.
Definition fzero := mkF 0 0 0.
Definition fmsg_eqb (x y : fmsg) : bool := (fa x =? fa y) && (fb x =? fb y) && (fc x =? fc y).

Inductive fld := Fa | Fb | Fc | Fbad.     (* Fbad: a path naming no field *)
Definition fld_eqb (x y : fld) : bool :=
  match x, y with Fa, Fa | Fb, Fb | Fc, Fc | Fbad, Fbad => true | _, _ => false end.
Definition mem (f : fld) (l : list fld) : bool := existsb (fld_eqb f) l.

Definition getf (f : fld) (m : fmsg) : Z :=
  match f with Fa => fa m | Fb => fb m | Fc => fc m | Fbad => 0 end.
Definition setf (f : fld) (v : Z) (m : fmsg) : fmsg :=
  match f with
  | Fa => mkF v (fb m) (fc m) | Fb => mkF (fa m) v (fc m) | Fc => mkF (fa m) (fb m) v | Fbad => m
  end.
(* keep only the listed fields / clear the listed fields *)
Definition keep (l : list fld) (m : fmsg) : fmsg :=
  mkF (if mem Fa l then fa m else 0) (if mem Fb l then fb m else 0) (if mem Fc l then fc m else 0).
Definition clear (l : list fld) (m : fmsg) : fmsg :=
  mkF (if mem Fa l then 0 else fa m) (if mem Fb l then 0 else fb m) (if mem Fc l then 0 else fc m).
(* proto.Merge on implicit-presence scalars: set fields of src overwrite *)
Definition pmerge (dst src : fmsg) : fmsg :=
  mkF (if fa src =? 0 then fa dst else fa src) (if fb src =? 0 then fb dst else fb src)
      (if fc src =? 0 then fc dst else fc src).

(* ---- fieldmaskpb on flat names ---- *)
Fixpoint dedup (l : list fld) : list fld :=
  match l with [] => [] | x :: r => if mem x r then dedup r else x :: dedup r end.
Definition inter (a b : list fld) : list fld := dedup (filter (fun x => mem x b) a).

(* ---- masks.FieldUpdater ---- *)
Record fwriter := mkFW { fw_update : option (list fld); fw_reset : option (list fld); fw_writable : option (list fld) }.

(* update.go Validate at the pinned commit: the writable check compared path counts *)
Definition fw_validate_v0 (w : fwriter) : option Z :=
  match (match fw_update w with
         | Some u =>
             if mem Fbad u then Some 3
             else match fw_writable w with
                  | Some wr => if Nat.eqb (List.length (inter wr u)) (List.length u) then None else Some 3
                  | None => None
                  end
         | None => None
         end) with
  | Some c => Some c
  | None => match fw_reset w with Some r => if mem Fbad r then Some 13 else None | None => None end
  end.

(* update.go Validate (after the C05 fix: every update path must lie inside a writable path) *)
Definition fw_validate (w : fwriter) : option Z :=
  match (match fw_update w with
         | Some u =>
             if mem Fbad u then Some 3
             else match fw_writable w with
                  | Some wr => if forallb (fun x => mem x wr) u then None else Some 3
                  | None => None
                  end
         | None => None
         end) with
  | Some c => Some c
  | None => match fw_reset w with Some r => if mem Fbad r then Some 13 else None | None => None end
  end.

(* update.go Merge (dst src) *)
Definition fw_merge (w : fwriter) (dst src : fmsg) : fmsg :=
  match fw_writable w with
  | Some [] => dst
  | _ =>
    let src1 := match fw_writable w with Some wr => keep wr src | None => src end in
    let reset (d : fmsg) := match fw_reset w with Some r => clear r d | None => d end in
    match fw_update w with
    | None =>
        let dst1 := match fw_writable w with Some wr => clear wr dst | None => fzero end in
        reset (pmerge dst1 src1)
    | Some [] => dst
    | Some u =>
        let src2 := keep u src1 in
        let dst2 := pmerge dst src2 in
        (* pruneEmpty: a masked field unset in src is cleared *)
        let dst3 := mkF (if mem Fa u && (fa src2 =? 0) then 0 else fa dst2)
                        (if mem Fb u && (fb src2 =? 0) then 0 else fb dst2)
                        (if mem Fc u && (fc src2 =? 0) then 0 else fc dst2) in
        reset dst3
    end
  end.

(* get.go FilterClone with a non-nil mask *)
Definition fr_filter (k : list fld) (m : fmsg) : fmsg := match k with [] => fzero | _ => keep k m end.

(* ---- callback families ---- *)
Inductive icpt := IAddOld (f : fld) | ISetField (f : fld) (k : Z) | ICopyOld (f : fld).
Definition old_field (f : fld) (old : option fmsg) : Z := match old with Some o => getf f o | None => 0 end.
Definition interp_icpt (i : icpt) (old : option fmsg) (target : fmsg) : fmsg :=
  match i with
  | IAddOld f => setf f (getf f target + old_field f old) target
  | ISetField f k => setf f k target
  | ICopyOld f => setf f (old_field f old) target
  end.

Inductive chk := CEq (f : fld) (k : Z) (code : Z) | CFail (code : Z) | CPresent (code : Z).
Definition interp_chk (c : chk) (old : option fmsg) : option Z :=
  match c with
  | CEq f k code => if old_field f old =? k then None else Some code
  | CFail code => Some code
  | CPresent code => match old with Some _ => None | None => Some code end
  end.

Inductive idf := IdLower | IdPrefix (p : string).
Definition lower_ascii (c : ascii) : ascii :=
  let n := N_of_ascii c in if (65 <=? n)%N && (n <=? 90)%N then ascii_of_N (n + 32) else c.
Fixpoint lower (s : string) : string :=
  match s with EmptyString => EmptyString | String c r => String (lower_ascii c) (lower r) end.
Definition interp_idf (i : idf) (s : string) : string :=
  match i with IdLower => lower s | IdPrefix p => append p s end.

Inductive pred := PTrue | PIdIn (ids : list string) | PFieldGe (f : fld) (k : Z) | PNot (p : pred) | PAbsentTrue (p : pred).
Fixpoint interp_pred (p : pred) (id : string) (v : option fmsg) : bool :=
  match p with
  | PTrue => true
  | PIdIn ids => existsb (String.eqb id) ids
  | PFieldGe f k => match v with Some m => k <=? getf f m | None => false end
  | PNot q => negb (interp_pred q id v)
  | PAbsentTrue q => match v with None => true | Some _ => interp_pred q id v end
  end.

Inductive eqv := EqAll | EqField (f : fld).
Definition interp_eqv (e : eqv) (x y : option fmsg) : bool :=
  match e with
  | EqAll => option_eqb fmsg_eqb x y
  | EqField f => match x, y with
                 | Some a, Some b => getf f a =? getf f b
                 | None, None => true
                 | _, _ => false
                 end
  end.

(* Go's < on strings: byte-wise lexicographic *)
Fixpoint str_ltb (a b : string) : bool :=
  match a, b with
  | EmptyString, EmptyString => false
  | EmptyString, String _ _ => true
  | String _ _, EmptyString => false
  | String x a', String y b' =>
      let nx := N_of_ascii x in let ny := N_of_ascii y in
      if (nx <? ny)%N then true else if (ny <? nx)%N then false else str_ltb a' b'
  end.

(* the fake clock of the harness: n-th reading *)
Definition fclock (n : Z) : Z := 1000 + 10 * n.

(* ---- flat write / read options as the harness passes them ---- *)
Record fwo := mkFWO' {
  o_time : option Z;
  o_update : option (list fld);
  o_reset : option (list fld);
  o_more_writable : option (list fld);
  o_all_writable : bool;
  o_expected : option fmsg;
  o_expect_absent : bool;
  o_check : option chk;
  o_allow_missing : bool;
  o_before : option icpt;
  o_after : option icpt;
  o_create : bool;
  o_created_cb : bool;
  o_gen_id : bool;
  o_id_cb : bool;
  o_more_update : option (list fld)     (* WithMoreUpdateMask: only has an effect when an update mask is given *)
}.
(* the constructor without WithMoreUpdateMask (used by the checks that do not exercise that option) *)
Definition mkFWO a1 a2 a3 a4 a5 a6 a7 a8 a9 a10 a11 a12 a13 a14 a15 : fwo :=
  mkFWO' a1 a2 a3 a4 a5 a6 a7 a8 a9 a10 a11 a12 a13 a14 a15 None.

(* opt.go fieldUpdater(writableFields): union of the resource's writable fields and the call's extra
   ones (only when the resource restricts writes), all-writable override *)
Definition mk_writer (resource_writable : option (list fld)) (o : fwo) : fwriter :=
  mkFW (match o_update o, o_more_update o with
        | Some u, Some m => Some (dedup (u ++ m))     (* fieldmaskpb.Union *)
        | u, _ => u
        end) (o_reset o)
       (if o_all_writable o then None
        else match resource_writable with
             | None => None
             | Some w => Some (dedup (w ++ match o_more_writable o with Some m => m | None => [] end))
             end).

Definition to_wopts (resource_writable : option (list fld)) (o : fwo) : wopts fmsg fwriter :=
  mkW (o_time o) (mk_writer resource_writable o) (o_expected o) (o_expect_absent o)
      (option_map interp_chk (o_check o)) (o_allow_missing o)
      (option_map interp_icpt (o_before o)) (option_map interp_icpt (o_after o))
      (o_create o) (o_created_cb o) (o_gen_id o) (o_id_cb o).

Record fro := mkFRO { r_mask : option (list fld); r_updates_only : bool; r_include : option pred }.
Definition to_ropts (r : fro) : ropts fmsg (list fld) :=
  mkR (r_mask r) (r_updates_only r) (option_map interp_pred (r_include r)).
