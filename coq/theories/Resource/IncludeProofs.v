(* C08: include on every change kind, and the end-to-end law for BOTH delivery modes:
   folding what a subscriber with an include predicate receives -- with backpressure, and without
   it through C09's merge stage under ANY schedule of sends and receives -- yields the filtered
   collection.  For all predicates (functions), all valid histories, any number of ids. *)
From SC Require Import Base.Prelude Excess.Change Excess.MergeExcess Excess.MergeProofs Resource.Include.

Local Open Scope Z_scope.

(* ------------------------------------------------------------------ *)
(* the decision table, for every kind                                   *)
(* ------------------------------------------------------------------ *)

Lemma x_include_table : forall f c,
  x_include (Some f) c =
  match tpresent (cold c) && f (cid c) (cold c), tpresent (cnew c) && f (cid c) (cnew c) with
  | true, true => Some c                                   (* stays in: delivered as it is *)
  | false, false => None                                   (* stays out: never delivered *)
  | false, true => Some (mkChange (cid c) K_ADD None (cnew c) (ctime c) (cseed c) false)
  | true, false => Some (mkChange (cid c) K_REMOVE (cold c) None (ctime c) false false)
  end.
Proof.
  intros. unfold x_include.
  destruct (tpresent (cold c) && f (cid c) (cold c)), (tpresent (cnew c) && f (cid c) (cnew c)); reflexivity.
Qed.

(* REPLACE (what the merge stage makes of REMOVE + re-ADD): matching -> non-matching is a REMOVE,
   non-matching -> matching an ADD, matching -> matching stays a REPLACE, neither is dropped *)
Lemma replace_decisions : forall f i o n t sd la,
  x_include (Some f) (mkChange i K_REPLACE (Some o) (Some n) t sd la) =
  match f i (Some o), f i (Some n) with
  | true, true => Some (mkChange i K_REPLACE (Some o) (Some n) t sd la)
  | false, false => None
  | false, true => Some (mkChange i K_ADD None (Some n) t sd false)
  | true, false => Some (mkChange i K_REMOVE (Some o) None t false false)
  end.
Proof. intros. rewrite x_include_table. cbn. destruct (f i (Some o)), (f i (Some n)); reflexivity. Qed.

(* the law of one step: c is a legal edit of an id holding x.  On the filtered view (w) the change
   include returns is a legal edit -- ADD only of an item the filtered collection does not have,
   UPDATE / REPLACE / REMOVE only of one it has, old value = what the filtered collection held --
   and leads to the filtered new state; when nothing is returned the filtered state is unchanged *)
Lemma include_step_law : forall inc c x, valid_at c x = true ->
  let w := shown inc (cid c) x in
  match x_include inc c with
  | Some o => cid o = cid c /\ valid_at o w = true /\ result o w = shown inc (cid c) (result c x)
  | None => w = shown inc (cid c) (result c x)
  end.
Proof.
  intros inc [i k o n t sd la] x Hv.
  pose proof (valid_at_kind _ _ Hv) as K. cbn [ckind] in K.
  destruct inc as [f|].
  2:{ cbn. split; [reflexivity|]. split; [exact Hv|reflexivity]. }
  destruct K as [K|[K|[K|K]]]; subst k;
    unfold valid_at, K_ADD, K_UPDATE, K_REPLACE, K_REMOVE in Hv; cbn in Hv;
    destruct x as [x|]; destruct o as [o|]; destruct n as [n|]; try discriminate Hv;
    try (apply Z.eqb_eq in Hv; subst o);
    unfold x_include, shown, result, valid_at, tpresent, K_ADD, K_UPDATE, K_REPLACE, K_REMOVE; cbn;
    repeat match goal with |- context [f ?a ?b] => destruct (f a b) eqn:? end; cbn;
    repeat split; auto; try apply Z.eqb_refl; try congruence.
Qed.

(* the executable form used on the generated table *)
Lemma model_obeys_row_law : forall inc c, row_law inc c (x_include inc c) = true.
Proof.
  intros inc c. unfold row_law. destruct (valid_at c (cold c)) eqn:Hv; [|reflexivity].
  pose proof (include_step_law inc c (cold c) Hv) as L. cbv zeta in L.
  destruct (x_include inc c) as [o|].
  - destruct L as [Li [Lv Lr]]. rewrite Li, Z.eqb_refl, Lv, Lr. simpl. apply oz_eqb_refl.
  - rewrite <- L. apply oz_eqb_refl.
Qed.

(* ------------------------------------------------------------------ *)
(* include commutes with folding, for every valid edit script           *)
(* ------------------------------------------------------------------ *)

Lemma include_commutes : forall inc g v w,
  valid_script g v = true -> (forall i, w i = filtered inc v i) ->
  valid_script (x_forward inc g) w = true /\
  forall i, fold_view (x_forward inc g) w i = filtered inc (fold_view g v) i.
Proof.
  intros inc. induction g as [|c r IH]; intros v w Hs Hw.
  - simpl. split; [reflexivity|]. exact Hw.
  - cbn [valid_script] in Hs. apply andb_true_iff in Hs. destruct Hs as [Hc Hr].
    unfold valid in Hc.
    pose proof (include_step_law inc c (v (cid c)) Hc) as L. cbv zeta in L.
    change (fold_view (c :: r) v) with (fold_view r (apply c v)).
    unfold x_forward. cbn [flat_map]. fold (x_forward inc r).
    destruct (x_include inc c) as [o|].
    + destruct L as [Li [Lv Lr]].
      cbn [app valid_script].
      change (fold_view (o :: x_forward inc r) w) with (fold_view (x_forward inc r) (apply o w)).
      assert (Hw' : forall i, apply o w i = filtered inc (apply c v) i).
      { intros i. unfold apply, filtered. rewrite Li. destruct (Z.eqb_spec i (cid c)) as [->|Hne].
        - rewrite Hw. unfold filtered. exact Lr.
        - apply Hw. }
      destruct (IH (apply c v) (apply o w) Hr Hw') as [IH1 IH2].
      split; [|exact IH2].
      unfold valid. rewrite Li, Hw. unfold filtered. rewrite Lv. exact IH1.
    + cbn [app].
      assert (Hw' : forall i, w i = filtered inc (apply c v) i).
      { intros i. unfold apply, filtered. destruct (Z.eqb_spec i (cid c)) as [->|Hne].
        - rewrite Hw. exact L.
        - apply Hw. }
      apply (IH (apply c v) w Hr Hw').
Qed.

Lemma filtered_ext : forall inc v v' i, v i = v' i -> filtered inc v i = filtered inc v' i.
Proof. intros inc v v' i H. unfold filtered. rewrite H. reflexivity. Qed.

(* ------------------------------------------------------------------ *)
(* (a) with backpressure                                                *)
(* ------------------------------------------------------------------ *)

(* the filtered stream is itself a valid edit script of the filtered collection, and folding it
   yields the filtered collection: List with the same predicate *)
Theorem bp_filtered_fold : forall inc sent v0, valid_script sent v0 = true ->
  valid_script (bp_stream inc sent) (filtered inc v0) = true /\
  forall i, fold_view (bp_stream inc sent) (filtered inc v0) i = filtered inc (fold_view sent v0) i.
Proof. intros inc sent v0 H. apply include_commutes; [exact H|reflexivity]. Qed.

(* ------------------------------------------------------------------ *)
(* (b) without backpressure: C09's merge stage, any schedule            *)
(* ------------------------------------------------------------------ *)

(* at every moment of every schedule (any interleaving of publishes and receives, any number of
   ids): what the filtered subscriber has received is a valid edit script of the filtered
   collection, and its fold is the filter of what an unfiltered subscriber would hold *)
Theorem lossy_filtered_fold : forall inc l v0,
  no_close l = true -> valid_script (sent_of l) v0 = true ->
  let got := got_of (snd (m_run m_init l)) in
  valid_script (lossy_stream inc l) (filtered inc v0) = true /\
  forall i, fold_view (lossy_stream inc l) (filtered inc v0) i = filtered inc (fold_view got v0) i.
Proof.
  intros inc l v0 Hc Hs. cbv zeta. unfold lossy_stream.
  pose proof (lossy_run_invariant l v0 Hc Hs) as R.
  destruct (m_run m_init l) as [s' os]. cbn [snd].
  destruct R as [_ [V _]].
  apply include_commutes; [exact V|reflexivity].
Qed.

Lemma no_close_app : forall l1 l2, no_close (l1 ++ l2) = no_close l1 && no_close l2.
Proof. intros. unfold no_close. apply forallb_app. Qed.
Lemma no_close_recvs : forall n, no_close (repeat Recv n) = true.
Proof. induction n; simpl; auto. Qed.
Lemma sent_of_recvs : forall n, sent_of (repeat Recv n) = [].
Proof. induction n; simpl; auto. Qed.

(* once the reader has drained what is pending, the fold of the filtered stream is the filtered
   collection after the whole history: List with the same predicate *)
Theorem lossy_drained_fold : forall inc l v0,
  no_close l = true -> valid_script (sent_of l) v0 = true ->
  let n := List.length (queue (fst (m_run m_init l))) in
  let l' := l ++ repeat Recv n in
  valid_script (lossy_stream inc l') (filtered inc v0) = true /\
  forall i, fold_view (lossy_stream inc l') (filtered inc v0) i = filtered inc (fold_view (sent_of l) v0) i.
Proof.
  intros inc l v0 Hc Hs. cbv zeta.
  set (n := List.length (queue (fst (m_run m_init l)))).
  assert (Hc' : no_close (l ++ repeat Recv n) = true) by (rewrite no_close_app, Hc, no_close_recvs; reflexivity).
  assert (Hs' : valid_script (sent_of (l ++ repeat Recv n)) v0 = true)
    by (rewrite sent_of_app, sent_of_recvs, app_nil_r; exact Hs).
  destruct (lossy_filtered_fold inc (l ++ repeat Recv n) v0 Hc' Hs') as [V F].
  split; [exact V|].
  intros i. rewrite F. apply filtered_ext.
  pose proof (drain_delivers_latest l v0 Hc Hs) as D.
  rewrite m_run_app. subst n.
  destruct (m_run m_init l) as [s' os]. cbn [fst].
  destruct (m_run s' (repeat Recv (List.length (queue s')))) as [s'' os'].
  destruct D as [_ [_ [D _]]]. cbn [snd]. apply D.
Qed.

(* a reader that keeps up (receives after every publish) gets exactly the backpressured stream *)
Theorem lossy_prompt_reader_is_backpressure : forall inc cs,
  lossy_stream inc (flat_map (fun c => [Send c; Recv]) cs) = bp_stream inc cs.
Proof.
  intros inc cs. unfold lossy_stream, bp_stream.
  destruct (alternate_lossless cs m_init eq_refl eq_refl) as [s' [E _]]. rewrite E. cbn [snd].
  f_equal. clear. induction cs as [|c cs IH]; [reflexivity|].
  cbn [flat_map app]. change (got_of (OSent :: OGot c :: flat_map (fun c0 => [OSent; OGot c0]) cs))
    with (c :: got_of (flat_map (fun c0 => [OSent; OGot c0]) cs)). rewrite IH. reflexivity.
Qed.

(* non-vacuity and the REPLACE path: REMOVE + re-ADD while the reader is behind, the old version
   matching (token 5 >= 3), the new one not (token 1): the merge stage hands include a REPLACE,
   the subscriber gets a REMOVE, and its fold is the filtered collection (empty) *)
Example lossy_replace_stops_matching :
  let p : ipred := fun _ v => match v with Some t => 3 <=? t | None => false end in
  let v0 : view := fun i => if i =? 0 then Some 5 else if i =? 1 then Some 7 else None in
  let l := [Send (mkChange 1 K_UPDATE (Some 7) (Some 8) 10 false false);      (* occupies the Pull goroutine *)
            Recv;
            Send (mkChange 0 K_REMOVE (Some 5) None 11 false false);
            Send (mkChange 0 K_ADD None (Some 1) 12 false false);
            Recv] in
  valid_script (sent_of l) v0 = true /\
  got_of (snd (m_run m_init l)) =
    [mkChange 1 K_UPDATE (Some 7) (Some 8) 10 false false; mkChange 0 K_REPLACE (Some 5) (Some 1) 12 false false] /\
  lossy_stream (Some p) l =
    [mkChange 1 K_UPDATE (Some 7) (Some 8) 10 false false; mkChange 0 K_REMOVE (Some 5) None 12 false false] /\
  fold_view (lossy_stream (Some p) l) (filtered (Some p) v0) 0 = None.
Proof. vm_compute. repeat split; reflexivity. Qed.
