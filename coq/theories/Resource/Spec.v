(* The plain reference model of C01: a Value is a register holding an optional message, a
   Collection is a finite map id -> (message, change time) kept as an association list sorted
   by id.  Every operation is one flat decision list: validation -> id resolution -> existence
   preconditions -> value preconditions -> new value.  No closures, no provisional messages,
   no second read.  Also the operation language and the two step functions (implementation
   model and reference) over which the theorems quantify.  No proofs here. *)
From SC Require Import Base.Prelude Resource.Impl.

Set Implicit Arguments.

Section Spec.
  Variable M : Type.
  Variable m_eqb : M -> M -> bool.
  Variable m_empty : M.
  Variable writer : Type.
  Variable w_validate : writer -> option Z.
  Variable w_merge : writer -> M -> M -> M.
  Variable rmask : Type.
  Variable r_filter : rmask -> M -> M.
  Variable clock_at : Z -> Z.
  Variable str_ltb : string -> string -> bool.
  Variable idfun : option (string -> string).

  Notation wopts := (wopts M writer).
  Notation cstate := (cstate M).
  Notation vstate := (vstate M).
  Notation cevent := (cevent M).
  Notation vevent := (vevent M).
  Notation item := (item M).
  Notation apply_id := (apply_id idfun).

  Definition keys (l : list (string * item)) : list string := map fst l.
  Definition has_key (id : string) (l : list (string * item)) : bool :=
    existsb (String.eqb id) (keys l).

  (* the new value of a write against base value [base] (the stored body, or the empty message
     when an item is being created, or nothing for a Value without a value) *)
  Definition new_value (o : wopts) (msg : M) (base : option M) : M :=
    let msg1 := match wo_before o with Some f => f base msg | None => msg end in
    let b := match base with Some x => x | None => m_empty end in
    let merged := w_merge (wo_writer o) b msg1 in
    match wo_after o with Some f => f base merged | None => merged end.

  (* value preconditions: expected value, then expected check *)
  Definition precondition (o : wopts) (base : option M) : option Z :=
    match wo_expected o with
    | Some e =>
        if option_eqb m_eqb base (Some e) then
          match wo_check o with Some chk => chk base | None => None end
        else Some 9
    | None => match wo_check o with Some chk => chk base | None => None end
    end.

  Definition write_time (o : wopts) (reads : Z) : Z * Z :=
    match wo_time o with Some t => (t, reads) | None => (clock_at reads, reads + 1) end.

  (* ---- Value ---- *)
  Definition spec_v_set (s : vstate) (msg : M) (o : wopts) : vstate * (M + Z) * list vevent :=
    match w_validate (wo_writer o) with
    | Some code => (s, inr code, [])
    | None =>
      match precondition o (v_val s) with
      | Some code => (s, inr code, [])
      | None =>
          let nv := new_value o msg (v_val s) in
          let '(t, reads) := write_time o (v_reads s) in
          (mkV (Some nv) t reads, inl nv, [mkVE nv t])
      end
    end.

  (* ---- Collection ---- *)
  (* the first of at most ten candidates that is non-empty and, seen through the id interceptor, unused *)
  Fixpoint first_fresh (cands : list string) (n : nat) (l : list (string * item)) : option string :=
    match n, cands with
    | O, _ | _, [] => None
    | S n', c :: r =>
        if negb (String.eqb c "") && negb (has_key (apply_id c) l) then Some c else first_fresh r n' l
    end.

  Definition spec_c_update (s : cstate) (id0 : string) (msg : M) (o : wopts) (cands : list string)
    : cstate * (M + Z) * list cevent * cblog :=
    match w_validate (wo_writer o) with
    | Some code => (s, inr code, [], cb_none)
    | None =>
      let id1 := apply_id id0 in
      let generate := String.eqb id1 "" && wo_gen_id o in
      match (if generate then first_fresh cands 10 (c_items s) else Some id1) with
      | None => (s, inr 10, [], cb_none)
      | Some idr =>
        let id := if generate then apply_id idr else idr in
        let ids := if generate && wo_id_cb o then [idr] else [] in
        let stored := lookup id (c_items s) in
        match stored with
        | Some _ =>
            if wo_expect_absent o then (s, inr 6, [], mkCB ids 0) else
            let base := option_map (@it_body M) stored in
            match precondition o base with
            | Some code => (s, inr code, [], mkCB ids 0)
            | None =>
                let nv := new_value o msg base in
                let '(t, reads) := write_time o (c_reads s) in
                (mkC (insert str_ltb id (mkItem nv t) (c_items s)) reads, inl nv,
                 [mkCE id t KUpdate base (Some nv)], mkCB ids 0)
            end
        | None =>
            if negb (wo_create o) then (s, inr 5, [], mkCB ids 0) else
            let created := if wo_created_cb o then 1 else 0 in
            match precondition o (Some m_empty) with
            | Some code => (s, inr code, [], mkCB ids created)
            | None =>
                let nv := new_value o msg (Some m_empty) in
                let '(t, reads) := write_time o (c_reads s) in
                (mkC (insert str_ltb id (mkItem nv t) (c_items s)) reads, inl nv,
                 [mkCE id t KAdd None (Some nv)], mkCB ids created)
            end
        end
      end
    end.

  Definition spec_c_delete (s : cstate) (id0 : string) (o : wopts)
    : cstate * option M * option Z * list cevent :=
    let id := apply_id id0 in
    match lookup id (c_items s) with
    | None => (s, None, if wo_allow_missing o then None else Some 5, [])
    | Some it =>
        let body := it_body it in
        match wo_check o with
        | Some chk =>
            match chk (Some body) with
            | Some code => (s, Some body, Some code, [])
            | None =>
                if match wo_expected o with Some e => m_eqb body e | None => true end then
                  let '(t, reads) := write_time o (c_reads s) in
                  (mkC (remove id (c_items s)) reads, Some body, None, [mkCE id t KRemove (Some body) None])
                else (s, Some body, Some 9, [])
            end
        | None =>
            if match wo_expected o with Some e => m_eqb body e | None => true end then
              let '(t, reads) := write_time o (c_reads s) in
              (mkC (remove id (c_items s)) reads, Some body, None, [mkCE id t KRemove (Some body) None])
            else (s, Some body, Some 9, [])
        end
    end.

  (* ---- operation language ---- *)
  Inductive cop :=
  | OGet (id : string) (mask : option rmask)
  | OList (mask : option rmask) (include : option (string -> option M -> bool))
  | OUpdate (id : string) (msg : M) (o : wopts) (cands : list string)
  | OAdd (id : string) (msg : M) (o : wopts) (cands : list string)
  | ODelete (id : string) (o : wopts).

  Inductive cout :=
  | RGet (r : option M)
  | RList (l : list (string * M))
  | RWrite (r : M + Z) (cb : cblog)
  | RDelete (r : option M) (err : option Z).

  Definition impl_step (s : cstate) (op : cop) : cstate * cout * list cevent :=
    match op with
    | OGet id mask => (s, RGet (c_get r_filter idfun s id mask), [])
    | OList mask inc => (s, RList (c_list r_filter s mask inc), [])
    | OUpdate id msg o cands =>
        let '(s', r, ev, cb) := c_update m_eqb m_empty w_validate w_merge clock_at str_ltb idfun s id msg o cands in
        (s', RWrite r cb, ev)
    | OAdd id msg o cands =>
        let '(s', r, ev, cb) := c_add m_eqb m_empty w_validate w_merge clock_at str_ltb idfun s id msg o cands in
        (s', RWrite r cb, ev)
    | ODelete id o =>
        let '(s', r, e, ev) := c_delete m_eqb clock_at idfun s id o in (s', RDelete r e, ev)
    end.

  Definition spec_step (s : cstate) (op : cop) : cstate * cout * list cevent :=
    match op with
    | OGet id mask => (s, RGet (c_get r_filter idfun s id mask), [])
    | OList mask inc => (s, RList (c_list r_filter s mask inc), [])
    | OUpdate id msg o cands =>
        let '(s', r, ev, cb) := spec_c_update s id msg o cands in (s', RWrite r cb, ev)
    | OAdd id msg o cands =>
        let '(s', r, ev, cb) := spec_c_update s id msg (as_add o) cands in (s', RWrite r cb, ev)
    | ODelete id o =>
        let '(s', r, e, ev) := spec_c_delete s id o in (s', RDelete r e, ev)
    end.

  (* a run: final state, outputs and events of every step *)
  Fixpoint run (step : cstate -> cop -> cstate * cout * list cevent) (s : cstate) (ops : list cop)
    : cstate * list (cout * list cevent) :=
    match ops with
    | [] => (s, [])
    | op :: r =>
        let '(s1, out, ev) := step s op in
        let '(s2, outs) := run step s1 r in
        (s2, (out, ev) :: outs)
    end.

  Definition failed (o : cout) : bool :=
    match o with
    | RWrite (inr _) _ => true
    | RDelete _ (Some _) => true
    | _ => false
    end.

  Fixpoint sorted_keys (l : list string) : Prop :=
    match l with
    | [] => True
    | a :: r => (match r with [] => True | b :: _ => str_ltb a b = true end) /\ sorted_keys r
    end.

  (* Value operations *)
  Inductive vop := VGet (mask : option rmask) | VSet (msg : M) (o : wopts).
  Inductive vout := VRGet (r : option M) | VRSet (r : M + Z).
  Definition v_impl_step (s : vstate) (op : vop) : vstate * vout * list vevent :=
    match op with
    | VGet mask => (s, VRGet (v_get r_filter s mask), [])
    | VSet msg o => let '(s', r, ev) := v_set m_eqb m_empty w_validate w_merge clock_at s msg o in (s', VRSet r, ev)
    end.
  Definition v_spec_step (s : vstate) (op : vop) : vstate * vout * list vevent :=
    match op with
    | VGet mask => (s, VRGet (v_get r_filter s mask), [])
    | VSet msg o => let '(s', r, ev) := spec_v_set s msg o in (s', VRSet r, ev)
    end.
  Fixpoint v_run (step : vstate -> vop -> vstate * vout * list vevent) (s : vstate) (ops : list vop)
    : vstate * list (vout * list vevent) :=
    match ops with
    | [] => (s, [])
    | op :: r =>
        let '(s1, out, ev) := step s op in
        let '(s2, outs) := v_run step s1 r in
        (s2, (out, ev) :: outs)
    end.
End Spec.
