(* C08: nothing the filtered subscriber receives mentions a version of an item that the predicate
   rejects -- in both delivery modes, for every schedule, every change kind (REPLACE included) and
   every predicate (also one that is true on absent values).  The synthesised ADD drops the
   non-matching old version, the synthesised REMOVE the non-matching new one. *)
From SC Require Import Base.Prelude Excess.Change Excess.MergeExcess Resource.Include Resource.IncludeProofs.

Definition matching (f : ipred) (o : change) : Prop :=
  (forall t, cold o = Some t -> f (cid o) (Some t) = true) /\
  (forall t, cnew o = Some t -> f (cid o) (Some t) = true) /\
  (cold o <> None \/ cnew o <> None).

Lemma include_delivers_matching f c o :
  x_include (Some f) c = Some o -> matching f o /\ cid o = cid c /\ ctime o = ctime c.
Proof.
  rewrite x_include_table.
  destruct (cold c) as [a|] eqn:Eo; destruct (cnew c) as [b|] eqn:En; cbn [tpresent andb];
    try destruct (f (cid c) (Some a)) eqn:Fa; try destruct (f (cid c) (Some b)) eqn:Fb;
    intros H; inversion H; subst o; clear H; unfold matching; cbn [cid cold cnew ctime];
    rewrite ?Eo, ?En;
    (split; [|split; reflexivity]);
    (split; [|split]); try (intros t Ht; inversion Ht; subst; assumption); try (intros t Ht; discriminate);
    try (left; discriminate); try (right; discriminate).
Qed.

Lemma forward_all_matching f l : Forall (matching f) (x_forward (Some f) l).
Proof.
  unfold x_forward. induction l as [|c r IH]; cbn [flat_map]; [constructor|].
  destruct (x_include (Some f) c) as [o|] eqn:E; cbn [app]; [|exact IH].
  constructor; [|exact IH]. apply (include_delivers_matching f c o E).
Qed.

(* (a) with backpressure, any history; (b) without, any schedule of publishes and receives *)
Theorem bp_all_matching f sent : Forall (matching f) (bp_stream (Some f) sent).
Proof. apply forward_all_matching. Qed.
Theorem lossy_all_matching f l : Forall (matching f) (lossy_stream (Some f) l).
Proof. apply forward_all_matching. Qed.

(* and a change between two versions that both fail the predicate (or are absent) is never delivered *)
Theorem stays_out_never_delivered f c :
  (forall t, cold c = Some t -> f (cid c) (Some t) = false) ->
  (forall t, cnew c = Some t -> f (cid c) (Some t) = false) ->
  x_include (Some f) c = None.
Proof.
  intros Ho Hn. rewrite x_include_table.
  destruct (cold c) as [a|]; destruct (cnew c) as [b|]; cbn [tpresent andb];
    rewrite ?(Ho _ eq_refl), ?(Hn _ eq_refl); reflexivity.
Qed.
