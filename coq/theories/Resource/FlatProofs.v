(* The flat instance (Flat.v) meets the hypotheses of the generic theorems: byte-wise string
   order is a strict total order, message equality is reflexive. *)
From SC Require Import Base.Prelude Resource.Flat.
From Coq Require Import Ascii NArith.

Lemma N_of_ascii_inj a b : N_of_ascii a = N_of_ascii b -> a = b.
Proof. intros H. rewrite <- (ascii_N_embedding a), <- (ascii_N_embedding b), H. reflexivity. Qed.

Lemma str_ltb_irrefl a : str_ltb a a = false.
Proof. induction a as [|c r IH]; simpl; [reflexivity|]. rewrite N.ltb_irrefl. exact IH. Qed.

Lemma str_ltb_trans a : forall b c, str_ltb a b = true -> str_ltb b c = true -> str_ltb a c = true.
Proof.
  induction a as [|x a IH]; intros [|y b] [|z c]; simpl; try discriminate; try reflexivity.
  destruct (N.ltb_spec (N_of_ascii x) (N_of_ascii y)) as [Hxy|Hxy].
  - intros _. destruct (N.ltb_spec (N_of_ascii y) (N_of_ascii z)) as [Hyz|Hyz].
    + intros _. destruct (N.ltb_spec (N_of_ascii x) (N_of_ascii z)); [reflexivity|lia].
    + destruct (N.ltb_spec (N_of_ascii z) (N_of_ascii y)); [discriminate|]. intros _.
      destruct (N.ltb_spec (N_of_ascii x) (N_of_ascii z)); [reflexivity|lia].
  - destruct (N.ltb_spec (N_of_ascii y) (N_of_ascii x)); [discriminate|]. intros Hab.
    destruct (N.ltb_spec (N_of_ascii y) (N_of_ascii z)) as [Hyz|Hyz].
    + intros _. destruct (N.ltb_spec (N_of_ascii x) (N_of_ascii z)); [reflexivity|lia].
    + destruct (N.ltb_spec (N_of_ascii z) (N_of_ascii y)); [discriminate|]. intros Hbc.
      destruct (N.ltb_spec (N_of_ascii x) (N_of_ascii z)); [reflexivity|].
      destruct (N.ltb_spec (N_of_ascii z) (N_of_ascii x)); [lia|].
      eapply IH; eauto.
Qed.

Lemma str_ltb_total a : forall b, str_ltb a b = false -> str_ltb b a = false -> a = b.
Proof.
  induction a as [|x a IH]; intros [|y b]; simpl; try discriminate; try reflexivity.
  destruct (N.ltb_spec (N_of_ascii x) (N_of_ascii y)); [discriminate|].
  destruct (N.ltb_spec (N_of_ascii y) (N_of_ascii x)); [discriminate|].
  intros H1 H2. assert (x = y) by (apply N_of_ascii_inj; lia). subst. f_equal. apply IH; assumption.
Qed.

Lemma fmsg_eqb_refl m : fmsg_eqb m m = true.
Proof. unfold fmsg_eqb. rewrite !Z.eqb_refl. reflexivity. Qed.
