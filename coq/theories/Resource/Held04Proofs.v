(* C04 / C08 with an equivalence configured: Collection.Pull's held map (Resource/Pull.v
   [pull_collection_held], the code since /repo 3a50d70) on REAL histories -- every call sequence from
   every sorted contents, with deletes, re-adds, items leaving and re-entering the include filter --
   for an ARBITRARY comparer, read mask and include predicate:

   * exactness: the stream is the seed followed by exactly those changes of the equivalence-free
     stream (include, then read mask) whose new value is NOT equivalent to what the subscriber holds
     for the id (the new value of the last change delivered for it, initially what List with the same
     options showed when it subscribed; nothing after a delivered REMOVE, real or synthesised);
   * the fold law up to the equivalence: for a reflexive comparer, folding the stream gives, per id,
     a value equivalent to what List with the same options shows -- so for a comparer that tells
     presence from absence an item is in the fold iff it is in the List, and for a comparer that
     decides equality the fold IS the List;
   * the model of the code before 3a50d70 (old against new) coincides with it for equivalence
     RELATIONS on real histories and without an equivalence.  *)
From SC Require Import Base.Prelude Resource.Impl Resource.Spec Resource.Pull Resource.ImplProofs
  Resource.SpecProofs Resource.PullProofs Resource.HeldProofs.

Set Implicit Arguments.

Section Proofs.
  Variable M : Type.
  Variable m_eqb : M -> M -> bool.
  Variable m_empty : M.
  Variable writer : Type.
  Variable w_validate : writer -> option Z.
  Variable w_merge : writer -> M -> M -> M.
  Variable rmask : Type.
  Variable r_filter : rmask -> M -> M.
  Variable clock_at : Z -> Z.
  Variable str_ltb : string -> string -> bool.
  Variable idfun : option (string -> string).

  Hypothesis ltb_irrefl : forall a, str_ltb a a = false.
  Hypothesis ltb_trans : forall a b c, str_ltb a b = true -> str_ltb b c = true -> str_ltb a c = true.
  Hypothesis ltb_total : forall a b, str_ltb a b = false -> str_ltb b a = false -> a = b.

  Notation item := (item M).
  Notation cevent := (cevent M).
  Notation cstate := (cstate M).
  Notation ropts := (ropts M rmask).
  Notation cchange := (cchange M).
  Notation heldmap := (heldmap M).
  Notation view := (view M).
  Notation spec_step := (spec_step m_eqb m_empty w_validate w_merge r_filter clock_at str_ltb idfun).
  Notation sorted := (sorted str_ltb).
  Notation filt := (filt r_filter).
  Notation shown := (shown r_filter).

  (* ---------- folding well-kinded changes = remembering the last new value per id ---------- *)
  (* a change is a REMOVE exactly when it carries no new value *)
  Definition wk (c : cchange) : Prop :=
    (cc_new c = None -> cc_kind c = KRemove) /\ (cc_new c <> None -> cc_kind c <> KRemove).

  Lemma apply_change_lookup (vw : list (string * M)) (c : cchange) :
    NoDup (map fst vw) -> wk c ->
    NoDup (map fst (apply_change vw c)) /\
    forall k, vlookup k (apply_change vw c) = if String.eqb k (cc_id c) then cc_new c else vlookup k vw.
  Proof.
    intros ND [W1 W2]. unfold apply_change.
    destruct (cc_new c) as [v|] eqn:N.
    - assert (K : cc_kind c <> KRemove) by (apply W2; discriminate).
      destruct (cc_kind c) eqn:EK; try congruence;
        (split; [apply view_set_nodup; exact ND|]; intros k;
         destruct (String.eqb_spec k (cc_id c)) as [->|Hne];
         [apply vlookup_set_same|apply vlookup_set_other; exact Hne]).
    - rewrite (W1 eq_refl). split; [apply view_del_nodup; exact ND|]. intros k.
      destruct (String.eqb_spec k (cc_id c)) as [->|Hne];
        [apply vlookup_del_same; exact ND|apply vlookup_del_other; exact Hne].
  Qed.

  Lemma holds_after_ext (cs : list cchange) : forall (w w' : view),
    (forall k, w k = w' k) -> forall k, holds_after w cs k = holds_after w' cs k.
  Proof.
    induction cs as [|c r IH]; intros w w' X k; [apply X|].
    rewrite !holds_after_cons. apply IH. intros q. unfold vupd. destruct (String.eqb q (cc_id c)); auto.
  Qed.

  Lemma fold_holds_after (cs : list cchange) : forall vw,
    NoDup (map fst vw) -> Forall wk cs ->
    NoDup (map fst (fold_left (@apply_change M) cs vw)) /\
    forall k, vlookup k (fold_left (@apply_change M) cs vw) = holds_after (fun q => vlookup q vw) cs k.
  Proof.
    induction cs as [|c r IH]; intros vw ND F; [split; [exact ND|reflexivity]|].
    inversion F as [|? ? Wc Fr]. subst.
    destruct (@apply_change_lookup _ _ ND Wc) as [ND' L].
    cbn [fold_left]. destruct (IH _ ND' Fr) as [ND2 L2]. split; [exact ND2|].
    intros k. rewrite L2, holds_after_cons. apply holds_after_ext.
    intros q. rewrite L. reflexivity.
  Qed.

  (* ---------- what include and the read mask offer for one described event ---------- *)
  Lemma offered_one (ro : ropts) (e : cevent) l l' :
    describes e l l' ->
    match include_gen false false (ro_include ro) (of_event e) with
    | None => shown ro (ce_id e) l = None /\ shown ro (ce_id e) l' = None
    | Some c => cc_id c = ce_id e /\
                option_map (filt ro) (cc_old c) = shown ro (ce_id e) l /\
                option_map (filt ro) (cc_new c) = shown ro (ce_id e) l' /\
                wk (cc_filter r_filter ro c)
    end.
  Proof.
    intros D. destruct D as [Do Dn Df [K1 K2] Dt].
    assert (WKE : forall o,
                  wk (cc_filter r_filter ro (mkCC (ce_id e) (ce_time e) (ce_kind e) o (ce_new e) false false))).
    { intros o. unfold wk, cc_filter. cbn [cc_new cc_kind]. split.
      - intros N. destruct (ce_new e) eqn:NE; [discriminate N|].
        destruct (ce_kind e) eqn:EK; try reflexivity; exfalso; apply K2; congruence.
      - intros N C. apply K1 in C. rewrite C in N. apply N. reflexivity. }
    unfold shown, pred_of, include_gen, of_event.
    cbn [cc_id cc_old cc_new cc_time cc_seed cc_kind orb].
    destruct (ro_include ro) as [f|] eqn:RI.
    - revert WKE. rewrite Do, Dn. unfold body_at. intros WKE.
      destruct (lookup (ce_id e) l) as [it|]; destruct (lookup (ce_id e) l') as [it'|]; cbn [option_map andb].
      + destruct (f (ce_id e) (Some (it_body it))); destruct (f (ce_id e) (Some (it_body it')));
          cbn [Bool.eqb cc_id cc_old cc_new option_map].
        * (split; [reflexivity|split; [reflexivity|split; [reflexivity|]]]); apply (WKE (Some (it_body it))).
        * (split; [reflexivity|split; [reflexivity|split; [reflexivity|]]]); split; cbn; [intros _; reflexivity|intros N; exfalso; apply N; reflexivity].
        * (split; [reflexivity|split; [reflexivity|split; [reflexivity|]]]); split; cbn; [intros N; discriminate N|intros _ C; discriminate C].
        * split; reflexivity.
      + destruct (f (ce_id e) (Some (it_body it))); cbn [Bool.eqb cc_id cc_old cc_new option_map].
        * (split; [reflexivity|split; [reflexivity|split; [reflexivity|]]]); split; cbn; [intros _; reflexivity|intros N; exfalso; apply N; reflexivity].
        * split; reflexivity.
      + destruct (f (ce_id e) (Some (it_body it'))); cbn [Bool.eqb cc_id cc_old cc_new option_map].
        * (split; [reflexivity|split; [reflexivity|split; [reflexivity|]]]); split; cbn; [intros N; discriminate N|intros _ C; discriminate C].
        * split; reflexivity.
      + cbn [Bool.eqb]. split; reflexivity.
    - cbn [cc_id cc_old cc_new].
      split; [reflexivity|]. split; [|split].
      + rewrite Do. unfold body_at. destruct (lookup (ce_id e) l); reflexivity.
      + rewrite Dn. unfold body_at. destruct (lookup (ce_id e) l'); reflexivity.
      + apply WKE.
  Qed.

  Lemma shown_frame (ro : ropts) (e : cevent) l l' id' :
    describes e l l' -> id' <> ce_id e -> shown ro id' l' = shown ro id' l.
  Proof. intros D Hne. unfold shown. rewrite (d_frame D) by exact Hne. reflexivity. Qed.

  (* ---------- the invariant of a subscriber of a collection with an equivalence ---------- *)
  (* its folded view is, per id, equivalent to what List with its options shows; and the held map
     is that folded view (where it has an entry) / the view is exact (where it has none) *)
  Section Inv.
    Variable cmp : option M -> option M -> bool.
    Hypothesis cmp_refl : forall a, cmp a a = true.
    Variable ro : ropts.

    Definition hview_inv (vw : list (string * M)) (h : heldmap) (l : list (string * item)) : Prop :=
      NoDup (map fst vw) /\
      (forall id, cmp (vlookup id vw) (shown ro id l) = true) /\
      held_inv h (fun id => vlookup id vw) (fun id => shown ro id l).

    Lemma held_one_keeps_inv (e : cevent) l l' vw h :
      describes e l l' -> hview_inv vw h l ->
      hview_inv (fold_left (@apply_change M) (c_forward_held r_filter (Some cmp) ro h [e]) vw)
                (held_after cmp h (offered r_filter ro [e])) l'.
    Proof.
      intros D (ND & HA & HB).
      pose proof (offered_one ro D) as O.
      cbn [c_forward_held offered flat_map]. rewrite app_nil_r.
      destruct (include_gen false false (ro_include ro) (of_event e)) as [c|].
      - destruct O as (Oid & Oold & Onew & Wc).
        set (c' := cc_filter r_filter ro c) in *.
        assert (Cid : cc_id c' = ce_id e) by exact Oid.
        assert (Cold : cc_old c' = shown ro (ce_id e) l) by exact Oold.
        assert (Cnew : cc_new c' = shown ro (ce_id e) l') by exact Onew.
        cbn [held_after]. unfold held_step.
        assert (B : match hget (cc_id c') h with Some b => b | None => cc_old c' end = vlookup (ce_id e) vw).
        { rewrite Cid. specialize (HB (ce_id e)). cbn beta in HB.
          destruct (hget (ce_id e) h); [exact HB|]. rewrite Cold. symmetry. exact HB. }
        rewrite B. destruct (cmp (vlookup (ce_id e) vw) (cc_new c')) eqn:E; cbn [fold_left snd held_after].
        + (* suppressed: the view stays, equivalent to the new contents by the test itself *)
          split; [exact ND|]. split.
          * intros id. destruct (String.eqb_spec id (ce_id e)) as [->|Hne].
            -- rewrite <- Cnew. exact E.
            -- rewrite (shown_frame ro D Hne). apply HA.
          * intros id. rewrite Cid. destruct (String.eqb id (ce_id e)) eqn:K.
            -- apply String.eqb_eq in K. subst id. rewrite hget_hset_same. reflexivity.
            -- rewrite hget_hset_other by exact K.
               assert (Hne : id <> ce_id e) by (intros ->; rewrite String.eqb_refl in K; discriminate).
               specialize (HB id). cbn beta in HB. destruct (hget id h); [exact HB|].
               rewrite (shown_frame ro D Hne). exact HB.
        + (* delivered *)
          destruct (@apply_change_lookup _ _ ND Wc) as [ND' L].
          split; [exact ND'|]. split.
          * intros id. rewrite L, Cid. destruct (String.eqb_spec id (ce_id e)) as [->|Hne].
            -- rewrite Cnew. apply cmp_refl.
            -- rewrite (shown_frame ro D Hne). apply HA.
          * intros id. cbn beta. rewrite L, Cid. destruct (String.eqb id (ce_id e)) eqn:K.
            -- apply String.eqb_eq in K. subst id.
               destruct (cc_new c') as [v|] eqn:N; [rewrite hget_hset_same; reflexivity|].
               rewrite hget_hdel_same. exact Cnew.
            -- assert (Hne : id <> ce_id e) by (intros ->; rewrite String.eqb_refl in K; discriminate).
               assert (G : hget id (match cc_new c' with None => hdel (ce_id e) h | Some v => hset (ce_id e) (Some v) h end) = hget id h).
               { destruct (cc_new c'); [apply hget_hset_other; exact K|apply hget_hdel_other; exact K]. }
               rewrite G. specialize (HB id). cbn beta in HB. destruct (hget id h); [exact HB|].
               rewrite (shown_frame ro D Hne). exact HB.
      - (* nothing offered: the item is outside the filter before and after *)
        destruct O as [O1 O2]. cbn [fold_left held_after].
        split; [exact ND|]. split.
        + intros id. destruct (String.eqb_spec id (ce_id e)) as [->|Hne].
          * rewrite O2, <- O1. apply HA.
          * rewrite (shown_frame ro D Hne). apply HA.
        + intros id. specialize (HB id). cbn beta in *. destruct (hget id h); [exact HB|].
          destruct (String.eqb_spec id (ce_id e)) as [->|Hne].
          * rewrite O2, <- O1. exact HB.
          * rewrite (shown_frame ro D Hne). exact HB.
    Qed.

    Lemma offered_app evs1 evs2 :
      offered r_filter ro (evs1 ++ evs2) = offered r_filter ro evs1 ++ offered r_filter ro evs2.
    Proof. unfold offered. apply flat_map_app. Qed.

    Lemma held_after_app c1 : forall h c2, held_after cmp h (c1 ++ c2) = held_after cmp (held_after cmp h c1) c2.
    Proof. induction c1 as [|c r IH]; intros h c2; [reflexivity|]. cbn [app held_after]. apply IH. Qed.

    Lemma held_filter_app c1 : forall h c2,
      held_filter cmp h (c1 ++ c2) = held_filter cmp h c1 ++ held_filter cmp (held_after cmp h c1) c2.
    Proof.
      induction c1 as [|c r IH]; intros h c2; [reflexivity|]. cbn [app held_filter held_after].
      destruct (held_step cmp h c) as [send h'] eqn:S. cbn [snd].
      destruct send; [cbn [app]; f_equal|]; apply IH.
    Qed.

    Lemma c_forward_held_app evs1 evs2 h :
      c_forward_held r_filter (Some cmp) ro h (evs1 ++ evs2) =
      c_forward_held r_filter (Some cmp) ro h evs1 ++
      c_forward_held r_filter (Some cmp) ro (held_after cmp h (offered r_filter ro evs1)) evs2.
    Proof. rewrite !c_forward_held_split, offered_app. apply held_filter_app. Qed.

    (* all histories *)
    Theorem run_keeps_hview ops : forall s s' outs vw h,
      run spec_step s ops = (s', outs) -> sorted (c_items s) -> hview_inv vw h (c_items s) ->
      hview_inv (fold_left (@apply_change M) (c_forward_held r_filter (Some cmp) ro h (flat_map snd outs)) vw)
                (held_after cmp h (offered r_filter ro (flat_map snd outs))) (c_items s').
    Proof.
      induction ops as [|op r IH]; intros s s' outs vw h; cbn [run].
      - intros H. inversion H. subst. cbn. auto.
      - destruct (spec_step s op) as [[s1 out] ev] eqn:E.
        destruct (run spec_step s1 r) as [s2 outs2] eqn:E2.
        intros H Hs Hv. inversion H. subst. cbn [flat_map snd].
        rewrite c_forward_held_app, fold_left_app, offered_app, held_after_app.
        assert (Hs1 : sorted (c_items s1)) by (eapply step_keeps_sorted; eauto).
        apply (IH _ _ _ _ _ E2 Hs1).
        pose proof E as HE. eapply step_events in HE; eauto. destruct HE as [[-> Heq]|(e & -> & D & _)].
        + cbn. rewrite Heq. exact Hv.
        + eapply held_one_keeps_inv; eassumption.
    Qed.

    (* the same for any chain of described events (lossy delivery: C09's merged events) *)
    Theorem chain_keeps_hview evs : forall l l' vw h,
      chain l evs l' -> hview_inv vw h l ->
      hview_inv (fold_left (@apply_change M) (c_forward_held r_filter (Some cmp) ro h evs) vw)
                (held_after cmp h (offered r_filter ro evs)) l'.
    Proof.
      induction evs as [|e r IH]; intros l l' vw h C Hv; inversion C; subst.
      - cbn. exact Hv.
      - change (e :: r) with ([e] ++ r).
        rewrite c_forward_held_app, fold_left_app, offered_app, held_after_app.
        eapply IH; [eassumption|]. eapply held_one_keeps_inv; eassumption.
    Qed.

    (* the seed establishes it *)
    Lemma seeds_wk (l : list (string * item)) : Forall wk (seeds r_filter ro l).
    Proof.
      induction l as [|[k it] r IH]; cbn [seeds]; constructor; [|exact IH].
      split; cbn; [intros N; discriminate N|intros _ C; discriminate C].
    Qed.

    Lemma seed_hview_inv (l : list (string * item)) :
      sorted l ->
      let sd := seeds r_filter ro (included ro l) in
      hview_inv (fold_left (@apply_change M) sd []) (held_of_seeds sd) l.
    Proof.
      intros Hs sd.
      destruct (seed_view_inv r_filter str_ltb ltb_irrefl ltb_trans ro l Hs) as [ND Hv]. fold sd in ND, Hv.
      destruct (@fold_holds_after _ [] (NoDup_nil _) (seeds_wk (included ro l))) as [_ HH]. fold sd in HH.
      split; [exact ND|]. split.
      - intros id. rewrite Hv. apply cmp_refl.
      - pose proof (@held_of_seeds_inv M sd (fun id => shown ro id l)) as G.
        assert (X : forall k, holds_after (fun _ => None) sd k = None -> shown ro k l = None).
        { intros k Hk. rewrite <- Hv, HH. exact Hk. }
        specialize (G X). intros id. specialize (G id). cbn beta in *.
        destruct (hget id (held_of_seeds sd)); rewrite HH; exact G.
    Qed.

    (* C08 / C04 with an equivalence: for every history from any sorted contents, any read mask, any
       include predicate and any REFLEXIVE comparer, what folding the stream gives for an id is
       equivalent to what List with the same options shows for it *)
    Theorem held_fold_equiv_list ops s s' outs :
      ro_updates_only ro = false -> sorted (c_items s) ->
      run spec_step s ops = (s', outs) ->
      forall id,
        cmp (vlookup id (fold_view (pull_collection_held r_filter (Some cmp) s ro (flat_map snd outs))))
            (vlookup id (c_list r_filter s' (ro_mask ro) (ro_include ro))) = true.
    Proof.
      intros UO Hs Hrun id.
      unfold fold_view, pull_collection_held. rewrite UO. rewrite fold_left_app.
      pose proof (seed_hview_inv (c_items s) Hs) as Hseed. cbn zeta in Hseed.
      pose proof (@run_keeps_hview ops s s' outs _ _ Hrun Hs Hseed) as (_ & HA & _).
      rewrite (list_shows r_filter str_ltb ltb_irrefl ltb_trans ro s' id) by (eapply run_keeps_sorted; eauto).
      apply HA.
    Qed.
  End Inv.

  (* a comparer that tells presence from absence: an item is in the fold iff it is in the List *)
  Corollary held_fold_same_presence cmp (ro : ropts) ops s s' outs :
    (forall a, cmp a a = true) ->
    (forall v, cmp None (Some v) = false) -> (forall v, cmp (Some v) None = false) ->
    ro_updates_only ro = false -> sorted (c_items s) ->
    run spec_step s ops = (s', outs) ->
    forall id,
      vlookup id (fold_view (pull_collection_held r_filter (Some cmp) s ro (flat_map snd outs))) = None <->
      vlookup id (c_list r_filter s' (ro_mask ro) (ro_include ro)) = None.
  Proof.
    intros R N1 N2 UO Hs Hrun id.
    pose proof (@held_fold_equiv_list cmp R ro ops s s' outs UO Hs Hrun id) as E.
    destruct (vlookup id (fold_view _)) as [a|]; destruct (vlookup id (c_list _ _ _ _)) as [b|];
      try (split; intros; (discriminate || reflexivity)).
    - rewrite N2 in E. discriminate.
    - rewrite N1 in E. discriminate.
  Qed.

  (* a comparer that decides equality (WithNoDuplicates on an algebra with decidable equality):
     the fold IS the List *)
  Corollary held_fold_is_list_for_equality cmp (ro : ropts) ops s s' outs :
    (forall a, cmp a a = true) -> (forall a b, cmp a b = true -> a = b) ->
    ro_updates_only ro = false -> sorted (c_items s) ->
    run spec_step s ops = (s', outs) ->
    forall id,
      vlookup id (fold_view (pull_collection_held r_filter (Some cmp) s ro (flat_map snd outs))) =
      vlookup id (c_list r_filter s' (ro_mask ro) (ro_include ro)).
  Proof. intros R Eq UO Hs Hrun id. apply Eq. apply (@held_fold_equiv_list cmp R ro ops s s' outs UO Hs Hrun id). Qed.

  (* ---------- exactness on real histories ---------- *)
  Definition bodies (l : list (string * item)) : view := fun id => body_at id l.

  Lemma ev_chained_from_ext : forall (evs : list cevent) (cur cur' : view),
    (forall k, cur k = cur' k) -> ev_chained_from cur evs -> ev_chained_from cur' evs.
  Proof.
    induction evs as [|e r IH]; intros cur cur' X C; [exact I|].
    destruct C as [Hold C]. split; [rewrite <- X; exact Hold|].
    apply (IH (vupd (ce_id e) (ce_new e) cur)); [|exact C].
    intros k. unfold vupd. destruct (String.eqb k (ce_id e)); auto.
  Qed.

  Lemma ev_chained_app : forall (e1 e2 : list cevent) (cur : view),
    ev_chained_from cur e1 ->
    ev_chained_from (fold_left (fun w e => vupd (ce_id e) (ce_new e) w) e1 cur) e2 ->
    ev_chained_from cur (e1 ++ e2).
  Proof.
    induction e1 as [|e r IH]; intros e2 cur C1 C2; [exact C2|].
    destruct C1 as [Hold C1]. split; [exact Hold|]. apply IH; [exact C1|exact C2].
  Qed.

  (* the events of every run describe one evolving collection: the contents *)
  Theorem run_events_chained ops : forall s s' outs,
    run spec_step s ops = (s', outs) -> sorted (c_items s) ->
    ev_chained_from (bodies (c_items s)) (flat_map snd outs).
  Proof.
    induction ops as [|op r IH]; intros s s' outs; cbn [run].
    - intros H _. inversion H. exact I.
    - destruct (spec_step s op) as [[s1 out] ev] eqn:E.
      destruct (run spec_step s1 r) as [s2 outs2] eqn:E2.
      intros H Hs. inversion H. subst. cbn [flat_map snd].
      assert (Hs1 : sorted (c_items s1)) by (eapply step_keeps_sorted; eauto).
      specialize (IH _ _ _ E2 Hs1).
      pose proof E as HE. eapply step_events in HE; eauto. destruct HE as [[-> Heq]|(e & -> & D & _)].
      + cbn [app]. rewrite <- Heq. exact IH.
      + cbn [app]. split; [exact (d_old D)|].
        eapply ev_chained_from_ext; [|exact IH].
        intros k. unfold vupd, bodies. destruct (String.eqb_spec k (ce_id e)) as [->|Hne].
        * symmetry. exact (d_new D).
        * unfold body_at. rewrite (d_frame D) by exact Hne. reflexivity.
  Qed.

  Lemma seen_is_shown (ro : ropts) l id : seen r_filter ro (bodies l) id = shown ro id l.
  Proof.
    unfold seen, bodies, body_at, PullProofs.shown, pred_of.
    destruct (lookup id l); cbn [option_map]; [destruct (ro_include ro); reflexivity|reflexivity].
  Qed.

  Lemma ideal_filter_ext cmp (cs : list cchange) : forall (w w' : view),
    (forall k, w k = w' k) -> ideal_filter cmp w cs = ideal_filter cmp w' cs.
  Proof.
    induction cs as [|c r IH]; intros w w' X; [reflexivity|]. cbn [ideal_filter]. rewrite <- X.
    destruct (cmp (w (cc_id c)) (cc_new c)); [apply IH; exact X|f_equal; apply IH].
    intros k. unfold vupd. destruct (String.eqb k (cc_id c)); auto.
  Qed.

  (* C04 with an equivalence, ANY comparer, read mask and include predicate, every history: the
     subscriber starts out holding what List with its options shows, and from then on every change
     of the equivalence-free stream is delivered exactly when its new value is not equivalent to what
     the subscriber holds for that id *)
  Theorem held_stream_exact cmp (ro : ropts) ops s s' outs :
    sorted (c_items s) -> run spec_step s ops = (s', outs) ->
    pull_collection_held r_filter (Some cmp) s ro (flat_map snd outs) =
    (if ro_updates_only ro then [] else seeds r_filter ro (included ro (c_items s))) ++
    ideal_filter cmp (fun id => shown ro id (c_items s)) (offered r_filter ro (flat_map snd outs)).
  Proof.
    intros Hs Hrun. unfold pull_collection_held. f_equal.
    pose proof (@run_events_chained ops s s' outs Hrun Hs) as C.
    destruct (ro_updates_only ro).
    - cbn [held_of_seeds fold_left].
      rewrite (coll_pull_held_updates_only r_filter cmp ro _ _ C).
      apply ideal_filter_ext. intros k. apply seen_is_shown.
    - set (sd := seeds r_filter ro (included ro (c_items s))).
      destruct (seed_view_inv r_filter str_ltb ltb_irrefl ltb_trans ro (c_items s) Hs) as [ND Hv]. fold sd in ND, Hv.
      destruct (@fold_holds_after _ [] (NoDup_nil _) (seeds_wk ro (included ro (c_items s)))) as [_ HH]. fold sd in HH.
      rewrite (@coll_pull_held_seeded M rmask r_filter cmp ro sd _ (bodies (c_items s))); [|
        intros k Hk; rewrite seen_is_shown, <- Hv, HH; exact Hk|exact C].
      apply ideal_filter_ext. intros k. rewrite <- HH. apply Hv.
  Qed.

  (* the stream without an equivalence is seed ++ offered: the equivalence only ever removes changes *)
  Theorem no_equivalence_stream (ro : ropts) (s : cstate) evs :
    pull_collection_held r_filter None s ro evs =
    (if ro_updates_only ro then [] else seeds r_filter ro (included ro (c_items s))) ++ offered r_filter ro evs.
  Proof. unfold pull_collection_held. f_equal. apply c_forward_held_split. Qed.

  Theorem held_none_is_pull_collection (ro : ropts) (s : cstate) evs :
    pull_collection_held r_filter None s ro evs = pull_collection r_filter None s ro evs.
  Proof. unfold pull_collection_held, pull_collection, pull_collection_gen. f_equal. apply c_forward_held_none. Qed.

  (* after a delivered REMOVE -- the item was deleted, or it left the include filter -- the subscriber
     holds nothing for the id, so the next change that brings a value for it is delivered whatever the
     value, provided the comparer tells a value from nothing *)
  Theorem readd_after_remove_delivered cmp (w : view) (cs : list cchange) (c : cchange) v :
    holds_after w (ideal_filter cmp w cs) (cc_id c) = None -> cc_new c = Some v ->
    cmp None (Some v) = false ->
    ideal_filter cmp w (cs ++ [c]) = ideal_filter cmp w cs ++ [c].
  Proof. intros H N F. rewrite ideal_last_delivered, H, N, F. reflexivity. Qed.

  (* ... and the REMOVE itself is delivered and leaves nothing held *)
  Theorem remove_delivered_holds_nothing cmp (w : view) (cs : list cchange) (c : cchange) x :
    holds_after w (ideal_filter cmp w cs) (cc_id c) = Some x -> cc_new c = None ->
    cmp (Some x) None = false ->
    ideal_filter cmp w (cs ++ [c]) = ideal_filter cmp w cs ++ [c] /\
    holds_after w (ideal_filter cmp w (cs ++ [c])) (cc_id c) = None.
  Proof.
    intros H N F. rewrite ideal_last_delivered, H, N, F. split; [reflexivity|].
    unfold holds_after. rewrite fold_left_app. cbn [fold_left]. rewrite N. apply vupd_same.
  Qed.

  (* ---------- the code before 3a50d70 (old against new) on real histories ---------- *)
  Theorem oldnew_is_held_for_equivalence_relations cmp (ro : ropts) ops s s' outs :
    (forall a, cmp a a = true) -> (forall a b, cmp a b = cmp b a) ->
    (forall a b c, cmp a b = true -> cmp b c = true -> cmp a c = true) ->
    sorted (c_items s) -> run spec_step s ops = (s', outs) ->
    pull_collection r_filter (Some cmp) s ro (flat_map snd outs) =
    pull_collection_held r_filter (Some cmp) s ro (flat_map snd outs).
  Proof.
    intros R Sy T Hs Hrun. unfold pull_collection, pull_collection_gen, pull_collection_held. f_equal.
    pose proof (@run_events_chained ops s s' outs Hrun Hs) as C.
    destruct (ro_updates_only ro).
    - cbn [held_of_seeds fold_left].
      apply (@c_forward_gen_is_held_for_equivalence_relations M rmask r_filter cmp R Sy T ro _ []
               (seen r_filter ro (bodies (c_items s))) (bodies (c_items s))); [intros id; reflexivity|intros id; apply R|exact C].
    - set (sd := seeds r_filter ro (included ro (c_items s))).
      destruct (seed_view_inv r_filter str_ltb ltb_irrefl ltb_trans ro (c_items s) Hs) as [ND Hv]. fold sd in ND, Hv.
      destruct (@fold_holds_after _ [] (NoDup_nil _) (seeds_wk ro (included ro (c_items s)))) as [_ HH]. fold sd in HH.
      apply (@c_forward_gen_is_held_for_equivalence_relations M rmask r_filter cmp R Sy T ro _ (held_of_seeds sd)
               (holds_after (fun _ => None) sd) (bodies (c_items s))); [| |exact C].
      + apply held_of_seeds_inv. intros k Hk. rewrite seen_is_shown, <- Hv, HH. exact Hk.
      + intros id. rewrite seen_is_shown, <- Hv, HH. apply R.
  Qed.
End Proofs.
