(* pkg/resource/tween.go: the pure validation functions used by lightpb's UpdateBrightness
   (ValidateTweenOnUpdate = ValidateNoProgress then ValidateNonNegativeDuration), with
   durationpb.Duration.AsDuration as it is (int64 wrap-around, saturation on overflow).  None of the
   20 properties mentions them (C14's generator never sends a brightness tween); modelled briefly,
   with the theorems below and a small correspondence run with C01's tree generator.
   The Tween struct / NewTween / NextFrame (a stub returning 0, nil) and the Clock of time.go (an
   interface over time.Now) carry no behaviour to state.  No proofs here (TweenProofs.v). *)
From SC Require Import Base.Prelude.

(* a float32 given by its bits is == 0 exactly for +0 and -0 (NaN != 0) *)
Definition f32_is_zero (bits : Z) : bool := (bits =? 0) || (bits =? 2147483648).

Definition max_i64 : Z := 9223372036854775807.
Definition min_i64 : Z := -9223372036854775808.

(* durationpb: Duration.AsDuration *)
Definition as_duration (secs nanos : Z) : Z :=
  let d := wrap64 (secs * 1000000000) in
  let overflow1 := negb (Z.quot d 1000000000 =? secs) in
  let d2 := wrap64 (d + nanos) in
  let overflow := overflow1 || ((secs <? 0) && (nanos <? 0) && (0 <? d2)) || ((0 <? secs) && (0 <? nanos) && (d2 <? 0)) in
  if overflow then (if secs <? 0 then min_i64 else if 0 <? secs then max_i64 else d2) else d2.

(* a tween as the validation sees it: progress (float32 bits) and the total duration if present *)
Record tween := mkTween { tw_progress : Z; tw_total : option (Z * Z) }.

Definition validate_no_progress (t : tween) : option Z :=
  if f32_is_zero (tw_progress t) then None else Some 3.
Definition validate_non_negative_duration (t : tween) : option Z :=
  let d := match tw_total t with Some (s, n) => as_duration s n | None => 0 end in
  if d <? 0 then Some 3 else None.
Definition validate_tween_on_update (t : option tween) : option Z :=
  match t with
  | None => None
  | Some tw =>
      match validate_no_progress tw with
      | Some c => Some c
      | None => validate_non_negative_duration tw
      end
  end.

