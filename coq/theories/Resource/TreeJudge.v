(* Correspondence cases for C01 over full messages: Value and Collection call sequences whose
   messages are TestAllTypes trees and whose update / reset / writable / read masks are nested
   paths.  Observed messages are compared with [value_equiv] (field order inside a tree is not
   significant: proto.Merge appends fields, the Go printer emits them in number order). *)
From SC Require Import Base.Prelude Msg.Msg Msg.Schema Msg.Path Masks.Get Masks.Update
  Resource.Impl Resource.Spec Resource.Flat Resource.Tree Resource.Tween Gen.Schema.

Inductive top :=
| TGet (id : string) (mask : option (list path))
| TList (mask : option (list path))
| TUpdate (id : string) (msg : value) (o : two)
| TAdd (id : string) (msg : value) (o : two)
| TDelete (id : string) (o : two).
Inductive tobs :=
| UGet (r : option value)
| UList (l : list (string * value))
| UWrite (r : option value) (code : Z) (created : Z)
| UDelete (r : option value) (code : Z).

Inductive tvop := TVGet (mask : option (list path)) | TVSet (msg : value) (o : two).
Inductive tvobs := UVGet (r : option value) | UVSet (r : option value) (code : Z).

Inductive tcase :=
| TCaseC (ty : string) (resw : mask) (idf : option idf) (steps : list (top * tobs))
| TCaseV (ty : string) (resw : mask) (initial : option value) (steps : list (tvop * tvobs))
(* a collection constructed with WithInitialRecord(id, v) ... (distinct ids, stored as given) *)
| TCaseCR (ty : string) (resw : mask) (idf : option idf) (records : list (string * value)) (steps : list (top * tobs))
(* resource.ValidateTweenOnUpdate(name, tween): the gRPC code it returned (0 = nil error) *)
| TCaseTween (t : option tween) (code : Z).

Definition rmask_of (ty : string) (m : option (list path)) : option trmask := option_map (mkTR ty) m.

Definition to_tcop (ty : string) (resw : mask) (op : top) : cop value twriter trmask :=
  match op with
  | TGet id m => @OGet value twriter trmask id (rmask_of ty m)
  | TList m => @OList value twriter trmask (rmask_of ty m) None
  | TUpdate id msg o => @OUpdate value twriter trmask id msg (t_wopts ty resw o) []
  | TAdd id msg o => @OAdd value twriter trmask id msg (t_wopts ty resw o) []
  | TDelete id o => @ODelete value twriter trmask id (t_wopts ty resw o)
  end.
Definition to_tvop (ty : string) (resw : mask) (op : tvop) : vop value twriter trmask :=
  match op with
  | TVGet m => @VGet value twriter trmask (rmask_of ty m)
  | TVSet msg o => @VSet value twriter trmask msg (t_wopts ty resw o)
  end.

Definition t_impl_step (i : option idf) :=
  impl_step value_equiv vempty tw_validate tw_merge tr_filter fclock str_ltb (option_map interp_idf i).
Definition t_spec_step (i : option idf) :=
  spec_step value_equiv vempty tw_validate tw_merge tr_filter fclock str_ltb (option_map interp_idf i).
Definition t_v_impl_step := v_impl_step value_equiv vempty tw_validate tw_merge tr_filter fclock.
Definition t_v_spec_step := v_spec_step value_equiv vempty tw_validate tw_merge tr_filter fclock.

Definition ov_equiv := option_eqb value_equiv.
Definition tkv_eqb (a b : string * value) := String.eqb (fst a) (fst b) && value_equiv (snd a) (snd b).

Definition tout_matches (o : cout value) (b : tobs) : bool :=
  match o, b with
  | RGet r, UGet r' => ov_equiv r r'
  | RList l, UList l' => list_eqb tkv_eqb l l'
  | RWrite (inl m) cb, UWrite (Some m') 0 created => value_equiv m m' && (cb_created cb =? created)
  | RWrite (inr c) cb, UWrite None c' created => (c =? c') && negb (c' =? 0) && (cb_created cb =? created)
  | RDelete r None, UDelete r' 0 => ov_equiv r r'
  | RDelete r (Some c), UDelete r' c' => ov_equiv r r' && (c =? c') && negb (c' =? 0)
  | _, _ => false
  end.
Definition tvout_matches (o : vout value) (b : tvobs) : bool :=
  match o, b with
  | VRGet r, UVGet r' => ov_equiv r r'
  | VRSet (inl m), UVSet (Some m') 0 => value_equiv m m'
  | VRSet (inr c), UVSet None c' => (c =? c') && negb (c' =? 0)
  | _, _ => false
  end.

Fixpoint ttrace (outs : list (cout value * list (cevent value))) (obs : list tobs) : bool :=
  match outs, obs with
  | [], [] => true
  | (o, _) :: r, b :: r' => tout_matches o b && ttrace r r'
  | _, _ => false
  end.
Fixpoint tvtrace (outs : list (vout value * list (vevent value))) (obs : list tvobs) : bool :=
  match outs, obs with
  | [], [] => true
  | (o, _) :: r, b :: r' => tvout_matches o b && tvtrace r r'
  | _, _ => false
  end.

(* direct clauses on the observation: a failed write leaves the next Get / List as the previous one *)
Fixpoint t_failed_noop (last : option (list (string * value))) (dirty : bool) (steps : list (top * tobs)) : bool :=
  match steps with
  | [] => true
  | (TList None, UList l) :: r =>
      (if dirty then true else match last with Some l0 => list_eqb tkv_eqb l0 l | None => true end) &&
      t_failed_noop (Some l) false r
  | (op, b) :: r =>
      let ok_write := match op, b with
                      | TUpdate _ _ _, UWrite _ 0 _ | TAdd _ _ _, UWrite _ 0 _ | TDelete _ _, UDelete _ 0 => true
                      | _, _ => false
                      end in
      t_failed_noop last (dirty || ok_write) r
  end.

Definition t_agrees (c : tcase) : bool :=
  match c with
  | TCaseC ty resw i steps =>
      let '(_, outs) := run (t_impl_step i) (mkC [] 0) (map (to_tcop ty resw) (map fst steps)) in
      ttrace outs (map snd steps)
  | TCaseV ty resw initial steps =>
      let '(_, outs) := v_run t_v_impl_step (v_init fclock initial) (map (to_tvop ty resw) (map fst steps)) in
      tvtrace outs (map snd steps)
  | TCaseCR ty resw i records steps =>
      let '(_, outs) := run (t_impl_step i) (c_new fclock str_ltb records) (map (to_tcop ty resw) (map fst steps)) in
      ttrace outs (map snd steps)
  | TCaseTween t code => (match validate_tween_on_update t with Some c => c | None => 0 end) =? code
  end.

(* List is sorted by id (direct clause on every observed listing) *)
Fixpoint t_keys_sorted (l : list (string * value)) : bool :=
  match l with
  | [] => true
  | (a, _) :: r => match r with [] => true | (b, _) :: _ => str_ltb a b && t_keys_sorted r end
  end.
Definition t_lists_sorted (steps : list (top * tobs)) : bool :=
  forallb (fun p => match snd p with UList l => t_keys_sorted l | _ => true end) steps.

Definition C01T_ok (c : tcase) : bool :=
  match c with
  | TCaseC ty resw i steps =>
      let '(_, outs) := run (t_spec_step i) (mkC [] 0) (map (to_tcop ty resw) (map fst steps)) in
      ttrace outs (map snd steps) && t_failed_noop None false steps
  | TCaseV ty resw initial steps =>
      let '(_, outs) := v_run t_v_spec_step (v_init fclock initial) (map (to_tvop ty resw) (map fst steps)) in
      tvtrace outs (map snd steps)
  | TCaseCR ty resw i records steps =>
      let '(_, outs) := run (t_spec_step i) (c_new fclock str_ltb records) (map (to_tcop ty resw) (map fst steps)) in
      ttrace outs (map snd steps) && t_failed_noop None false steps && t_lists_sorted steps
  | TCaseTween _ _ => true     (* not part of C01's statement: correspondence of Resource/Tween.v only *)
  end.

Definition judge01t (c : tcase) : Z := verdict (t_agrees c) (C01T_ok c) None.

(* debugging aid *)
Fixpoint t_first_mismatch (n : Z) (outs : list (cout value * list (cevent value))) (obs : list tobs) :=
  match outs, obs with
  | (o, _) :: r, b :: r' => if tout_matches o b then t_first_mismatch (n + 1) r r' else Some (n, o, b)
  | _, _ => None
  end.
Fixpoint tv_first_mismatch (n : Z) (outs : list (vout value * list (vevent value))) (obs : list tvobs) :=
  match outs, obs with
  | (o, _) :: r, b :: r' => if tvout_matches o b then tv_first_mismatch (n + 1) r r' else Some (n, o, b)
  | _, _ => None
  end.
