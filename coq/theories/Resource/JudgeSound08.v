(* C08: soundness of the judges -- for every case (any history, predicate, mask, equivalence, any
   observation) that AGREES with the model, the property predicate evaluated on the observation
   holds.  These are the generic theorems of PullProofs / Held04Proofs instantiated on the flat
   algebra of the correspondence (Flat.v) and carried across the executable comparisons of Judge.v
   (cc_matches, list_eqb, view_lookup, same_map, equiv_map). *)
From SC Require Import Base.Prelude Resource.Impl Resource.Spec Resource.Pull Resource.ImplProofs
  Resource.SpecProofs Resource.PullProofs Resource.HeldProofs Resource.Held04Proofs Resource.Flat
  Resource.FlatProofs Resource.Judge.

(* ---------- the executable comparisons decide equality ---------- *)
Lemma fmsg_eqb_eq a b : fmsg_eqb a b = true -> a = b.
Proof.
  destruct a as [a1 a2 a3], b as [b1 b2 b3]. unfold fmsg_eqb. cbn [fa fb fc]. intros H.
  apply andb_prop in H. destruct H as [H H3]. apply andb_prop in H. destruct H as [H1 H2].
  apply Z.eqb_eq in H1, H2, H3. subst. reflexivity.
Qed.

Lemma ofm_eqb_eq a b : ofm_eqb a b = true -> a = b.
Proof.
  destruct a as [a|], b as [b|]; cbn; intros H; try discriminate; try reflexivity.
  f_equal. apply fmsg_eqb_eq. exact H.
Qed.

Lemma ofm_eqb_refl a : ofm_eqb a a = true.
Proof. destruct a as [a|]; cbn; [apply fmsg_eqb_refl|reflexivity]. Qed.

Lemma interp_eqv_refl ev a : interp_eqv ev a a = true.
Proof.
  destruct ev as [|f]; cbn.
  - apply ofm_eqb_refl.
  - destruct a; [apply Z.eqb_refl|reflexivity].
Qed.

Lemma cc_matches_eq c o : cc_matches c o = true -> to_cc o = c.
Proof.
  unfold cc_matches, to_cc. intros H.
  repeat (apply andb_prop in H; let H' := fresh "H" in destruct H as [H H']).
  apply String.eqb_eq in H. apply Z.eqb_eq in H5, H4.
  apply ofm_eqb_eq in H3, H2. apply Bool.eqb_prop in H1, H0.
  destruct c as [id t k old new sd ls]. cbn [cc_id cc_time cc_kind cc_old cc_new cc_seed cc_last_seed] in *.
  subst. rewrite <- H4. destruct k; reflexivity.
Qed.

Lemma list_match_to_cc cs : forall stream,
  list_match cc_matches cs stream = true -> map to_cc stream = cs.
Proof.
  induction cs as [|c r IH]; intros [|o s]; cbn; intros H; try discriminate; [reflexivity|].
  apply andb_prop in H. destruct H as [H1 H2]. rewrite (cc_matches_eq _ _ H1), (IH _ H2). reflexivity.
Qed.

Lemma kv_list_eqb_eq a : forall b, list_eqb kv_eqb a b = true -> a = b.
Proof.
  induction a as [|[k v] r IH]; intros [|[k' v'] r']; cbn; intros H; try discriminate; [reflexivity|].
  apply andb_prop in H. destruct H as [H1 H2]. unfold kv_eqb in H1. cbn in H1.
  apply andb_prop in H1. destruct H1 as [Hk Hv]. apply String.eqb_eq in Hk. apply fmsg_eqb_eq in Hv.
  subst. f_equal. apply IH. exact H2.
Qed.

Lemma view_lookup_is_vlookup id (l : list (string * fmsg)) : view_lookup id l = vlookup id l.
Proof. induction l as [|[k v] r IH]; cbn; [reflexivity|]. rewrite IH. reflexivity. Qed.

(* ---------- lists without repeated keys ---------- *)
Lemma vlookup_in_nodup (l : list (string * fmsg)) k v :
  NoDup (map fst l) -> In (k, v) l -> vlookup k l = Some v.
Proof.
  induction l as [|[k' v'] r IH]; cbn; intros ND Hin; [contradiction|].
  inversion ND as [|? ? Hni ND']. subst.
  destruct Hin as [E|Hin].
  - inversion E. subst. rewrite String.eqb_refl. reflexivity.
  - destruct (String.eqb_spec k' k) as [->|Hne].
    + exfalso. apply Hni. change k with (fst (k, v)). apply in_map. exact Hin.
    + apply IH; assumption.
Qed.

Lemma same_map_of_lookups (a b : list (string * fmsg)) :
  NoDup (map fst a) -> NoDup (map fst b) ->
  (forall id, vlookup id a = vlookup id b) -> same_map a b = true.
Proof.
  intros Na Nb E. unfold same_map. apply andb_true_intro. split; apply forallb_forall; intros [k v] Hin; cbn [fst snd].
  - rewrite view_lookup_is_vlookup, <- E, (vlookup_in_nodup a k v Na Hin). apply ofm_eqb_refl.
  - rewrite view_lookup_is_vlookup, E, (vlookup_in_nodup b k v Nb Hin). apply ofm_eqb_refl.
Qed.

Lemma apply_change_nodup (vw : list (string * fmsg)) c :
  NoDup (map fst vw) -> NoDup (map fst (apply_change vw c)).
Proof.
  intros ND. unfold apply_change.
  destruct (cc_kind c); destruct (cc_new c); try exact ND;
    try (apply view_set_nodup; exact ND); apply view_del_nodup; exact ND.
Qed.

Lemma fold_changes_nodup (cs : list (cchange fmsg)) : forall vw,
  NoDup (map fst vw) -> NoDup (map fst (fold_left (@apply_change fmsg) cs vw)).
Proof.
  induction cs as [|c r IH]; intros vw ND; cbn [fold_left]; [exact ND|].
  apply IH. apply apply_change_nodup. exact ND.
Qed.

Lemma fold_view_nodup (cs : list (cchange fmsg)) : NoDup (map fst (fold_view cs)).
Proof. unfold fold_view. apply fold_changes_nodup. constructor. Qed.

Lemma sorted_keys_nodup (l : list (string * item fmsg)) :
  sorted str_ltb l -> NoDup (map fst l).
Proof.
  induction l as [|[k x] r IH]; intros Hs; [constructor|].
  apply (sorted_cons str_ltb str_ltb_trans) in Hs. destruct Hs as [Hab Hs].
  cbn [map fst]. constructor; [|apply IH; exact Hs].
  intros Hin. specialize (Hab k Hin). rewrite str_ltb_irrefl in Hab. discriminate.
Qed.

Lemma c_list_nodup (s : cstate fmsg) mask inc :
  sorted str_ltb (c_items s) -> NoDup (map fst (c_list fr_filter s mask inc)).
Proof.
  intros Hs. apply sorted_keys_nodup in Hs. unfold c_list. rewrite map_map. cbn [fst].
  induction (c_items s) as [|[k x] r IH]; [constructor|].
  inversion Hs as [|? ? Hni ND]. subst. cbn [filter].
  match goal with |- context [if ?b then _ else _] => destruct b end; [|apply IH; exact ND].
  cbn [map fst]. constructor; [|apply IH; exact ND].
  intros Hin. apply Hni. apply in_map_iff in Hin. destruct Hin as [p [Hp Hin]].
  apply filter_In in Hin. destruct Hin as [Hin _]. rewrite <- Hp. apply in_map. exact Hin.
Qed.

(* ---------- the runs of the judge are runs of the reference ---------- *)
Lemma sorted_init : sorted str_ltb (c_items c_init).
Proof. exact I. Qed.

Lemma run_c_is_spec i w s ops :
  run_c i w s ops = run (f_spec_step i) s (map (to_cop w) ops).
Proof. unfold run_c, f_impl_step, f_spec_step. apply impl_run_is_spec; auto using fmsg_eqb_refl, str_ltb_irrefl, str_ltb_trans, str_ltb_total. Qed.

Lemma run_c_sorted i w s ops s' outs :
  run_c i w s ops = (s', outs) -> sorted str_ltb (c_items s) -> sorted str_ltb (c_items s').
Proof.
  rewrite run_c_is_spec. unfold f_spec_step. intros H Hs.
  eapply run_keeps_sorted; eauto using str_ltb_irrefl, str_ltb_trans, str_ltb_total.
Qed.

(* ---------- the fold of the model's stream against the model's List, flat algebra ---------- *)
(* what both judges (Judge.v CaseCPull, HeldJudge.v CaseH) compare: the stream and final state
   that [model_cstream] computes *)
Lemma model_fold_equiv w i e before ro after cs s2 :
  model_cstream w i e before ro after = (cs, s2) -> r_updates_only ro = false ->
  NoDup (map fst (c_list fr_filter s2 (r_mask ro) (option_map interp_pred (r_include ro)))) /\
  forall id,
    match e with
    | Some ev => interp_eqv ev (vlookup id (fold_view cs))
                   (vlookup id (c_list fr_filter s2 (r_mask ro) (option_map interp_pred (r_include ro)))) = true
    | None => vlookup id (fold_view cs) =
              vlookup id (c_list fr_filter s2 (r_mask ro) (option_map interp_pred (r_include ro)))
    end.
Proof.
  unfold model_cstream. intros H UO.
  destruct (run_c i w c_init before) as [s1 o1] eqn:E1.
  destruct (run_c i w s1 after) as [s2' outs] eqn:E2.
  inversion H. subst cs s2'. clear H.
  pose proof (run_c_sorted _ _ _ _ _ _ E1 sorted_init) as S1.
  pose proof (run_c_sorted _ _ _ _ _ _ E2 S1) as S2.
  split; [apply c_list_nodup; exact S2|].
  rewrite run_c_is_spec in E2. unfold f_spec_step in E2. unfold events_of.
  intros id. destruct e as [ev|]; cbn [option_map].
  - change (r_mask ro) with (ro_mask (to_ropts ro)).
    change (option_map interp_pred (r_include ro)) with (ro_include (to_ropts ro)).
    eapply (@held_fold_equiv_list fmsg fmsg_eqb fzero fwriter fw_validate fw_merge (list fld) fr_filter fclock
              str_ltb (idfun_of i) str_ltb_irrefl str_ltb_trans str_ltb_total (interp_eqv ev) (interp_eqv_refl ev)
              (to_ropts ro)); [exact UO|exact S1|exact E2].
  - rewrite held_none_is_pull_collection.
    change (r_mask ro) with (ro_mask (to_ropts ro)).
    change (option_map interp_pred (r_include ro)) with (ro_include (to_ropts ro)).
    eapply (@filtered_fold_is_filtered_list fmsg fmsg_eqb fzero fwriter fw_validate fw_merge (list fld) fr_filter fclock
              str_ltb (idfun_of i) str_ltb_irrefl str_ltb_trans str_ltb_total (to_ropts ro)); [exact UO|exact S1|exact E2].
Qed.

Lemma equiv_map_of_lookups ev (a b : list (string * fmsg)) :
  (forall id, ev (vlookup id a) (vlookup id b) = true) -> equiv_map ev a b = true.
Proof.
  intros E. unfold equiv_map, equiv_map_except. apply forallb_forall. intros id _.
  rewrite !view_lookup_is_vlookup. apply E.
Qed.

(* ---------- judge08 (generator C08): backpressured subscriber, any options ---------- *)
Theorem judge08_sound_cpull w i e before ro after codes witness stream final :
  agrees (CaseCPull w i e before ro after codes witness stream final) = true ->
  C08_ok (CaseCPull w i e before ro after codes witness stream final) = true.
Proof.
  cbn [agrees]. destruct (model_cstream w i e before ro after) as [cs s2] eqn:EM. intros H.
  apply andb_prop in H. destruct H as [H1 H2].
  apply list_match_to_cc in H1. apply kv_list_eqb_eq in H2.
  cbn [C08_ok]. destruct (r_updates_only ro) eqn:UO; [destruct e; reflexivity|].
  destruct (model_fold_equiv _ _ _ _ _ _ _ _ EM UO) as [ND L]. rewrite H1, <- H2.
  destruct e as [ev|].
  - apply equiv_map_of_lookups. exact L.
  - apply same_map_of_lookups; [apply fold_view_nodup|exact ND|exact L].
Qed.

(* every other kind of case of judge08 has no model clause or no C08 clause; so for the whole judge: *)
Theorem judge08_sound c :
  agrees c = true -> match c with CaseFold _ _ _ => False | _ => True end -> C08_ok c = true.
Proof.
  destruct c; intros H G; try reflexivity; try contradiction.
  apply judge08_sound_cpull. exact H.
Qed.

(* ---------- judge08h (generator C08H): include + equivalence + mask, backpressure ---------- *)
From SC Require Import Resource.HeldJudge.

(* the END clause of C08H_ok follows from agreement, for every scenario; the clause at the marks
   compares with listings taken DURING the run, which agreement does not constrain (they are
   observations of List, C01's subject), so it stays an oracle clause *)
Theorem judge08h_sound_final e before ro after stream final :
  agrees_h (CaseH e before ro false after stream final) = true -> r_updates_only ro = false ->
  equiv_map (h_eqv e) (fold_view (map to_cc stream)) final = true.
Proof.
  cbn [agrees_h]. destruct (model_cstream None None e before ro (h_ops after)) as [cs s2] eqn:EM. intros H UO.
  apply andb_prop in H. destruct H as [H1 H2].
  apply list_match_to_cc in H1. apply kv_list_eqb_eq in H2.
  destruct (model_fold_equiv _ _ _ _ _ _ _ _ EM UO) as [_ L]. rewrite H1, <- H2.
  apply equiv_map_of_lookups. intros id. specialize (L id). destruct e as [ev|]; cbn [h_eqv].
  - exact L.
  - rewrite L. apply ofm_eqb_refl.
Qed.

Corollary judge08h_sound_partial e before ro after stream final :
  agrees_h (CaseH e before ro false after stream final) = true ->
  C08H_ok (CaseH e before ro false after stream final) =
  (r_updates_only ro || marks_ok (h_eqv e) stream after).
Proof.
  intros H. cbn [C08H_ok]. destruct (r_updates_only ro) eqn:UO; [reflexivity|].
  rewrite (judge08h_sound_final _ _ _ _ _ _ H UO). rewrite andb_true_r. reflexivity.
Qed.
