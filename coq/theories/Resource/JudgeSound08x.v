(* C08: soundness of judge08x (generator C08x) for the case kinds whose property clause follows
   from agreement with the model: the decision-table rows (ANY row, not only those of the generated
   table) and the booking server's booking_intersects listing (any store, any request whose
   timestamps are valid -- inverted, empty and half-bounded periods included). *)
From SC Require Import Base.Prelude Resource.Impl Resource.Spec Resource.Pull Resource.Flat Resource.Judge
  Excess.Change Excess.MergeExcess Excess.ChangesAfterProofs Resource.Include Resource.IncludeProofs
  Timeline.Timestamp Timeline.TimestampProofs Resource.C08Judge Resource.JudgeSound08.

(* ---------- rows ---------- *)
Theorem judge08x_sound_row ch pin pn pnil out :
  agrees (CaseRow ch pin pn pnil out) = true -> C08x_ok (CaseRow ch pin pn pnil out) = true.
Proof.
  cbn [agrees C08x_ok]. unfold row_matches_model, row_obeys_law, ochange_eqb. intros H.
  assert (E : x_include (Some (truth_pred pin pn pnil)) ch = out).
  { destruct (x_include (Some (truth_pred pin pn pnil)) ch) as [a|], out as [b|]; cbn in H;
      try discriminate; try reflexivity. f_equal. apply change_eqb_eq. exact H. }
  rewrite <- E. apply model_obeys_row_law.
Qed.

(* ---------- the booking predicate: PeriodsIntersect's model is its arithmetic reference ---------- *)
(* only the validity of the timestamps is needed (not start <= end: inverted periods are covered) *)
Definition period_ts_ok (p : period) : bool :=
  match pstart p with Some t => ts_valid t | None => true end &&
  match pend p with Some t => ts_valid t | None => true end.
Definition operiod_ts_ok (p : option period) : bool :=
  match p with Some q => period_ts_ok q | None => true end.

Lemma intersect_is_ref_valid p q :
  period_ts_ok p = true -> period_ts_ok q = true ->
  periods_intersect (Some p) (Some q) = intersect_ref (Some p) (Some q).
Proof.
  unfold period_ts_ok. intros Hp Hq.
  apply andb_prop in Hp. destruct Hp as [Hp1 Hp2]. apply andb_prop in Hq. destruct Hq as [Hq1 Hq2].
  destruct p as [[ps|] [pe|]], q as [[qs|] [qe|]];
    unfold periods_intersect, intersect_ref, cut_period, period_lo, period_hi, lo_lt_hi; simpl in *;
    try reflexivity;
    unfold compare_value_cuts;
    repeat match goal with
    | |- context [compare_ascending ?a ?b] =>
        rewrite (compare_ascending_is_ref a b) by assumption;
        let H := fresh "C" in pose proof (compare_ref_cases a b) as H;
        generalize dependent (compare_ref a b); intros
    end;
    repeat match goal with |- context [?x =? 0] => destruct (Z.eqb_spec x 0); simpl end;
    repeat match goal with |- context [?x <? ?y] => destruct (Z.ltb_spec x y); simpl end;
    try reflexivity; try lia.
Qed.

Lemma book_in_is_ref req b :
  operiod_ts_ok req = true -> operiod_ts_ok b = true -> book_in req b = book_in_ref req b.
Proof.
  destruct req as [r|], b as [b|]; cbn [operiod_ts_ok book_in book_in_ref]; intros Hr Hb; try reflexivity.
  apply intersect_is_ref_valid; assumption.
Qed.

Definition book_guard (c : icase) : bool :=
  match c with
  | CaseBookList req store _ => operiod_ts_ok req && forallb (fun kv => operiod_ts_ok (snd kv)) store
  | CaseBookPull req contents _ _ => operiod_ts_ok req && forallb (fun x => operiod_ts_ok (snd x)) contents
  | _ => true
  end.

Lemma filter_ext_forallb {A} (f g : A -> bool) (ok : A -> bool) (l : list A) :
  forallb ok l = true -> (forall x, ok x = true -> f x = g x) -> filter f l = filter g l.
Proof.
  intros H E. apply filter_ext_in. intros x Hin. apply E. rewrite forallb_forall in H. apply H. exact Hin.
Qed.

Theorem judge08x_sound_booklist req store listed :
  agrees (CaseBookList req store listed) = true -> book_guard (CaseBookList req store listed) = true ->
  C08x_ok (CaseBookList req store listed) = true.
Proof.
  cbn [agrees C08x_ok book_guard]. intros H G. apply andb_prop in G. destruct G as [Gr Gs].
  rewrite <- (filter_ext_forallb (fun kv => book_in req (snd kv)) (fun kv => book_in_ref req (snd kv)) _ store Gs).
  - exact H.
  - intros x Hx. apply book_in_is_ref; assumption.
Qed.

(* PullBookings: agreement fixes the listing; that the fold of the stream is the same listing is
   judged on the observation (the stream is not modelled for the booking server) *)
Theorem judge08x_sound_bookpull_partial req contents stream final :
  agrees (CaseBookPull req contents stream final) = true ->
  book_guard (CaseBookPull req contents stream final) = true ->
  C08x_ok (CaseBookPull req contents stream final) =
  same_map (Pull.fold_view (map to_cc stream)) final.
Proof.
  cbn [agrees C08x_ok book_guard]. intros H G. apply andb_prop in G. destruct G as [Gr Gs].
  assert (E : book_expected book_in_ref req contents = book_expected book_in req contents).
  { unfold book_expected. f_equal. symmetry.
    apply (filter_ext_forallb _ _ _ contents Gs). intros x Hx. apply book_in_is_ref; assumption. }
  rewrite E, H. cbn [andb]. apply kv_list_eqb_eq in H. rewrite H. reflexivity.
Qed.
