(* C08: soundness of judge08x (generator C08x) for the case kinds whose property clause follows
   from agreement with the model: the decision-table rows (ANY row, not only those of the generated
   table) and the booking server's booking_intersects listing (any store, any request whose
   timestamps are valid -- inverted, empty and half-bounded periods included). *)
From SC Require Import Base.Prelude Resource.Impl Resource.Spec Resource.Pull Resource.Flat Resource.Judge
  Excess.Change Excess.MergeExcess Excess.ChangesAfterProofs Resource.Include Resource.IncludeProofs
  Timeline.Timestamp Timeline.TimestampProofs Resource.C08Judge Resource.JudgeSound08.

(* ---------- rows ---------- *)
Theorem judge08x_sound_row ch pin pn pnil out :
  agrees (CaseRow ch pin pn pnil out) = true -> C08x_ok (CaseRow ch pin pn pnil out) = true.
Proof.
  cbn [agrees C08x_ok]. unfold row_matches_model, row_obeys_law, ochange_eqb. intros H.
  assert (E : x_include (Some (truth_pred pin pn pnil)) ch = out).
  { destruct (x_include (Some (truth_pred pin pn pnil)) ch) as [a|], out as [b|]; cbn in H;
      try discriminate; try reflexivity. f_equal. apply change_eqb_eq. exact H. }
  rewrite <- E. apply model_obeys_row_law.
Qed.

(* ---------- the booking predicate: PeriodsIntersect's model is its arithmetic reference ---------- *)
(* only the validity of the timestamps is needed (not start <= end: inverted periods are covered) *)
Definition period_ts_ok (p : period) : bool :=
  match pstart p with Some t => ts_valid t | None => true end &&
  match pend p with Some t => ts_valid t | None => true end.
Definition operiod_ts_ok (p : option period) : bool :=
  match p with Some q => period_ts_ok q | None => true end.

Lemma intersect_is_ref_valid p q :
  period_ts_ok p = true -> period_ts_ok q = true ->
  periods_intersect (Some p) (Some q) = intersect_ref (Some p) (Some q).
Proof.
  unfold period_ts_ok. intros Hp Hq.
  apply andb_prop in Hp. destruct Hp as [Hp1 Hp2]. apply andb_prop in Hq. destruct Hq as [Hq1 Hq2].
  destruct p as [[ps|] [pe|]], q as [[qs|] [qe|]];
    unfold periods_intersect, intersect_ref, cut_period, period_lo, period_hi, lo_lt_hi; simpl in *;
    try reflexivity;
    unfold compare_value_cuts;
    repeat match goal with
    | |- context [compare_ascending ?a ?b] =>
        rewrite (compare_ascending_is_ref a b) by assumption;
        let H := fresh "C" in pose proof (compare_ref_cases a b) as H;
        generalize dependent (compare_ref a b); intros
    end;
    repeat match goal with |- context [?x =? 0] => destruct (Z.eqb_spec x 0); simpl end;
    repeat match goal with |- context [?x <? ?y] => destruct (Z.ltb_spec x y); simpl end;
    try reflexivity; try lia.
Qed.

Lemma book_in_is_ref req b :
  operiod_ts_ok req = true -> operiod_ts_ok b = true -> book_in req b = book_in_ref req b.
Proof.
  destruct req as [r|], b as [b|]; cbn [operiod_ts_ok book_in book_in_ref]; intros Hr Hb; try reflexivity.
  apply intersect_is_ref_valid; assumption.
Qed.

Definition book_guard (c : icase) : bool :=
  match c with
  | CaseBookList req store _ => operiod_ts_ok req && forallb (fun kv => operiod_ts_ok (snd kv)) store
  | CaseBookPull req contents _ _ => operiod_ts_ok req && forallb (fun x => operiod_ts_ok (snd x)) contents
  | _ => true
  end.

Lemma filter_ext_forallb {A} (f g : A -> bool) (ok : A -> bool) (l : list A) :
  forallb ok l = true -> (forall x, ok x = true -> f x = g x) -> filter f l = filter g l.
Proof.
  intros H E. apply filter_ext_in. intros x Hin. apply E. rewrite forallb_forall in H. apply H. exact Hin.
Qed.

Theorem judge08x_sound_booklist req store listed :
  agrees (CaseBookList req store listed) = true -> book_guard (CaseBookList req store listed) = true ->
  C08x_ok (CaseBookList req store listed) = true.
Proof.
  cbn [agrees C08x_ok book_guard]. intros H G. apply andb_prop in G. destruct G as [Gr Gs].
  rewrite <- (filter_ext_forallb (fun kv => book_in req (snd kv)) (fun kv => book_in_ref req (snd kv)) _ store Gs).
  - exact H.
  - intros x Hx. apply book_in_is_ref; assumption.
Qed.

(* PullBookings: agreement fixes the listing; that the fold of the stream is the same listing is
   judged on the observation (the stream is not modelled for the booking server) *)
Theorem judge08x_sound_bookpull_partial req contents stream final :
  agrees (CaseBookPull req contents stream final) = true ->
  book_guard (CaseBookPull req contents stream final) = true ->
  C08x_ok (CaseBookPull req contents stream final) =
  same_map (Pull.fold_view (map to_cc stream)) final.
Proof.
  cbn [agrees C08x_ok book_guard]. intros H G. apply andb_prop in G. destruct G as [Gr Gs].
  assert (E : book_expected book_in_ref req contents = book_expected book_in req contents).
  { unfold book_expected. f_equal. symmetry.
    apply (filter_ext_forallb _ _ _ contents Gs). intros x Hx. apply book_in_is_ref; assumption. }
  rewrite E, H. cbn [andb]. apply kv_list_eqb_eq in H. rewrite H. reflexivity.
Qed.

(* ---------- the lossy scenario: one clause of C08x_ok follows from agreement ---------- *)
(* CaseLossy (public API, WithBackpressure(false) + include): if the observed stream agrees with
   seeds ++ include(m_run(schedule)), nothing in it mentions a version the predicate rejects.
   (The other three clauses -- fold = List, seeds first, old-value chain -- need the token reading
   of the run_c history and stay oracle clauses.) *)
From SC Require Import Resource.IncludeMatchProofs.

Definition cc_accepts (p : pred) (c : cchange fmsg) : Prop :=
  (forall m, cc_old c = Some m -> interp_pred p (cc_id c) (Some m) = true) /\
  (forall m, cc_new c = Some m -> interp_pred p (cc_id c) (Some m) = true).

Definition oc_accepts (p : pred) (o : ochange) : bool :=
  match oc_old o with Some m => interp_pred p (oc_id o) (Some m) | None => true end &&
  match oc_new o with Some m => interp_pred p (oc_id o) (Some m) | None => true end.

Lemma oc_accepts_of_cc p o : cc_accepts p (to_cc o) -> oc_accepts p o = true.
Proof.
  unfold cc_accepts, to_cc, oc_accepts. cbn [cc_id cc_old cc_new]. intros [Ho Hn].
  destruct (oc_old o) as [a|]; destruct (oc_new o) as [b|]; cbn [andb];
    rewrite ?(Ho _ eq_refl), ?(Hn _ eq_refl); reflexivity.
Qed.

Lemma seeds_accept p (ro : fro) (l : list (string * item fmsg)) :
  r_mask ro = None -> r_include ro = Some p ->
  Forall (cc_accepts p) (seeds fr_filter (to_ropts ro) (included (to_ropts ro) l)).
Proof.
  intros Hm Hi. unfold included, to_ropts. cbn [ro_include]. rewrite Hi. cbn [option_map].
  induction l as [|[k it] r IH]; cbn [filter]; [constructor|].
  cbn [fst snd]. destruct (interp_pred p k (Some (it_body it))) eqn:E; [|exact IH].
  cbn [seeds]. constructor; [|exact IH].
  unfold cc_accepts. cbn [cc_id cc_old cc_new]. split; [intros m Hm'; discriminate|].
  intros m Hm'. inversion Hm'. subst m. unfold filt. cbn [ro_mask]. rewrite Hm. exact E.
Qed.

Lemma forallb_of_matched_seeds p cs : forall stream,
  Forall (cc_accepts p) cs -> list_match cc_matches cs stream = true -> forallb (oc_accepts p) stream = true.
Proof.
  intros stream F H. apply list_match_to_cc in H. subst cs.
  induction stream as [|o r IH]; [reflexivity|].
  inversion F as [|? ? Fo Fr]. subst. cbn [forallb]. rewrite (oc_accepts_of_cc p o Fo). apply IH. exact Fr.
Qed.

Lemma got_accepts tbl p (ro : fro) c o :
  r_mask ro = None -> matching (tok_pred tbl p) c -> got_matches tbl ro c o = true -> oc_accepts p o = true.
Proof.
  intros Hm (Mo & Mn & _). unfold got_matches. intros H.
  repeat (apply andb_prop in H; let H' := fresh "H" in destruct H as [H H']).
  apply String.eqb_eq in H. apply ofm_eqb_eq in H3, H2.
  unfold filt, to_ropts in H3, H2. cbn [ro_mask] in H3, H2. rewrite Hm in H3, H2.
  unfold oc_accepts. rewrite <- H, <- H3, <- H2. unfold tok_pred in Mo, Mn.
  destruct (cold c) as [a|]; destruct (cnew c) as [b|]; cbn [option_map andb];
    try (pose proof (Mo _ eq_refl) as Xo; cbn [option_map] in Xo; rewrite Xo);
    try (pose proof (Mn _ eq_refl) as Xn; cbn [option_map] in Xn; rewrite Xn); reflexivity.
Qed.

Lemma forallb_of_matched_got tbl p (ro : fro) got : forall rest,
  r_mask ro = None -> Forall (matching (tok_pred tbl p)) got ->
  list_match (got_matches tbl ro) got rest = true -> forallb (oc_accepts p) rest = true.
Proof.
  induction got as [|c r IH]; intros [|o s] Hm F H; cbn in H; try discriminate; [reflexivity|].
  apply andb_prop in H. destruct H as [H1 H2]. inversion F as [|? ? Fc Fr]. subst.
  cbn [forallb]. rewrite (got_accepts tbl p ro c o Hm Fc H1). apply IH; assumption.
Qed.

Theorem judge08x_sound_lossy_matching_partial what before ro phases stream final :
  agrees (CaseLossy what before ro phases stream final) = true ->
  le_guard (lossy_model before ro phases) = true ->
  mentions_only_matching ro stream = true.
Proof.
  cbn [agrees]. intros H G. rewrite G in H.
  unfold mentions_only_matching.
  destruct (r_mask ro) eqn:Hm; [reflexivity|]. destruct (r_include ro) as [p|] eqn:Hi; [|reflexivity].
  change (forallb (oc_accepts p) stream = true).
  apply andb_prop in H. destruct H as [H _]. apply andb_prop in H. destruct H as [Hs Hg].
  rewrite <- (firstn_skipn (List.length (le_seeds (lossy_model before ro phases))) stream).
  rewrite forallb_app. apply andb_true_intro. split.
  - eapply forallb_of_matched_seeds; [|exact Hs].
    unfold lossy_model. destruct (run_c None None c_init before) as [s1 o1].
    destruct (phase_events s1 phases) as [pevs s2]. cbn [le_seeds].
    destruct (r_updates_only ro); [constructor|]. apply seeds_accept; assumption.
  - eapply forallb_of_matched_got; [exact Hm| |exact Hg].
    unfold lossy_model. destruct (run_c None None c_init before) as [s1 o1].
    destruct (phase_events s1 phases) as [pevs s2]. cbn [le_got]. rewrite Hi. cbn [option_map].
    apply lossy_all_matching.
Qed.
