(* Correspondence cases for the sequential store properties C01, C04, C08 (and the resource-level
   clause of C16), over the flat message algebra of Flat.v. *)
From SC Require Import Base.Prelude Resource.Impl Resource.Spec Resource.Pull Resource.Flat.

(* ---------- operations and observations ---------- *)
Inductive fop :=
| FGet (id : string) (mask : option (list fld))
| FList (mask : option (list fld)) (inc : option pred)
| FUpdate (id : string) (msg : fmsg) (o : fwo) (cands : list string)
| FAdd (id : string) (msg : fmsg) (o : fwo) (cands : list string)
| FDelete (id : string) (o : fwo).

Inductive fobs :=
| BGet (r : option fmsg)
| BList (l : list (string * fmsg))
| BWrite (r : option fmsg) (code : Z) (ids : list string) (created : Z)     (* code 0 = no error *)
| BDelete (r : option fmsg) (code : Z).

Inductive fvop := FVGet (mask : option (list fld)) | FVSet (msg : fmsg) (o : fwo).
Inductive fvobs := BVGet (r : option fmsg) | BVSet (r : option fmsg) (code : Z).

(* a stream event as the subscriber saw it *)
Record ochange := mkOC {
  oc_id : string; oc_time : Z; oc_kind : Z (* 1 ADD, 2 UPDATE, 3 REMOVE *);
  oc_old : option fmsg; oc_new : option fmsg; oc_seed : bool; oc_last : bool }.
Record ovchange := mkOV { ov_value : fmsg; ov_time : Z; ov_seed : bool; ov_last : bool }.

Inductive rcase :=
(* C01: a collection driven through a sequence of calls *)
| CaseC (writable : option (list fld)) (idf : option idf) (steps : list (fop * fobs))
(* C01: a value *)
| CaseV (writable : option (list fld)) (initial : option fmsg) (steps : list (fvop * fvobs))
(* C04 / C08 / C16: a backpressured subscriber opened after [before], receiving during [after];
   [final_list] is List(mask, include) of the subscription's own read options taken at the end *)
| CaseCPull (writable : option (list fld)) (idf : option idf) (equiv : option eqv)
            (before : list fop) (ro : fro) (after : list fop) (codes : list Z)
            (witness : list (string * Z))   (* last event time per id seen by a subscriber opened at creation *)
            (stream : list ochange) (final_list : list (string * fmsg))
| CaseVPull (writable : option (list fld)) (initial : option fmsg) (equiv : option eqv)
            (before : list fvop) (ro : fro) (after : list fvop) (codes : list Z)
            (witness : option Z)            (* time of the last event before subscribing, if any *)
            (results : list (option fmsg))  (* value returned by each operation of [after] (successful Sets) *)
            (stream : list ovchange) (final_get : option fmsg)
(* PullID: the collection stream restricted to one id, ending (channel closed) at its REMOVE *)
| CaseCPullID (writable : option (list fld)) (idf : option idf) (equiv : option eqv)
              (before : list fop) (ro : fro) (id : string) (after : list fop)
              (stream : list ovchange) (closed : bool)
(* C08 without a model: what a subscriber received (lossy delivery, or through a trait server) and
   the listing taken with the same predicate once delivery had settled *)
| CaseFold (what : string) (stream : list ochange) (final_list : list (string * fmsg)).

(* ---------- instantiation of the abstract models ---------- *)
Definition to_cop (w : option (list fld)) (op : fop) : cop fmsg fwriter (list fld) :=
  match op with
  | FGet id m => @OGet fmsg fwriter (list fld) id m
  | FList m inc => @OList fmsg fwriter (list fld) m (option_map interp_pred inc)
  | FUpdate id msg o c => @OUpdate fmsg fwriter (list fld) id msg (to_wopts w o) c
  | FAdd id msg o c => @OAdd fmsg fwriter (list fld) id msg (to_wopts w o) c
  | FDelete id o => @ODelete fmsg fwriter (list fld) id (to_wopts w o)
  end.
Definition to_vop (w : option (list fld)) (op : fvop) : vop fmsg fwriter (list fld) :=
  match op with
  | FVGet m => @VGet fmsg fwriter (list fld) m
  | FVSet msg o => @VSet fmsg fwriter (list fld) msg (to_wopts w o)
  end.

Definition idfun_of (i : option idf) : option (string -> string) := option_map interp_idf i.

Definition f_impl_step (i : option idf) :=
  impl_step fmsg_eqb fzero fw_validate fw_merge fr_filter fclock str_ltb (idfun_of i).
Definition f_spec_step (i : option idf) :=
  spec_step fmsg_eqb fzero fw_validate fw_merge fr_filter fclock str_ltb (idfun_of i).
Definition f_v_impl_step := v_impl_step fmsg_eqb fzero fw_validate fw_merge fr_filter fclock.
Definition f_v_spec_step := v_spec_step fmsg_eqb fzero fw_validate fw_merge fr_filter fclock.

Definition c_init : cstate fmsg := mkC [] 0.

(* ---------- comparing outputs ---------- *)
Fixpoint list_match {A B} (f : A -> B -> bool) (a : list A) (b : list B) : bool :=
  match a, b with
  | [], [] => true
  | x :: a', y :: b' => f x y && list_match f a' b'
  | _, _ => false
  end.
Definition ofm_eqb := option_eqb fmsg_eqb.
Definition kv_eqb (a b : string * fmsg) := String.eqb (fst a) (fst b) && fmsg_eqb (snd a) (snd b).
Definition out_matches (o : cout fmsg) (b : fobs) : bool :=
  match o, b with
  | RGet r, BGet r' => ofm_eqb r r'
  | RList l, BList l' => list_eqb kv_eqb l l'
  | RWrite (inl m) cb, BWrite (Some m') 0 ids created =>
      fmsg_eqb m m' && list_eqb String.eqb (cb_ids cb) ids && (cb_created cb =? created)
  | RWrite (inr c) cb, BWrite None c' ids created =>
      (c =? c') && negb (c' =? 0) && list_eqb String.eqb (cb_ids cb) ids && (cb_created cb =? created)
  | RDelete r None, BDelete r' 0 => ofm_eqb r r'
  | RDelete r (Some c), BDelete r' c' => ofm_eqb r r' && (c =? c') && negb (c' =? 0)
  | _, _ => false
  end.
Definition vout_matches (o : vout fmsg) (b : fvobs) : bool :=
  match o, b with
  | VRGet r, BVGet r' => ofm_eqb r r'
  | VRSet (inl m), BVSet (Some m') 0 => fmsg_eqb m m'
  | VRSet (inr c), BVSet None c' => (c =? c') && negb (c' =? 0)
  | _, _ => false
  end.

Fixpoint trace_matches (outs : list (cout fmsg * list (cevent fmsg))) (obs : list fobs) : bool :=
  match outs, obs with
  | [], [] => true
  | (o, _) :: r, b :: r' => out_matches o b && trace_matches r r'
  | _, _ => false
  end.
Fixpoint vtrace_matches (outs : list (vout fmsg * list (vevent fmsg))) (obs : list fvobs) : bool :=
  match outs, obs with
  | [], [] => true
  | (o, _) :: r, b :: r' => vout_matches o b && vtrace_matches r r'
  | _, _ => false
  end.

(* ---------- C01: direct clauses on the observed trace ---------- *)
Fixpoint keys_sorted (l : list (string * fmsg)) : bool :=
  match l with
  | [] => true
  | (a, _) :: r => match r with [] => true | (b, _) :: _ => str_ltb a b && keys_sorted r end
  end.

Definition is_write (op : fop) : bool :=
  match op with FUpdate _ _ _ _ | FAdd _ _ _ _ | FDelete _ _ => true | _ => false end.
Definition obs_failed (b : fobs) : bool :=
  match b with BWrite _ c _ _ => negb (c =? 0) | BDelete _ c => negb (c =? 0) | _ => false end.
Definition is_full_list (op : fop) : bool := match op with FList None None => true | _ => false end.

(* walking the trace with the last full List seen: every List is sorted; a failed write followed
   by a full List shows the same contents as the full List before it *)
Fixpoint direct_ok (last : option (list (string * fmsg))) (dirty : bool) (steps : list (fop * fobs)) : bool :=
  match steps with
  | [] => true
  | (op, b) :: r =>
      match op, b with
      | FList None None, BList l =>
          keys_sorted l &&
          (if dirty then true else match last with Some l0 => list_eqb kv_eqb l0 l | None => true end) &&
          direct_ok (Some l) false r
      | FList _ _, BList l => keys_sorted l && direct_ok last dirty r
      | _, _ =>
          if is_write op then direct_ok last (dirty || negb (obs_failed b)) r
          else direct_ok last dirty r
      end
  end.

(* a generated id: non-empty, reported exactly once, not a key of the last full List (seen through
   the id interceptor), and the Get the generator issues right after returns the written value *)
Fixpoint gen_ok (i : option idf) (last : list (string * fmsg)) (steps : list (fop * fobs)) : bool :=
  match steps with
  | [] => true
  | (op, b) :: r =>
      let last' := match op, b with FList None None, BList l => l | _, _ => last end in
      (match op, b with
       | FUpdate id _ o _, BWrite (Some m) 0 ids _ | FAdd id _ o _, BWrite (Some m) 0 ids _ =>
           if String.eqb (apply_id (idfun_of i) id) "" && o_gen_id o && o_id_cb o then
             match ids with
             | [g] =>
                 negb (String.eqb g "") &&
                 negb (existsb (fun kv => String.eqb (fst kv) (apply_id (idfun_of i) g)) last) &&
                 match r with
                 | (FGet g' None, BGet got) :: _ => if String.eqb g g' then ofm_eqb got (Some m) else true
                 | _ => true
                 end
             | _ => false
             end
           else true
       | _, _ => true
       end) && gen_ok i last' r
  end.

(* ---------- C04 / C08: streams ---------- *)
Definition kind_code (k : kind) : Z := match k with KAdd => 1 | KUpdate => 2 | KRemove => 3 end.
Definition cc_matches (c : cchange fmsg) (o : ochange) : bool :=
  String.eqb (cc_id c) (oc_id o) && (cc_time c =? oc_time o) && (kind_code (cc_kind c) =? oc_kind o) &&
  ofm_eqb (cc_old c) (oc_old o) && ofm_eqb (cc_new c) (oc_new o) &&
  Bool.eqb (cc_seed c) (oc_seed o) && Bool.eqb (cc_last_seed c) (oc_last o).
Definition vc_matches (c : vchange fmsg) (o : ovchange) : bool :=
  fmsg_eqb (vc_value c) (ov_value o) && (vc_time c =? ov_time o) &&
  Bool.eqb (vc_seed c) (ov_seed o) && Bool.eqb (vc_last_seed c) (ov_last o).

Definition run_c (i : option idf) (w : option (list fld)) (s : cstate fmsg) (ops : list fop) :=
  run (f_impl_step i) s (map (to_cop w) ops).
Definition events_of (outs : list (cout fmsg * list (cevent fmsg))) : list (cevent fmsg) :=
  flat_map snd outs.
Definition run_v (w : option (list fld)) (s : vstate fmsg) (ops : list fvop) :=
  v_run f_v_impl_step s (map (to_vop w) ops).
Definition vevents_of (outs : list (vout fmsg * list (vevent fmsg))) : list (vevent fmsg) :=
  flat_map snd outs.

Definition model_cstream (w : option (list fld)) (i : option idf) (e : option eqv)
           (before : list fop) (ro : fro) (after : list fop) : list (cchange fmsg) * cstate fmsg :=
  let '(s1, _) := run_c i w c_init before in
  let '(s2, outs) := run_c i w s1 after in
  (* the held-map model: Collection.Pull since /repo 3a50d70 (= pull_collection without an equivalence) *)
  (pull_collection_held fr_filter (option_map interp_eqv e) s1 (to_ropts ro) (events_of outs), s2).
(* the code before 3a50d70 (each change's old against its new value) *)
Definition model_cstream_v0 (w : option (list fld)) (i : option idf) (e : option eqv)
           (before : list fop) (ro : fro) (after : list fop) : list (cchange fmsg) * cstate fmsg :=
  let '(s1, _) := run_c i w c_init before in
  let '(s2, outs) := run_c i w s1 after in
  (pull_collection fr_filter (option_map interp_eqv e) s1 (to_ropts ro) (events_of outs), s2).

Definition model_vstream (w : option (list fld)) (initial : option fmsg) (e : option eqv)
           (before : list fvop) (ro : fro) (after : list fvop) : list (vchange fmsg) * vstate fmsg :=
  let '(s1, _) := run_v w (v_init fclock initial) before in
  let '(s2, outs) := run_v w s1 after in
  (pull_value fr_filter (option_map interp_eqv e) s1 (to_ropts ro) (vevents_of outs), s2).

(* folding what the subscriber received *)
Definition to_cc (o : ochange) : cchange fmsg :=
  mkCC (oc_id o) (oc_time o)
       (if oc_kind o =? 3 then KRemove else if oc_kind o =? 1 then KAdd else KUpdate)
       (oc_old o) (oc_new o) (oc_seed o) (oc_last o).
Fixpoint view_lookup (id : string) (l : list (string * fmsg)) : option fmsg :=
  match l with [] => None | (k, v) :: r => if String.eqb k id then Some v else view_lookup id r end.
Definition same_map (a b : list (string * fmsg)) : bool :=
  forallb (fun kv => ofm_eqb (view_lookup (fst kv) b) (Some (snd kv))) a &&
  forallb (fun kv => ofm_eqb (view_lookup (fst kv) a) (Some (snd kv))) b.

(* C04's direct clauses on an observed collection stream, given the writer's observed log:
   seeds first, flagged, sorted, exactly the final one last-seed; then no seed flags *)
Fixpoint seeds_then_updates (seen_update : bool) (l : list ochange) : bool :=
  match l with
  | [] => true
  | o :: r =>
      if oc_seed o then negb seen_update && (oc_kind o =? 1) &&
                        Bool.eqb (oc_last o) (match r with o' :: _ => negb (oc_seed o') | [] => true end) &&
                        (match r with o' :: _ => if oc_seed o' then str_ltb (oc_id o) (oc_id o') else true | [] => true end) &&
                        seeds_then_updates false r
      else negb (oc_last o) && seeds_then_updates true r
  end.

(* per id, the old value of each non-seed event equals the new value of the previous event for it *)
Fixpoint old_chain (view : list (string * fmsg)) (l : list ochange) : bool :=
  match l with
  | [] => true
  | o :: r =>
      let prev := view_lookup (oc_id o) view in
      (if oc_seed o then true
       else match oc_kind o with
            | 1 => match prev with None => true | Some _ => false end
            | _ => ofm_eqb prev (oc_old o)
            end) &&
      old_chain (apply_change view (to_cc o)) r
  end.

Definition C01_ok (c : rcase) : bool :=
  match c with
  | CaseC w i steps =>
      let '(_, outs) := run (f_spec_step i) c_init (map (to_cop w) (map fst steps)) in
      trace_matches outs (map snd steps) && direct_ok None false steps && gen_ok i [] steps
  | CaseV w initial steps =>
      let '(_, outs) := v_run f_v_spec_step (v_init fclock initial) (map (to_vop w) (map fst steps)) in
      vtrace_matches outs (map snd steps)
  | _ => true
  end.

Definition agrees (c : rcase) : bool :=
  match c with
  | CaseC w i steps =>
      let '(_, outs) := run_c i w c_init (map fst steps) in trace_matches outs (map snd steps)
  | CaseV w initial steps =>
      let '(_, outs) := run_v w (v_init fclock initial) (map fst steps) in vtrace_matches outs (map snd steps)
  | CaseCPull w i e before ro after codes witness stream final =>
      let '(cs, s2) := model_cstream w i e before ro after in
      list_match cc_matches cs stream &&
      list_eqb kv_eqb (c_list fr_filter s2 (r_mask ro) (option_map interp_pred (r_include ro))) final
  | CaseVPull w initial e before ro after codes witness results stream final =>
      let '(vs, s2) := model_vstream w initial e before ro after in
      list_match vc_matches vs stream && ofm_eqb (v_get fr_filter s2 (r_mask ro)) final
  | CaseCPullID w i e before ro id after stream closed =>
      (* PullID opens its inner Pull from a goroutine it starts, so the subscription point lies at
         some moment after the call: between any two of the writes that follow it *)
      existsb (fun k =>
                 let '(cs, _) := model_cstream w i e (before ++ firstn k after) ro (skipn k after) in
                 let '(vs, closed') := pull_id_from (apply_id (idfun_of i) id) cs in
                 list_match vc_matches vs stream && Bool.eqb closed closed')
              (seq 0 (S (List.length after)))
  | CaseFold _ _ _ => true      (* not modelled here (lossy merging is C09's model); judged by the oracle only *)
  end.

(* successful writes among the operations issued after subscribing (codes observed by the writer;
   reads carry code 0 too, so writes are selected by the operation) *)
Fixpoint ok_writes (ops : list fop) (codes : list Z) : Z :=
  match ops, codes with
  | op :: r, c :: r' => (if is_write op && (c =? 0) then 1 else 0) + ok_writes r r'
  | _, _ => 0
  end.
Fixpoint ok_sets (ops : list fvop) (codes : list Z) : Z :=
  match ops, codes with
  | op :: r, c :: r' => (match op with FVSet _ _ => if c =? 0 then 1 else 0 | _ => 0 end) + ok_sets r r'
  | _, _ => 0
  end.
Definition non_seed (l : list ochange) : Z := zlen (filter (fun o => negb (oc_seed o)) l).

(* "each event carries the write's change time", read off the writer's own log: the k-th successful
   write made while subscribed is described by the k-th non-seed event (no include, no equivalence);
   a write with an explicit write time must be stamped with exactly that time (whatever it is: zero
   time.Time, the epoch, a time before the previous change, the far future), any other write with a
   reading of the harness clock (1000 + 10 n), later than the previous reading that was delivered *)
Definition is_clock_reading (t : Z) : bool := (1000 <=? t) && (t mod 10 =? 0).
Definition fop_time (op : fop) : option Z :=
  match op with FUpdate _ _ o _ | FAdd _ _ o _ | FDelete _ o => o_time o | _ => None end.
Fixpoint times_ok (lastclk : Z) (ops : list fop) (codes : list Z) (evs : list ochange) : bool :=
  match ops, codes with
  | op :: r, c :: r' =>
      if is_write op && (c =? 0) then
        match evs with
        | e :: evs' =>
            match fop_time op with
            | Some t => (oc_time e =? t) && times_ok lastclk r r' evs'
            | None => is_clock_reading (oc_time e) && (lastclk <? oc_time e) && times_ok (oc_time e) r r' evs'
            end
        | [] => true
        end
      else times_ok lastclk r r' evs
  | _, _ => true
  end.
Fixpoint vtimes_ok (lastclk : Z) (ops : list fvop) (codes : list Z) (evs : list ovchange) : bool :=
  match ops, codes with
  | FVSet _ o :: r, c :: r' =>
      if c =? 0 then
        match evs with
        | e :: evs' =>
            match o_time o with
            | Some t => (ov_time e =? t) && vtimes_ok lastclk r r' evs'
            | None => is_clock_reading (ov_time e) && (lastclk <? ov_time e) && vtimes_ok (ov_time e) r r' evs'
            end
        | [] => true
        end
      else vtimes_ok lastclk r r' evs
  | _ :: r, _ :: r' => vtimes_ok lastclk r r' evs
  | _, _ => true
  end.


(* with an equivalence the subscriber's folded view equals the listing UP TO the equivalence, id by
   id (every executed equivalence tells a value from nothing, so an item is in the one iff it is in
   the other); [skip] = an id left out of the comparison *)
Definition equiv_map_except (skip : option string) (ev : option fmsg -> option fmsg -> bool)
           (a b : list (string * fmsg)) : bool :=
  forallb (fun id => match skip with
                     | Some k => if String.eqb id k then true else ev (view_lookup id a) (view_lookup id b)
                     | None => ev (view_lookup id a) (view_lookup id b)
                     end) (map fst a ++ map fst b).
Definition equiv_map := equiv_map_except None.

(* no delivered change carries a new value equivalent to what the subscriber holds for the id: the
   new value of the last event it received for it (the seed included), nothing after a REMOVE; for
   an id it has received nothing for, the old value the change itself carries *)
Fixpoint held_ok (ev : option fmsg -> option fmsg -> bool) (view : list (string * fmsg)) (l : list ochange) : bool :=
  match l with
  | [] => true
  | o :: r =>
      (if oc_seed o then true
       else negb (ev (match view_lookup (oc_id o) view with Some v => Some v | None => oc_old o end) (oc_new o))) &&
      held_ok ev (apply_change view (to_cc o)) r
  end.

(* C04 on the observed stream.  Without include / equivalence: an exact edit script — seeds first
   (sorted, flagged, exactly the final one last-seed), exactly one event per successful write and
   none for failed ones, per-id old/new chain, and the folded view is the final listing. *)
Definition C04_ok (c : rcase) : bool :=
  match c with
  | CaseCPull w i e before ro after codes witness stream final =>
      seeds_then_updates false stream &&
      (* a seed carries the change time of the write that stored the item: the time its event carried *)
      (match e with
       | None => forallb (fun o => if oc_seed o then
                                     match find (fun p => String.eqb (fst p) (oc_id o)) witness with
                                     | Some p => oc_time o =? snd p
                                     | None => true
                                     end
                                   else true) stream
       | Some _ => true
       end) &&
      (if r_updates_only ro then forallb (fun o => negb (oc_seed o)) stream else true) &&
      (* with a read mask every value an event carries (old and new) is already projected *)
      (match r_mask ro with
       | Some k => forallb (fun o => ofm_eqb (option_map (fr_filter k) (oc_old o)) (oc_old o) &&
                                     ofm_eqb (option_map (fr_filter k) (oc_new o)) (oc_new o)) stream
       | None => true
       end) &&
      (match r_include ro, e with
       | None, None => (non_seed stream =? ok_writes after codes) &&
                       (r_updates_only ro || old_chain [] stream) &&
                       times_ok 0 after codes (filter (fun o => negb (oc_seed o)) stream)
       | None, Some EqAll =>
           (* what a no-duplicates subscriber misses changes nothing it can see: the chain of old /
              new values it does see is still unbroken *)
           (non_seed stream <=? ok_writes after codes) && (r_updates_only ro || old_chain [] stream)
       | _, _ => non_seed stream <=? ok_writes after codes
       end) &&
      (* with an equivalence no delivered event has equivalent old and new values (as the subscriber
         sees them, i.e. after the read mask) *)
      (match e with
       | Some ev => forallb (fun o => oc_seed o || negb (interp_eqv ev (oc_old o) (oc_new o))) stream
       | None => true
       end) &&
      (match e with
       | Some ev => held_ok (interp_eqv ev) [] stream
       | None => true
       end) &&
      (match e with
       | None | Some EqAll => if r_updates_only ro then true else same_map (fold_view (map to_cc stream)) final
       | Some ev =>
           (* any other equivalence, with or without include: fold = List up to the equivalence per id *)
           if r_updates_only ro then true else equiv_map (interp_eqv ev) (fold_view (map to_cc stream)) final
       end)
  | CaseCPullID w i e before ro id after stream closed =>
      (* seeds (at most one, for this id) first; nothing is flagged seed after an update *)
      (match stream with o :: r => forallb (fun x => negb (ov_seed x)) r | [] => true end) &&
      (if r_updates_only ro then forallb (fun x => negb (ov_seed x)) stream else true)
  | CaseVPull w initial e before ro after codes witness results stream final =>
      let seeds := filter ov_seed stream in
      let updates := filter (fun o => negb (ov_seed o)) stream in
      (zlen seeds <=? 1) && forallb ov_last seeds &&
      (match stream with o :: r => forallb (fun x => negb (ov_seed x)) r | [] => true end) &&
      forallb (fun o => negb (ov_last o)) updates &&
      (if r_updates_only ro then zlen seeds =? 0 else true) &&
      (match e, witness, seeds with
       | None, Some t, o :: _ => ov_time o =? t
       | _, _, _ => true
       end) &&
      (* with an equivalence: delivered exactly when not equivalent to the last delivered value *)
      (match e with
       | Some ev =>
           let committed := flat_map (fun r => match r with Some v => [match r_mask ro with Some k => fr_filter k v | None => v end] | None => [] end) results in
           let fix dedupe (last : option fmsg) (vs : list fmsg) : list fmsg :=
             match vs with
             | [] => []
             | v :: r => if interp_eqv ev last (Some v) then dedupe last r else v :: dedupe (Some v) r
             end in
           list_eqb fmsg_eqb (map ov_value updates)
                    (dedupe (match seeds with o :: _ => Some (ov_value o) | [] => None end) committed)
       | None => true
       end) &&
      (match e with
       | None => (zlen updates =? ok_sets after codes) && vtimes_ok 0 after codes updates &&
                 (* every update carries the value its Set returned, projected by this subscriber's
                    read mask (also when other subscribers with other masks listen) *)
                 list_eqb fmsg_eqb (map ov_value updates)
                   (flat_map (fun r => match r with
                                       | Some v => [match r_mask ro with Some k => fr_filter k v | None => v end]
                                       | None => [] end) results) &&
                 (* the last delivered value is the final value *)
                 match rev stream with
                 | o :: _ => if 0 <? ok_sets after codes then ofm_eqb (Some (ov_value o)) final else true
                 | [] => true
                 end
       | Some _ => zlen updates <=? ok_sets after codes
       end)
  | _ => true
  end.

Definition C08_ok (c : rcase) : bool :=
  match c with
  | CaseCPull w i None before ro after codes witness stream final =>
      if r_updates_only ro then true else same_map (fold_view (map to_cc stream)) final
  | CaseCPull w i (Some ev) before ro after codes witness stream final =>
      (* with an equivalence: the same up to the equivalence, id by id *)
      if r_updates_only ro then true else equiv_map (interp_eqv ev) (fold_view (map to_cc stream)) final
  | CaseFold _ stream final => same_map (fold_view (map to_cc stream)) final
  | _ => true
  end.

Definition judge01 (c : rcase) : Z := verdict (agrees c) (C01_ok c) None.
Definition judge04 (c : rcase) : Z := verdict (agrees c) (C04_ok c) None.
Definition judge08 (c : rcase) : Z := verdict (agrees c) (C08_ok c) None.

(* debugging aid: index and model output of the first step whose observation differs *)
Fixpoint first_mismatch (n : Z) (outs : list (cout fmsg * list (cevent fmsg))) (obs : list fobs)
  : option (Z * cout fmsg * fobs) :=
  match outs, obs with
  | (o, _) :: r, b :: r' => if out_matches o b then first_mismatch (n + 1) r r' else Some (n, o, b)
  | _, _ => None
  end.
Definition debug_case (c : rcase) :=
  match c with
  | CaseC w i steps =>
      let '(_, outs) := run_c i w c_init (map fst steps) in first_mismatch 0 outs (map snd steps)
  | _ => None
  end.
