(* Obligations over the WHOLE generated decision table of include (Gen/IncludeTable.v, produced on
   every run by running the real CollectionChange.include): the model is the code on every row, and
   every row that is a legal edit (ADD of an absent item, UPDATE / REPLACE of a present one, REMOVE
   of a present one -- what the bus and, by C09's invariant, the merge stage hand to include) obeys
   the fold law on the filtered view.  A changed include breaks these proofs; the rows that break
   them are also emitted as correspondence cases (CaseRow), which yields the failing input. *)
From SC Require Import Base.Prelude Excess.Change Resource.Include Resource.IncludeProofs Gen.IncludeTable.

Local Open Scope Z_scope.

Theorem include_table_matches_model : forallb row_matches_model include_rows = true.
Proof. vm_compute. reflexivity. Qed.

Theorem include_table_obeys_law : forallb row_obeys_law include_rows = true.
Proof. vm_compute. reflexivity. Qed.

(* include never edits the change it is called on (every subscriber receives the same change) *)
Theorem include_table_input_untouched : include_rows_mutated = [].
Proof. reflexivity. Qed.

(* the table is complete: every kind 0..5 (unspecified, ADD, UPDATE, REMOVE, REPLACE, out of range)
   x old/new nil-ness x the predicate's three answers x both seed flags occurs *)
Definition bools := [false; true].
Definition has_row (k : Z) (o n pin pn pnil sd la : bool) : bool :=
  existsb (fun row =>
             let '(c, (a, b, z), _) := row in
             (ckind c =? k) && Bool.eqb (tpresent (cold c)) o && Bool.eqb (tpresent (cnew c)) n &&
             Bool.eqb a pin && Bool.eqb b pn && Bool.eqb z pnil && Bool.eqb (cseed c) sd && Bool.eqb (clast c) la)
          include_rows.
Theorem include_table_complete :
  forallb (fun k => forallb (fun o => forallb (fun n => forallb (fun pin => forallb (fun pn =>
  forallb (fun pnil => forallb (fun sd => forallb (fun la => has_row k o n pin pn pnil sd la)
  bools) bools) bools) bools) bools) bools) bools) [0; 1; 2; 3; 4; 5] = true.
Proof. vm_compute. reflexivity. Qed.

(* the legal rows are there for every kind the pipeline produces, REPLACE included *)
Theorem include_table_legal_rows :
  forallb (fun k => existsb (fun row => let '(c, _, _) := row in (ckind c =? k) && valid_at c (cold c)) include_rows)
          [K_ADD; K_UPDATE; K_REMOVE; K_REPLACE] = true.
Proof. vm_compute. reflexivity. Qed.

(* hence, on every row, what the code returned is what the law-abiding model returns *)
Corollary include_table_rows_are_model_rows : forall row, In row include_rows ->
  let '(c, (pin, pn, pnil), out) := row in
  ochange_eqb (x_include (Some (truth_pred pin pn pnil)) c) out = true /\
  row_law (Some (truth_pred pin pn pnil)) c (x_include (Some (truth_pred pin pn pnil)) c) = true.
Proof.
  intros row Hin. pose proof include_table_matches_model as H.
  rewrite forallb_forall in H. specialize (H row Hin).
  destruct row as [[c [[pin pn] pnil]] out]. split; [exact H|apply model_obeys_row_law].
Qed.
