(* Theorems about pkg/resource/tween.go's validation functions (model: Tween.v). *)
From SC Require Import Base.Prelude Resource.Tween.

(* ---------- theorems ---------- *)
Lemma wrap64_small z : min_i64 <= z <= max_i64 -> wrap64 z = z.
Proof.
  unfold wrap64, min_i64, max_i64. intros H.
  rewrite Z.mod_small by lia. lia.
Qed.

(* on every duration that fits a time.Duration with room to spare (|seconds| <= 9223372035, about 292
   years; |nanos| < 10^9) AsDuration is exact: no wrap-around, no saturation.  (The documented range
   of google.protobuf.Duration, 10000 years, does not fit: there AsDuration saturates, see the
   example below.) *)
Theorem as_duration_exact secs nanos :
  -9223372035 <= secs <= 9223372035 -> -999999999 <= nanos <= 999999999 ->
  as_duration secs nanos = secs * 1000000000 + nanos.
Proof.
  intros Hs Hn. unfold as_duration.
  rewrite (wrap64_small (secs * 1000000000)) by (unfold min_i64, max_i64; lia).
  rewrite Z.quot_mul by lia. rewrite Z.eqb_refl. simpl negb.
  rewrite wrap64_small by (unfold min_i64, max_i64; lia).
  destruct (Z.ltb_spec secs 0) as [S0|S0]; destruct (Z.ltb_spec nanos 0) as [N0|N0];
    destruct (Z.ltb_spec 0 secs) as [S1|S1]; destruct (Z.ltb_spec 0 nanos) as [N1|N1];
    destruct (Z.ltb_spec 0 (secs * 1000000000 + nanos)) as [D0|D0];
    destruct (Z.ltb_spec (secs * 1000000000 + nanos) 0) as [D1|D1]; simpl; try reflexivity; lia.
Qed.

(* the update validation accepts exactly: no tween, or zero progress (+0 / -0) and a non-negative
   total duration; every rejection is InvalidArgument, progress being examined first *)
Theorem validate_tween_on_update_spec t :
  validate_tween_on_update t =
  match t with
  | None => None
  | Some tw =>
      if f32_is_zero (tw_progress tw) &&
         (0 <=? match tw_total tw with Some (s, n) => as_duration s n | None => 0 end)
      then None else Some 3
  end.
Proof.
  destruct t as [tw|]; [|reflexivity]. unfold validate_tween_on_update, validate_no_progress, validate_non_negative_duration.
  destruct (f32_is_zero (tw_progress tw)); simpl; [|reflexivity].
  destruct (tw_total tw) as [[s n]|]; [|reflexivity].
  destruct (Z.ltb_spec (as_duration s n) 0); destruct (Z.leb_spec 0 (as_duration s n)); try reflexivity; lia.
Qed.

Example tween_nonvacuous :
  validate_tween_on_update (Some (mkTween 0 (Some (2, 500)))) = None /\
  validate_tween_on_update (Some (mkTween 2147483648 None)) = None /\
  validate_tween_on_update (Some (mkTween 1065353216 (Some (2, 0)))) = Some 3 /\     (* progress 1.0 *)
  validate_tween_on_update (Some (mkTween 0 (Some (-1, 0)))) = Some 3 /\
  validate_tween_on_update (Some (mkTween 0 (Some (0, -1)))) = Some 3 /\
  as_duration 9223372037 0 = max_i64 /\ as_duration (-9223372037) 0 = min_i64.        (* saturation *)
Proof. vm_compute. repeat split; reflexivity. Qed.
