(* Model of Value.Pull / Collection.Pull / PullID with backpressure (value.go, collection.go) and
   of CollectionChange.include / filter (change.go), as list transformers from the events the
   writer published after the subscription point to what the subscriber receives.  No proofs. *)
From SC Require Import Base.Prelude Resource.Impl.

Set Implicit Arguments.

Section Pull.
  Variable M : Type.
  Variable rmask : Type.
  Variable r_filter : rmask -> M -> M.
  (* config.equivalence: Comparer.Compare on possibly-nil messages; None = not configured *)
  Variable equiv : option (option M -> option M -> bool).

  Record ropts := mkR {
    ro_mask : option rmask;
    ro_updates_only : bool;
    ro_include : option (string -> option M -> bool)
  }.

  Definition filt (ro : ropts) (m : M) : M :=
    match ro_mask ro with Some k => r_filter k m | None => m end.

  (* ---- Value.Pull ---- *)
  Record vchange := mkVC { vc_value : M; vc_time : Z; vc_seed : bool; vc_last_seed : bool }.

  Fixpoint v_forward (ro : ropts) (last : option M) (evs : list (vevent M)) : list vchange :=
    match evs with
    | [] => []
    | e :: r =>
        let v := filt ro (ve_value e) in
        if match equiv with Some cmp => cmp last (Some v) | None => false end
        then v_forward ro last r
        else mkVC v (ve_time e) false false :: v_forward ro (Some v) r
    end.

  (* [raw_last]: the pinned commit initialises `last` with the unfiltered seed (v0) *)
  Definition pull_value_gen (raw_last : bool) (s : vstate M) (ro : ropts) (evs : list (vevent M)) : list vchange :=
    let current := if ro_updates_only ro then None else v_val s in
    let seed := match current with
                | Some v => [mkVC (filt ro v) (v_time s) true true]
                | None => []
                end in
    let last := if raw_last then current else option_map (filt ro) current in
    seed ++ v_forward ro last evs.
  Definition pull_value := pull_value_gen false.
  Definition pull_value_v0 := pull_value_gen true.

  (* ---- Collection.Pull ---- *)
  Record cchange := mkCC {
    cc_id : string; cc_time : Z; cc_kind : kind; cc_old : option M; cc_new : option M;
    cc_seed : bool; cc_last_seed : bool
  }.

  (* change.go include.  [polarity_v0]: the pinned commit returned ok = !newInclude when the
     inclusion did not change; [absent_v0]: it evaluated the predicate on absent (nil) values *)
  Definition include_gen (polarity_v0 absent_v0 : bool) (inc : option (string -> option M -> bool)) (c : cchange)
    : option cchange :=
    match inc with
    | None => Some c
    | Some f =>
        let present (v : option M) := match v with Some _ => true | None => false end in
        let oi := (absent_v0 || present (cc_old c)) && f (cc_id c) (cc_old c) in
        let ni := (absent_v0 || present (cc_new c)) && f (cc_id c) (cc_new c) in
        if Bool.eqb oi ni then
          (if polarity_v0 then (if ni then None else Some c) else (if ni then Some c else None))
        else if ni then Some (mkCC (cc_id c) (cc_time c) KAdd None (cc_new c) (cc_seed c) false)
        else Some (mkCC (cc_id c) (cc_time c) KRemove (cc_old c) None false false)
    end.

  Definition cc_filter (ro : ropts) (c : cchange) : cchange :=
    mkCC (cc_id c) (cc_time c) (cc_kind c) (option_map (filt ro) (cc_old c)) (option_map (filt ro) (cc_new c))
         (cc_seed c) (cc_last_seed c).

  Definition of_event (e : cevent M) : cchange :=
    mkCC (ce_id e) (ce_time e) (ce_kind e) (ce_old e) (ce_new e) false false.

  Fixpoint c_forward_gen (p a : bool) (ro : ropts) (evs : list (cevent M)) : list cchange :=
    match evs with
    | [] => []
    | e :: r =>
        match include_gen p a (ro_include ro) (of_event e) with
        | None => c_forward_gen p a ro r
        | Some c =>
            let c' := cc_filter ro c in
            if match equiv with Some cmp => cmp (cc_old c') (cc_new c') | None => false end
            then c_forward_gen p a ro r
            else c' :: c_forward_gen p a ro r
        end
    end.

  Fixpoint seeds (ro : ropts) (l : list (string * item M)) : list cchange :=
    match l with
    | [] => []
    | (id, it) :: r =>
        mkCC id (it_time it) KAdd None (Some (filt ro (it_body it))) true
             (match r with [] => true | _ => false end) :: seeds ro r
    end.

  Definition included (ro : ropts) (l : list (string * item M)) : list (string * item M) :=
    filter (fun p => match ro_include ro with Some f => f (fst p) (Some (it_body (snd p))) | None => true end) l.

  Definition pull_collection_gen (p a : bool) (s : cstate M) (ro : ropts) (evs : list (cevent M)) : list cchange :=
    (if ro_updates_only ro then [] else seeds ro (included ro (c_items s))) ++ c_forward_gen p a ro evs.
  Definition pull_collection := pull_collection_gen false false.
  Definition pull_collection_v0 := pull_collection_gen true true.

  (* ---- PullID: the collection stream restricted to one id, ending at its REMOVE ---- *)
  Fixpoint pull_id_from (id : string) (cs : list cchange) : list vchange * bool :=   (* (events, closed) *)
    match cs with
    | [] => ([], false)
    | c :: r =>
        if negb (String.eqb (cc_id c) id) then pull_id_from id r
        else match cc_kind c, cc_new c with
             | KRemove, _ => ([], true)
             | _, None => ([], true)
             | _, Some v =>
                 let '(rest, closed) := pull_id_from id r in
                 (mkVC v (cc_time c) (cc_seed c) (cc_last_seed c) :: rest, closed)
             end
    end.

  (* ---- folding a stream into a view (what a subscriber reconstructs) ---- *)
  Fixpoint view_set (id : string) (v : M) (l : list (string * M)) : list (string * M) :=
    match l with
    | [] => [(id, v)]
    | (k, x) :: r => if String.eqb k id then (id, v) :: r else (k, x) :: view_set id v r
    end.
  Fixpoint view_del (id : string) (l : list (string * M)) : list (string * M) :=
    match l with
    | [] => []
    | (k, x) :: r => if String.eqb k id then r else (k, x) :: view_del id r
    end.
  Definition apply_change (view : list (string * M)) (c : cchange) : list (string * M) :=
    match cc_kind c, cc_new c with
    | KRemove, _ => view_del (cc_id c) view
    | _, Some v => view_set (cc_id c) v view
    | _, None => view
    end.
  Definition fold_view (cs : list cchange) : list (string * M) := fold_left apply_change cs [].
End Pull.
