(* Model of Value.Pull / Collection.Pull / PullID with backpressure (value.go, collection.go) and
   of CollectionChange.include / filter (change.go), as list transformers from the events the
   writer published after the subscription point to what the subscriber receives.  No proofs.
   Collection.Pull with an equivalence: the current code is [pull_collection_held] (held map, below);
   [pull_collection] with [Some cmp] is the code before /repo 3a50d70 (old against new of each change;
   equal to the current one without an equivalence, and for equivalence RELATIONS on real histories:
   HeldProofs / Held04Proofs). *)
From SC Require Import Base.Prelude Resource.Impl.

Set Implicit Arguments.

Section Pull.
  Variable M : Type.
  Variable rmask : Type.
  Variable r_filter : rmask -> M -> M.
  (* config.equivalence: Comparer.Compare on possibly-nil messages; None = not configured *)
  Variable equiv : option (option M -> option M -> bool).

  Record ropts := mkR {
    ro_mask : option rmask;
    ro_updates_only : bool;
    ro_include : option (string -> option M -> bool)
  }.

  Definition filt (ro : ropts) (m : M) : M :=
    match ro_mask ro with Some k => r_filter k m | None => m end.

  (* ---- Value.Pull ---- *)
  Record vchange := mkVC { vc_value : M; vc_time : Z; vc_seed : bool; vc_last_seed : bool }.

  Fixpoint v_forward (ro : ropts) (last : option M) (evs : list (vevent M)) : list vchange :=
    match evs with
    | [] => []
    | e :: r =>
        let v := filt ro (ve_value e) in
        if match equiv with Some cmp => cmp last (Some v) | None => false end
        then v_forward ro last r
        else mkVC v (ve_time e) false false :: v_forward ro (Some v) r
    end.

  (* [raw_last]: the pinned commit initialises `last` with the unfiltered seed (v0) *)
  Definition pull_value_gen (raw_last : bool) (s : vstate M) (ro : ropts) (evs : list (vevent M)) : list vchange :=
    let current := if ro_updates_only ro then None else v_val s in
    let seed := match current with
                | Some v => [mkVC (filt ro v) (v_time s) true true]
                | None => []
                end in
    let last := if raw_last then current else option_map (filt ro) current in
    seed ++ v_forward ro last evs.
  Definition pull_value := pull_value_gen false.
  Definition pull_value_v0 := pull_value_gen true.

  (* ---- Collection.Pull ---- *)
  Record cchange := mkCC {
    cc_id : string; cc_time : Z; cc_kind : kind; cc_old : option M; cc_new : option M;
    cc_seed : bool; cc_last_seed : bool
  }.

  (* change.go include.  [polarity_v0]: the pinned commit returned ok = !newInclude when the
     inclusion did not change; [absent_v0]: it evaluated the predicate on absent (nil) values *)
  Definition include_gen (polarity_v0 absent_v0 : bool) (inc : option (string -> option M -> bool)) (c : cchange)
    : option cchange :=
    match inc with
    | None => Some c
    | Some f =>
        let present (v : option M) := match v with Some _ => true | None => false end in
        let oi := (absent_v0 || present (cc_old c)) && f (cc_id c) (cc_old c) in
        let ni := (absent_v0 || present (cc_new c)) && f (cc_id c) (cc_new c) in
        if Bool.eqb oi ni then
          (if polarity_v0 then (if ni then None else Some c) else (if ni then Some c else None))
        else if ni then Some (mkCC (cc_id c) (cc_time c) KAdd None (cc_new c) (cc_seed c) false)
        else Some (mkCC (cc_id c) (cc_time c) KRemove (cc_old c) None false false)
    end.

  Definition cc_filter (ro : ropts) (c : cchange) : cchange :=
    mkCC (cc_id c) (cc_time c) (cc_kind c) (option_map (filt ro) (cc_old c)) (option_map (filt ro) (cc_new c))
         (cc_seed c) (cc_last_seed c).

  Definition of_event (e : cevent M) : cchange :=
    mkCC (ce_id e) (ce_time e) (ce_kind e) (ce_old e) (ce_new e) false false.

  Fixpoint c_forward_gen (p a : bool) (ro : ropts) (evs : list (cevent M)) : list cchange :=
    match evs with
    | [] => []
    | e :: r =>
        match include_gen p a (ro_include ro) (of_event e) with
        | None => c_forward_gen p a ro r
        | Some c =>
            let c' := cc_filter ro c in
            if match equiv with Some cmp => cmp (cc_old c') (cc_new c') | None => false end
            then c_forward_gen p a ro r
            else c' :: c_forward_gen p a ro r
        end
    end.

  Fixpoint seeds (ro : ropts) (l : list (string * item M)) : list cchange :=
    match l with
    | [] => []
    | (id, it) :: r =>
        mkCC id (it_time it) KAdd None (Some (filt ro (it_body it))) true
             (match r with [] => true | _ => false end) :: seeds ro r
    end.

  Definition included (ro : ropts) (l : list (string * item M)) : list (string * item M) :=
    filter (fun p => match ro_include ro with Some f => f (fst p) (Some (it_body (snd p))) | None => true end) l.

  Definition pull_collection_gen (p a : bool) (s : cstate M) (ro : ropts) (evs : list (cevent M)) : list cchange :=
    (if ro_updates_only ro then [] else seeds ro (included ro (c_items s))) ++ c_forward_gen p a ro evs.
  Definition pull_collection := pull_collection_gen false false.
  Definition pull_collection_v0 := pull_collection_gen true true.

  (* ---- PullID: the collection stream restricted to one id, ending at its REMOVE ---- *)
  Fixpoint pull_id_from (id : string) (cs : list cchange) : list vchange * bool :=   (* (events, closed) *)
    match cs with
    | [] => ([], false)
    | c :: r =>
        if negb (String.eqb (cc_id c) id) then pull_id_from id r
        else match cc_kind c, cc_new c with
             | KRemove, _ => ([], true)
             | _, None => ([], true)
             | _, Some v =>
                 let '(rest, closed) := pull_id_from id r in
                 (mkVC v (cc_time c) (cc_seed c) (cc_last_seed c) :: rest, closed)
             end
    end.

  (* ---- folding a stream into a view (what a subscriber reconstructs) ---- *)
  Fixpoint view_set (id : string) (v : M) (l : list (string * M)) : list (string * M) :=
    match l with
    | [] => [(id, v)]
    | (k, x) :: r => if String.eqb k id then (id, v) :: r else (k, x) :: view_set id v r
    end.
  Fixpoint view_del (id : string) (l : list (string * M)) : list (string * M) :=
    match l with
    | [] => []
    | (k, x) :: r => if String.eqb k id then r else (k, x) :: view_del id r
    end.
  Definition apply_change (view : list (string * M)) (c : cchange) : list (string * M) :=
    match cc_kind c, cc_new c with
    | KRemove, _ => view_del (cc_id c) view
    | _, Some v => view_set (cc_id c) v view
    | _, None => view
    end.
  Definition fold_view (cs : list cchange) : list (string * M) := fold_left apply_change cs [].

  (* ---- Collection.Pull with an equivalence, as the code is since /repo 3a50d70 (the CURRENT model;
     [c_forward_gen] with an equivalence = the code before it: old against new of each change) ----
     With an equivalence configured the Pull goroutine keeps [held], a Go map from id to the value the
     subscriber holds for it (the new value of the last change SENT for the id, initially the seed as
     sent), and compares every change with held[id] -- falling back to the change's own old value when
     nothing was sent for the id yet:

       base, sent := held[change.Id]
       if !sent { base = change.OldValue }
       if c.equivalence.Compare(base, change.NewValue) { held[change.Id] = base; continue }
       if change.NewValue == nil { delete(held, change.Id) } else { held[change.Id] = change.NewValue }

     A change without a new value is a REMOVE -- a real one or one synthesised by include when the item
     leaves the filter: either way the entry goes, so a later ADD (re-add, re-entering the filter) is
     compared with "nothing" again.  The Go map is an association list id -> possibly-nil message
     ([Some None] = present with a nil value).  (First written by the C16 worker as Cmp/CollEquiv.v,
     which now re-exports this file.) *)
  Definition heldmap := list (string * option M).

  Fixpoint hget (id : string) (h : heldmap) : option (option M) :=
    match h with
    | [] => None
    | (k, v) :: r => if String.eqb k id then Some v else hget id r
    end.
  Fixpoint hset (id : string) (v : option M) (h : heldmap) : heldmap :=
    match h with
    | [] => [(id, v)]
    | (k, x) :: r => if String.eqb k id then (id, v) :: r else (k, x) :: hset id v r
    end.
  Fixpoint hdel (id : string) (h : heldmap) : heldmap :=
    match h with
    | [] => []
    | (k, x) :: r => if String.eqb k id then hdel id r else (k, x) :: hdel id r
    end.

  (* the equivalence step on one change that passed include and filter: (deliver?, held afterwards) *)
  Definition held_step (cmp : option M -> option M -> bool) (h : heldmap) (c : cchange) : bool * heldmap :=
    let base := match hget (cc_id c) h with Some b => b | None => cc_old c end in
    if cmp base (cc_new c) then (false, hset (cc_id c) base h)
    else (true, match cc_new c with
                | None => hdel (cc_id c) h
                | Some v => hset (cc_id c) (Some v) h
                end).

  (* the event loop of Collection.Pull: include, filter, equivalence against held, send *)
  Fixpoint c_forward_held (ro : ropts) (h : heldmap) (evs : list (cevent M)) : list cchange :=
    match evs with
    | [] => []
    | e :: r =>
        match include_gen false false (ro_include ro) (of_event e) with
        | None => c_forward_held ro h r
        | Some c =>
            let c' := cc_filter ro c in
            match equiv with
            | None => c' :: c_forward_held ro h r
            | Some cmp =>
                let '(send, h') := held_step cmp h c' in
                if send then c' :: c_forward_held ro h' r else c_forward_held ro h' r
            end
        end
    end.

  (* held after the seed loop: every seed change sent, by id *)
  Definition held_of_seeds (sd : list cchange) : heldmap :=
    fold_left (fun h c => hset (cc_id c) (cc_new c) h) sd [].

  Definition pull_collection_held (s : cstate M) (ro : ropts) (evs : list (cevent M)) : list cchange :=
    let sd := if ro_updates_only ro then [] else seeds ro (included ro (c_items s)) in
    sd ++ c_forward_held ro (held_of_seeds sd) evs.

  (* the code before 3a50d70 under its own name *)
  Definition c_forward_oldnew_v0 := c_forward_gen false false.
  Definition pull_collection_oldnew_v0 := pull_collection_gen false false.

  (* ---- the two halves of the loop as list transformers (used by the proofs) ---- *)
  (* what include and filter offer to the equivalence step *)
  Definition offered (ro : ropts) (evs : list (cevent M)) : list cchange :=
    flat_map (fun e => match include_gen false false (ro_include ro) (of_event e) with
                       | None => []
                       | Some c => [cc_filter ro c]
                       end) evs.
  Fixpoint held_filter (cmp : option M -> option M -> bool) (h : heldmap) (cs : list cchange) : list cchange :=
    match cs with
    | [] => []
    | c :: r =>
        let '(send, h') := held_step cmp h c in
        if send then c :: held_filter cmp h' r else held_filter cmp h' r
    end.
  (* the map after the loop has handled [cs] *)
  Fixpoint held_after (cmp : option M -> option M -> bool) (h : heldmap) (cs : list cchange) : heldmap :=
    match cs with
    | [] => h
    | c :: r => held_after cmp (snd (held_step cmp h c)) r
    end.

  (* ---- specification side ---- *)
  (* a view: id -> the value held for it (None = nothing) *)
  Definition view := string -> option M.
  Definition vupd (id : string) (v : option M) (w : view) : view :=
    fun k => if String.eqb k id then v else w k.
  (* the value a subscriber that received [cs] holds for [id]: the new value of the last change for it *)
  Definition holds_after (w : view) (cs : list cchange) : view :=
    fold_left (fun w c => vupd (cc_id c) (cc_new c) w) cs w.

  (* deliver a change iff its new value is NOT equivalent to what the subscriber holds for its id *)
  Fixpoint ideal_filter (cmp : option M -> option M -> bool) (w : view) (cs : list cchange) : list cchange :=
    match cs with
    | [] => []
    | c :: r =>
        if cmp (w (cc_id c)) (cc_new c) then ideal_filter cmp w r
        else c :: ideal_filter cmp (vupd (cc_id c) (cc_new c) w) r
    end.

  (* the code before the repair on offered changes: old against new of each change *)
  Fixpoint v0_filter (cmp : option M -> option M -> bool) (cs : list cchange) : list cchange :=
    match cs with
    | [] => []
    | c :: r => if cmp (cc_old c) (cc_new c) then v0_filter cmp r else c :: v0_filter cmp r
    end.

  (* the offered changes describe one evolving collection [cur]: every change's old value is the
     current value of its id *)
  Fixpoint chained_from (cur : view) (cs : list cchange) : Prop :=
    match cs with
    | [] => True
    | c :: r => cc_old c = cur (cc_id c) /\ chained_from (vupd (cc_id c) (cc_new c) cur) r
    end.

  (* raw events describe one evolving collection *)
  Fixpoint ev_chained_from (cur : view) (evs : list (cevent M)) : Prop :=
    match evs with
    | [] => True
    | e :: r => ce_old e = cur (ce_id e) /\ ev_chained_from (vupd (ce_id e) (ce_new e) cur) r
    end.
  (* what a reader with options [ro] sees of a collection [cur] *)
  Definition seen (ro : ropts) (cur : view) : view :=
    fun id => match cur id with
              | None => None
              | Some v =>
                  if match ro_include ro with Some f => f id (Some v) | None => true end
                  then Some (filt ro v) else None
              end.
End Pull.
