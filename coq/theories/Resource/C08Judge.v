(* Correspondence cases of C08 beyond the backpressured streams of Resource/Judge.v:
   - the rows of the include decision table (the real include on every change kind),
   - Collection.Pull WITHOUT backpressure and with an include predicate through the public API,
     the reader stalled while a scripted history is written and then draining, in phases; the
     expected stream is C09's merge stage (Excess/MergeExcess.v, m_run) followed by include
     (Resource/Include.v) followed by the read mask -- every field of every event is compared,
   - the booking server's booking_intersects predicate against PeriodsIntersect (Timeline/, C18's
     model) and against its arithmetic reference, over the grid of period shapes. *)
From SC Require Import Base.Prelude Resource.Impl Resource.Spec Resource.Pull Resource.Flat Resource.Judge
  Excess.Change Excess.MergeExcess Resource.Include Timeline.Timestamp.

Inductive icase :=
(* one row of the decision table: the change handed to include, the predicate's answers on the
   old value / the new value / nil, what include returned (None = ok false) *)
| CaseRow (c : change) (pin pn pnil : bool) (out : option change)
(* [before] is written, then a subscriber WithInclude/WithReadMask and WithBackpressure(false)
   receives the seed and stalls; each phase is: one plug write (an item the predicate accepts,
   on an id of its own: the Pull goroutine holds it), the scripted writes, one barrier write;
   then the reader drains up to the barrier.  [stream] is everything it received. *)
| CaseLossy (what : string) (before : list fop) (ro : fro) (phases : list (list fop))
            (stream : list ochange) (final_list : list (string * fmsg))
(* ListBookings{booking_intersects: req} over a store holding one booking per period shape
   (key, booked); [listed] = keys returned, ascending *)
| CaseBookList (req : option period) (store : list (Z * option period)) (listed : list Z)
(* PullBookings{booking_intersects: req}: the final contents of the store (unfiltered, by id, as
   the harness wrote them), what the subscriber received, and ListBookings with the same request *)
| CaseBookPull (req : option period) (contents : list (string * fmsg * option period))
               (stream : list ochange) (final_list : list (string * fmsg)).

(* ---------- tokens: ids by position in the table of ids written, values by their digits ---------- *)
Fixpoint index_of (s : string) (l : list string) (n : Z) : Z :=
  match l with [] => -1 | x :: r => if String.eqb x s then n else index_of s r (n + 1) end.
Definition enc_id (tbl : list string) (s : string) : Z := index_of s tbl 0.
Definition dec_id (tbl : list string) (z : Z) : string := nth (Z.to_nat z) tbl ""%string.
Definition enc_msg (m : fmsg) : Z := fa m * 1000000 + fb m * 1000 + fc m.
Definition dec_msg (t : Z) : fmsg := mkF (t / 1000000) ((t / 1000) mod 1000) (t mod 1000).
Definition small (m : fmsg) : bool :=
  (0 <=? fa m) && (fa m <? 1000) && (0 <=? fb m) && (fb m <? 1000) && (0 <=? fc m) && (fc m <? 1000).

Definition ev_change (tbl : list string) (e : cevent fmsg) : change :=
  mkChange (enc_id tbl (ce_id e)) (kind_code (ce_kind e)) (option_map enc_msg (ce_old e))
           (option_map enc_msg (ce_new e)) (ce_time e) false false.

Definition tok_pred (tbl : list string) (p : pred) : ipred :=
  fun i t => interp_pred p (dec_id tbl i) (option_map dec_msg t).

(* ---------- the lossy scenario ---------- *)
Fixpoint phase_events (s : cstate fmsg) (phases : list (list fop)) : list (list (cevent fmsg)) * cstate fmsg :=
  match phases with
  | [] => ([], s)
  | ph :: r =>
      let '(s1, outs) := run_c None None s ph in
      let '(rest, s2) := phase_events s1 r in
      (events_of outs :: rest, s2)
  end.

(* the plug is taken by the Pull goroutine (Recv) and held; everything else is published while
   nothing is received; then the reader drains *)
Definition phase_actions (tbl : list string) (evs : list (cevent fmsg)) : list action :=
  match evs with
  | [] => []
  | p :: r => Send (ev_change tbl p) :: Recv :: map (fun e => Send (ev_change tbl e)) r ++ repeat Recv (List.length r)
  end.

Record lossy_expect := mkLE {
  le_seeds : list (cchange fmsg); le_got : list change; le_tbl : list string;
  le_final : cstate fmsg; le_guard : bool }.

Definition lossy_model (before : list fop) (ro : fro) (phases : list (list fop)) : lossy_expect :=
  let '(s1, _) := run_c None None c_init before in
  let '(pevs, s2) := phase_events s1 phases in
  let tbl := map (@ce_id fmsg) (List.concat pevs) in
  let inc := option_map (tok_pred tbl) (r_include ro) in
  let acts := flat_map (phase_actions tbl) pevs in
  mkLE (if r_updates_only ro then [] else seeds fr_filter (to_ropts ro) (included (to_ropts ro) (c_items s1)))
       (lossy_stream inc acts) tbl s2
       ((* every phase has its plug, the plug passes include, values are in the token range *)
        forallb (fun evs => match evs with
                            | p :: _ => match x_include inc (ev_change tbl p) with Some _ => true | None => false end
                            | [] => false
                            end) pevs &&
        forallb (fun e => match ce_old e with Some m => small m | None => true end &&
                          match ce_new e with Some m => small m | None => true end) (List.concat pevs)).

Definition got_matches (tbl : list string) (ro : fro) (c : change) (o : ochange) : bool :=
  String.eqb (dec_id tbl (cid c)) (oc_id o) && (ctime c =? oc_time o) && (ckind c =? oc_kind o) &&
  ofm_eqb (option_map (fun t => filt fr_filter (to_ropts ro) (dec_msg t)) (cold c)) (oc_old o) &&
  ofm_eqb (option_map (fun t => filt fr_filter (to_ropts ro) (dec_msg t)) (cnew c)) (oc_new o) &&
  Bool.eqb (cseed c) (oc_seed o) && Bool.eqb (clast c) (oc_last o).

(* ---------- the booking predicate ---------- *)
Definition book_in (req booked : option period) : bool :=
  match req with None => true | Some _ => periods_intersect booked req end.
Definition book_in_ref (req booked : option period) : bool :=
  match req with None => true | Some _ => intersect_ref booked req end.

Definition book_expected (f : option period -> option period -> bool) (req : option period)
           (contents : list (string * fmsg * option period)) : list (string * fmsg) :=
  map (fun x => (fst (fst x), snd (fst x))) (filter (fun x => f req (snd x)) contents).

(* ---------- agreement with the model ---------- *)
Definition agrees (c : icase) : bool :=
  match c with
  | CaseRow ch pin pn pnil out => row_matches_model (ch, (pin, pn, pnil), out)
  | CaseLossy _ before ro phases stream final =>
      let e := lossy_model before ro phases in
      if le_guard e then
        let n := List.length (le_seeds e) in
        list_match cc_matches (le_seeds e) (firstn n stream) &&
        list_match (got_matches (le_tbl e) ro) (le_got e) (skipn n stream) &&
        list_eqb kv_eqb (c_list fr_filter (le_final e) (r_mask ro) (option_map interp_pred (r_include ro))) final
      else true
  | CaseBookList req store listed =>
      list_eqb Z.eqb (map fst (filter (fun kv => book_in req (snd kv)) store)) listed
  | CaseBookPull req contents stream final =>
      list_eqb kv_eqb (book_expected book_in req contents) final
  end.

(* ---------- the property on the observation ---------- *)
Definition mentions_only_matching (ro : fro) (stream : list ochange) : bool :=
  match r_mask ro, r_include ro with
  | None, Some p =>
      forallb (fun o => match oc_old o with Some m => interp_pred p (oc_id o) (Some m) | None => true end &&
                        match oc_new o with Some m => interp_pred p (oc_id o) (Some m) | None => true end) stream
  | _, _ => true
  end.

Definition C08x_ok (c : icase) : bool :=
  match c with
  | CaseRow ch pin pn pnil out => row_obeys_law (ch, (pin, pn, pnil), out)
  | CaseLossy _ before ro phases stream final =>
      (* the fold is the filtered listing; seeds first; the stream is an edit script of the filtered
         collection (ADD only of what the subscriber does not hold, UPDATE/REPLACE/REMOVE only of what
         it holds, carrying as old value what it holds); nothing delivered mentions a version the
         predicate rejects *)
      same_map (Pull.fold_view (map to_cc stream)) final &&
      seeds_then_updates false stream &&
      (r_updates_only ro || old_chain [] stream) &&
      mentions_only_matching ro stream
  | CaseBookList req store listed =>
      list_eqb Z.eqb (map fst (filter (fun kv => book_in_ref req (snd kv)) store)) listed
  | CaseBookPull req contents stream final =>
      let want := book_expected book_in_ref req contents in
      list_eqb kv_eqb want final && same_map (Pull.fold_view (map to_cc stream)) want
  end.

Definition judge08x (c : icase) : Z := verdict (agrees c) (C08x_ok c) None.
