(* C04 / C08: what a backpressured subscriber receives (Pull.v) relative to the writer's history
   (Spec.v).  For every message algebra, read mask, include predicate and history. *)
From SC Require Import Base.Prelude Resource.Impl Resource.Spec Resource.Pull Resource.ImplProofs Resource.SpecProofs.

Set Implicit Arguments.

Section Proofs.
  Variable M : Type.
  Variable m_eqb : M -> M -> bool.
  Variable m_empty : M.
  Variable writer : Type.
  Variable w_validate : writer -> option Z.
  Variable w_merge : writer -> M -> M -> M.
  Variable rmask : Type.
  Variable r_filter : rmask -> M -> M.
  Variable clock_at : Z -> Z.
  Variable str_ltb : string -> string -> bool.
  Variable idfun : option (string -> string).

  Hypothesis ltb_irrefl : forall a, str_ltb a a = false.
  Hypothesis ltb_trans : forall a b c, str_ltb a b = true -> str_ltb b c = true -> str_ltb a c = true.
  Hypothesis ltb_total : forall a b, str_ltb a b = false -> str_ltb b a = false -> a = b.

  Notation item := (item M).
  Notation cevent := (cevent M).
  Notation cstate := (cstate M).
  Notation ropts := (ropts M rmask).
  Notation cchange := (cchange M).
  Notation spec_step := (spec_step m_eqb m_empty w_validate w_merge r_filter clock_at str_ltb idfun).
  Notation sorted := (sorted str_ltb).
  Notation filt := (filt r_filter).

  (* ---------- C08: the decision table of include ---------- *)
  Definition present (v : option M) : bool := match v with Some _ => true | None => false end.
  Definition incl (f : string -> option M -> bool) (id : string) (v : option M) : bool := present v && f id v.

  Theorem include_decision_table f (c : cchange) :
    include_gen false false (Some f) c =
    match incl f (cc_id c) (cc_old c), incl f (cc_id c) (cc_new c) with
    | true, true => Some c                                                   (* stays in: delivered as it is *)
    | false, false => None                                                   (* stays out: never delivered *)
    | false, true => Some (mkCC (cc_id c) (cc_time c) KAdd None (cc_new c) (cc_seed c) false)     (* starts matching *)
    | true, false => Some (mkCC (cc_id c) (cc_time c) KRemove (cc_old c) None false false)        (* stops matching *)
    end.
  Proof.
    unfold include_gen, incl, present. simpl.
    destruct (cc_old c), (cc_new c); simpl;
      repeat match goal with |- context [f ?a ?b] => destruct (f a b) end; reflexivity.
  Qed.

  (* the pinned commit's table had the two "unchanged" rows swapped *)
  Theorem include_v0_refuted :
    exists (m : M -> bool) (c : M -> cchange), forall x : M,
      include_gen true false (Some (fun _ v => match v with Some _ => true | None => false end))
                  (mkCC "a" 0 KUpdate (Some x) (Some x) false false) = None.
  Proof. exists (fun _ => true), (fun x => mkCC "a" 0 KUpdate (Some x) (Some x) false false). intros x. reflexivity. Qed.

  (* ---------- an event describes a transition of the contents ---------- *)
  Definition body_at (id : string) (l : list (string * item)) : option M := option_map (@it_body M) (lookup id l).

  Record describes (e : cevent) (l l' : list (string * item)) : Prop := {
    d_old : ce_old e = body_at (ce_id e) l;
    d_new : ce_new e = body_at (ce_id e) l';
    d_frame : forall id', id' <> ce_id e -> lookup id' l' = lookup id' l;
    d_kind : (ce_kind e = KRemove -> ce_new e = None) /\ (ce_kind e <> KRemove -> ce_new e <> None);
    d_time : match lookup (ce_id e) l' with Some it => ce_time e = it_time it | None => True end
  }.

  (* every step either publishes nothing and leaves the contents alone, or publishes exactly one
     event that describes the transition *)
  Theorem step_events s op s' out ev :
    spec_step s op = (s', out, ev) -> sorted (c_items s) ->
    (ev = [] /\ c_items s' = c_items s) \/
    (exists e, ev = [e] /\ describes e (c_items s) (c_items s') /\ failed out = false).
  Proof.
    intros H Hs.
    destruct op as [id mask|mask inc|id msg o cands|id msg o cands|id o]; simpl in H.
    - inversion H. left. auto.
    - inversion H. left. auto.
    - destruct (Spec.spec_c_update m_eqb m_empty w_validate w_merge clock_at str_ltb idfun s id msg o cands) as [[[s1 r] ev1] cb] eqn:E.
      inversion H. subst. apply update_outcomes in E.
      destruct E as [(code & -> & -> & ->)|(id1 & gen & nv & t & -> & _ & Hl & Hf & _ & -> & _ & _ & _)]; [left; auto|].
      right. eexists. split; [reflexivity|]. split; [|reflexivity].
      constructor; simpl; unfold body_at.
      + reflexivity.
      + rewrite Hl. reflexivity.
      + exact Hf.
      + split; [destruct (lookup id1 (c_items s)); discriminate|intros _; discriminate].
      + rewrite Hl. reflexivity.
    - destruct (Spec.spec_c_update m_eqb m_empty w_validate w_merge clock_at str_ltb idfun s id msg (as_add o) cands) as [[[s1 r] ev1] cb] eqn:E.
      inversion H. subst. apply update_outcomes in E.
      destruct E as [(code & -> & -> & ->)|(id1 & gen & nv & t & -> & _ & Hl & Hf & _ & -> & _ & _ & _)]; [left; auto|].
      right. eexists. split; [reflexivity|]. split; [|reflexivity].
      constructor; simpl; unfold body_at.
      + reflexivity.
      + rewrite Hl. reflexivity.
      + exact Hf.
      + split; [destruct (lookup id1 (c_items s)); discriminate|intros _; discriminate].
      + rewrite Hl. reflexivity.
    - destruct (Spec.spec_c_delete m_eqb clock_at idfun s id o) as [[[s1 r] e] ev1] eqn:E.
      inversion H. subst. apply delete_outcomes in E. simpl in E.
      destruct E as [(_ & -> & _ & -> & _)|[(it & c & _ & _ & -> & -> & _)|(it & t & L & -> & _ & E & _ & -> & _)]]; [left; auto|left; auto|].
      right. eexists. split; [reflexivity|]. split; [|reflexivity].
      constructor; simpl; unfold body_at.
      + rewrite L. reflexivity.
      + rewrite E. rewrite (lookup_remove_same str_ltb ltb_irrefl ltb_trans); auto.
      + intros id' Hne. rewrite E. apply lookup_remove_other. exact Hne.
      + split; [reflexivity|intros C; exfalso; apply C; reflexivity].
      + rewrite E. rewrite (lookup_remove_same str_ltb ltb_irrefl ltb_trans); auto.
  Qed.

  (* C04: one event per successful write, none for a failed one *)
  Corollary failed_step_no_event s op s' out ev :
    spec_step s op = (s', out, ev) -> failed out = true -> ev = [].
  Proof. intros H F. eapply failed_step_is_noop in H; eauto. tauto. Qed.

  (* ---------- views ---------- *)
  Fixpoint vlookup (id : string) (l : list (string * M)) : option M :=
    match l with [] => None | (k, v) :: r => if String.eqb k id then Some v else vlookup id r end.

  Lemma vlookup_set_same id v (l : list (string * M)) : vlookup id (view_set id v l) = Some v.
  Proof.
    induction l as [|[k x] r IH]; simpl.
    - rewrite String.eqb_refl. reflexivity.
    - destruct (String.eqb k id) eqn:E; simpl; [rewrite String.eqb_refl; reflexivity|rewrite E; exact IH].
  Qed.
  Lemma vlookup_set_other id id' v (l : list (string * M)) : id' <> id -> vlookup id' (view_set id v l) = vlookup id' l.
  Proof.
    intros Hne. induction l as [|[k x] r IH]; simpl.
    - destruct (String.eqb_spec id id'); [congruence|reflexivity].
    - destruct (String.eqb_spec k id) as [->|Hk]; simpl.
      + destruct (String.eqb_spec id id'); [congruence|reflexivity].
      + destruct (String.eqb k id'); [reflexivity|exact IH].
  Qed.
  Lemma vlookup_del_other id id' (l : list (string * M)) : id' <> id -> vlookup id' (view_del id l) = vlookup id' l.
  Proof.
    intros Hne. induction l as [|[k x] r IH]; simpl; [reflexivity|].
    destruct (String.eqb_spec k id) as [->|Hk]; simpl.
    - destruct (String.eqb_spec id id'); [congruence|reflexivity].
    - destruct (String.eqb k id'); [reflexivity|exact IH].
  Qed.
  Lemma vlookup_notin id (l : list (string * M)) : ~ In id (map fst l) -> vlookup id l = None.
  Proof.
    induction l as [|[k x] r IH]; simpl; [reflexivity|]. intros H.
    destruct (String.eqb_spec k id) as [->|Hk]; [exfalso; apply H; left; reflexivity|].
    apply IH. intros C. apply H. right. exact C.
  Qed.
  Lemma view_del_keys id (l : list (string * M)) k : In k (map fst (view_del id l)) -> In k (map fst l).
  Proof.
    induction l as [|[k2 x] r IH]; simpl; [auto|].
    destruct (String.eqb k2 id); simpl; [auto|]. intros [<-|H]; [left; reflexivity|right; apply IH; exact H].
  Qed.
  Lemma vlookup_del_same id (l : list (string * M)) : NoDup (map fst l) -> vlookup id (view_del id l) = None.
  Proof.
    induction l as [|[k x] r IH]; simpl; intros Hnd; [reflexivity|].
    inversion Hnd as [|? ? Hni Hnd']. subst.
    destruct (String.eqb_spec k id) as [->|Hk]; simpl.
    - apply vlookup_notin. exact Hni.
    - destruct (String.eqb_spec k id); [congruence|]. apply IH. exact Hnd'.
  Qed.
  Lemma view_set_keys id v (l : list (string * M)) k : In k (map fst (view_set id v l)) -> k = id \/ In k (map fst l).
  Proof.
    induction l as [|[k2 x] r IH]; simpl.
    - intros [<-|[]]. left. reflexivity.
    - destruct (String.eqb_spec k2 id) as [->|Hk]; simpl.
      + intros [<-|H]; [left; reflexivity|right; right; exact H].
      + intros [<-|H]; [right; left; reflexivity|]. destruct (IH H) as [->|H']; [left; reflexivity|right; right; exact H'].
  Qed.
  Lemma view_set_nodup id v (l : list (string * M)) : NoDup (map fst l) -> NoDup (map fst (view_set id v l)).
  Proof.
    induction l as [|[k x] r IH]; simpl; intros Hnd.
    - constructor; [intros []|constructor].
    - inversion Hnd as [|? ? Hni Hnd']. subst.
      destruct (String.eqb_spec k id) as [->|Hk]; simpl.
      + constructor; assumption.
      + constructor; [|apply IH; exact Hnd'].
        intros C. apply view_set_keys in C. destruct C as [->|C]; [congruence|contradiction].
  Qed.
  Lemma view_del_nodup id (l : list (string * M)) : NoDup (map fst l) -> NoDup (map fst (view_del id l)).
  Proof.
    induction l as [|[k x] r IH]; simpl; intros Hnd; [constructor|].
    inversion Hnd as [|? ? Hni Hnd']. subst.
    destruct (String.eqb k id); simpl; [exact Hnd'|].
    constructor; [|apply IH; exact Hnd']. intros C. apply Hni. apply view_del_keys in C. exact C.
  Qed.

  (* ---------- C08: folding the filtered stream yields the filtered collection ---------- *)
  Section Fold.
    Variable ro : ropts.

    Definition pred_of : string -> option M -> bool :=
      match ro_include ro with Some f => f | None => fun _ _ => true end.

    (* what List with the same read options shows for id *)
    Definition shown (id : string) (l : list (string * item)) : option M :=
      match lookup id l with
      | Some it => if pred_of id (Some (it_body it)) then Some (filt ro (it_body it)) else None
      | None => None
      end.

    Definition view_inv (view : list (string * M)) (l : list (string * item)) : Prop :=
      NoDup (map fst view) /\ forall id, vlookup id view = shown id l.

    Lemma pull_include_eq (c : cchange) :
      include_gen false false (ro_include ro) c =
      match ro_include ro with
      | None => Some c
      | Some f => include_gen false false (Some f) c
      end.
    Proof. destruct (ro_include ro); reflexivity. Qed.

    (* one described event keeps the invariant (no equivalence configured) *)
    Lemma forward_one_keeps_inv (e : cevent) l l' view :
      describes e l l' -> view_inv view l ->
      view_inv (fold_left (@apply_change M) (c_forward_gen r_filter None false false ro [e]) view) l'.
    Proof.
      intros D [Hnd Hv].
      assert (Hother : forall v', (forall id', id' <> ce_id e -> vlookup id' v' = vlookup id' view) ->
                                  forall id', id' <> ce_id e -> vlookup id' v' = shown id' l').
      { intros v' Hsame id' Hne. rewrite Hsame by exact Hne. rewrite Hv. unfold shown.
        rewrite (d_frame D) by exact Hne. reflexivity. }
      simpl c_forward_gen. unfold of_event.
      destruct (ro_include ro) as [f|] eqn:RI.
      - rewrite include_decision_table. simpl cc_id. simpl cc_old. simpl cc_new.
        rewrite (d_old D), (d_new D). unfold incl, present, body_at.
        generalize (Hv (ce_id e)). unfold shown at 1. unfold pred_of at 1. rewrite RI.
        destruct (lookup (ce_id e) l) as [it|] eqn:L; destruct (lookup (ce_id e) l') as [it'|] eqn:L'; simpl option_map; simpl andb; intros Hid.
        + destruct (f (ce_id e) (Some (it_body it))) eqn:FO, (f (ce_id e) (Some (it_body it'))) eqn:FN; simpl.
          * (* stays in *)
            assert (K : ce_kind e <> KRemove).
            { intros C. apply (proj1 (d_kind D)) in C. rewrite (d_new D) in C. unfold body_at in C. rewrite L' in C. discriminate. }
            unfold apply_change. simpl. destruct (ce_kind e) eqn:EK; try congruence;
              (split; [apply view_set_nodup; exact Hnd|]);
              intros id'; (destruct (String.eqb_spec id' (ce_id e)) as [->|Hne];
                [rewrite vlookup_set_same; unfold shown, pred_of; rewrite RI, L', FN; reflexivity
                |apply Hother; [intros; apply vlookup_set_other; assumption|exact Hne]]).
          * (* stops matching *)
            unfold apply_change. simpl.
            split; [apply view_del_nodup; exact Hnd|].
            intros id'. destruct (String.eqb_spec id' (ce_id e)) as [->|Hne].
            -- rewrite vlookup_del_same by exact Hnd. unfold shown, pred_of. rewrite RI, L', FN. reflexivity.
            -- apply Hother; [intros; apply vlookup_del_other; assumption|exact Hne].
          * (* starts matching *)
            unfold apply_change. simpl.
            split; [apply view_set_nodup; exact Hnd|].
            intros id'. destruct (String.eqb_spec id' (ce_id e)) as [->|Hne].
            -- rewrite vlookup_set_same. unfold shown, pred_of. rewrite RI, L', FN. reflexivity.
            -- apply Hother; [intros; apply vlookup_set_other; assumption|exact Hne].
          * (* stays out *)
            simpl. split; [exact Hnd|].
            intros id'. destruct (String.eqb_spec id' (ce_id e)) as [->|Hne].
            -- rewrite Hid. unfold shown, pred_of. rewrite RI, L', FN. reflexivity.
            -- apply Hother; [intros; reflexivity|exact Hne].
        + (* removed *)
          destruct (f (ce_id e) (Some (it_body it))) eqn:FO; simpl.
          * unfold apply_change. simpl.
            split; [apply view_del_nodup; exact Hnd|].
            intros id'. destruct (String.eqb_spec id' (ce_id e)) as [->|Hne].
            -- rewrite vlookup_del_same by exact Hnd. unfold shown. rewrite L'. reflexivity.
            -- apply Hother; [intros; apply vlookup_del_other; assumption|exact Hne].
          * split; [exact Hnd|].
            intros id'. destruct (String.eqb_spec id' (ce_id e)) as [->|Hne].
            -- rewrite Hid. unfold shown. rewrite L'. reflexivity.
            -- apply Hother; [intros; reflexivity|exact Hne].
        + (* added *)
          destruct (f (ce_id e) (Some (it_body it'))) eqn:FN; simpl.
          * unfold apply_change. simpl.
            split; [apply view_set_nodup; exact Hnd|].
            intros id'. destruct (String.eqb_spec id' (ce_id e)) as [->|Hne].
            -- rewrite vlookup_set_same. unfold shown, pred_of. rewrite RI, L', FN. reflexivity.
            -- apply Hother; [intros; apply vlookup_set_other; assumption|exact Hne].
          * split; [exact Hnd|].
            intros id'. destruct (String.eqb_spec id' (ce_id e)) as [->|Hne].
            -- rewrite Hid. unfold shown, pred_of. rewrite RI, L', FN. reflexivity.
            -- apply Hother; [intros; reflexivity|exact Hne].
        + (* absent before and after *)
          simpl. split; [exact Hnd|].
          intros id'. destruct (String.eqb_spec id' (ce_id e)) as [->|Hne].
          -- rewrite Hid. unfold shown. rewrite L'. reflexivity.
          -- apply Hother; [intros; reflexivity|exact Hne].
      - (* no include predicate: every event is forwarded as it is *)
        simpl. unfold apply_change. simpl.
        destruct (lookup (ce_id e) l') as [it'|] eqn:L'.
        + assert (K : ce_kind e <> KRemove).
          { intros C. apply (proj1 (d_kind D)) in C. rewrite (d_new D) in C. unfold body_at in C. rewrite L' in C. discriminate. }
          rewrite (d_new D). unfold body_at. rewrite L'. simpl.
          destruct (ce_kind e) eqn:EK; try congruence;
            (split; [apply view_set_nodup; exact Hnd|]);
            intros id'; (destruct (String.eqb_spec id' (ce_id e)) as [->|Hne];
              [rewrite vlookup_set_same; unfold shown, pred_of; rewrite RI, L'; reflexivity
              |apply Hother; [intros; apply vlookup_set_other; assumption|exact Hne]]).
        + assert (N : ce_new e = None) by (rewrite (d_new D); unfold body_at; rewrite L'; reflexivity).
          assert (K : ce_kind e = KRemove).
          { destruct (ce_kind e) eqn:EK; try reflexivity; exfalso;
              apply (proj2 (d_kind D)); try exact N; rewrite EK; discriminate. }
          rewrite K. split; [apply view_del_nodup; exact Hnd|].
          intros id'. destruct (String.eqb_spec id' (ce_id e)) as [->|Hne].
          * rewrite vlookup_del_same by exact Hnd. unfold shown. rewrite L'. reflexivity.
          * apply Hother; [intros; apply vlookup_del_other; assumption|exact Hne].
    Qed.

    Lemma c_forward_app evs1 evs2 :
      c_forward_gen r_filter None false false ro (evs1 ++ evs2) =
      c_forward_gen r_filter None false false ro evs1 ++ c_forward_gen r_filter None false false ro evs2.
    Proof.
      induction evs1 as [|e r IH]; simpl; [reflexivity|].
      destruct (include_gen false false (ro_include ro) (of_event e)); [|exact IH].
      simpl. rewrite IH. reflexivity.
    Qed.

    (* all histories: the invariant holds after the events of any run *)
    Theorem run_keeps_view ops : forall s s' outs view,
      run spec_step s ops = (s', outs) -> sorted (c_items s) -> view_inv view (c_items s) ->
      view_inv (fold_left (@apply_change M) (c_forward_gen r_filter None false false ro (flat_map snd outs)) view)
               (c_items s').
    Proof.
      induction ops as [|op r IH]; intros s s' outs view; simpl.
      - intros H. inversion H. subst. simpl. auto.
      - destruct (spec_step s op) as [[s1 out] ev] eqn:E.
        destruct (run spec_step s1 r) as [s2 outs2] eqn:E2.
        intros H Hs Hv. inversion H. subst. simpl.
        rewrite c_forward_app, fold_left_app.
        assert (Hs1 : sorted (c_items s1)) by (eapply step_keeps_sorted; eauto).
        apply (IH _ _ _ _ E2 Hs1).
        destruct (step_events _ _ E Hs) as [[-> Heq]|(e & -> & D & _)].
        + simpl. rewrite Heq. exact Hv.
        + eapply forward_one_keeps_inv; eassumption.
    Qed.

    (* the same for ANY chain of events each describing one transition of the contents as the
       subscriber knows them — in particular the merged ADD/UPDATE/REMOVE/REPLACE events of lossy
       delivery, which C09's invariant shows to be valid against the receiver's own view *)
    Inductive chain : list (string * item) -> list cevent -> list (string * item) -> Prop :=
    | chain_nil l : chain l [] l
    | chain_cons l e l1 evs l2 : describes e l l1 -> chain l1 evs l2 -> chain l (e :: evs) l2.

    Theorem chain_keeps_view evs : forall l l' view,
      chain l evs l' -> view_inv view l ->
      view_inv (fold_left (@apply_change M) (c_forward_gen r_filter None false false ro evs) view) l'.
    Proof.
      induction evs as [|e r IH]; intros l l' view C Hv; inversion C; subst.
      - simpl. exact Hv.
      - change (e :: r) with ([e] ++ r). rewrite c_forward_app, fold_left_app.
        eapply IH; [eassumption|]. eapply forward_one_keeps_inv; eassumption.
    Qed.

    (* the seed establishes the invariant *)
    Lemma seeds_fold (l : list (string * item)) : forall view,
      fold_left (@apply_change M) (seeds r_filter ro l) view =
      fold_left (fun v p => view_set (fst p) (filt ro (it_body (snd p))) v) l view.
    Proof.
      induction l as [|[k it] r IH]; intros view; simpl; [reflexivity|]. apply IH.
    Qed.

    Lemma seed_view_inv (l : list (string * item)) :
      sorted l ->
      view_inv (fold_left (@apply_change M) (seeds r_filter ro (included ro l)) []) l.
    Proof.
      intros Hs. rewrite seeds_fold.
      (* generalise: processing a suffix [r] of the list, with the invariant for the prefix *)
      assert (G : forall (done r : list (string * item)) view,
                 sorted (done ++ r) ->
                 NoDup (map fst view) ->
                 (forall id, vlookup id view = shown id done) ->
                 let view' := fold_left (fun v p => view_set (fst p) (filt ro (it_body (snd p))) v) (included ro r) view in
                 NoDup (map fst view') /\ forall id, vlookup id view' = shown id (done ++ r)).
      { intros done r. revert done. induction r as [|[k it] r IH]; intros done view Hsd Hnd Hv; simpl.
        - rewrite app_nil_r. auto.
        - assert (Hk : lookup k done = None /\ lookup k r = None).
          { clear - Hsd ltb_irrefl ltb_trans. induction done as [|[k2 x2] d IHd]; simpl in *.
            - apply (sorted_cons str_ltb ltb_trans) in Hsd. destruct Hsd as [Hab _].
              split; [reflexivity|]. apply (lookup_above ltb_irrefl). exact Hab.
            - apply (sorted_cons str_ltb ltb_trans) in Hsd. destruct Hsd as [Hab Hsd].
              destruct (IHd Hsd) as [A B]. split; [|exact B].
              destruct (String.eqb_spec k2 k) as [->|Hne]; [|exact A].
              exfalso. assert (In k (keys (d ++ (k, it) :: r))).
              { unfold keys. rewrite map_app. apply in_or_app. right. left. reflexivity. }
              apply Hab in H. rewrite ltb_irrefl in H. discriminate. }
          destruct Hk as [Hkd Hkr].
          replace (done ++ (k, it) :: r) with ((done ++ [(k, it)]) ++ r) in * by (rewrite <- app_assoc; reflexivity).
          assert (Hshown : forall id, shown id (done ++ [(k, it)]) =
                                      if String.eqb k id then (if pred_of k (Some (it_body it)) then Some (filt ro (it_body it)) else None)
                                      else shown id done).
          { intros id. unfold shown.
            assert (Hl : lookup id (done ++ [(k, it)]) = match lookup id done with Some x => Some x | None => if String.eqb k id then Some it else None end).
            { clear. induction done as [|[k2 x2] d IHd]; simpl; [destruct (String.eqb k id); reflexivity|].
              destruct (String.eqb k2 id); [reflexivity|exact IHd]. }
            rewrite Hl. destruct (String.eqb_spec k id) as [->|Hne].
            - rewrite Hkd. reflexivity.
            - destruct (lookup id done); reflexivity. }
          unfold included at 1. simpl filter. fold (included ro r).
          unfold pred_of in Hshown.
          destruct (match ro_include ro with Some f => f k (Some (it_body it)) | None => true end) eqn:P.
          + simpl. apply IH; [exact Hsd|apply view_set_nodup; exact Hnd|].
            intros id. rewrite Hshown. destruct (String.eqb_spec k id) as [->|Hne].
            * rewrite vlookup_set_same. destruct (ro_include ro); simpl in *; rewrite ?P; try reflexivity; try discriminate.
            * rewrite vlookup_set_other by congruence. apply Hv.
          + apply IH; [exact Hsd|exact Hnd|].
            intros id. rewrite Hshown. destruct (String.eqb_spec k id) as [->|Hne].
            * rewrite Hv. unfold shown. rewrite Hkd. destruct (ro_include ro); simpl in *; rewrite ?P; try reflexivity; try discriminate.
            * apply Hv. }
      specialize (G [] l [] Hs). simpl in G. apply G; [constructor|reflexivity].
    Qed.

    (* what List(mask, include) shows, as a map *)
    Lemma list_shows s id :
      sorted (c_items s) ->
      vlookup id (c_list r_filter s (ro_mask ro) (ro_include ro)) = shown id (c_items s).
    Proof.
      unfold c_list, shown, pred_of, Pull.filt. generalize (c_items s). intros l Hs.
      induction l as [|[k it] r IH]; simpl; [reflexivity|].
      apply (sorted_cons str_ltb ltb_trans) in Hs. destruct Hs as [Hab Hs].
      destruct (String.eqb_spec k id) as [->|Hne].
      - destruct (match ro_include ro with Some f => f id (Some (it_body it)) | None => true end) eqn:P; simpl.
        + rewrite String.eqb_refl. destruct (ro_include ro); simpl in *; rewrite ?P; try reflexivity; try discriminate.
        + (* excluded: nothing later has the same id *)
          assert (Hn : lookup id r = None) by (apply (lookup_above ltb_irrefl); exact Hab).
          rewrite IH by exact Hs. rewrite Hn. destruct (ro_include ro); simpl in *; rewrite ?P; try reflexivity; try discriminate.
      - destruct (match ro_include ro with Some f => f k (Some (it_body it)) | None => true end); simpl.
        + destruct (String.eqb_spec k id); [congruence|]. apply IH. exact Hs.
        + apply IH. exact Hs.
    Qed.

    (* C08 (and C04's fold clause): for every history from any sorted contents, with any read
       mask and any include predicate, no equivalence configured, folding what a backpressured
       subscriber receives gives exactly List with the same options. *)
    Theorem filtered_fold_is_filtered_list ops s s' outs :
      ro_updates_only ro = false -> sorted (c_items s) ->
      run spec_step s ops = (s', outs) ->
      forall id,
        vlookup id (fold_view (pull_collection r_filter None s ro (flat_map snd outs))) =
        vlookup id (c_list r_filter s' (ro_mask ro) (ro_include ro)).
    Proof.
      intros UO Hs Hrun id.
      unfold fold_view, pull_collection, pull_collection_gen. rewrite UO. rewrite fold_left_app.
      pose proof (seed_view_inv (c_items s) Hs) as Hseed.
      pose proof (@run_keeps_view ops s s' outs _ Hrun Hs Hseed) as [_ Hv].
      rewrite Hv. symmetry. apply list_shows.
      eapply run_keeps_sorted; eauto.
    Qed.
  End Fold.

  (* ---------- C04: the stream is an exact edit script ---------- *)
  Lemma forward_exact (ro : ropts) evs :
    ro_include ro = None ->
    c_forward_gen r_filter None false false ro evs = map (fun e => cc_filter r_filter ro (of_event e)) evs.
  Proof.
    intros RI. induction evs as [|e r IH]; simpl; [reflexivity|]. rewrite RI. simpl. rewrite IH. reflexivity.
  Qed.

  Theorem stream_is_seed_then_script (ro : ropts) s evs :
    ro_include ro = None ->
    pull_collection r_filter None s ro evs =
    (if ro_updates_only ro then [] else seeds r_filter ro (c_items s)) ++
    map (fun e => cc_filter r_filter ro (of_event e)) evs.
  Proof.
    intros RI. unfold pull_collection, pull_collection_gen. rewrite forward_exact by exact RI.
    unfold included. rewrite RI.
    assert (E : filter (fun _ : string * item => true) (c_items s) = c_items s).
    { induction (c_items s) as [|x r IH]; simpl; [reflexivity|rewrite IH; reflexivity]. }
    rewrite E. reflexivity.
  Qed.

  (* seeds: one ADD per item in id order, flagged seed, the final one flagged last-seed, carrying
     the stored change time *)
  Theorem seeds_shape (ro : ropts) (l : list (string * item)) :
    map (@cc_id M) (seeds r_filter ro l) = map fst l /\
    Forall (fun c => cc_seed c = true /\ cc_kind c = KAdd /\ cc_old c = None) (seeds r_filter ro l) /\
    map (@cc_time M) (seeds r_filter ro l) = map (fun p => it_time (snd p)) l /\
    map (@cc_new M) (seeds r_filter ro l) = map (fun p => Some (filt ro (it_body (snd p)))) l.
  Proof.
    induction l as [|[k it] r (I1 & I2 & I3 & I4)]; simpl.
    - repeat split; constructor.
    - repeat split; simpl.
      + rewrite I1. reflexivity.
      + constructor; [auto|exact I2].
      + rewrite I3. reflexivity.
      + rewrite I4. reflexivity.
  Qed.

  (* exactly the final seed is flagged last-seed *)
  Theorem seeds_last_flag (ro : ropts) (l : list (string * item)) d :
    l <> [] ->
    cc_last_seed (last (seeds r_filter ro l) d) = true /\
    Forall (fun c => cc_last_seed c = false) (removelast (seeds r_filter ro l)).
  Proof.
    induction l as [|[k it] r IH]; [congruence|]. intros _.
    destruct r as [|p r'].
    - simpl. split; [reflexivity|constructor].
    - destruct IH as [IH1 IH2]; [discriminate|].
      change (seeds r_filter ro ((k, it) :: p :: r')) with
        (mkCC k (it_time it) KAdd None (Some (filt ro (it_body it))) true false :: seeds r_filter ro (p :: r')).
      assert (Hne : seeds r_filter ro (p :: r') <> []) by (destruct p; simpl; discriminate).
      split.
      + destruct (seeds r_filter ro (p :: r')) eqn:E; [congruence|]. exact IH1.
      + destruct (seeds r_filter ro (p :: r')) eqn:E; [congruence|]. constructor; [reflexivity|exact IH2].
  Qed.

  Theorem updates_only_no_seed (ro : ropts) s evs c :
    ro_updates_only ro = true -> In c (pull_collection r_filter None s ro evs) -> cc_seed c = false.
  Proof.
    intros UO. unfold pull_collection, pull_collection_gen. rewrite UO. simpl.
    induction evs as [|e r IH]; simpl; [intros []|].
    destruct (include_gen false false (ro_include ro) (of_event e)) as [c'|] eqn:E; [|exact IH].
    simpl. intros [<-|H]; [|apply IH; exact H].
    unfold include_gen in E. destruct (ro_include ro) as [f|].
    - repeat match type of E with (if ?x then _ else _) = _ => destruct x end; inversion E; reflexivity.
    - inversion E. reflexivity.
  Qed.

  (* ---------- PullID ---------- *)
  Definition for_id (id : string) (c : cchange) : bool := String.eqb (cc_id c) id.
  Definition ends (c : cchange) : bool :=
    match cc_kind c, cc_new c with KRemove, _ => true | _, None => true | _, Some _ => false end.

  (* changes to other items are invisible to a single-item subscription *)
  Theorem pull_id_ignores_other_ids id (cs : list cchange) :
    pull_id_from id cs = pull_id_from id (filter (for_id id) cs).
  Proof.
    induction cs as [|c r IH]; simpl; [reflexivity|]. unfold for_id at 1.
    destruct (String.eqb (cc_id c) id) eqn:E; simpl.
    - rewrite E. simpl. destruct (cc_kind c); destruct (cc_new c); try reflexivity; rewrite IH; reflexivity.
    - exact IH.
  Qed.

  (* it ends (its channel is closed) exactly when a change to the item removes it, and everything
     delivered precedes that change *)
  Theorem pull_id_closed_iff id (cs : list cchange) :
    snd (pull_id_from id cs) = existsb (fun c => for_id id c && ends c) cs.
  Proof.
    induction cs as [|c r IH]; simpl; [reflexivity|]. unfold for_id, ends.
    destruct (String.eqb (cc_id c) id); simpl; [|exact IH].
    destruct (cc_kind c); destruct (cc_new c); simpl; try reflexivity;
      destruct (pull_id_from id r); simpl in *; exact IH.
  Qed.

  Theorem pull_id_delivers_values id (cs : list cchange) :
    (List.length (fst (pull_id_from id cs)) <= List.length (filter (for_id id) cs))%nat /\
    Forall (fun v => exists c, In c cs /\ for_id id c = true /\ cc_new c = Some (vc_value v) /\ cc_time c = vc_time v)
           (fst (pull_id_from id cs)).
  Proof.
    induction cs as [|c r [IH1 IH2]]; simpl; [split; [lia|constructor]|]. unfold for_id at 1 3.
    destruct (String.eqb (cc_id c) id) eqn:E; simpl.
    - destruct (cc_kind c) eqn:K; destruct (cc_new c) eqn:N; simpl; try (split; [lia|constructor]);
        destruct (pull_id_from id r) as [vs cl]; simpl in *;
        (split; [lia|]); (constructor;
          [exists c; repeat split; auto; unfold for_id; exact E
          |eapply Forall_impl; [|exact IH2]; intros v (c' & H1 & H2 & H3 & H4); exists c'; auto]).
    - split; [exact IH1|]. eapply Forall_impl; [|exact IH2].
      intros v (c' & H1 & H2 & H3 & H4). exists c'. auto.
  Qed.

  (* ---------- Value.Pull and the equivalence (C04 / C16 resource clause) ---------- *)
  Notation vevent := (vevent M).
  Notation vchange := (vchange M).

  (* no equivalence: the seed (if any) followed by one change per published event *)
  Theorem value_stream_exact (ro : ropts) (s : vstate M) evs :
    pull_value r_filter None s ro evs =
    (match (if ro_updates_only ro then None else v_val s) with
     | Some v => [mkVC (filt ro v) (v_time s) true true]
     | None => []
     end) ++ map (fun e => mkVC (filt ro (ve_value e)) (ve_time e) false false) evs.
  Proof.
    unfold pull_value, pull_value_gen. f_equal.
    generalize (option_map (filt ro) (if ro_updates_only ro then None else v_val s)).
    induction evs as [|e r IH]; intros last; simpl; [reflexivity|]. rewrite IH. reflexivity.
  Qed.

  (* with an equivalence: a change is delivered exactly when it is not equivalent to the value
     the subscriber holds (the last delivered one, initially the seed as sent) *)
  Fixpoint holds (cmp : option M -> option M -> bool) (ro : ropts) (last : option M) (evs : list vevent) : option M :=
    match evs with
    | [] => last
    | e :: r => if cmp last (Some (filt ro (ve_value e))) then holds cmp ro last r
                else holds cmp ro (Some (filt ro (ve_value e))) r
    end.

  Theorem equivalence_delivery cmp (ro : ropts) evs : forall last e,
    let v := filt ro (ve_value e) in
    v_forward r_filter (Some cmp) ro last (evs ++ [e]) =
    v_forward r_filter (Some cmp) ro last evs ++
    (if cmp (holds cmp ro last evs) (Some v) then [] else [mkVC v (ve_time e) false false]).
  Proof.
    induction evs as [|x r IH]; intros last e; simpl.
    - destruct (cmp last (Some (filt ro (ve_value e)))); reflexivity.
    - destruct (cmp last (Some (filt ro (ve_value x)))); simpl; rewrite IH; reflexivity.
  Qed.
End Proofs.
