(* Collection.Pull with an equivalence, as repaired (Resource/Pull.v, held map): for every history of one
   evolving collection, every read option and every comparer, a change is delivered exactly when its
   new value is NOT equivalent to the value the subscriber holds for that id (the new value of the
   last change delivered for it, initially the seed); the code before the repair (old against new of
   each change) does the same only for comparers that are equivalence relations, and is refuted for
   tolerances (JudgeProofs.drift_witness). *)
From SC Require Import Base.Prelude Resource.Impl Resource.Pull.

Set Implicit Arguments.

Section Proofs.
  Variable M : Type.
  Variable rmask : Type.
  Variable r_filter : rmask -> M -> M.

  Notation heldmap := (heldmap M).
  Notation view := (view M).

  (* ---- the Go map ---- *)
  Lemma hget_hset_same id v (h : heldmap) : hget id (hset id v h) = Some v.
  Proof.
    induction h as [|[k x] r IH]; cbn [hset hget].
    - rewrite String.eqb_refl. reflexivity.
    - destruct (String.eqb k id) eqn:E; cbn [hget]; rewrite ?String.eqb_refl, ?E; auto.
  Qed.

  Lemma hget_hset_other q id v (h : heldmap) : String.eqb q id = false -> hget q (hset id v h) = hget q h.
  Proof.
    intros N. induction h as [|[k x] r IH]; cbn [hset hget].
    - rewrite String.eqb_sym, N. reflexivity.
    - destruct (String.eqb k id) eqn:E; cbn [hget].
      + apply String.eqb_eq in E. subst k. rewrite (String.eqb_sym id q), N. reflexivity.
      + destruct (String.eqb k q); auto.
  Qed.

  Lemma hget_hdel_same id (h : heldmap) : hget id (hdel id h) = None.
  Proof.
    induction h as [|[k x] r IH]; cbn [hdel hget]; [reflexivity|].
    destruct (String.eqb k id) eqn:E; cbn [hget]; rewrite ?E; auto.
  Qed.

  Lemma hget_hdel_other q id (h : heldmap) : String.eqb q id = false -> hget q (hdel id h) = hget q h.
  Proof.
    intros N. induction h as [|[k x] r IH]; cbn [hdel hget]; [reflexivity|].
    destruct (String.eqb k id) eqn:E; cbn [hget].
    - apply String.eqb_eq in E. subst k. rewrite (String.eqb_sym id q), N. exact IH.
    - destruct (String.eqb k q); auto.
  Qed.

  (* ---- the loop is include+filter followed by the equivalence step ---- *)
  Lemma c_forward_held_split : forall equiv (ro : ropts M rmask) evs h,
    c_forward_held r_filter equiv ro h evs =
    match equiv with
    | None => offered r_filter ro evs
    | Some cmp => held_filter cmp h (offered r_filter ro evs)
    end.
  Proof.
    intros equiv ro evs. induction evs as [|e r IH]; intros h; cbn [c_forward_held offered flat_map].
    - destruct equiv; reflexivity.
    - fold (offered r_filter ro r).
      destruct (include_gen false false (ro_include ro) (of_event e)) as [c|]; cbn [app].
      + destruct equiv as [cmp|].
        * cbn [held_filter]. destruct (held_step cmp h (cc_filter r_filter ro c)) as [send h'].
          rewrite (IH h'). reflexivity.
        * rewrite (IH h). reflexivity.
      + apply IH.
  Qed.

  (* without an equivalence nothing changed: the loop is the one of Resource/Pull.v *)
  Theorem c_forward_held_none : forall (ro : ropts M rmask) evs h,
    c_forward_held r_filter None ro h evs = c_forward_gen r_filter None false false ro evs.
  Proof.
    intros ro evs h. induction evs as [|e r IH]; cbn [c_forward_held c_forward_gen]; [reflexivity|].
    destruct (include_gen false false (ro_include ro) (of_event e)); rewrite IH; reflexivity.
  Qed.

  (* the code before the repair on the offered changes *)
  Lemma c_forward_gen_split : forall cmp (ro : ropts M rmask) evs,
    c_forward_gen r_filter (Some cmp) false false ro evs = v0_filter cmp (offered r_filter ro evs).
  Proof.
    intros cmp ro evs. induction evs as [|e r IH]; cbn [c_forward_gen offered flat_map]; [reflexivity|].
    fold (offered r_filter ro r).
    destruct (include_gen false false (ro_include ro) (of_event e)) as [c|]; cbn [app v0_filter]; rewrite IH; reflexivity.
  Qed.

  (* ---- the held map is the subscriber's view ---- *)
  (* where the map has an entry it is the held value; where it has none, nothing was sent and the
     subscriber is taken to know the collection as it is *)
  Definition held_inv (h : heldmap) (w cur : view) : Prop :=
    forall id, match hget id h with Some b => b = w id | None => w id = cur id end.

  Lemma vupd_same id v (w : view) : vupd id v w id = v.
  Proof. unfold vupd. rewrite String.eqb_refl. reflexivity. Qed.
  Lemma vupd_other q id v (w : view) : String.eqb q id = false -> vupd id v w q = w q.
  Proof. intros N. unfold vupd. rewrite N. reflexivity. Qed.

  Theorem held_is_ideal : forall cmp cs h w cur,
    held_inv h w cur -> chained_from cur cs -> held_filter cmp h cs = ideal_filter cmp w cs.
  Proof.
    intros cmp cs. induction cs as [|c r IH]; intros h w cur I C; [reflexivity|].
    destruct C as [Hold C]. cbn [held_filter ideal_filter]. unfold held_step.
    assert (B : match hget (cc_id c) h with Some b => b | None => cc_old c end = w (cc_id c)).
    { specialize (I (cc_id c)). destruct (hget (cc_id c) h); [exact I|]. rewrite Hold. symmetry. exact I. }
    rewrite B. destruct (cmp (w (cc_id c)) (cc_new c)) eqn:E.
    - apply (IH _ w (vupd (cc_id c) (cc_new c) cur)); [|exact C].
      intros k. destruct (String.eqb k (cc_id c)) eqn:K.
      + apply String.eqb_eq in K. subst k. rewrite hget_hset_same. reflexivity.
      + rewrite hget_hset_other by exact K. rewrite vupd_other by exact K. apply I.
    - f_equal. apply (IH _ (vupd (cc_id c) (cc_new c) w) (vupd (cc_id c) (cc_new c) cur)); [|exact C].
      intros k. destruct (String.eqb k (cc_id c)) eqn:K.
      + apply String.eqb_eq in K. subst k. rewrite !vupd_same.
        destruct (cc_new c) as [v|]; [rewrite hget_hset_same|rewrite hget_hdel_same]; reflexivity.
      + rewrite !vupd_other by exact K.
        destruct (cc_new c) as [v|]; [rewrite hget_hset_other by exact K|rewrite hget_hdel_other by exact K]; apply I.
  Qed.

  (* ---- "delivered iff not equivalent to what the subscriber holds", one change at a time ---- *)
  Lemma holds_after_cons (w : view) c cs : holds_after w (c :: cs) = holds_after (vupd (cc_id c) (cc_new c) w) cs.
  Proof. reflexivity. Qed.

  Theorem ideal_last_delivered : forall cmp cs (w : view) (c : cchange M),
    ideal_filter cmp w (cs ++ [c]) =
    ideal_filter cmp w cs ++
    (if cmp (holds_after w (ideal_filter cmp w cs) (cc_id c)) (cc_new c) then [] else [c]).
  Proof.
    intros cmp cs. induction cs as [|c0 r IH]; intros w c; cbn [app ideal_filter].
    - unfold holds_after. cbn [fold_left]. destruct (cmp (w (cc_id c)) (cc_new c)); reflexivity.
    - destruct (cmp (w (cc_id c0)) (cc_new c0)).
      + apply IH.
      + rewrite holds_after_cons. cbn [app]. f_equal. apply IH.
  Qed.

  (* ---- include and filter keep the history chained ---- *)
  Lemma chained_from_ext : forall cs (cur cur' : view),
    (forall k, cur k = cur' k) -> chained_from cur cs -> chained_from cur' cs.
  Proof.
    induction cs as [|c r IH]; intros cur cur' X C; [exact I|].
    destruct C as [Hold C]. split; [rewrite <- X; exact Hold|].
    apply (IH (vupd (cc_id c) (cc_new c) cur)); [|exact C].
    intros k. unfold vupd. destruct (String.eqb k (cc_id c)); auto.
  Qed.

  Lemma seen_vupd (ro : ropts M rmask) (cur : view) id v k :
    seen r_filter ro (vupd id v cur) k = vupd id (seen r_filter ro (vupd id v cur) id) (seen r_filter ro cur) k.
  Proof.
    unfold vupd at 2. destruct (String.eqb k id) eqn:K.
    - apply String.eqb_eq in K. subst k. reflexivity.
    - unfold seen. rewrite vupd_other by exact K. reflexivity.
  Qed.

  Theorem offered_chained : forall (ro : ropts M rmask) evs (cur : view),
    ev_chained_from cur evs -> chained_from (seen r_filter ro cur) (offered r_filter ro evs).
  Proof.
    intros ro evs. induction evs as [|e r IH]; intros cur C; [exact I|].
    destruct C as [Hold C]. specialize (IH _ C).
    cbn [offered flat_map]. fold (offered r_filter ro r).
    set (cur' := vupd (ce_id e) (ce_new e) cur) in *.
    assert (S' : forall k, seen r_filter ro cur' k =
                           vupd (ce_id e) (seen r_filter ro cur' (ce_id e)) (seen r_filter ro cur) k)
      by (intros k; apply seen_vupd).
    assert (Sold : seen r_filter ro cur (ce_id e) =
                   match ce_old e with
                   | None => None
                   | Some v => if match ro_include ro with Some f => f (ce_id e) (Some v) | None => true end
                               then Some (filt r_filter ro v) else None
                   end) by (unfold seen; rewrite <- Hold; reflexivity).
    assert (Snew : seen r_filter ro cur' (ce_id e) =
                   match ce_new e with
                   | None => None
                   | Some v => if match ro_include ro with Some f => f (ce_id e) (Some v) | None => true end
                               then Some (filt r_filter ro v) else None
                   end) by (unfold seen, cur'; rewrite vupd_same; reflexivity).
    unfold include_gen, of_event. cbn [cc_id cc_old cc_new cc_time cc_seed cc_kind].
    destruct (ro_include ro) as [f|].
    - cbn [orb].
      destruct (ce_old e) as [vo|], (ce_new e) as [vn|]; cbn [andb];
        try destruct (f (ce_id e) (Some vo)) eqn:Fo; try destruct (f (ce_id e) (Some vn)) eqn:Fn;
        cbn [Bool.eqb app cc_filter cc_id cc_old cc_new option_map chained_from];
        try (split; [rewrite Sold; reflexivity|]);
        try (eapply chained_from_ext; [|exact IH]; intros k; rewrite S', Snew; reflexivity);
        (* nothing offered: the seen collection did not change *)
        (eapply chained_from_ext; [|exact IH]; intros k; rewrite S', Snew;
         unfold vupd; destruct (String.eqb k (ce_id e)) eqn:K; [|reflexivity];
         apply String.eqb_eq in K; subst k; rewrite Sold; reflexivity).
    - cbn [app cc_filter cc_id cc_old cc_new option_map chained_from]. split.
      + rewrite Sold. destruct (ce_old e); reflexivity.
      + eapply chained_from_ext; [|exact IH]. intros k. rewrite S', Snew. destruct (ce_new e); reflexivity.
  Qed.

  (* ---- headline: the repaired loop on any history of one collection ---- *)
  Theorem coll_pull_held_exact : forall cmp (ro : ropts M rmask) evs h (w cur : view),
    held_inv h w (seen r_filter ro cur) -> ev_chained_from cur evs ->
    c_forward_held r_filter (Some cmp) ro h evs = ideal_filter cmp w (offered r_filter ro evs).
  Proof.
    intros cmp ro evs h w cur I C. rewrite c_forward_held_split.
    apply (held_is_ideal cmp _ I). apply offered_chained. exact C.
  Qed.

  (* a subscriber that asked for updates only holds nothing: it is taken to know the collection as it
     was when it subscribed *)
  Corollary coll_pull_held_updates_only : forall cmp (ro : ropts M rmask) evs (cur : view),
    ev_chained_from cur evs ->
    c_forward_held r_filter (Some cmp) ro [] evs =
    ideal_filter cmp (seen r_filter ro cur) (offered r_filter ro evs).
  Proof. intros cmp ro evs cur C. apply coll_pull_held_exact with (cur := cur); [|exact C]. intros id. reflexivity. Qed.

  (* ---- the held map after the seed loop ---- *)
  Lemma held_of_seeds_inv : forall (sd : list (cchange M)) (cur : view),
    (forall k, holds_after (fun _ => None) sd k = None -> cur k = None) ->
    held_inv (held_of_seeds sd) (holds_after (fun _ => None) sd) cur.
  Proof.
    intros sd cur Hc.
    assert (G : forall (l : list (cchange M)) (h : heldmap) (w : view),
              (forall k, match hget k h with Some b => b = w k | None => w k = None end) ->
              forall k, match hget k (fold_left (fun h c => hset (cc_id c) (cc_new c) h) l h) with
                        | Some b => b = holds_after w l k
                        | None => holds_after w l k = None
                        end).
    { induction l as [|c r IH]; intros h w Hw k; [apply Hw|].
      cbn [fold_left]. rewrite holds_after_cons. apply IH. intros q.
      destruct (String.eqb q (cc_id c)) eqn:Q.
      - apply String.eqb_eq in Q. subst q. rewrite hget_hset_same, vupd_same. reflexivity.
      - rewrite hget_hset_other by exact Q. rewrite vupd_other by exact Q. apply Hw. }
    intros id. specialize (G sd [] (fun _ => None) (fun _ => eq_refl) id). unfold held_of_seeds.
    destruct (hget id _); [exact G|]. rewrite G. symmetry. apply Hc. exact G.
  Qed.

  (* seeded subscriber: whatever the seed showed for an id is what it holds; the seed shows all that
     the reader sees of the collection *)
  Theorem coll_pull_held_seeded : forall cmp (ro : ropts M rmask) (sd : list (cchange M)) evs (cur : view),
    (forall k, holds_after (fun _ => None) sd k = None -> seen r_filter ro cur k = None) ->
    ev_chained_from cur evs ->
    c_forward_held r_filter (Some cmp) ro (held_of_seeds sd) evs =
    ideal_filter cmp (holds_after (fun _ => None) sd) (offered r_filter ro evs).
  Proof.
    intros cmp ro sd evs cur Hs C. apply coll_pull_held_exact with (cur := cur); [|exact C].
    apply held_of_seeds_inv. exact Hs.
  Qed.

  (* ---- the code before the repair is right exactly for equivalence RELATIONS ---- *)
  Section EquivalenceRelation.
    Variable cmp : option M -> option M -> bool.
    Hypothesis cmp_refl : forall a, cmp a a = true.
    Hypothesis cmp_sym : forall a b, cmp a b = cmp b a.
    Hypothesis cmp_trans : forall a b c, cmp a b = true -> cmp b c = true -> cmp a c = true.

    Lemma cmp_congr a b c : cmp a b = true -> cmp a c = cmp b c.
    Proof.
      intros H. destruct (cmp b c) eqn:E.
      - exact (cmp_trans H E).
      - destruct (cmp a c) eqn:F; [|reflexivity].
        rewrite cmp_sym in H. rewrite (cmp_trans H F) in E. discriminate.
    Qed.

    Theorem v0_is_ideal_for_equivalence_relations : forall cs (w cur : view),
      (forall id, cmp (w id) (cur id) = true) -> chained_from cur cs ->
      v0_filter cmp cs = ideal_filter cmp w cs.
    Proof.
      induction cs as [|c r IH]; intros w cur I C; [reflexivity|].
      destruct C as [Hold C]. cbn [v0_filter ideal_filter].
      rewrite Hold. rewrite <- (cmp_congr (cc_new c) (I (cc_id c))).
      destruct (cmp (w (cc_id c)) (cc_new c)) eqn:E.
      - apply (IH w (vupd (cc_id c) (cc_new c) cur)); [|exact C].
        intros k. unfold vupd. destruct (String.eqb k (cc_id c)) eqn:K; [|apply I].
        apply String.eqb_eq in K. subst k. exact E.
      - f_equal. apply (IH _ (vupd (cc_id c) (cc_new c) cur)); [|exact C].
        intros k. unfold vupd. destruct (String.eqb k (cc_id c)); [apply cmp_refl|apply I].
    Qed.

    (* so for WithNoDuplicates, cmp.Equal() and any projection the models of the other properties that
       use c_forward_gen describe the repaired code as well *)
    Theorem c_forward_gen_is_held_for_equivalence_relations : forall (ro : ropts M rmask) evs h (w cur : view),
      held_inv h w (seen r_filter ro cur) ->
      (forall id, cmp (w id) (seen r_filter ro cur id) = true) ->     (* e.g. right after the seed: equal *)
      ev_chained_from cur evs ->
      c_forward_gen r_filter (Some cmp) false false ro evs = c_forward_held r_filter (Some cmp) ro h evs.
    Proof.
      intros ro evs h w cur I E C. rewrite c_forward_gen_split, (@coll_pull_held_exact cmp ro evs h w cur I C).
      apply (@v0_is_ideal_for_equivalence_relations _ w (seen r_filter ro cur) E).
      apply offered_chained. exact C.
    Qed.
  End EquivalenceRelation.
End Proofs.
