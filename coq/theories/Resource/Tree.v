(* The resource models (Impl.v / Spec.v) instantiated with the FULL message algebra: protobuf
   messages as canonical trees (Msg/), pkg/masks as modelled for C05/C06 (Masks/Update.v, Get.v)
   over the schema generated from the Go descriptors (Gen/Schema.v).  This is what ties
   pkg/resource and pkg/masks TOGETHER to the models on arbitrary messages (nested update / reset /
   writable / read masks, oneofs, lists, maps).  No proofs here. *)
From SC Require Import Base.Prelude Msg.Msg Msg.Schema Msg.Path Masks.Get Masks.Update
  Resource.Impl Resource.Spec Resource.Flat Gen.Schema.

Definition panic_marker : value := VS (SStr "PANIC").

(* masks.FieldUpdater as configured by WriteRequest.fieldUpdater *)
Record twriter := mkTW { tw_ty : string; tw_um : mask; tw_wm : mask; tw_rm : mask }.

Definition tw_validate (w : twriter) : option Z :=
  let c := validate_update the_schema (tw_ty w) (tw_um w) (tw_wm w) (tw_rm w) in
  if c =? code_ok then None else Some c.

Definition tw_merge (w : twriter) (dst src : value) : value :=
  match merge the_schema (tw_ty w) (tw_um w) (tw_wm w) (tw_rm w) dst src with
  | MOk d _ => d
  | MPanic => panic_marker
  end.

(* a non-nil read mask *)
Record trmask := mkTR { tr_ty : string; tr_paths : list path }.
Definition tr_filter (k : trmask) (v : value) : value :=
  match filter_clone the_schema (tr_ty k) (Some (tr_paths k)) v with
  | Ok v' => v'
  | Panic => panic_marker
  end.

(* callbacks on trees: interceptors that set / add a top-level integer field, checks on it *)
Definition int_field (f : string) (v : option value) : Z :=
  match v with
  | Some m => match vget f m with Some (VS (SInt z)) => z | _ => 0 end
  | None => 0
  end.
Definition set_int (f : string) (z : Z) (m : value) : value :=
  if z =? 0 then vclear f m else vset f (VS (SInt z)) m.

Inductive ticpt := TAddOld (f : string) | TSet (f : string) (k : Z).
Definition interp_ticpt (i : ticpt) (old : option value) (target : value) : value :=
  match i with
  | TAddOld f => set_int f (int_field f (Some target) + int_field f old) target
  | TSet f k => set_int f k target
  end.
Inductive tchk := TCEq (f : string) (k : Z) (code : Z).
Definition interp_tchk (c : tchk) (old : option value) : option Z :=
  match c with TCEq f k code => if int_field f old =? k then None else Some code end.

Record two := mkTWO {
  t_time : option Z;
  t_update : mask; t_reset : mask; t_more : mask; t_all_writable : bool;
  t_expected : option value; t_expect_absent : bool; t_check : option tchk; t_allow_missing : bool;
  t_before : option ticpt; t_after : option ticpt;
  t_create : bool; t_created_cb : bool
}.

Definition t_wopts (ty : string) (resw : mask) (o : two) : wopts value twriter :=
  mkW (t_time o)
      (mkTW ty (t_update o) (effective_writable (t_all_writable o) resw (t_more o)) (t_reset o))
      (t_expected o) (t_expect_absent o) (option_map interp_tchk (t_check o)) (t_allow_missing o)
      (option_map interp_ticpt (t_before o)) (option_map interp_ticpt (t_after o))
      (t_create o) (t_created_cb o) false false.
