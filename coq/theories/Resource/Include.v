(* CollectionChange.include (pkg/resource/change.go) on changes of EVERY kind the pipeline can hand
   it -- ADD, UPDATE, REMOVE, and the REPLACE that mergeChanges produces from a REMOVE and a later
   ADD while a subscriber without backpressure is behind -- and the two delivery pipelines of
   Collection.Pull composed with it.  Model only, no proofs.

   The changes are the token changes of Excess/Change.v (ids, values and times are opaque numbers:
   include never looks inside a value, it only hands it to the predicate), so that the lossy
   pipeline is literally C09's state machine (Excess/MergeExcess.v, reused, not copied) followed
   by include:

     (a) backpressure:   bus ------------------------------> Pull loop (include) -> subscriber
     (b) lossy:          bus -> mergeCollectionExcess (m_step) -> Pull loop (include) -> subscriber

   The Pull goroutine taking the next change from the merge stage is the action Recv; the reader's
   pace is the position of the Recv actions in the schedule. *)
From SC Require Import Base.Prelude Excess.Change Excess.MergeExcess.

(* an include predicate: any function of the id and the (possibly absent) value *)
Definition ipred := Z -> option Z -> bool.

Definition tpresent (v : option Z) : bool := match v with Some _ => true | None => false end.

(* func (c *CollectionChange) include(includeFunc FilterFunc) (newChange *CollectionChange, ok bool)
   -- same order of checks; None = ok false *)
Definition x_include (inc : option ipred) (c : change) : option change :=
  match inc with
  | None => Some c
  | Some f =>
      let oi := tpresent (cold c) && f (cid c) (cold c) in
      let ni := tpresent (cnew c) && f (cid c) (cnew c) in
      if Bool.eqb oi ni then (if ni then Some c else None)
      else if ni then Some (mkChange (cid c) K_ADD None (cnew c) (ctime c) (cseed c) false)
      else Some (mkChange (cid c) K_REMOVE (cold c) None (ctime c) false false)
  end.

(* the Pull loop: every change taken from the bus / the merge stage goes through include *)
Definition x_forward (inc : option ipred) (l : list change) : list change :=
  flat_map (fun c => match x_include inc c with Some o => [o] | None => [] end) l.

(* what List with the same predicate shows for id i when the collection holds x there *)
Definition shown (inc : option ipred) (i : Z) (x : option Z) : option Z :=
  match inc with
  | None => x
  | Some f => match x with Some t => if f i (Some t) then Some t else None | None => None end
  end.

(* the filtered collection *)
Definition filtered (inc : option ipred) (v : view) : view := fun i => shown inc i (v i).

(* (a) with backpressure every published change reaches include, in order *)
Definition bp_stream (inc : option ipred) (sent : list change) : list change := x_forward inc sent.

(* (b) without backpressure: what the merge stage delivered under the schedule l, through include *)
Definition lossy_stream (inc : option ipred) (l : list action) : list change :=
  x_forward inc (got_of (snd (m_run m_init l))).

(* ---- the law one row of the decision table has to satisfy (used on the generated table and
        proved for the model for all inputs) ----
   c is a legal edit of an id holding x; out is what include returned.  On the filtered view the
   returned change (or nothing) must be a legal edit leading to the filtered new state. *)
Definition row_law (inc : option ipred) (c : change) (out : option change) : bool :=
  let x := cold c in
  if valid_at c x then
    let w := shown inc (cid c) x in
    match out with
    | Some o => (cid o =? cid c) && valid_at o w && oz_eqb (result o w) (shown inc (cid c) (result c x))
    | None => oz_eqb w (shown inc (cid c) (result c x))
    end
  else true.

(* ---- rows of Gen/IncludeTable.v: the input change, the predicate's answers (on the old value,
        on the new value, on nil), and what the real include returned ---- *)
Definition TOK_OLD := 1.
Definition TOK_NEW := 2.
Definition truth_pred (pin pn pnil : bool) : ipred :=
  fun _ v => match v with None => pnil | Some t => if t =? TOK_OLD then pin else pn end.

Definition ochange_eqb := option_eqb change_eqb.

Definition row_matches_model (row : change * (bool * bool * bool) * option change) : bool :=
  let '(c, (pin, pn, pnil), out) := row in
  ochange_eqb (x_include (Some (truth_pred pin pn pnil)) c) out.

Definition row_obeys_law (row : change * (bool * bool * bool) * option change) : bool :=
  let '(c, (pin, pn, pnil), out) := row in
  row_law (Some (truth_pred pin pn pnil)) c out.
