(* Soundness of the C01 judge over the flat algebra (Resource/Judge.v): an observation that agrees
   with the code-shaped model satisfies every clause of [C01_ok] -- the comparison with the plain
   reference, the direct clauses on the observed trace (every List sorted, a failed write leaves
   the next full List as the previous one) and the generated-id clauses.  All by induction over
   the call sequence with an invariant tying the walk of the judge to the state of the run. *)
From SC Require Import Base.Prelude Resource.Impl Resource.Spec Resource.ImplProofs Resource.SpecProofs
  Resource.Flat Resource.FlatProofs Resource.Judge.

Ltac inst_hyp := first [exact fmsg_eqb_refl | exact str_ltb_irrefl | exact str_ltb_trans | exact str_ltb_total].

(* ---------- the boolean comparisons of the judge are Leibniz equality ---------- *)
Lemma fmsg_eqb_eq x y : fmsg_eqb x y = true -> x = y.
Proof.
  destruct x, y; unfold fmsg_eqb; simpl. intros H.
  apply andb_prop in H. destruct H as [H H3]. apply andb_prop in H. destruct H as [H1 H2].
  apply Z.eqb_eq in H1, H2, H3. congruence.
Qed.
Lemma ofm_eqb_eq x y : ofm_eqb x y = true -> x = y.
Proof. destruct x, y; simpl; try discriminate; auto. intros H. apply fmsg_eqb_eq in H. congruence. Qed.
Lemma ofm_eqb_refl x : ofm_eqb x x = true.
Proof. destruct x; simpl; auto. apply fmsg_eqb_refl. Qed.
Lemma kv_eqb_eq a b : kv_eqb a b = true -> a = b.
Proof.
  destruct a, b; unfold kv_eqb; simpl. intros H. apply andb_prop in H. destruct H as [H1 H2].
  apply String.eqb_eq in H1. apply fmsg_eqb_eq in H2. congruence.
Qed.
Lemma kv_eqb_refl a : kv_eqb a a = true.
Proof. destruct a; unfold kv_eqb; simpl. rewrite String.eqb_refl, fmsg_eqb_refl. reflexivity. Qed.
Lemma list_eqb_eq {A} (eqb : A -> A -> bool) (E : forall a b, eqb a b = true -> a = b) :
  forall a b, list_eqb eqb a b = true -> a = b.
Proof.
  induction a as [|x a IH]; destruct b as [|y b]; simpl; try discriminate; auto.
  intros H. apply andb_prop in H. destruct H as [H1 H2]. apply E in H1. apply IH in H2. congruence.
Qed.
Lemma list_eqb_refl {A} (eqb : A -> A -> bool) (R : forall a, eqb a a = true) : forall a, list_eqb eqb a a = true.
Proof. induction a; simpl; auto. rewrite R, IHa. reflexivity. Qed.
Lemma str_eqb_eq a b : String.eqb a b = true -> a = b.
Proof. apply String.eqb_eq. Qed.

(* ---------- what a matching observation says about the model's output ---------- *)
Lemma matches_failed out b : out_matches out b = true -> obs_failed b = true -> failed out = true.
Proof.
  destruct out as [r|l|[m|code] cb|r [e|]], b as [r'|l'|[m'|] c ids cr|r' c]; simpl; intros H1 H2;
    try discriminate; try reflexivity; destruct c; discriminate.
Qed.

Lemma matches_list l b : out_matches (RList l) b = true -> b = BList l.
Proof.
  destruct b; simpl; try discriminate. intros H. apply (list_eqb_eq kv_eqb kv_eqb_eq) in H. congruence.
Qed.
Lemma matches_get r b : out_matches (RGet r) b = true -> b = BGet r.
Proof. destruct b; simpl; try discriminate. intros H. apply ofm_eqb_eq in H. congruence. Qed.
Lemma matches_write_ok out m ids cr :
  out_matches out (BWrite (Some m) 0 ids cr) = true -> exists cb, out = RWrite (inl m) cb /\ cb_ids cb = ids.
Proof.
  destruct out as [r|l|[m0|code] cb|r [e|]]; simpl; try discriminate. intros H.
  apply andb_prop in H. destruct H as [H _]. apply andb_prop in H. destruct H as [H1 H2].
  apply fmsg_eqb_eq in H1. apply (list_eqb_eq String.eqb str_eqb_eq) in H2. exists cb. subst. auto.
Qed.

(* ---------- sortedness as the judge computes it ---------- *)
Lemma keys_sorted_of l : sorted_keys str_ltb (map fst l) -> keys_sorted l = true.
Proof.
  induction l as [|[a x] r IH]; simpl; auto.
  destruct r as [|[b y] r']; auto. simpl in *. intros [H1 H2]. rewrite H1. apply IH. exact H2.
Qed.

Lemma list_keys (s : cstate fmsg) : map fst (c_list fr_filter s None None) = map fst (c_items s).
Proof. unfold c_list. simpl. rewrite map_map. simpl. induction (c_items s) as [|[k x] r IH]; simpl; congruence. Qed.

Lemma in_keys_lookup {M} k (l : list (string * item M)) : In k (map fst l) -> lookup k l <> None.
Proof.
  induction l as [|[k0 x] r IH]; simpl; [tauto|].
  intros [->|H]; [rewrite String.eqb_refl; discriminate|].
  destruct (String.eqb k0 k); [discriminate|auto].
Qed.

(* ---------- one step of the reference on a flat operation ---------- *)
Section Step.
  Variable i : option idf.
  Variable w : option (list fld).
  Notation step := (f_spec_step i).

  Lemma step_sorted s op s1 out ev : step s (to_cop w op) = (s1, out, ev) ->
    sorted str_ltb (c_items s) -> sorted str_ltb (c_items s1).
  Proof.
    intros E S. unfold f_spec_step in E.
    eapply step_keeps_sorted; [exact str_ltb_trans | exact str_ltb_total | exact E | exact S].
  Qed.

  Lemma step_failed s op s1 out ev : step s (to_cop w op) = (s1, out, ev) -> failed out = true -> s1 = s.
  Proof. intros E F. unfold f_spec_step in E. eapply proj1, failed_step_is_noop; [exact E | exact F]. Qed.

  Lemma step_read s op s1 out ev : step s (to_cop w op) = (s1, out, ev) -> is_write op = false -> s1 = s.
  Proof. destruct op; simpl; try discriminate; intros E _; inversion E; reflexivity. Qed.

  (* keys never disappear except through Delete *)
  Lemma step_keeps_keys s op s1 out ev : step s (to_cop w op) = (s1, out, ev) ->
    match op with FDelete _ _ => False | _ => True end ->
    forall k, lookup k (c_items s) <> None -> lookup k (c_items s1) <> None.
  Proof.
    intros E Hd k Hk. destruct op as [id m|m inc|id msg o c|id msg o c|id o]; try tauto.
    - inversion E. subst. exact Hk.
    - inversion E. subst. exact Hk.
    - unfold f_spec_step, spec_step, to_cop in E.
      destruct (spec_c_update _ _ _ _ _ _ _ s id msg (to_wopts w o) c) as [[[s2 r] ev2] cb] eqn:U.
      inversion E. subst. apply update_outcomes in U.
      destruct U as [(code & _ & -> & _)|(id1 & gen & nv & t & _ & _ & L & Lo & _)]; [exact Hk|].
      destruct (String.eqb id1 k) eqn:Q.
      + apply String.eqb_eq in Q. subst. rewrite L. discriminate.
      + apply String.eqb_neq in Q. rewrite Lo; auto.
    - unfold f_spec_step, spec_step, to_cop in E.
      destruct (spec_c_update _ _ _ _ _ _ _ s id msg (as_add (to_wopts w o)) c) as [[[s2 r] ev2] cb] eqn:U.
      inversion E. subst. apply update_outcomes in U.
      destruct U as [(code & _ & -> & _)|(id1 & gen & nv & t & _ & _ & L & Lo & _)]; [exact Hk|].
      destruct (String.eqb id1 k) eqn:Q.
      + apply String.eqb_eq in Q. subst. rewrite L. discriminate.
      + apply String.eqb_neq in Q. rewrite Lo; auto.
  Qed.

  (* a successful write that generated an id *)
  Lemma step_generated s op s1 m ids cr ev id msg o c out :
    (op = FUpdate id msg o c \/ op = FAdd id msg o c) ->
    step s (to_cop w op) = (s1, out, ev) ->
    out_matches out (BWrite (Some m) 0 ids cr) = true ->
    String.eqb (apply_id (idfun_of i) id) "" && o_gen_id o && o_id_cb o = true ->
    exists g, ids = [g] /\ g <> ""%string /\ lookup (apply_id (idfun_of i) g) (c_items s) = None /\
              c_get fr_filter (idfun_of i) s1 g None = Some m.
  Proof.
    intros Hop E Hm Hc. apply matches_write_ok in Hm. destruct Hm as (cb & -> & <-).
    apply andb_prop in Hc. destruct Hc as [Hc Hcb].
    destruct Hop as [-> | ->]; unfold f_spec_step, spec_step, to_cop in E.
    - destruct (spec_c_update _ _ _ _ _ _ _ s id msg (to_wopts w o) c) as [[[s2 r] ev2] cb2] eqn:U.
      inversion E. subst.
      pose proof (@get_after_update _ _ _ _ _ _ _ fr_filter _ _ _ str_ltb_irrefl str_ltb_total _ _ _ _ _ _ _ _ _ U) as U'.
      clear U. rename U' into U.
      destruct U as [_ U]. simpl in U. specialize (U Hc). destruct U as (g & _ & G1 & G2 & G3 & G4).
      rewrite Hcb in G3. exists g. repeat split; eauto.
    - destruct (spec_c_update _ _ _ _ _ _ _ s id msg (as_add (to_wopts w o)) c) as [[[s2 r] ev2] cb2] eqn:U.
      inversion E. subst.
      pose proof (@get_after_update _ _ _ _ _ _ _ fr_filter _ _ _ str_ltb_irrefl str_ltb_total _ _ _ _ _ _ _ _ _ U) as U'.
      clear U. rename U' into U.
      destruct U as [_ U]. simpl in U. specialize (U Hc). destruct U as (g & _ & G1 & G2 & G3 & G4).
      rewrite Hcb in G3. exists g. repeat split; eauto.
  Qed.
End Step.

(* ---------- the comparison with the reference ---------- *)
Lemma f_impl_run_is_spec i s ops : run (f_impl_step i) s ops = run (f_spec_step i) s ops.
Proof. unfold f_impl_step, f_spec_step. apply impl_run_is_spec; inst_hyp. Qed.

Lemma f_v_run_is_spec : forall ops s, v_run f_v_impl_step s ops = v_run f_v_spec_step s ops.
Proof.
  induction ops as [|op r IH]; intros s; simpl; auto.
  assert (E : f_v_impl_step s op = f_v_spec_step s op).
  { destruct op; simpl; auto. unfold f_v_impl_step, f_v_spec_step. simpl.
    rewrite v_set_is_spec; [reflexivity|exact fmsg_eqb_refl]. }
  rewrite E. destruct (f_v_spec_step s op) as [[s1 out] ev]. rewrite IH. reflexivity.
Qed.

(* ---------- direct clauses: Lists sorted, failed writes are no-ops ---------- *)
Lemma direct_ok_sound i w : forall steps s s' outs last dirty,
  run (f_spec_step i) s (map (to_cop w) (map fst steps)) = (s', outs) ->
  trace_matches outs (map snd steps) = true ->
  sorted str_ltb (c_items s) ->
  (dirty = false -> forall l0, last = Some l0 -> l0 = c_list fr_filter s None None) ->
  direct_ok last dirty steps = true.
Proof.
  induction steps as [|[op b] r IH]; intros s s' outs last dirty R T S I; [reflexivity|].
  simpl in R. destruct (f_spec_step i s (to_cop w op)) as [[s1 out] ev] eqn:E.
  destruct (run (f_spec_step i) s1 (map (to_cop w) (map fst r))) as [s2 outs2] eqn:R2.
  inversion R. subst s' outs. simpl in T. apply andb_prop in T. destruct T as [Tm T].
  pose proof (step_sorted i w _ _ _ _ _ E S) as S1.
  destruct op as [id m|m inc|id msg o c|id msg o c|id o].
  - (* Get *) inversion E. subst. apply matches_get in Tm. subst b. simpl. eapply IH; eauto.
  - (* List *) inversion E. subst. apply matches_list in Tm. subst b.
    assert (K : keys_sorted (c_list fr_filter s1 m (option_map interp_pred inc)) = true).
    { apply keys_sorted_of. apply list_is_sorted; try inst_hyp. exact S. }
    destruct m as [m|]; [|destruct inc as [inc|]]; simpl; simpl in K; rewrite K; simpl.
    + eapply IH; eauto.
    + eapply IH; eauto.
    + assert (Q : (if dirty then true else match last with Some l0 => list_eqb kv_eqb l0 (c_list fr_filter s1 None None) | None => true end) = true).
      { destruct dirty; auto. destruct last as [l0|]; auto. rewrite (I eq_refl l0 eq_refl).
        apply list_eqb_refl. exact kv_eqb_refl. }
      rewrite Q. simpl. eapply IH; eauto. intros _ l0 H. inversion H. reflexivity.
  - simpl. eapply IH; eauto. intros D l0 L. apply orb_false_elim in D. destruct D as [D1 D2].
    apply negb_false_iff in D2. rewrite (step_failed i w _ _ _ _ _ E (matches_failed _ _ Tm D2)). auto.
  - simpl. eapply IH; eauto. intros D l0 L. apply orb_false_elim in D. destruct D as [D1 D2].
    apply negb_false_iff in D2. rewrite (step_failed i w _ _ _ _ _ E (matches_failed _ _ Tm D2)). auto.
  - simpl. eapply IH; eauto. intros D l0 L. apply orb_false_elim in D. destruct D as [D1 D2].
    apply negb_false_iff in D2. rewrite (step_failed i w _ _ _ _ _ E (matches_failed _ _ Tm D2)). auto.
Qed.

(* ---------- generated ids ---------- *)
(* [gen_ok] compares a generated id with the keys of the last full List the caller took.  That is
   the caller's knowledge of the contents only while nothing was removed since: the guard asks
   that no Delete lies between that List and a write that may generate an id (the generators take
   a full List after every write). *)
Fixpoint gen_guard (stale : bool) (steps : list (fop * fobs)) : bool :=
  match steps with
  | [] => true
  | (op, b) :: r =>
      match op with
      | FUpdate _ _ o _ | FAdd _ _ o _ => (if o_gen_id o then negb stale else true) && gen_guard stale r
      | FDelete _ _ => gen_guard true r
      | FList None None => match b with BList _ => gen_guard false r | _ => gen_guard stale r end
      | _ => gen_guard stale r
      end
  end.

Definition C01_guard (c : rcase) : bool :=
  match c with CaseC _ _ steps => gen_guard false steps | _ => true end.

Lemma peek_get i w r s1 s' outs g m :
  run (f_spec_step i) s1 (map (to_cop w) (map fst r)) = (s', outs) ->
  trace_matches outs (map snd r) = true ->
  c_get fr_filter (idfun_of i) s1 g None = Some m ->
  match r with
  | (FGet g' None, BGet got) :: _ => if String.eqb g g' then ofm_eqb got (Some m) else true
  | _ => true
  end = true.
Proof.
  intros R T G. destruct r as [|[op b] r2]; [reflexivity|].
  destruct op as [g' mask| | | |]; try reflexivity. destruct mask; [reflexivity|].
  destruct b as [got| | |]; try reflexivity.
  destruct (String.eqb g g') eqn:Q; [|reflexivity]. apply String.eqb_eq in Q. subst g'.
  simpl in R. destruct (run (f_spec_step i) s1 (map (to_cop w) (map fst r2))) as [s2 outs2].
  inversion R. subst. simpl in T. apply andb_prop in T. destruct T as [T _].
  rewrite G in T. apply ofm_eqb_eq in T. subst got. apply ofm_eqb_refl.
Qed.

Lemma gen_ok_sound i w : forall steps s s' outs last stale,
  run (f_spec_step i) s (map (to_cop w) (map fst steps)) = (s', outs) ->
  trace_matches outs (map snd steps) = true ->
  gen_guard stale steps = true ->
  (stale = false -> forall k, In k (map fst last) -> lookup k (c_items s) <> None) ->
  gen_ok i last steps = true.
Proof.
  induction steps as [|[op b] r IH]; intros s s' outs last stale R T G I; [reflexivity|].
  simpl in R. destruct (f_spec_step i s (to_cop w op)) as [[s1 out] ev] eqn:E.
  destruct (run (f_spec_step i) s1 (map (to_cop w) (map fst r))) as [s2 outs2] eqn:R2.
  inversion R. subst s' outs. simpl in T. apply andb_prop in T. destruct T as [Tm T].
  assert (W : forall id msg o c, (op = FUpdate id msg o c \/ op = FAdd id msg o c) ->
              (if o_gen_id o then negb stale else true) && gen_guard stale r = true ->
              gen_ok i last ((op, b) :: r) = true).
  { intros id msg o c Hop G'. apply andb_prop in G'. destruct G' as [G1 G2].
    assert (Hrec : gen_ok i last r = true).
    { eapply IH; eauto. intros St k Hk. eapply step_keeps_keys; eauto.
      destruct Hop as [-> | ->]; exact Logic.I. }
    assert (Hlast : (match op, b with FList None None, BList l => l | _, _ => last end) = last).
    { destruct Hop as [-> | ->]; reflexivity. }
    assert (Hhead : (match b with
                     | BWrite (Some m) 0 ids _ =>
                         if String.eqb (apply_id (idfun_of i) id) "" && o_gen_id o && o_id_cb o then
                           match ids with
                           | [g] =>
                               negb (String.eqb g "") &&
                               negb (existsb (fun kv => String.eqb (fst kv) (apply_id (idfun_of i) g)) last) &&
                               match r with
                               | (FGet g' None, BGet got) :: _ => if String.eqb g g' then ofm_eqb got (Some m) else true
                               | _ => true
                               end
                           | _ => false
                           end
                         else true
                     | _ => true
                     end) = true).
    { destruct b as [| |[m|] code ids cr|]; try reflexivity. destruct code; try reflexivity.
      destruct (String.eqb (apply_id (idfun_of i) id) "" && o_gen_id o && o_id_cb o) eqn:C; [|reflexivity].
      destruct (step_generated i w _ _ _ _ _ _ _ _ _ _ _ _ Hop E Tm C) as (g & -> & Gn & Gl & Gg).
      assert (Hgen : o_gen_id o = true).
      { apply andb_prop in C. destruct C as [C _]. apply andb_prop in C. tauto. }
      rewrite Hgen in G1. apply negb_true_iff in G1.
      apply andb_true_intro. split; [apply andb_true_intro; split|].
      - apply negb_true_iff. apply String.eqb_neq. exact Gn.
      - apply negb_true_iff. destruct (existsb _ last) eqn:X; [|reflexivity]. exfalso.
        apply existsb_exists in X. destruct X as (kv & Hin & Hk). apply String.eqb_eq in Hk.
        apply (I G1 (fst kv)); [apply in_map; exact Hin|]. rewrite Hk. exact Gl.
      - eapply peek_get; eauto. }
    destruct Hop as [-> | ->]; simpl; simpl in Hhead; rewrite Hhead, Hrec; reflexivity. }
  destruct op as [id m|m inc|id msg o c|id msg o c|id o].
  - (* Get *) simpl. simpl in G. eapply IH; eauto. inversion E. subst. exact I.
  - (* List *) inversion E. subst. apply matches_list in Tm. subst b.
    destruct m as [m|]; [|destruct inc as [inc|]]; simpl; simpl in G.
    + eapply IH; eauto.
    + eapply IH; eauto.
    + eapply IH; eauto. intros _ k Hk. rewrite list_keys in Hk. apply in_keys_lookup. exact Hk.
  - eapply W; eauto.
  - eapply W; eauto.
  - (* Delete: the guard is stale from here on *) simpl. simpl in G.
    assert (L : (match b with BList _ => last | _ => last end) = last) by (destruct b; reflexivity).
    eapply IH; eauto. discriminate.
Qed.

(* ---------- the judge ---------- *)
Theorem judge01_sound : forall c, agrees c = true -> C01_guard c = true -> C01_ok c = true.
Proof.
  intros c A G. destruct c as [w i steps|w initial steps| | | |]; try reflexivity.
  - unfold agrees, run_c in A. rewrite f_impl_run_is_spec in A. unfold C01_ok.
    destruct (run (f_spec_step i) c_init (map (to_cop w) (map fst steps))) as [s' outs] eqn:R.
    rewrite A. simpl.
    rewrite (direct_ok_sound i w steps c_init s' outs None false R A); [|exact Logic.I|discriminate].
    rewrite (gen_ok_sound i w steps c_init s' outs [] false R A G); [reflexivity|].
    intros _ k [].
  - unfold agrees, run_v in A. rewrite f_v_run_is_spec in A. unfold C01_ok.
    destruct (v_run f_v_spec_step (v_init fclock initial) (map (to_vop w) (map fst steps))) as [s' outs].
    exact A.
Qed.

(* the guard is needed: an id that was listed, deleted and then generated again is an agreeing
   observation which the clause "not a key of the last full List" rejects *)
Definition guard_witness : rcase :=
  let o := mkFWO None None None None false None false None false None None true false true true in
  CaseC None None
    [(FUpdate "" (mkF 1 0 0) o ["abcdef"%string], BWrite (Some (mkF 1 0 0)) 0 ["abcdef"%string] 0);
     (FList None None, BList [("abcdef"%string, mkF 1 0 0)]);
     (FDelete "abcdef" o, BDelete (Some (mkF 1 0 0)) 0);
     (FUpdate "" (mkF 2 0 0) o ["abcdef"%string], BWrite (Some (mkF 2 0 0)) 0 ["abcdef"%string] 0)].
Lemma guard_witness_facts :
  agrees guard_witness = true /\ C01_guard guard_witness = false /\ C01_ok guard_witness = false.
Proof. vm_compute. auto. Qed.

(* non-vacuity: an agreeing, guarded observation with a generated id, a failed write between two
   full Lists and a Delete *)
Definition sound_witness : rcase :=
  let o := mkFWO None None None None false None false None false None None true false true true in
  let o0 := mkFWO None None None None false None false None false None None false false false false in
  CaseC None None
    [(FUpdate "" (mkF 1 0 0) o ["abcdef"%string], BWrite (Some (mkF 1 0 0)) 0 ["abcdef"%string] 0);
     (FGet "abcdef" None, BGet (Some (mkF 1 0 0)));
     (FList None None, BList [("abcdef"%string, mkF 1 0 0)]);
     (FUpdate "zz" (mkF 2 0 0) o0 [], BWrite None 5 [] 0);
     (FList None None, BList [("abcdef"%string, mkF 1 0 0)]);
     (FDelete "abcdef" o0, BDelete (Some (mkF 1 0 0)) 0);
     (FList None None, BList []);
     (FUpdate "" (mkF 2 0 0) o ["abcdef"%string], BWrite (Some (mkF 2 0 0)) 0 ["abcdef"%string] 0)].
Lemma sound_witness_facts :
  agrees sound_witness = true /\ C01_guard sound_witness = true /\ C01_ok sound_witness = true.
Proof. vm_compute. auto. Qed.

(* the converse: the comparison with the reference is part of [C01_ok], and the reference run is the
   model's run, so a case the predicate accepts is a case the model agrees with.  With soundness:
   on the two case kinds of C01 the two columns of the verdict coincide (verdict 0 or 3, never
   "mismatch only" and never "predicate fails though the model agrees") *)
Theorem judge01_ok_agrees : forall c, C01_ok c = true ->
  match c with CaseC _ _ _ | CaseV _ _ _ => agrees c = true | _ => True end.
Proof.
  intros c A. destruct c as [w i steps|w initial steps| | | |]; try exact Logic.I.
  - unfold agrees, run_c. rewrite f_impl_run_is_spec. unfold C01_ok in A.
    destruct (run (f_spec_step i) c_init (map (to_cop w) (map fst steps))) as [s' outs].
    apply andb_prop in A. destruct A as [A _]. apply andb_prop in A. tauto.
  - unfold agrees, run_v. rewrite f_v_run_is_spec. unfold C01_ok in A.
    destruct (v_run f_v_spec_step (v_init fclock initial) (map (to_vop w) (map fst steps))) as [s' outs].
    exact A.
Qed.

Theorem judge01_exact : forall c, C01_guard c = true ->
  match c with
  | CaseC _ _ _ | CaseV _ _ _ => agrees c = C01_ok c /\ (judge01 c = 0 \/ judge01 c = 3)
  | _ => C01_ok c = true
  end.
Proof.
  intros c G.
  assert (X : match c with CaseC _ _ _ | CaseV _ _ _ => True | _ => C01_ok c = true end)
    by (destruct c; auto).
  assert (Y : agrees c = true -> C01_ok c = true) by (intros; apply judge01_sound; auto).
  pose proof (judge01_ok_agrees c) as Z.
  destruct c; try exact X;
    (unfold judge01; destruct (agrees _) eqn:A, (C01_ok _) eqn:O; simpl; auto;
     try (specialize (Y eq_refl); discriminate); try (specialize (Z eq_refl); discriminate)).
Qed.
