(* Model of pkg/resource used by one caller at a time: Value (value.go), Collection
   (collection.go), GetAndUpdate (atomic.go), WriteRequest.changeFn / updateTime (opt.go),
   GenerateUniqueId (id.go) — written in the shape of the code (three closures get / change /
   save, the provisional `created` message, second get under the write lock), over an ABSTRACT
   message algebra.  No proofs here. *)
From SC Require Import Base.Prelude.

Set Implicit Arguments.

Section Impl.
  (* ---- the message algebra (proto.Message and pkg/masks), abstract ---- *)
  Variable M : Type.
  Variable m_eqb : M -> M -> bool.                 (* proto.Equal on non-nil messages *)
  Variable m_empty : M.                            (* msg.ProtoReflect().New().Interface() *)
  Variable writer : Type.                          (* masks.FieldUpdater: update/writable/reset masks *)
  Variable w_validate : writer -> option Z.        (* FieldUpdater.Validate: None = ok, Some grpc code *)
  Variable w_merge : writer -> M -> M -> M.        (* FieldUpdater.Merge dst src = new dst *)
  Variable rmask : Type.
  Variable r_filter : rmask -> M -> M.             (* ResponseFilter.FilterClone on a non-nil message *)

  (* proto.Equal on possibly-nil messages (nil equals only nil) *)
  Definition om_eqb (a b : option M) : bool := option_eqb m_eqb a b.

  (* ---- write options (opt.go WriteRequest) ---- *)
  Record wopts := mkW {
    wo_time : option Z;                            (* WithWriteTime *)
    wo_writer : writer;                            (* fieldUpdater(resource writable fields) *)
    wo_expected : option M;                        (* WithExpectedValue *)
    wo_expect_absent : bool;
    wo_check : option (option M -> option Z);      (* WithExpectedCheck: Some code = error *)
    wo_allow_missing : bool;
    wo_before : option (option M -> M -> M);       (* InterceptBefore old value = new value *)
    wo_after : option (option M -> M -> M);        (* InterceptAfter old dst = new dst *)
    wo_create : bool;                              (* WithCreateIfAbsent *)
    wo_created_cb : bool;                          (* WithCreatedCallback registered *)
    wo_gen_id : bool;                              (* WithGenIDIfAbsent *)
    wo_id_cb : bool                                (* WithIDCallback registered *)
  }.

  (* ---- events ---- *)
  Inductive kind := KAdd | KUpdate | KRemove.
  Record vevent := mkVE { ve_value : M; ve_time : Z }.
  Record cevent := mkCE { ce_id : string; ce_time : Z; ce_kind : kind; ce_old : option M; ce_new : option M }.

  (* ---- the clock: the n-th reading of the fake clock; the state counts readings ---- *)
  Variable clock_at : Z -> Z.

  (* opt.go updateTime: explicit write time, else one clock reading *)
  Definition update_time (o : wopts) (reads : Z) : Z * Z :=
    match wo_time o with Some t => (t, reads) | None => (clock_at reads, reads + 1) end.

  (* callbacks observed by the caller during one call *)
  Record cblog := mkCB { cb_ids : list string; cb_created : Z }.
  Definition cb_none := mkCB [] 0.

  (* opt.go changeFn: expectedValue -> expectedCheck -> interceptBefore -> merge -> interceptAfter.
     old is what get returned, dst the clone of it (nil stays nil and becomes a new empty message). *)
  Definition change_fn (o : wopts) (value : M) (old : option M) : M + Z :=
    match (match wo_expected o with
           | Some e => if om_eqb old (Some e) then None else Some 9   (* FailedPrecondition *)
           | None => None end) with
    | Some code => inr code
    | None =>
      match (match wo_check o with Some chk => chk old | None => None end) with
      | Some code => inr code
      | None =>
        let value1 := match wo_before o with Some f => f old value | None => value end in
        let dst := match old with Some x => x | None => m_empty end in
        let dst1 := w_merge (wo_writer o) dst value1 in
        let dst2 := match wo_after o with Some f => f old dst1 | None => dst1 end in
        inl dst2
      end
    end.

  (* ================= Value ================= *)
  Record vstate := mkV { v_val : option M; v_time : Z; v_reads : Z }.

  (* NewValue: one clock reading *)
  Definition v_init (initial : option M) : vstate := mkV initial (clock_at 0) 1.

  Definition v_get (s : vstate) (mask : option rmask) : option M :=
    match mask with Some m => option_map (r_filter m) (v_val s) | None => v_val s end.

  (* value.go set: Validate; GetAndUpdate(get = r.value, change, save); bus.Send.
     Result: new state, returned message or code, events.  [twice] selects the pinned commit's
     behaviour of reading the clock a second time for the event (v0) *)
  Definition v_set_gen (twice : bool) (s : vstate) (value : M) (o : wopts) : vstate * (M + Z) * list vevent :=
    match w_validate (wo_writer o) with
    | Some code => (s, inr code, [])
    | None =>
      let old := v_val s in                                    (* get under RLock *)
      match change_fn o value old with
      | inr code => (s, inr code, [])
      | inl nv =>
        (* second get under Lock: same value, proto.Equal holds *)
        if om_eqb old (v_val s) then
          let '(t, reads1) := update_time o (v_reads s) in
          let '(te, reads2) := if twice then update_time o reads1 else (t, reads1) in
          (mkV (Some nv) t reads2, inl nv, [mkVE nv te])
        else (s, inr 10, [])                                   (* Aborted; unreachable sequentially *)
      end
    end.
  Definition v_set := v_set_gen false.
  Definition v_set_v0 := v_set_gen true.

  (* ================= Collection ================= *)
  Record item := mkItem { it_body : M; it_time : Z }.
  Record cstate := mkC { c_items : list (string * item); c_reads : Z }.   (* sorted by id, no duplicates *)

  Variable str_ltb : string -> string -> bool.     (* Go's < on strings (byte order) *)
  Variable idfun : option (string -> string).      (* WithIDInterceptor *)

  Definition apply_id (id : string) : string := match idfun with Some f => f id | None => id end.

  Fixpoint lookup (id : string) (l : list (string * item)) : option item :=
    match l with
    | [] => None
    | (k, v) :: r => if String.eqb k id then Some v else lookup id r
    end.
  Fixpoint insert (id : string) (v : item) (l : list (string * item)) : list (string * item) :=
    match l with
    | [] => [(id, v)]
    | (k, x) :: r =>
        if String.eqb k id then (id, v) :: r
        else if str_ltb id k then (id, v) :: l
        else (k, x) :: insert id v r
    end.
  Fixpoint remove (id : string) (l : list (string * item)) : list (string * item) :=
    match l with
    | [] => []
    | (k, x) :: r => if String.eqb k id then r else (k, x) :: remove id r
    end.

  (* NewCollection: one clock reading per initial record (map iteration order is irrelevant for
     a clock whose readings the harness keeps equal during construction) *)
  (* NewCollection(WithInitialRecord(id, v) ...): every record is stored under the id as given (the
     id interceptor is NOT applied by the constructor) with the construction-time clock reading;
     WithInitialRecord panics on a repeated id, so [records] has distinct ids.  The harness freezes
     its clock during construction, so the readings are all [clock_at 0] and none is consumed. *)
  Definition c_new (records : list (string * M)) : cstate :=
    mkC (fold_left (fun l p => insert (fst p) (mkItem (snd p) (clock_at 0)) l) records []) 0.

  Definition c_get (s : cstate) (id : string) (mask : option rmask) : option M :=
    match lookup (apply_id id) (c_items s) with
    | Some it => Some (match mask with Some m => r_filter m (it_body it) | None => it_body it end)
    | None => None
    end.

  Definition c_list (s : cstate) (mask : option rmask) (include : option (string -> option M -> bool))
    : list (string * M) :=
    map (fun p => (fst p, match mask with Some m => r_filter m (it_body (snd p)) | None => it_body (snd p) end))
        (filter (fun p => match include with Some f => f (fst p) (Some (it_body (snd p))) | None => true end)
                (c_items s)).

  (* id.go GenerateUniqueId with the collection's exists probe: up to 10 candidates; the probe
     looks the candidate up through the id interceptor *)
  Fixpoint gen_id_from (cands : list string) (tries : nat) (items : list (string * item)) : option string :=
    match tries, cands with
    | O, _ => None
    | _, [] => None
    | S n, c :: r =>
        if negb (String.eqb c "") && negb (match lookup (apply_id c) items with Some _ => true | None => false end)
        then Some c else gen_id_from r n items
    end.

  (* collection.go Update.  cands: the candidate ids the rng would produce for this call.
     [raw_gen] selects the pinned commit's behaviour of storing a generated id without passing it
     through the id interceptor (v0). *)
  Definition c_update_gen (raw_gen twice : bool) (s : cstate) (id0 : string) (msg : M) (o : wopts) (cands : list string)
    : cstate * (M + Z) * list cevent * cblog :=
    let id1 := apply_id id0 in
    match w_validate (wo_writer o) with
    | Some code => (s, inr code, [], cb_none)
    | None =>
      (* ---- first get (under RLock) ---- *)
      let gen := String.eqb id1 "" && wo_gen_id o in
      match (if gen then
               match gen_id_from cands 10 (c_items s) with
               | Some g => inl (g, if raw_gen then g else apply_id g)
               | None => inr 10                                   (* Aborted: attempts exhausted *)
               end
             else inl (id1, id1)) with
      | inr code => (s, inr code, [], cb_none)
      | inl (reported, id) =>
        (* the id callback receives the generated candidate; the item is stored under the id the
           interceptor maps it to, like every other id given to the collection *)
        let cb1 := mkCB (if gen && wo_id_cb o then [reported] else []) 0 in
        match lookup id (c_items s) with
        | Some it =>
            if wo_expect_absent o then (s, inr 6, [], cb1)        (* AlreadyExists *)
            else
              match change_fn o msg (Some (it_body it)) with
              | inr code => (s, inr code, [], cb1)
              | inl nv =>
                  let '(t, reads1) := update_time o (c_reads s) in
                  let '(te, reads2) := if twice then update_time o reads1 else (t, reads1) in
                  (mkC (insert id (mkItem nv t) (c_items s)) reads2, inl nv,
                   [mkCE id te KUpdate (Some (it_body it)) (Some nv)], cb1)
              end
        | None =>
            if negb (wo_create o) then (s, inr 5, [], cb1)        (* NotFound *)
            else
              let cb2 := mkCB (cb_ids cb1) (if wo_created_cb o then 1 else 0) in
              (* created := empty message; change runs against it; the second get returns it again *)
              match change_fn o msg (Some m_empty) with
              | inr code => (s, inr code, [], cb2)
              | inl nv =>
                  let '(t, reads1) := update_time o (c_reads s) in
                  let '(te, reads2) := if twice then update_time o reads1 else (t, reads1) in
                  (mkC (insert id (mkItem nv t) (c_items s)) reads2, inl nv,
                   [mkCE id te KAdd None (Some nv)], cb2)
              end
        end
      end
    end.
  Definition c_update := c_update_gen false false.
  Definition c_update_v0 := c_update_gen true true.

  (* Add = Update with WithExpectAbsent, WithCreateIfAbsent prepended *)
  Definition as_add (o : wopts) : wopts :=
    mkW (wo_time o) (wo_writer o) (wo_expected o) true (wo_check o) (wo_allow_missing o)
        (wo_before o) (wo_after o) true (wo_created_cb o) (wo_gen_id o) (wo_id_cb o).
  Definition c_add s id msg o cands := c_update s id msg (as_add o) cands.

  (* collection.go Delete: (state, returned body or nil, error code or none, events).
     [clock_only]: the pinned commit stamps REMOVE events with the clock even when a write time was
     given (v0). *)
  Definition c_delete_gen (clock_only : bool) (s : cstate) (id0 : string) (o : wopts)
    : cstate * option M * option Z * list cevent :=
    let id := apply_id id0 in
    match lookup id (c_items s) with
    | None => if wo_allow_missing o then (s, None, None, []) else (s, None, Some 5, [])
    | Some it =>
      match (match wo_check o with Some chk => chk (Some (it_body it)) | None => None end) with
      | Some code => (s, Some (it_body it), Some code, [])
      | None =>
        match wo_expected o with
        | Some e =>
            if m_eqb (it_body it) e then
              let '(t, reads1) := if clock_only then (clock_at (c_reads s), c_reads s + 1) else update_time o (c_reads s) in
              (mkC (remove id (c_items s)) reads1, Some (it_body it), None,
               [mkCE id t KRemove (Some (it_body it)) None])
            else (s, Some (it_body it), Some 9, [])
        | None =>
            let '(t, reads1) := if clock_only then (clock_at (c_reads s), c_reads s + 1) else update_time o (c_reads s) in
            (mkC (remove id (c_items s)) reads1, Some (it_body it), None,
             [mkCE id t KRemove (Some (it_body it)) None])
        end
      end
    end.
  Definition c_delete := c_delete_gen false.
  Definition c_delete_v0 := c_delete_gen true.

End Impl.
