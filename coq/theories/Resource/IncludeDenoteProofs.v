(* C08 end to end on messages: for any message algebra, read mask and include predicate (any
   function of id and message), folding -- the way a subscriber does (Pull.apply_change) -- the
   stream delivered (a) with backpressure and (b) without it, through C09's merge stage under any
   schedule and then drained, yields List with the same predicate and mask (Impl.c_list). *)
From SC Require Import Base.Prelude Resource.Impl Resource.Spec Resource.Pull Resource.ImplProofs Resource.SpecProofs
  Resource.PullProofs Excess.Change Excess.MergeExcess Excess.MergeProofs Resource.Include Resource.IncludeProofs
  Resource.IncludeDenote.

Local Open Scope Z_scope.

Section DenoteProofs.
  Variable M : Type.
  Variable rmask : Type.
  Variable r_filter : rmask -> M -> M.
  Variable tok : Z -> M.
  Variable idn : Z -> string.
  Variable str_ltb : string -> string -> bool.
  Hypothesis ltb_irrefl : forall a, str_ltb a a = false.
  Hypothesis ltb_trans : forall a b c, str_ltb a b = true -> str_ltb b c = true -> str_ltb a c = true.
  Hypothesis idn_inj : forall i j, idn i = idn j -> i = j.
  Variable ro : ropts M rmask.

  Notation d_change := (d_change tok idn).
  Notation t_inc := (t_inc tok idn).
  Notation out := (fun c => cc_filter r_filter ro (d_change c)).

  (* include on tokens IS include on messages (Pull.include_gen, the model the backpressured
     correspondence of C04/C08 runs against the code) *)
  Lemma include_denotes : forall c,
    option_map d_change (x_include (t_inc ro) c) = include_gen false false (ro_include ro) (d_change c).
  Proof.
    intros [i k o n t sd la]. unfold x_include, include_gen, IncludeDenote.t_inc, IncludeDenote.t_pred, IncludeDenote.d_change, tpresent.
    destruct (ro_include ro) as [f|]; [|reflexivity]. cbn.
    destruct o as [o|], n as [n|]; cbn;
      repeat match goal with |- context [f ?a ?b] => destruct (f a b) end; reflexivity.
  Qed.

  (* a view of messages keyed by string id represents a token view *)
  Definition rep (view : list (string * M)) (w : Change.view) : Prop :=
    NoDup (map fst view) /\
    forall i, vlookup (idn i) view = option_map (fun t => filt r_filter ro (tok t)) (w i).

  Lemma rep_ext : forall view w w', rep view w -> (forall i, w i = w' i) -> rep view w'.
  Proof. intros view w w' [Hn Hv] E. split; [exact Hn|]. intros i. rewrite <- E. apply Hv. Qed.

  Lemma valid_new : forall c x, valid_at c x = true -> ckind c <> K_REMOVE -> exists n, cnew c = Some n.
  Proof.
    intros [i k o n t sd la] x Hv Hk. pose proof (valid_at_kind _ _ Hv) as K. cbn [ckind] in K, Hk.
    unfold K_REMOVE in Hk.
    destruct K as [K|[K|[K|K]]]; subst k; try congruence;
      unfold valid_at, K_ADD, K_UPDATE, K_REPLACE, K_REMOVE in Hv; cbn in Hv;
      destruct x, o, n; try discriminate Hv; eexists; reflexivity.
  Qed.

  Lemma rep_apply : forall view w o, rep view w -> valid o w = true ->
    rep (apply_change view (out o)) (Change.apply o w).
  Proof.
    intros view w o [Hnd Hv] Hval. unfold valid in Hval.
    unfold apply_change, cc_filter, IncludeDenote.d_change. cbn [cc_kind cc_new cc_id].
    destruct (Z.eqb_spec (ckind o) K_REMOVE) as [Hk|Hk].
    - unfold d_kind. rewrite Hk, Z.eqb_refl.
      split; [apply view_del_nodup; exact Hnd|].
      intros i. unfold Change.apply. destruct (Z.eqb_spec i (cid o)) as [->|Hne].
      + rewrite vlookup_del_same by exact Hnd. unfold result. rewrite Hk, Z.eqb_refl. reflexivity.
      + rewrite vlookup_del_other; [apply Hv|]. intros E. apply idn_inj in E. contradiction.
    - destruct (valid_new _ _ Hval Hk) as [n N]. rewrite N. cbn [option_map].
      assert (Hset : rep (view_set (idn (cid o)) (filt r_filter ro (tok n)) view) (Change.apply o w)).
      { split; [apply view_set_nodup; exact Hnd|].
        intros i. unfold Change.apply. destruct (Z.eqb_spec i (cid o)) as [->|Hne].
        - rewrite vlookup_set_same. unfold result. destruct (Z.eqb_spec (ckind o) K_REMOVE); [contradiction|].
          rewrite N. reflexivity.
        - rewrite vlookup_set_other; [apply Hv|]. intros E. apply idn_inj in E. contradiction. }
      unfold d_kind. destruct (Z.eqb_spec (ckind o) K_REMOVE); [contradiction|].
      destruct (ckind o =? K_ADD); exact Hset.
  Qed.

  Lemma rep_fold : forall g view w, rep view w -> valid_script g w = true ->
    rep (fold_left (@apply_change M) (map out g) view) (Change.fold_view g w).
  Proof.
    induction g as [|c r IH]; intros view w R Hs; [exact R|].
    cbn [valid_script] in Hs. apply andb_true_iff in Hs. destruct Hs as [Hc Hr].
    cbn [map fold_left]. change (Change.fold_view (c :: r) w) with (Change.fold_view r (Change.apply c w)).
    apply IH; [apply rep_apply; assumption|exact Hr].
  Qed.

  (* what List with the same read options shows, in terms of the token contents *)
  Lemma list_denotes : forall (s : cstate M) (vs : Change.view),
    sorted str_ltb (c_items s) ->
    (forall i, option_map (@it_body M) (lookup (idn i) (c_items s)) = option_map tok (vs i)) ->
    forall i, vlookup (idn i) (c_list r_filter s (ro_mask ro) (ro_include ro)) =
              option_map (fun t => filt r_filter ro (tok t)) (filtered (t_inc ro) vs i).
  Proof.
    intros s vs Hs Hden i.
    rewrite (list_shows r_filter str_ltb ltb_irrefl ltb_trans ro s (idn i) Hs).
    unfold PullProofs.shown, pred_of, filtered, Include.shown, IncludeDenote.t_inc, IncludeDenote.t_pred.
    specialize (Hden i).
    destruct (lookup (idn i) (c_items s)) as [it|]; destruct (vs i) as [t|]; cbn in Hden; try discriminate Hden.
    - inversion Hden as [Hb]. destruct (ro_include ro) as [f|]; cbn.
      + rewrite Hb. destruct (f (idn i) (Some (tok t))); reflexivity.
      + rewrite Hb. reflexivity.
    - destruct (ro_include ro); reflexivity.
  Qed.

  Section EndToEnd.
    Variable v0 : Change.view.                    (* contents when the subscription starts *)
    Variable view0 : list (string * M).           (* the subscriber's view after the seed *)
    Hypothesis seed_ok : rep view0 (filtered (t_inc ro) v0).    (* the seed is the filtered list *)
    Variable s' : cstate M.                       (* the collection after the history *)
    Hypothesis s'_sorted : sorted str_ltb (c_items s').

    (* (a) with backpressure *)
    Theorem bp_fold_is_list_M : forall sent,
      valid_script sent v0 = true ->
      (forall i, option_map (@it_body M) (lookup (idn i) (c_items s')) = option_map tok (Change.fold_view sent v0 i)) ->
      forall i, vlookup (idn i) (fold_left (@apply_change M) (bp_stream_M r_filter tok idn ro sent) view0) =
                vlookup (idn i) (c_list r_filter s' (ro_mask ro) (ro_include ro)).
    Proof.
      intros sent Hs Hden i.
      destruct (bp_filtered_fold (t_inc ro) sent v0 Hs) as [V F].
      pose proof (rep_fold _ _ _ seed_ok V) as R.
      apply (rep_ext _ _ _ R) in F. destruct F as [_ F].
      unfold bp_stream_M, deliver. unfold bp_stream in F. rewrite F.
      symmetry. apply list_denotes; assumption.
    Qed.

    (* (b) without backpressure: any schedule of publishes and receives, then the reader drains *)
    Theorem lossy_fold_is_list_M : forall l,
      no_close l = true -> valid_script (sent_of l) v0 = true ->
      (forall i, option_map (@it_body M) (lookup (idn i) (c_items s')) = option_map tok (Change.fold_view (sent_of l) v0 i)) ->
      let n := List.length (queue (fst (m_run m_init l))) in
      forall i, vlookup (idn i) (fold_left (@apply_change M) (lossy_stream_M r_filter tok idn ro (l ++ repeat Recv n)) view0) =
                vlookup (idn i) (c_list r_filter s' (ro_mask ro) (ro_include ro)).
    Proof.
      intros l Hc Hs Hden n i.
      destruct (lossy_drained_fold (t_inc ro) l v0 Hc Hs) as [V F]. fold n in V, F.
      pose proof (rep_fold _ _ _ seed_ok V) as R.
      apply (rep_ext _ _ _ R) in F. destruct F as [_ F].
      unfold lossy_stream_M, deliver. unfold lossy_stream in F. rewrite F.
      symmetry. apply list_denotes; assumption.
    Qed.
  End EndToEnd.
End DenoteProofs.
