(* google.golang.org/protobuf/proto operations on message trees, modelled (not verified):
   Clone (identity on trees), Reset, Merge.  No proofs here. *)
From SC Require Import Base.Prelude Msg.Msg Msg.Schema.

Definition proto_clone (v : value) : value := v.
Definition proto_reset (v : value) : value := VM [].

(* map fields: every entry of src overwrites / adds its key in dst (message values are replaced by
   a clone, not merged) *)
Definition merge_map (dkv skv : list (scalar * value)) : list (scalar * value) :=
  fold_left (fun acc e => sset (fst e) (snd e) acc) skv dkv.

(* is k cleared because src sets another member of k's oneof? *)
Definition cleared_by (sch : schema) (ty : string) (sfields : list (string * value)) (k : string) : bool :=
  existsb (fun kx : string * value => existsb (String.eqb k) (oneof_siblings sch ty (fst kx))) sfields.

Definition sub_type (sch : schema) (ty k : string) : string :=
  match lookup_field sch ty k with
  | Some f => match fkd f with FMsg ty' => ty' | FScalar _ => "" end
  | None => ""
  end.

(* proto.Merge(dst, src) for messages of type ty: for every populated field of src — scalars
   overwrite, singular messages merge recursively (creating the message in dst if absent), repeated
   fields append, map entries overwrite per key; setting a oneof member clears the other members.
   The result lists dst's surviving fields in dst's order followed by the fields new from src (NOT
   field-number order: compare results with value_equiv). *)
Fixpoint proto_merge (sch : schema) (ty : string) (dst src : value) {struct src} : value :=
  match src with
  | VM sfields =>
      let dfields := fields_of dst in
      VM (flat_map (fun kd : string * value =>
                      let '(k, d) := kd in
                      (* the field of src with this name, merged into d *)
                      match (fix find (sf : list (string * value)) : option value :=
                               match sf with
                               | [] => None
                               | (k', x) :: r =>
                                   if String.eqb k k' then
                                     Some match x, d with
                                          | VM _, VM _ => proto_merge sch (sub_type sch ty k) d x
                                          | VM _, _ => proto_merge sch (sub_type sch ty k) (VM []) x
                                          | VL l, VL dl => VL (dl ++ l)
                                          | VMap kv, VMap dkv => VMap (merge_map dkv kv)
                                          | _, _ => x
                                          end
                                   else find r
                               end) sfields with
                      | Some merged => [(k, merged)]
                      | None => if cleared_by sch ty sfields k then [] else [(k, d)]
                      end) dfields
          ++ flat_map (fun kx : string * value =>
                         let '(k, x) := kx in
                         match alookup k dfields with
                         | Some _ => []
                         | None => [(k, x)]      (* merging into a new empty message gives a clone *)
                         end) sfields)
  | _ => src
  end.
