(* Induction principle for the nested inductive [value] and basic facts about the association-list
   helpers and the equality tests of Msg/Msg.v. *)
From SC Require Import Base.Prelude Msg.Msg.

(* Induction principle for the nested inductive. *)
Section value_induction.
  Variable P : value -> Prop.
  Hypothesis HS : forall s, P (VS s).
  Hypothesis HM : forall fs, Forall (fun kv => P (snd kv)) fs -> P (VM fs).
  Hypothesis HL : forall l, Forall P l -> P (VL l).
  Hypothesis HMap : forall kv, Forall (fun e => P (snd e)) kv -> P (VMap kv).

  Fixpoint value_ind' (v : value) : P v :=
    match v with
    | VS s => HS s
    | VM fs =>
        HM fs ((fix go (l : list (string * value)) : Forall (fun kv => P (snd kv)) l :=
                  match l with
                  | [] => Forall_nil _
                  | kv :: r => Forall_cons kv (value_ind' (snd kv)) (go r)
                  end) fs)
    | VL l =>
        HL l ((fix go (l : list value) : Forall P l :=
                 match l with
                 | [] => Forall_nil _
                 | x :: r => Forall_cons x (value_ind' x) (go r)
                 end) l)
    | VMap kv =>
        HMap kv ((fix go (l : list (scalar * value)) : Forall (fun e => P (snd e)) l :=
                    match l with
                    | [] => Forall_nil _
                    | e :: r => Forall_cons e (value_ind' (snd e)) (go r)
                    end) kv)
    end.
End value_induction.

Lemma scalar_eqb_refl : forall s, scalar_eqb s s = true.
Proof. destruct s; simpl; auto using Z.eqb_refl, String.eqb_refl, Bool.eqb_reflx. Qed.

Lemma scalar_eqb_eq : forall x y, scalar_eqb x y = true -> x = y.
Proof.
  intros x y; destruct x, y; simpl; intros H; try discriminate;
    try (apply Z.eqb_eq in H; congruence);
    try (apply String.eqb_eq in H; congruence).
  apply Bool.eqb_prop in H. congruence.
Qed.

Lemma value_eqb_refl : forall v, value_eqb v v = true.
Proof.
  induction v using value_ind'; simpl.
  - apply scalar_eqb_refl.
  - induction H as [|[k x] fs Hx _ IH]; auto. simpl in Hx. rewrite String.eqb_refl, Hx. exact IH.
  - induction H as [|x l Hx _ IH]; auto. rewrite Hx. exact IH.
  - induction H as [|[k x] kv Hx _ IH]; auto. simpl in Hx. rewrite scalar_eqb_refl, Hx. exact IH.
Qed.

Lemma value_eqb_eq : forall a b, value_eqb a b = true -> a = b.
Proof.
  induction a using value_ind'; intros b Hb; destruct b; simpl in Hb; try discriminate.
  - f_equal. apply scalar_eqb_eq; auto.
  - f_equal. revert fields Hb. induction H as [|[k x] fs Hx _ IH]; intros [|[k' y] fb] Hb; try discriminate; auto.
    apply andb_true_iff in Hb. destruct Hb as [Hb Hr]. apply andb_true_iff in Hb. destruct Hb as [Hk Hv].
    apply String.eqb_eq in Hk. subst k'. simpl in Hx. rewrite (Hx y Hv). f_equal. apply IH. exact Hr.
  - f_equal. revert l0 Hb. induction H as [|x l Hx _ IH]; intros [|y lb] Hb; try discriminate; auto.
    apply andb_true_iff in Hb. destruct Hb as [Hv Hr]. rewrite (Hx y Hv). f_equal. apply IH. exact Hr.
  - f_equal. revert kv0 Hb. induction H as [|[k x] kv Hx _ IH]; intros [|[k' y] kb] Hb; try discriminate; auto.
    apply andb_true_iff in Hb. destruct Hb as [Hb Hr]. apply andb_true_iff in Hb. destruct Hb as [Hk Hv].
    apply scalar_eqb_eq in Hk. subst k'. simpl in Hx. rewrite (Hx y Hv). f_equal. apply IH. exact Hr.
Qed.

Lemma alookup_in : forall {A} k (l : list (string * A)) x, alookup k l = Some x -> In (k, x) l.
Proof.
  induction l as [|[k' y] l IH]; simpl; intros x H; [discriminate|].
  destruct (String.eqb k k') eqn:E.
  - apply String.eqb_eq in E. inversion H. subst. left. reflexivity.
  - right. auto.
Qed.
