(* Field-mask paths and the fieldmaskpb functions the library uses, modelled (not verified):
   IsValid/numValidPaths, lessPath, hasPathPrefix, normalizePaths, Union, Intersect.
   A Go path string is represented by its list of '.'-separated segments, empty segments included
   ("a..b" = ["a"; ""; "b"], "" = [""]); the harness splits with strings.Split, which is a bijection
   between strings and non-empty segment lists.  No proofs here. *)
From SC Require Import Base.Prelude Msg.Msg Msg.Schema.
From Coq Require Import Ascii.

Definition path := list string.

(* lessPath compares bytes by (c - '.') as uint8: '.' is the smallest byte, bytes below '.' wrap
   around to the top.  On segment lists this is the lexicographic order of segments, a segment
   being compared bytewise in the rotated order, shorter-is-smaller. *)
Definition rot (c : ascii) : N :=
  let n := N_of_ascii c in if (n <? 46)%N then (n + 210)%N else (n - 46)%N.

(* lexicographic comparison of lists, shorter-is-smaller *)
Definition lex_cmp {A} (cmp : A -> A -> comparison) : list A -> list A -> comparison :=
  fix go (a b : list A) : comparison :=
    match a, b with
    | [], [] => Eq
    | [], _ :: _ => Lt
    | _ :: _, [] => Gt
    | x :: a', y :: b' => match cmp x y with Eq => go a' b' | r => r end
    end.

Definition byte_cmp (c d : ascii) : comparison := N.compare (rot c) (rot d).
Definition seg_cmp (a b : string) : comparison :=
  lex_cmp byte_cmp (list_ascii_of_string a) (list_ascii_of_string b).
Definition path_cmp : path -> path -> comparison := lex_cmp seg_cmp.

Definition path_ltb (p q : path) : bool := match path_cmp p q with Lt => true | _ => false end.
Definition path_eqb (p q : path) : bool := list_eqb String.eqb p q.

(* hasPathPrefix path prefix = is_prefix prefix path *)
Fixpoint is_prefix (p q : path) : bool :=
  match p, q with
  | [], _ => true
  | _ :: _, [] => false
  | s :: p', t :: q' => String.eqb s t && is_prefix p' q'
  end.

(* sort.Slice by lessPath: lessPath is a strict total order on strings, so the result does not depend
   on the sorting algorithm except for the relative order of identical strings; insertion sort here *)
Fixpoint insert_sorted (p : path) (l : list path) : list path :=
  match l with
  | [] => [p]
  | q :: r => if path_ltb p q then p :: l else q :: insert_sorted p r
  end.
Definition sort_paths (l : list path) : list path := fold_right insert_sorted [] l.

(* the de-duplication pass of normalizePaths: drop a path that has the last KEPT path as prefix *)
Fixpoint dedupe (last : option path) (l : list path) : list path :=
  match l with
  | [] => []
  | p :: r =>
      match last with
      | Some q => if is_prefix q p then dedupe last r else p :: dedupe (Some p) r
      | None => p :: dedupe (Some p) r
      end
  end.

Definition normalize_paths (l : list path) : list path := dedupe None (sort_paths l).

Definition fm_union (a b : list path) : list path := normalize_paths (a ++ b).

(* the merge loop inside fieldmaskpb.Intersect, over two normalized lists *)
Fixpoint isect_loop (l1 : list path) : list path -> list path :=
  fix inner (l2 : list path) : list path :=
    match l1, l2 with
    | [], _ => []
    | _, [] => []
    | s1 :: r1, s2 :: r2 =>
        if is_prefix s2 s1 then s1 :: isect_loop r1 l2
        else if is_prefix s1 s2 then s2 :: inner r2
        else if path_ltb s1 s2 then isect_loop r1 l2
        else inner r2
    end.

Definition isect2 (out inp : list path) : list path :=
  isect_loop (normalize_paths inp) (normalize_paths out).

Definition fm_intersect (a b : list path) : list path :=
  normalize_paths (isect2 (isect2 (fm_union a b) a) b).

(* numValidPaths == len(paths): every segment names a field of the current message, and only the
   last segment may name a scalar, a repeated field or a map ("repeated fields are only allowed at
   the last position") *)
Fixpoint path_valid (sch : schema) (md : option string) (p : path) : bool :=
  match p with
  | [] => true
  | s :: r =>
      match md with
      | None => false
      | Some ty =>
          match lookup_field sch ty s with
          | None => false
          | Some f =>
              path_valid sch (match fcard f with CSingular => msg_type_of f | _ => None end) r
          end
      end
  end.

Definition fm_valid (sch : schema) (ty : string) (ps : list path) : bool :=
  forallb (fun p => match p with [] => false | _ => path_valid sch (Some ty) p end) ps.

(* no empty segment: the masks the theorems about reads are stated for *)
Definition seg_ok (s : string) : bool := negb (String.eqb s "").
Definition segs_ok (ps : list path) : bool := forallb (fun p => forallb seg_ok p) ps.

(* path sets seen from a field: the remainders of the paths that start with segment k, and whether
   some path ends exactly here *)
Definition deriv (k : string) (ps : list path) : list path :=
  flat_map (fun p => match p with
                     | s :: r => if String.eqb s k then [r] else []
                     | [] => []
                     end) ps.

Definition ends_here (ps : list path) : bool :=
  existsb (fun p => match p with [] => true | _ :: _ => false end) ps.

Definition is_nil (p : path) : bool := match p with [] => true | _ :: _ => false end.
