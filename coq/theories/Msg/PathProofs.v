(* Facts about the path order, sorting and normalizePaths (model in Msg/Path.v):
   the result of normalization is a subset of the input, covers it (every input path has a
   prefix in the result) and is prefix-free. *)
From SC Require Import Base.Prelude Msg.Msg Msg.Schema Msg.Path.
From Coq Require Import Ascii Sorting.Sorted.

(* ---------- generic lexicographic order ---------- *)
Section Lex.
  Context {A : Type} (cmp : A -> A -> comparison).
  Hypothesis cmp_refl : forall x, cmp x x = Eq.
  Hypothesis cmp_eq : forall x y, cmp x y = Eq -> x = y.
  Hypothesis cmp_sym : forall x y, cmp y x = CompOpp (cmp x y).
  Hypothesis cmp_trans : forall x y z, cmp x y = Lt -> cmp y z = Lt -> cmp x z = Lt.

  Lemma lex_refl : forall a, lex_cmp cmp a a = Eq.
  Proof. induction a as [|x a IH]; simpl; auto. rewrite cmp_refl. exact IH. Qed.

  Lemma lex_eq : forall a b, lex_cmp cmp a b = Eq -> a = b.
  Proof.
    induction a as [|x a IH]; intros [|y b] H; simpl in H; try discriminate; auto.
    destruct (cmp x y) eqn:E; try discriminate.
    apply cmp_eq in E. subst. f_equal. auto.
  Qed.

  Lemma lex_sym : forall a b, lex_cmp cmp b a = CompOpp (lex_cmp cmp a b).
  Proof.
    induction a as [|x a IH]; intros [|y b]; simpl; auto.
    rewrite (cmp_sym x y). destruct (cmp x y); simpl; auto.
  Qed.

  Lemma lex_trans : forall a b c, lex_cmp cmp a b = Lt -> lex_cmp cmp b c = Lt -> lex_cmp cmp a c = Lt.
  Proof.
    induction a as [|x a IH]; intros [|y b] [|z c] H1 H2; simpl in *; try discriminate; auto.
    destruct (cmp x y) eqn:Exy; try discriminate.
    - apply cmp_eq in Exy. subst y.
      destruct (cmp x z) eqn:Exz; try discriminate; auto. eapply IH; eauto.
    - destruct (cmp y z) eqn:Eyz; try discriminate.
      + apply cmp_eq in Eyz. subst z. rewrite Exy. reflexivity.
      + rewrite (cmp_trans _ _ _ Exy Eyz). reflexivity.
  Qed.
End Lex.

(* ---------- bytes, segments, paths ---------- *)
Lemma rot_inj : forall c d, rot c = rot d -> c = d.
Proof.
  intros c d H. unfold rot in H.
  pose proof (N_ascii_bounded c) as Hc. pose proof (N_ascii_bounded d) as Hd.
  assert (N_of_ascii c = N_of_ascii d) as E.
  { destruct (N.ltb_spec (N_of_ascii c) 46); destruct (N.ltb_spec (N_of_ascii d) 46); lia. }
  rewrite <- (ascii_N_embedding c), <- (ascii_N_embedding d), E. reflexivity.
Qed.

Lemma byte_refl : forall c, byte_cmp c c = Eq.
Proof. intros. apply N.compare_refl. Qed.
Lemma byte_eq : forall c d, byte_cmp c d = Eq -> c = d.
Proof. intros c d H. apply N.compare_eq in H. apply rot_inj; auto. Qed.
Lemma byte_sym : forall c d, byte_cmp d c = CompOpp (byte_cmp c d).
Proof. intros. apply N.compare_antisym. Qed.
Lemma byte_trans : forall x y z, byte_cmp x y = Lt -> byte_cmp y z = Lt -> byte_cmp x z = Lt.
Proof. unfold byte_cmp. intros x y z. rewrite !N.compare_lt_iff. lia. Qed.

Lemma seg_refl : forall s, seg_cmp s s = Eq.
Proof. intros. apply lex_refl. exact byte_refl. Qed.
Lemma seg_eq : forall s t, seg_cmp s t = Eq -> s = t.
Proof.
  intros s t H. apply (lex_eq byte_cmp byte_eq) in H.
  rewrite <- (string_of_list_ascii_of_string s), <- (string_of_list_ascii_of_string t), H. reflexivity.
Qed.
Lemma seg_sym : forall s t, seg_cmp t s = CompOpp (seg_cmp s t).
Proof. intros. apply lex_sym. exact byte_sym. Qed.
Lemma seg_trans : forall x y z, seg_cmp x y = Lt -> seg_cmp y z = Lt -> seg_cmp x z = Lt.
Proof. intros x y z. apply (lex_trans byte_cmp byte_eq byte_trans). Qed.

Lemma path_refl : forall p, path_cmp p p = Eq.
Proof. intros. apply lex_refl. exact seg_refl. Qed.
Lemma path_eq : forall p q, path_cmp p q = Eq -> p = q.
Proof. apply lex_eq. exact seg_eq. Qed.
Lemma path_sym : forall p q, path_cmp q p = CompOpp (path_cmp p q).
Proof. apply lex_sym. exact seg_sym. Qed.
Lemma path_trans : forall x y z, path_cmp x y = Lt -> path_cmp y z = Lt -> path_cmp x z = Lt.
Proof. apply (lex_trans seg_cmp seg_eq seg_trans). Qed.

(* a <= b *)
Definition ple (a b : path) : Prop := path_ltb b a = false.

Lemma ple_refl : forall a, ple a a.
Proof. intros. unfold ple, path_ltb. rewrite path_refl. reflexivity. Qed.

Lemma ltb_asym : forall p q, path_ltb p q = true -> ple p q.
Proof.
  unfold ple, path_ltb. intros p q H. rewrite (path_sym p q).
  destruct (path_cmp p q); simpl; auto; discriminate.
Qed.

Lemma ple_trans : forall a b c, ple a b -> ple b c -> ple a c.
Proof.
  unfold ple, path_ltb. intros a b c H1 H2.
  destruct (path_cmp c a) eqn:Eca; auto.
  (* c < a *)
  destruct (path_cmp b a) eqn:Eba; try discriminate.
  - apply path_eq in Eba. subst b. rewrite Eca in H2. discriminate.
  - destruct (path_cmp c b) eqn:Ecb; try discriminate.
    + apply path_eq in Ecb. subst c. rewrite Eca in Eba. discriminate.
    + (* b > a i.e. a < b ; c > b i.e. b < c ; so a < c, but c < a *)
      assert (path_cmp a b = Lt) as Hab by (rewrite (path_sym b a), Eba; reflexivity).
      assert (path_cmp b c = Lt) as Hbc by (rewrite (path_sym c b), Ecb; reflexivity).
      pose proof (path_trans _ _ _ Hab Hbc) as Hac.
      rewrite (path_sym a c), Hac in Eca. discriminate.
Qed.

Lemma String_eqb_eq : forall s t, String.eqb s t = true <-> s = t.
Proof. intros. apply String.eqb_eq. Qed.

Lemma is_prefix_refl : forall p, is_prefix p p = true.
Proof. induction p; simpl; auto. rewrite String.eqb_refl. auto. Qed.

Lemma is_prefix_app : forall p q, is_prefix p q = true <-> exists r, q = p ++ r.
Proof.
  induction p as [|s p IH]; intros q; simpl.
  - split; eauto.
  - destruct q as [|t q]; simpl.
    + split; [discriminate|]. intros [r H]. discriminate.
    + rewrite andb_true_iff, String.eqb_eq, IH. split.
      * intros [-> [r ->]]. eauto.
      * intros [r H]. inversion H. subst. eauto.
Qed.

Lemma is_prefix_trans : forall a b c, is_prefix a b = true -> is_prefix b c = true -> is_prefix a c = true.
Proof.
  intros a b c. rewrite !is_prefix_app. intros [r ->] [r' ->]. exists (r ++ r'). rewrite app_assoc. reflexivity.
Qed.

(* a prefix is not larger *)
Lemma prefix_ple : forall a b, is_prefix a b = true -> ple a b.
Proof.
  unfold ple, path_ltb. induction a as [|s a IH]; intros [|t b] H; simpl in *; try discriminate; auto.
  apply andb_true_iff in H. destruct H as [Hs Hp]. apply String.eqb_eq in Hs. subst t.
  change (match (match seg_cmp s s with Eq => path_cmp b a | r => r end) with Lt => true | _ => false end = false).
  rewrite seg_refl. apply IH. exact Hp.
Qed.

(* a proper prefix is strictly smaller *)
Lemma prefix_lt : forall a b, is_prefix a b = true -> a <> b -> path_ltb a b = true.
Proof.
  unfold path_ltb. induction a as [|s a IH]; intros [|t b] H Hne; simpl in *; try discriminate; auto.
  apply andb_true_iff in H. destruct H as [Hs Hp]. apply String.eqb_eq in Hs. subst t.
  change (match (match seg_cmp s s with Eq => path_cmp a b | r => r end) with Lt => true | _ => false end = true).
  rewrite seg_refl. apply IH; auto. congruence.
Qed.

(* contiguity: everything between a path and one of its extensions is an extension too *)
Lemma prefix_between : forall a c b, ple a c -> ple c b -> is_prefix a b = true -> is_prefix a c = true.
Proof.
  unfold ple, path_ltb. induction a as [|s a IH]; intros c b H1 H2 Hp; simpl; auto.
  destruct b as [|t b]; simpl in Hp; try discriminate.
  apply andb_true_iff in Hp. destruct Hp as [Hs Hp]. apply String.eqb_eq in Hs. subst t.
  destruct c as [|u c]; simpl in H1; try discriminate.
  change (match (match seg_cmp u s with Eq => path_cmp c a | r => r end) with Lt => true | _ => false end = false) in H1.
  change (match (match seg_cmp s u with Eq => path_cmp b c | r => r end) with Lt => true | _ => false end = false) in H2.
  rewrite (seg_sym u s) in H2.
  destruct (seg_cmp u s) eqn:E; simpl in H2; try discriminate.
  apply seg_eq in E. subst u. rewrite String.eqb_refl. simpl. eapply IH; eauto.
Qed.

(* ---------- insertion sort ---------- *)
Lemma in_insert_sorted : forall p q l, In p (insert_sorted q l) <-> p = q \/ In p l.
Proof.
  induction l as [|x l IH]; simpl.
  - split; intros [H|H]; auto; try contradiction.
  - destruct (path_ltb q x); simpl; rewrite ?IH; intuition.
Qed.

Lemma in_sort_paths : forall p l, In p (sort_paths l) <-> In p l.
Proof.
  induction l as [|x l IH]; simpl; [tauto|].
  rewrite in_insert_sorted, IH. intuition.
Qed.

Lemma insert_sorted_sorted : forall q l, StronglySorted ple l -> StronglySorted ple (insert_sorted q l).
Proof.
  induction l as [|x l IH]; intros Hs; simpl.
  - constructor; constructor.
  - inversion Hs as [|? ? Hs' Hall]; subst.
    destruct (path_ltb q x) eqn:E.
    + constructor; auto. constructor.
      * apply ltb_asym; auto.
      * rewrite Forall_forall in *. intros y Hy. eapply ple_trans; [apply ltb_asym; eauto|auto].
    + constructor; auto. rewrite Forall_forall in *. intros y Hy.
      apply in_insert_sorted in Hy. destruct Hy as [->|Hy]; auto.
Qed.

Lemma sort_paths_sorted : forall l, StronglySorted ple (sort_paths l).
Proof. induction l; simpl; [constructor|apply insert_sorted_sorted; auto]. Qed.

(* ---------- de-duplication ---------- *)
Definition prefix_free (l : list path) : Prop :=
  forall p q, In p l -> In q l -> is_prefix p q = true -> p = q.

Definition covered_by (l' : list path) (p : path) : Prop := exists q, In q l' /\ is_prefix q p = true.

Lemma dedupe_subset : forall l last p, In p (dedupe last l) -> In p l.
Proof.
  induction l as [|x l IH]; intros last p H; simpl in *; auto.
  destruct last as [q|].
  - destruct (is_prefix q x); [right; eauto|]. destruct H as [->|H]; eauto.
  - destruct H as [->|H]; eauto.
Qed.

(* with q the last kept path, q <= everything that follows and the rest sorted *)
Lemma dedupe_some_spec : forall l q,
  StronglySorted ple l -> Forall (ple q) l ->
  (forall p, In p l -> covered_by (q :: dedupe (Some q) l) p) /\
  prefix_free (q :: dedupe (Some q) l) /\
  Forall (ple q) (dedupe (Some q) l).
Proof.
  induction l as [|x l IH]; intros q Hs Hq; simpl.
  - split; [intros p []|]. split; [|constructor].
    intros p p' [E|[]] [E'|[]] _. congruence.
  - inversion Hs as [|? ? Hs' Hx]; subst. inversion Hq as [|? ? Hqx Hql]; subst.
    destruct (is_prefix q x) eqn:Epx.
    + destruct (IH q Hs' Hql) as [Hc [Hf Hle]].
      split; [|split; auto].
      intros p [E|Hp]; auto. subst p. exists q. split; [left; auto|auto].
    + assert (Forall (ple x) l) as Hxl by exact Hx.
      destruct (IH x Hs' Hxl) as [Hc [Hf Hle]].
      split; [|split].
      * intros p [E|Hp].
        -- subst p. exists x. split; [right; left; auto|apply is_prefix_refl].
        -- destruct (Hc p Hp) as [r [Hr Hrp]]. exists r. split; [right; exact Hr|exact Hrp].
      * (* prefix-free: q against x :: rest *)
        intros p p' Hp Hp' Hpre.
        assert (forall y, In y (x :: dedupe (Some x) l) -> is_prefix q y = false) as Hnq.
        { intros y [E|Hy]; [subst y; auto|].
          destruct (is_prefix q y) eqn:Eqy; auto.
          (* q <= x <= y and q prefix of y, so q prefix of x *)
          rewrite Forall_forall in Hle.
          rewrite (prefix_between q x y Hqx (Hle y Hy) Eqy) in Epx. discriminate. }
        assert (forall y, In y (x :: dedupe (Some x) l) -> is_prefix y q = true -> y = q) as Hyq.
        { intros y Hy Hyq.
          assert (ple q y) as Hle'.
          { destruct Hy as [E|Hy]; [subst y; auto|]. rewrite Forall_forall in Hle. eapply ple_trans; eauto. }
          destruct (list_eq_dec string_dec y q) as [|Hne]; auto.
          pose proof (prefix_lt y q Hyq Hne) as Hlt. unfold ple in Hle'. congruence. }
        destruct Hp as [E|Hp]; destruct Hp' as [E'|Hp'].
        -- congruence.
        -- subst p. rewrite (Hnq p' Hp') in Hpre. discriminate.
        -- subst p'. apply Hyq; auto.
        -- apply Hf; auto.
      * constructor; auto. rewrite Forall_forall in *. intros y Hy. eapply ple_trans; eauto.
Qed.

Lemma dedupe_none_spec : forall l,
  StronglySorted ple l ->
  (forall p, In p l -> covered_by (dedupe None l) p) /\ prefix_free (dedupe None l).
Proof.
  intros [|x l] Hs; simpl.
  - split; [intros p []|intros p q []].
  - inversion Hs as [|? ? Hs' Hx]; subst.
    destruct (dedupe_some_spec l x Hs' Hx) as [Hc [Hf _]]. split; auto.
    intros p [E|Hp]; auto. subst p. exists x. split; [left; auto|apply is_prefix_refl].
Qed.

(* ---------- normalizePaths ---------- *)
Theorem normalize_subset : forall l p, In p (normalize_paths l) -> In p l.
Proof. unfold normalize_paths. intros l p H. exact (proj1 (in_sort_paths p l) (dedupe_subset _ _ _ H)). Qed.

Theorem normalize_covers : forall l p, In p l -> covered_by (normalize_paths l) p.
Proof.
  unfold normalize_paths. intros l p H.
  destruct (dedupe_none_spec (sort_paths l) (sort_paths_sorted l)) as [Hc _].
  apply Hc. apply in_sort_paths. exact H.
Qed.

Theorem normalize_prefix_free : forall l, prefix_free (normalize_paths l).
Proof. intros l. apply (dedupe_none_spec (sort_paths l) (sort_paths_sorted l)). Qed.

(* ---------- IsValid ---------- *)
(* declarative reading of a valid path: non-empty; each segment names a field of the message
   reached so far; every segment but the last names a SINGULAR MESSAGE field *)
Inductive good_path (sch : schema) : string -> path -> Prop :=
| good_last : forall ty s f, lookup_field sch ty s = Some f -> good_path sch ty [s]
| good_step : forall ty s f ty' r,
    lookup_field sch ty s = Some f -> fcard f = CSingular -> fkd f = FMsg ty' -> r <> [] ->
    good_path sch ty' r -> good_path sch ty (s :: r).

Lemma path_valid_none : forall sch p, p <> [] -> path_valid sch None p = false.
Proof. intros sch [|s r] H; [congruence|reflexivity]. Qed.

Theorem path_valid_iff : forall sch p ty, p <> [] ->
  (path_valid sch (Some ty) p = true <-> good_path sch ty p).
Proof.
  induction p as [|s r IH]; intros ty Hne; [congruence|].
  simpl. destruct (lookup_field sch ty s) as [f|] eqn:El.
  - destruct r as [|s' r'].
    + split; [intros _; econstructor; eauto|reflexivity].
    + assert (s' :: r' <> []) as Hne' by discriminate.
      split.
      * intros H. destruct (fcard f) eqn:Ec; try (rewrite path_valid_none in H by auto; discriminate).
        unfold msg_type_of in H. rewrite Ec in H.
        destruct (fkd f) as [k|ty'] eqn:Ek; try (rewrite path_valid_none in H by auto; discriminate).
        eapply good_step; eauto. apply IH; auto.
      * intros H. inversion H as [|? ? f' ty' ? Hl Hc Hk Hr Hg]; subst.
        rewrite El in Hl. inversion Hl; subst f'. rewrite Hc. unfold msg_type_of. rewrite Hc, Hk.
        apply IH; auto.
  - split; [discriminate|]. intros H. inversion H; subst; congruence.
Qed.
