(* Message schemas: what the algebra needs to know of protoreflect descriptors.  The concrete table
   Gen/Schema.v is dumped from the Go descriptors on every run.  No proofs here. *)
From SC Require Import Base.Prelude Msg.Msg.

Inductive card := CSingular | CList | CMap.
Inductive skind := KInt | KBool | KStr | KBytes | KEnum | KF32 | KF64.
Inductive fkind := FScalar (k : skind) | FMsg (ty : string).

Record fdesc := mkF {
  fname : string;
  fnum : Z;
  fcard : card;
  fkd : fkind;              (* element kind; for a map: kind of the VALUE *)
  fkey : option skind;      (* map key kind *)
  fexplicit : bool;         (* explicit presence (optional / oneof member / message) *)
  foneof : option string    (* containing oneof (real oneofs only) *)
}.

Definition schema := list (string * list fdesc).   (* message full name -> fields in number order *)

Fixpoint find_field (k : string) (l : list fdesc) : option fdesc :=
  match l with
  | [] => None
  | f :: r => if String.eqb k (fname f) then Some f else find_field k r
  end.

Definition type_fields (sch : schema) (ty : string) : list fdesc :=
  match alookup ty sch with Some l => l | None => [] end.

Definition lookup_field (sch : schema) (ty k : string) : option fdesc :=
  find_field k (type_fields sch ty).

(* fd.Message() != nil && !fd.IsMap(): the field holds messages one can descend into *)
Definition msg_type_of (f : fdesc) : option string :=
  match fcard f, fkd f with
  | CMap, _ => None
  | _, FMsg ty => Some ty
  | _, FScalar _ => None
  end.

Definition scalar_has_kind (k : skind) (s : scalar) : bool :=
  match k, s with
  | KInt, SInt _ | KBool, SBool _ | KStr, SStr _ | KBytes, SBytes _
  | KEnum, SEnum _ | KF32, SF32 _ | KF64, SF64 _ => true
  | _, _ => false
  end.

(* names of the other members of k's oneof *)
Definition oneof_siblings (sch : schema) (ty k : string) : list string :=
  match lookup_field sch ty k with
  | Some f =>
      match foneof f with
      | Some g =>
          map fname (filter (fun f' => match foneof f' with
                                       | Some g' => String.eqb g g' && negb (String.eqb (fname f') k)
                                       | None => false end) (type_fields sch ty))
      | None => []
      end
  | None => []
  end.

(* v is a tree of message type ty: every populated field is declared, has the declared shape, and
   field names are distinct.  (Kinds of scalars and of map keys are not enforced; the algebra never
   looks at them.) *)
Definition is_vs (v : value) : bool := match v with VS _ => true | _ => false end.

Fixpoint conforms (sch : schema) (ty : string) (v : value) {struct v} : bool :=
  match v with
  | VM fields =>
      nodup_keys (akeys fields) &&
      forallb (fun kx : string * value =>
                 let '(k, x) := kx in
                 match lookup_field sch ty k with
                 | None => false
                 | Some f =>
                     match fcard f, fkd f, x with
                     | CSingular, FScalar _, VS _ => true
                     | CSingular, FMsg ty', VM _ => conforms sch ty' x
                     | CList, FScalar _, VL l => forallb is_vs l
                     | CList, FMsg ty', VL l => forallb (fun e => is_msg e && conforms sch ty' e) l
                     | CMap, FScalar _, VMap kv => forallb (fun e : scalar * value => is_vs (snd e)) kv
                     | CMap, FMsg ty', VMap kv =>
                         forallb (fun e : scalar * value =>
                                    let '(_, y) := e in is_msg y && conforms sch ty' y) kv
                     | _, _, _ => false
                     end
                 end) fields
  | _ => false
  end.
