(* github.com/mennanov/fmutils v0.1.1, modelled (not verified): NestedMask, NestedMaskFromPaths,
   NestedMask.Filter and NestedMask.Prune, with the places where the Go code panics
   (protoreflect.Value.Message() on a map, or on an element of a repeated scalar) as outcome None.
   No proofs here. *)
From SC Require Import Base.Prelude Msg.Msg Msg.Path.

Inductive nmask := NM (children : list (string * nmask)).
Definition nm_children (m : nmask) : list (string * nmask) := match m with NM c => c end.
Definition nm_empty (m : nmask) : bool := match m with NM [] => true | _ => false end.

(* find-or-create child k and apply f to it (Go map: order is irrelevant; appended here) *)
Fixpoint nm_upsert (k : string) (f : nmask -> nmask) (l : list (string * nmask)) : list (string * nmask) :=
  match l with
  | [] => [(k, f (NM []))]
  | (k', m) :: r => if String.eqb k k' then (k', f m) :: r else (k', m) :: nm_upsert k f r
  end.

(* one path (empty segments already dropped): walk down creating nodes; the last segment only makes
   sure the key exists.  With "a" and "a.b" in either order the node a ends with the child b. *)
Fixpoint nm_insert (p : path) (m : nmask) : nmask :=
  match p with
  | [] => m
  | k :: rest => NM (nm_upsert k (nm_insert rest) (nm_children m))
  end.

Definition drop_empty (p : path) : path := filter seg_ok p.

Definition nested_of_paths (ps : list path) : nmask :=
  fold_left (fun m p => nm_insert (drop_empty p) m) ps (NM []).

(* flat_map with failure (f is a parameter outside the fix so that nested recursion through it is
   accepted by the guard checker, as for List.map) *)
Definition otraverse {A B} (f : A -> option (list B)) : list A -> option (list B) :=
  fix go (l : list A) : option (list B) :=
    match l with
    | [] => Some []
    | x :: r =>
        match f x with
        | None => None
        | Some ys => match go r with None => None | Some zs => Some (ys ++ zs) end
        end
    end.

Definition osingle {A} (o : option A) : option (list A) := option_map (fun x => [x]) o.

(* NestedMask.Filter on a message tree; None = panic.
   Range over the populated fields: not in the mask -> Clear; in the mask with an empty sub-mask ->
   keep; otherwise descend: IsList -> every element's .Message() (panics unless the elements are
   messages); Kind == MessageKind (singular message, or MAP: its kind is the entry message) ->
   .Message() (panics on a map); any other kind is kept whole. *)
Fixpoint nm_filter (m : nmask) (v : value) {struct v} : option value :=
  match v with
  | VM fields =>
      if nm_empty m then Some v else
      option_map VM
        (otraverse (fun kx : string * value =>
                      let '(k, x) := kx in
                      match alookup k (nm_children m) with
                      | None => Some []
                      | Some sub =>
                          if nm_empty sub then Some [(k, x)] else
                          match x with
                          | VS _ => Some [(k, x)]
                          | VM _ => osingle (option_map (pair k) (nm_filter sub x))
                          | VL l =>
                              osingle (option_map (fun l' => (k, VL l'))
                                (otraverse (fun e => if is_msg e then osingle (nm_filter sub e) else None) l))
                          | VMap _ => None
                          end
                      end) fields)
  | _ => Some v
  end.

(* NestedMask.Prune on a message tree; None = panic *)
Fixpoint nm_prune (m : nmask) (v : value) {struct v} : option value :=
  match v with
  | VM fields =>
      if nm_empty m then Some v else
      option_map VM
        (otraverse (fun kx : string * value =>
                      let '(k, x) := kx in
                      match alookup k (nm_children m) with
                      | None => Some [(k, x)]
                      | Some sub =>
                          if nm_empty sub then Some [] else
                          match x with
                          | VS _ => Some [(k, x)]
                          | VM _ => osingle (option_map (pair k) (nm_prune sub x))
                          | VL l =>
                              osingle (option_map (fun l' => (k, VL l'))
                                (otraverse (fun e => if is_msg e then osingle (nm_prune sub e) else None) l))
                          | VMap _ => None
                          end
                      end) fields)
  | _ => Some v
  end.
