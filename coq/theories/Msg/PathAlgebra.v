(* The field-mask algebra the resource options are made of (fieldmaskpb.Normalize / Union as modelled in
   Msg/Path.v), as laws: what a mask SELECTS is the set of positions covered by one of its paths;
   normalization and union are exact on that reading, normalization is idempotent, its result is
   strictly sorted and free of nested paths, and a list that is already like that is left alone. *)
From SC Require Import Base.Prelude Msg.Msg Msg.Schema Msg.Path Msg.PathProofs.
From Coq Require Import Sorting.Sorted.

(* p is selected by the path list l: some path of l is p or an ancestor of p *)
Definition covers (l : list path) (p : path) : Prop := covered_by l p.

Lemma covers_app : forall a b p, covers (a ++ b) p <-> covers a p \/ covers b p.
Proof.
  unfold covers, covered_by. intros a b p. split.
  - intros [q [Hq Hp]]. apply in_app_or in Hq. destruct Hq; [left|right]; eauto.
  - intros [[q [Hq Hp]]|[q [Hq Hp]]]; exists q; split; auto; apply in_or_app; auto.
Qed.

Lemma covers_mono : forall l p q, covers l p -> is_prefix p q = true -> covers l q.
Proof. intros l p q [w [Hw Hp]] Hq. exists w. split; auto. eapply is_prefix_trans; eauto. Qed.

(* Normalize selects exactly what the list selected *)
Theorem normalize_covers_iff : forall l p, covers (normalize_paths l) p <-> covers l p.
Proof.
  intros l p. split.
  - intros [q [Hq Hp]]. exists q. split; auto. apply normalize_subset; auto.
  - intros [q [Hq Hp]]. destruct (normalize_covers l q Hq) as [w [Hw Hwq]].
    exists w. split; auto. eapply is_prefix_trans; eauto.
Qed.

(* Union selects exactly what either mask selects *)
Theorem union_covers_iff : forall a b p, covers (fm_union a b) p <-> covers a p \/ covers b p.
Proof. intros. unfold fm_union. rewrite normalize_covers_iff. apply covers_app. Qed.

Theorem union_covers_comm : forall a b p, covers (fm_union a b) p <-> covers (fm_union b a) p.
Proof. intros. rewrite !union_covers_iff. tauto. Qed.

Theorem union_covers_assoc : forall a b c p,
  covers (fm_union (fm_union a b) c) p <-> covers (fm_union a (fm_union b c)) p.
Proof. intros. rewrite !union_covers_iff. tauto. Qed.

Theorem union_covers_idem : forall a p, covers (fm_union a a) p <-> covers a p.
Proof. intros. rewrite union_covers_iff. tauto. Qed.

(* ---------- the shape of a normalized list ---------- *)
(* x strictly before y and y not below x *)
Definition before (x y : path) : Prop := ple x y /\ is_prefix x y = false.

Definition normal (l : list path) : Prop := StronglySorted before l.

Lemma before_ltb : forall x y, before x y -> path_ltb x y = true.
Proof.
  intros x y [Hle Hp]. unfold ple, path_ltb in *.
  destruct (path_cmp x y) eqn:E; auto.
  - apply path_eq in E. subst. rewrite is_prefix_refl in Hp. discriminate.
  - rewrite (path_sym x y), E in Hle. discriminate.
Qed.

Lemma insert_sorted_head : forall x l, Forall (before x) l -> insert_sorted x l = x :: l.
Proof.
  intros x [|y l] H; [reflexivity|]. simpl. inversion H; subst.
  rewrite (before_ltb x y); auto.
Qed.

Lemma sort_normal : forall l, normal l -> sort_paths l = l.
Proof.
  induction l as [|x l IH]; intros H; [reflexivity|].
  inversion H; subst. simpl. rewrite IH by auto. apply insert_sorted_head; auto.
Qed.

Lemma dedupe_some_normal : forall l q, normal (q :: l) -> dedupe (Some q) l = l.
Proof.
  induction l as [|x l IH]; intros q H; [reflexivity|].
  inversion H as [|? ? Hs Hall]; subst. inversion Hall as [|? ? [_ Hqx] _]; subst.
  simpl. rewrite Hqx. f_equal. apply IH. exact Hs.
Qed.

Lemma dedupe_none_normal : forall l, normal l -> dedupe None l = l.
Proof. intros [|x l] H; [reflexivity|]. simpl. f_equal. apply dedupe_some_normal; auto. Qed.

(* a list that is strictly sorted without nested paths is a fixpoint of Normalize *)
Theorem normalize_normal : forall l, normal l -> normalize_paths l = l.
Proof. intros l H. unfold normalize_paths. rewrite (sort_normal l H). apply dedupe_none_normal; auto. Qed.

Lemma dedupe_some_before : forall l q,
  StronglySorted ple l -> Forall (ple q) l ->
  Forall (before q) (dedupe (Some q) l) /\ normal (dedupe (Some q) l).
Proof.
  induction l as [|x l IH]; intros q Hs Hq; simpl.
  - split; constructor.
  - inversion Hs as [|? ? Hs' Hx]; subst. inversion Hq as [|? ? Hqx Hql]; subst.
    destruct (is_prefix q x) eqn:Epx; [apply IH; auto|].
    destruct (IH x Hs' Hx) as [Hbx Hn].
    split.
    + constructor; [split; auto|].
      rewrite Forall_forall in *. intros y Hy. destruct (Hbx y Hy) as [Hxy _].
      split; [eapply ple_trans; eauto|].
      destruct (is_prefix q y) eqn:Eqy; auto.
      rewrite (prefix_between q x y Hqx Hxy Eqy) in Epx. discriminate.
    + constructor; auto.
Qed.

(* the result of Normalize is strictly sorted and has no nested (or repeated) paths *)
Theorem normalize_is_normal : forall l, normal (normalize_paths l).
Proof.
  intros l. unfold normalize_paths. pose proof (sort_paths_sorted l) as Hs.
  destruct (sort_paths l) as [|x r]; simpl; [constructor|].
  inversion Hs as [|? ? Hs' Hx]; subst.
  destruct (dedupe_some_before r x Hs' Hx) as [Hb Hn]. constructor; auto.
Qed.

Theorem normalize_idempotent : forall l, normalize_paths (normalize_paths l) = normalize_paths l.
Proof. intros. apply normalize_normal. apply normalize_is_normal. Qed.

Theorem union_normalized_arg : forall a b, normalize_paths (fm_union a b) = fm_union a b.
Proof. intros. apply normalize_idempotent. Qed.

Lemma sort_paths_nil : forall l, sort_paths l = [] -> l = [].
Proof.
  intros [|x l] H; auto. exfalso.
  assert (In x (sort_paths (x :: l))) as Hin by (apply in_sort_paths; left; auto).
  rewrite H in Hin. contradiction.
Qed.

Theorem normalize_nil_iff : forall l, normalize_paths l = [] <-> l = [].
Proof.
  intros l. split; [|intros ->; reflexivity].
  unfold normalize_paths. intros H. apply sort_paths_nil.
  destruct (sort_paths l); auto. simpl in H. discriminate.
Qed.

(* in a normal list no path is an ancestor of (or equal to) a LATER or EARLIER other entry: membership
   with the prefix relation forces identity of positions; as a corollary no duplicates *)
Lemma normal_NoDup : forall l, normal l -> NoDup l.
Proof.
  induction l as [|x l IH]; intros H; constructor; inversion H as [|? ? Hs Hall]; subst; auto.
  intros Hin. rewrite Forall_forall in Hall. destruct (Hall x Hin) as [_ C].
  rewrite is_prefix_refl in C. discriminate.
Qed.

Theorem normalize_NoDup : forall l, NoDup (normalize_paths l).
Proof. intros. apply normal_NoDup, normalize_is_normal. Qed.
