(* Protobuf messages as canonical populated-field trees: exactly what protoreflect.Message.Range
   shows.  A message is [VM fields] with one entry per POPULATED field, keyed by field name, in
   field-number order; implicit-presence scalars equal to their zero value are absent (that is
   [Has]); a present-but-empty sub-message is [(name, VM [])]; a repeated field is a non-empty [VL];
   a map field is a non-empty [VMap] with entries sorted by key.  Unknown fields and message type
   names are not represented.  Floats are carried as IEEE bit patterns.  No proofs here. *)
From SC Require Import Base.Prelude.

Inductive scalar :=
| SInt (z : Z) | SBool (b : bool) | SStr (s : string) | SBytes (s : string)
| SEnum (z : Z) | SF32 (bits : Z) | SF64 (bits : Z).

Inductive value :=
| VS (s : scalar)
| VM (fields : list (string * value))
| VL (l : list value)
| VMap (kv : list (scalar * value)).

Definition scalar_eqb (a b : scalar) : bool :=
  match a, b with
  | SInt x, SInt y | SEnum x, SEnum y | SF32 x, SF32 y | SF64 x, SF64 y => x =? y
  | SBool x, SBool y => Bool.eqb x y
  | SStr x, SStr y | SBytes x, SBytes y => String.eqb x y
  | _, _ => false
  end.

(* structural equality (field order and map entry order matter: canonical trees) *)
Fixpoint value_eqb (a b : value) {struct a} : bool :=
  match a, b with
  | VS x, VS y => scalar_eqb x y
  | VM fa, VM fb =>
      (fix go (fa fb : list (string * value)) : bool :=
         match fa, fb with
         | [], [] => true
         | (k, x) :: ra, (k', y) :: rb => String.eqb k k' && value_eqb x y && go ra rb
         | _, _ => false
         end) fa fb
  | VL la, VL lb =>
      (fix go (la lb : list value) : bool :=
         match la, lb with
         | [], [] => true
         | x :: ra, y :: rb => value_eqb x y && go ra rb
         | _, _ => false
         end) la lb
  | VMap ma, VMap mb =>
      (fix go (ma mb : list (scalar * value)) : bool :=
         match ma, mb with
         | [], [] => true
         | (k, x) :: ra, (k', y) :: rb => scalar_eqb k k' && value_eqb x y && go ra rb
         | _, _ => false
         end) ma mb
  | _, _ => false
  end.

(* association lists keyed by field name / by map key *)
Fixpoint alookup {A} (k : string) (l : list (string * A)) : option A :=
  match l with
  | [] => None
  | (k', x) :: r => if String.eqb k k' then Some x else alookup k r
  end.

Fixpoint aremove {A} (k : string) (l : list (string * A)) : list (string * A) :=
  match l with
  | [] => []
  | (k', x) :: r => if String.eqb k k' then aremove k r else (k', x) :: aremove k r
  end.

(* replace the entry for k in place, or append it *)
Fixpoint aset {A} (k : string) (x : A) (l : list (string * A)) : list (string * A) :=
  match l with
  | [] => [(k, x)]
  | (k', y) :: r => if String.eqb k k' then (k, x) :: r else (k', y) :: aset k x r
  end.

Fixpoint slookup {A} (k : scalar) (l : list (scalar * A)) : option A :=
  match l with
  | [] => None
  | (k', x) :: r => if scalar_eqb k k' then Some x else slookup k r
  end.

Fixpoint sset {A} (k : scalar) (x : A) (l : list (scalar * A)) : list (scalar * A) :=
  match l with
  | [] => [(k, x)]
  | (k', y) :: r => if scalar_eqb k k' then (k, x) :: r else (k', y) :: sset k x r
  end.

Definition akeys {A} (l : list (string * A)) : list string := map fst l.

Fixpoint nodup_keys (l : list string) : bool :=
  match l with
  | [] => true
  | k :: r => negb (existsb (String.eqb k) r) && nodup_keys r
  end.

(* equality up to the order of fields and of map entries (keys assumed distinct on both sides):
   used where the model does not reproduce field-number order (proto_merge appends new fields) *)
Fixpoint value_equiv (a b : value) {struct a} : bool :=
  match a, b with
  | VS x, VS y => scalar_eqb x y
  | VM fa, VM fb =>
      (List.length fa =? List.length fb)%nat &&
      (fix go (fa : list (string * value)) : bool :=
         match fa with
         | [] => true
         | (k, x) :: ra => match alookup k fb with Some y => value_equiv x y | None => false end && go ra
         end) fa
  | VL la, VL lb =>
      (fix go (la lb : list value) : bool :=
         match la, lb with
         | [], [] => true
         | x :: ra, y :: rb => value_equiv x y && go ra rb
         | _, _ => false
         end) la lb
  | VMap ma, VMap mb =>
      (List.length ma =? List.length mb)%nat &&
      (fix go (ma : list (scalar * value)) : bool :=
         match ma with
         | [] => true
         | (k, x) :: ra => match slookup k mb with Some y => value_equiv x y | None => false end && go ra
         end) ma
  | _, _ => false
  end.

Definition fields_of (v : value) : list (string * value) :=
  match v with VM f => f | _ => [] end.

Definition is_msg (v : value) : bool := match v with VM _ => true | _ => false end.

Definition vempty : value := VM [].

(* field access on a message tree: Has / Get / Clear / Set *)
Definition vhas (k : string) (v : value) : bool :=
  match alookup k (fields_of v) with Some _ => true | None => false end.
Definition vget (k : string) (v : value) : option value := alookup k (fields_of v).
Definition vclear (k : string) (v : value) : value :=
  match v with VM f => VM (aremove k f) | _ => v end.
Definition vset (k : string) (x : value) (v : value) : value :=
  match v with VM f => VM (aset k x f) | _ => v end.

(* the sub-tree at a position: a chain of field names, each step through a (singular) message *)
Fixpoint get_at (q : list string) (v : value) : option value :=
  match q with
  | [] => Some v
  | k :: r => match vget k v with Some x => get_at r x | None => None end
  end.
