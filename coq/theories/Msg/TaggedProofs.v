(* Proofs about ownership-aware message trees (Msg/Tagged.v): the tagged operations refine the plain ones,
   a clone is fresh, an in-place filter only keeps nodes it was given, and a reference that shares no
   identity with the graph an operation worked on does not change (the frame property, PROVED for
   [rebase], not assumed). *)
From SC Require Import Base.Prelude Msg.Msg Msg.MsgProofs Msg.Path Msg.FmUtils Msg.Tagged.

Section tvalue_induction.
  Variable P : tvalue -> Prop.
  Hypothesis HS : forall s, P (TS s).
  Hypothesis HM : forall id fs, Forall (fun kv => P (snd kv)) fs -> P (TM id fs).
  Hypothesis HL : forall l, Forall P l -> P (TL l).
  Hypothesis HMap : forall kv, Forall (fun e => P (snd e)) kv -> P (TMap kv).

  Fixpoint tvalue_ind' (v : tvalue) : P v :=
    match v with
    | TS s => HS s
    | TM id fs =>
        HM id fs ((fix go (l : list (string * tvalue)) : Forall (fun kv => P (snd kv)) l :=
                     match l with
                     | [] => Forall_nil _
                     | kv :: r => Forall_cons kv (tvalue_ind' (snd kv)) (go r)
                     end) fs)
    | TL l =>
        HL l ((fix go (l : list tvalue) : Forall P l :=
                 match l with
                 | [] => Forall_nil _
                 | x :: r => Forall_cons x (tvalue_ind' x) (go r)
                 end) l)
    | TMap kv =>
        HMap kv ((fix go (l : list (scalar * tvalue)) : Forall (fun e => P (snd e)) l :=
                    match l with
                    | [] => Forall_nil _
                    | e :: r => Forall_cons e (tvalue_ind' (snd e)) (go r)
                    end) kv)
    end.
End tvalue_induction.

Local Arguments Z.add : simpl never.

Lemma count_nonneg : forall t, 0 <= count t.
Proof.
  induction t as [s|id fs IH|l IH|kv IH] using tvalue_ind'; simpl; try lia.
  - assert (0 <= fold_right (fun (kx : string * tvalue) acc => count (snd kx) + acc) 0 fs); [|lia].
    induction IH; simpl; lia.
  - induction IH; simpl; lia.
  - induction IH; simpl; lia.
Qed.

Lemma fold_count_fs : forall (fs : list (string * tvalue)),
  0 <= fold_right (fun (kx : string * tvalue) acc => count (snd kx) + acc) 0 fs.
Proof. induction fs; simpl; [lia|]. pose proof (count_nonneg (snd a)). lia. Qed.
Lemma fold_count_l : forall (l : list tvalue), 0 <= fold_right (fun x acc => count x + acc) 0 l.
Proof. induction l; simpl; [lia|]. pose proof (count_nonneg a). lia. Qed.
Lemma fold_count_kv : forall (kv : list (scalar * tvalue)),
  0 <= fold_right (fun (kx : scalar * tvalue) acc => count (snd kx) + acc) 0 kv.
Proof. induction kv; simpl; [lia|]. pose proof (count_nonneg (snd a)). lia. Qed.

(* ---------- clone ---------- *)
Theorem retag_erase : forall t n, erase (retag n t) = erase t.
Proof.
  induction t as [s|id fs IH|l IH|kv IH] using tvalue_ind'; intros n; simpl; auto.
  - f_equal. generalize (n + 1). induction IH as [|kx r Hx _ IHr]; intros m; simpl; auto.
    rewrite Hx, IHr. reflexivity.
  - f_equal. generalize n. induction IH as [|x r Hx _ IHr]; intros m; simpl; auto.
    rewrite Hx, IHr. reflexivity.
  - f_equal. generalize n. induction IH as [|kx r Hx _ IHr]; intros m; simpl; auto.
    rewrite Hx, IHr. reflexivity.
Qed.

(* every identity of a clone made at counter n lies in [n, n + count t) *)
Theorem retag_fresh : forall t n i, In i (ids (retag n t)) -> n <= i < n + count t.
Proof.
  induction t as [s|id fs IH|l IH|kv IH] using tvalue_ind'; intros n i; simpl; try tauto.
  - intros [E|Hin]; [subst; pose proof (fold_count_fs fs) as C; lia|].
    assert (forall m, In i (flat_map (fun kx : string * tvalue => ids (snd kx))
                ((fix go (m : Z) (l : list (string * tvalue)) : list (string * tvalue) :=
                    match l with
                    | [] => []
                    | kx :: r => (fst kx, retag m (snd kx)) :: go (m + count (snd kx)) r
                    end) m fs)) ->
            m <= i < m + fold_right (fun (kx : string * tvalue) acc => count (snd kx) + acc) 0 fs) as H.
    { clear Hin. induction IH as [|kx r Hx _ IHr]; intros m Hi; simpl in *; [tauto|].
      apply in_app_or in Hi. destruct Hi as [Hi|Hi].
      - apply Hx in Hi.
        assert (0 <= fold_right (fun (kx : string * tvalue) acc => count (snd kx) + acc) 0 r).
        { clear. induction r; simpl; [lia|]. pose proof (count_nonneg (snd a)). lia. }
        lia.
      - apply IHr in Hi. pose proof (count_nonneg (snd kx)). lia. }
    apply H in Hin. lia.
  - generalize n. induction IH as [|x r Hx _ IHr]; intros m Hi; simpl in *; [tauto|].
    apply in_app_or in Hi. destruct Hi as [Hi|Hi].
    + apply Hx in Hi.
      assert (0 <= fold_right (fun x acc => count x + acc) 0 r).
      { clear. induction r; simpl; [lia|]. pose proof (count_nonneg a). lia. }
      lia.
    + apply IHr in Hi. pose proof (count_nonneg x). lia.
  - generalize n. induction IH as [|kx r Hx _ IHr]; intros m Hi; simpl in *; [tauto|].
    apply in_app_or in Hi. destruct Hi as [Hi|Hi].
    + apply Hx in Hi.
      assert (0 <= fold_right (fun (kx : scalar * tvalue) acc => count (snd kx) + acc) 0 r).
      { clear. induction r; simpl; [lia|]. pose proof (count_nonneg (snd a)). lia. }
      lia.
    + apply IHr in Hi. pose proof (count_nonneg (snd kx)). lia.
Qed.

(* ---------- in-place filter ---------- *)
Lemma otraverse_map_commute : forall {A B A' B'} (ga : A -> A') (gb : B -> B')
    (f : A -> option (list B)) (f' : A' -> option (list B')) l,
  Forall (fun x => option_map (map gb) (f x) = f' (ga x)) l ->
  option_map (map gb) (otraverse f l) = otraverse f' (map ga l).
Proof.
  intros A B A' B' ga gb f f' l H. induction H as [|x r Hx _ IH]; simpl; auto.
  rewrite <- Hx. destruct (f x) as [ys|]; simpl; auto.
  rewrite <- IH. destruct (otraverse f r) as [zs|]; simpl; auto.
  rewrite map_app. reflexivity.
Qed.

Lemma alookup_erase_is_msg : forall e, is_msg (erase e) = t_is_msg e.
Proof. destruct e; reflexivity. Qed.

(* the tagged filter computes, on the erased tree, exactly fmutils' filter (panics included) *)
Definition filter_refines (t : tvalue) : Prop :=
  forall m, option_map erase (t_filter m t) = nm_filter m (erase t).

Lemma t_filter_erase_aux : forall t,
  filter_refines t /\ (forall l, t = TL l -> Forall filter_refines l).
Proof.
  induction t as [s|id fs IH|l IH|kv IH] using tvalue_ind'.
  - split; [intros m; reflexivity|discriminate].
  - split; [|discriminate]. intros m. simpl.
    destruct (nm_empty m); [reflexivity|].
    match goal with
    | |- option_map erase (option_map (TM id) (otraverse ?f fs)) = option_map VM (otraverse ?f' (map ?ga fs)) =>
        rewrite <- (otraverse_map_commute ga ga f f' fs)
    end.
    + destruct (otraverse _ fs); reflexivity.
    + rewrite Forall_forall in *. intros [k x] Hin. specialize (IH (k, x) Hin). simpl in IH.
      destruct IH as [IHx IHl]. simpl.
      destruct (alookup k (nm_children m)) as [sub|]; [|reflexivity].
      destruct (nm_empty sub) eqn:Ee; [reflexivity|].
      destruct x as [s|id' fs'|l'|kv']; try reflexivity.
      * rewrite <- (IHx sub). cbn [erase]. destruct (t_filter sub (TM id' fs')); reflexivity.
      * cbn [erase].
        assert (option_map (map erase)
                  (otraverse (fun e => if t_is_msg e then osingle (t_filter sub e) else None) l') =
                otraverse (fun e => if is_msg e then osingle (nm_filter sub e) else None) (map erase l')) as Hl.
        { apply otraverse_map_commute. specialize (IHl l' eq_refl).
          rewrite Forall_forall in *. intros e He.
          rewrite alookup_erase_is_msg. destruct (t_is_msg e) eqn:Em; [|reflexivity].
          rewrite <- (IHl e He sub). destruct (t_filter sub e); reflexivity. }
        rewrite <- Hl.
        destruct (otraverse (fun e => if t_is_msg e then osingle (t_filter sub e) else None) l'); reflexivity.
  - split; [intros m; reflexivity|].
    intros l' E. inversion E. subst. rewrite Forall_forall in *. intros e He. apply (IH e He).
  - split; [intros m; reflexivity|discriminate].
Qed.

Theorem t_filter_erase : forall t m, option_map erase (t_filter m t) = nm_filter m (erase t).
Proof. intros t. apply (proj1 (t_filter_erase_aux t)). Qed.

(* ---------- the in-place filter keeps only nodes it was given ---------- *)
Definition filter_ids_incl (t : tvalue) : Prop :=
  forall m t', t_filter m t = Some t' -> incl (ids t') (ids t).

Lemma otraverse_ids : forall {A} (f : A -> option (list A)) (idsf : A -> list Z) l l',
  Forall (fun x => forall ys, f x = Some ys -> incl (flat_map idsf ys) (idsf x)) l ->
  otraverse f l = Some l' -> incl (flat_map idsf l') (flat_map idsf l).
Proof.
  intros A f idsf l l' H. revert l'. induction H as [|x r Hx _ IH]; intros l' Ho; simpl in Ho.
  - inversion Ho. apply incl_refl.
  - destruct (f x) as [ys|] eqn:Ef; [|discriminate].
    destruct (otraverse f r) as [zs|] eqn:Eo; [|discriminate]. inversion Ho. subst.
    simpl. rewrite flat_map_app. apply incl_app.
    + apply incl_appl. apply Hx. reflexivity.
    + apply incl_appr. apply IH. reflexivity.
Qed.

Lemma t_filter_ids_aux : forall t,
  filter_ids_incl t /\ (forall l, t = TL l -> Forall filter_ids_incl l).
Proof.
  induction t as [s|id fs IH|l IH|kv IH] using tvalue_ind'.
  - split; [|discriminate]. intros m t' H. inversion H. apply incl_refl.
  - split; [|discriminate]. intros m t' H. simpl in H.
    destruct (nm_empty m); [inversion H; apply incl_refl|].
    destruct (otraverse _ fs) as [fsn|] eqn:Eo; [|discriminate]. inversion H. subst. simpl.
    apply incl_cons; [left; reflexivity|]. apply incl_tl.
    eapply (otraverse_ids _ (fun kx : string * tvalue => ids (snd kx))); [|exact Eo].
    rewrite Forall_forall in *. intros [k x] Hin ys Hf. specialize (IH (k, x) Hin). simpl in IH.
    destruct IH as [IHx IHl]. simpl.
    destruct (alookup k (nm_children m)) as [sub|]; [|inversion Hf; apply incl_nil_l].
    destruct (nm_empty sub); [inversion Hf; simpl; rewrite app_nil_r; apply incl_refl|].
    destruct x as [s|id' fs'|l'|kv']; try discriminate.
    + inversion Hf. simpl. apply incl_refl.
    + destruct (t_filter sub (TM id' fs')) as [x'|] eqn:Ex; [|discriminate]. inversion Hf. subst.
      simpl. rewrite app_nil_r. apply (IHx sub x' Ex).
    + destruct (otraverse (fun e => if t_is_msg e then osingle (t_filter sub e) else None) l') as [l''|] eqn:El;
        [|discriminate].
      inversion Hf. subst. simpl. rewrite app_nil_r.
      eapply (otraverse_ids _ ids); [|exact El].
      specialize (IHl l' eq_refl). rewrite Forall_forall in *. intros e He ys' Hy.
      destruct (t_is_msg e); [|discriminate].
      destruct (t_filter sub e) as [e'|] eqn:Ee; [|discriminate]. inversion Hy. subst. simpl.
      rewrite app_nil_r. apply (IHl e He sub e' Ee).
  - split.
    + intros m t' H. inversion H. apply incl_refl.
    + intros l' E. inversion E. subst. rewrite Forall_forall in *. intros e He. apply (IH e He).
  - split; [|discriminate]. intros m t' H. inversion H. apply incl_refl.
Qed.

Theorem t_filter_ids : forall t m t', t_filter m t = Some t' -> incl (ids t') (ids t).
Proof. intros t. apply (proj1 (t_filter_ids_aux t)). Qed.

(* ---------- frame ---------- *)
Lemma find_node_none : forall t i, ~ In i (ids t) -> find_node i t = None.
Proof.
  induction t as [s|id fs IH|l IH|kv IH] using tvalue_ind'; intros i Hn; simpl in *; auto.
  - destruct (id =? i) eqn:E; [apply Z.eqb_eq in E; exfalso; apply Hn; left; auto|].
    assert (~ In i (flat_map (fun kx : string * tvalue => ids (snd kx)) fs)) as Hn' by tauto. clear Hn.
    induction IH as [|kx r Hx _ IHr]; simpl in *; auto.
    rewrite Hx by (intros C; apply Hn'; apply in_or_app; auto).
    apply IHr. intros C; apply Hn'; apply in_or_app; auto.
  - induction IH as [|x r Hx _ IHr]; simpl in *; auto.
    rewrite Hx by (intros C; apply Hn; apply in_or_app; auto).
    apply IHr. intros C; apply Hn; apply in_or_app; auto.
  - induction IH as [|kx r Hx _ IHr]; simpl in *; auto.
    rewrite Hx by (intros C; apply Hn; apply in_or_app; auto).
    apply IHr. intros C; apply Hn; apply in_or_app; auto.
Qed.

(* FRAME: a reference that shares no identity with the graph the operation worked on shows what it
   showed before *)
Theorem rebase_disjoint : forall t' v,
  (forall i, In i (ids v) -> ~ In i (ids t')) -> rebase t' v = v.
Proof.
  intros t'. induction v as [s|id fs IH|l IH|kv IH] using tvalue_ind'; intros Hd; simpl in *; auto.
  - rewrite (find_node_none t' id) by (apply Hd; left; auto). f_equal.
    assert (forall i, In i (flat_map (fun kx : string * tvalue => ids (snd kx)) fs) -> ~ In i (ids t')) as Hd'
      by (intros i Hi; apply Hd; right; auto). clear Hd.
    induction IH as [|kx r Hx _ IHr]; simpl in *; auto.
    rewrite Hx by (intros i Hi; apply Hd'; apply in_or_app; auto).
    rewrite IHr by (intros i Hi; apply Hd'; apply in_or_app; auto).
    destruct kx; reflexivity.
  - f_equal. induction IH as [|x r Hx _ IHr]; simpl in *; auto.
    rewrite Hx by (intros i Hi; apply Hd; apply in_or_app; auto).
    rewrite IHr by (intros i Hi; apply Hd; apply in_or_app; auto). reflexivity.
  - f_equal. induction IH as [|kx r Hx _ IHr]; simpl in *; auto.
    rewrite Hx by (intros i Hi; apply Hd; apply in_or_app; auto).
    rewrite IHr by (intros i Hi; apply Hd; apply in_or_app; auto).
    destruct kx; reflexivity.
Qed.
