(* Ownership-aware message trees: every message struct carries the identity of its allocation.  Two
   references ALIAS exactly where they contain the same identity; an in-place operation keeps the identity
   of the nodes it works on, a clone allocates new ones.  [rebase t' v] is what a second reference v shows
   after an in-place operation has turned the object graph it worked on into t': every node of v whose
   identity occurs in t' now has the contents it has in t'.

   In-place operations modelled here: fmutils NestedMask.Filter ([t_filter], same code shape as
   Msg/FmUtils.nm_filter), proto.Clone ([retag]: a deep copy with fresh identities), the shallow clone of
   seeded change C06-r3-1 ([shallow_clone]: new root and new containers, repeated message ELEMENTS shared).
   No proofs here. *)
From SC Require Import Base.Prelude Msg.Msg Msg.Path Msg.FmUtils.

Inductive tvalue :=
| TS (s : scalar)
| TM (id : Z) (fields : list (string * tvalue))
| TL (l : list tvalue)
| TMap (kv : list (scalar * tvalue)).

Fixpoint erase (t : tvalue) : value :=
  match t with
  | TS s => VS s
  | TM _ fs => VM (map (fun kx : string * tvalue => (fst kx, erase (snd kx))) fs)
  | TL l => VL (map erase l)
  | TMap kv => VMap (map (fun kx : scalar * tvalue => (fst kx, erase (snd kx))) kv)
  end.

(* the identities of all message structs reachable from t *)
Fixpoint ids (t : tvalue) : list Z :=
  match t with
  | TS _ => []
  | TM id fs => id :: flat_map (fun kx : string * tvalue => ids (snd kx)) fs
  | TL l => flat_map ids l
  | TMap kv => flat_map (fun kx : scalar * tvalue => ids (snd kx)) kv
  end.

(* number of message structs *)
Fixpoint count (t : tvalue) : Z :=
  match t with
  | TS _ => 0
  | TM _ fs => 1 + fold_right (fun (kx : string * tvalue) acc => count (snd kx) + acc) 0 fs
  | TL l => fold_right (fun x acc => count x + acc) 0 l
  | TMap kv => fold_right (fun (kx : scalar * tvalue) acc => count (snd kx) + acc) 0 kv
  end.

(* proto.Clone: the same tree with identities n, n+1, ... (preorder) *)
Fixpoint retag (n : Z) (t : tvalue) {struct t} : tvalue :=
  match t with
  | TS s => TS s
  | TM _ fs =>
      TM n ((fix go (m : Z) (l : list (string * tvalue)) : list (string * tvalue) :=
               match l with
               | [] => []
               | kx :: r => (fst kx, retag m (snd kx)) :: go (m + count (snd kx)) r
               end) (n + 1) fs)
  | TL l =>
      TL ((fix go (m : Z) (l : list tvalue) : list tvalue :=
             match l with
             | [] => []
             | x :: r => retag m x :: go (m + count x) r
             end) n l)
  | TMap kv =>
      TMap ((fix go (m : Z) (l : list (scalar * tvalue)) : list (scalar * tvalue) :=
               match l with
               | [] => []
               | kx :: r => (fst kx, retag m (snd kx)) :: go (m + count (snd kx)) r
               end) n kv)
  end.

Definition t_is_msg (t : tvalue) : bool := match t with TM _ _ => true | _ => false end.

(* NestedMask.Filter IN PLACE: the surviving nodes keep their identity *)
Fixpoint t_filter (m : nmask) (t : tvalue) {struct t} : option tvalue :=
  match t with
  | TM id fields =>
      if nm_empty m then Some t else
      option_map (TM id)
        (otraverse (fun kx : string * tvalue =>
                      let '(k, x) := kx in
                      match alookup k (nm_children m) with
                      | None => Some []
                      | Some sub =>
                          if nm_empty sub then Some [(k, x)] else
                          match x with
                          | TS _ => Some [(k, x)]
                          | TM _ _ => osingle (option_map (pair k) (t_filter sub x))
                          | TL l =>
                              osingle (option_map (fun l' => (k, TL l'))
                                (otraverse (fun e => if t_is_msg e then osingle (t_filter sub e) else None) l))
                          | TMap _ => None
                          end
                      end) fields)
  | _ => Some t
  end.

(* look a node up by identity *)
Fixpoint find_node (i : Z) (t : tvalue) {struct t} : option (list (string * tvalue)) :=
  match t with
  | TS _ => None
  | TM id fs =>
      if id =? i then Some fs else
      (fix go (l : list (string * tvalue)) : option (list (string * tvalue)) :=
         match l with
         | [] => None
         | kx :: r => match find_node i (snd kx) with Some f => Some f | None => go r end
         end) fs
  | TL l =>
      (fix go (l : list tvalue) : option (list (string * tvalue)) :=
         match l with
         | [] => None
         | x :: r => match find_node i x with Some f => Some f | None => go r end
         end) l
  | TMap kv =>
      (fix go (l : list (scalar * tvalue)) : option (list (string * tvalue)) :=
         match l with
         | [] => None
         | kx :: r => match find_node i (snd kx) with Some f => Some f | None => go r end
         end) kv
  end.

(* what reference v shows once the graph an in-place operation worked on has become t': a node whose
   identity occurs in t' has t''s contents (and is not looked into further: they are t''s nodes now) *)
Fixpoint rebase (t' : tvalue) (v : tvalue) {struct v} : tvalue :=
  match v with
  | TS s => TS s
  | TM id fs =>
      match find_node id t' with
      | Some fs' => TM id fs'
      | None => TM id (map (fun kx : string * tvalue => (fst kx, rebase t' (snd kx))) fs)
      end
  | TL l => TL (map (rebase t') l)
  | TMap kv => TMap (map (fun kx : scalar * tvalue => (fst kx, rebase t' (snd kx))) kv)
  end.

(* the clone of seeded change C06-r3-1: a new root with the top-level fields copied; singular messages
   deep-cloned, but a repeated field gets a new list holding the SAME element messages *)
Definition shallow_clone (n : Z) (t : tvalue) : tvalue :=
  match t with
  | TM _ fs =>
      TM n ((fix go (m : Z) (l : list (string * tvalue)) : list (string * tvalue) :=
               match l with
               | [] => []
               | kx :: r =>
                   match snd kx with
                   | TL es => (fst kx, TL es) :: go m r
                   | TMap kv => (fst kx, TMap kv) :: go m r
                   | x => (fst kx, retag m x) :: go (m + count x) r
                   end
               end) (n + 1) fs)
  | _ => t
  end.

(* a plain tree as an object graph: every message struct its own allocation, numbered 0, 1, ... *)
Fixpoint inject (v : value) : tvalue :=
  match v with
  | VS s => TS s
  | VM fs => TM 0 (map (fun kx : string * value => (fst kx, inject (snd kx))) fs)
  | VL l => TL (map inject l)
  | VMap kv => TMap (map (fun kx : scalar * value => (fst kx, inject (snd kx))) kv)
  end.

Definition graph_of (v : value) : tvalue := retag 0 (inject v).

Definition root_id (t : tvalue) : Z := match t with TM id _ => id | _ => -1 end.

(* how many message structs of r are structs of t *)
Definition shared_nodes (r t : tvalue) : Z :=
  Z.of_nat (List.length (filter (fun i => existsb (Z.eqb i) (ids t)) (ids r))).
