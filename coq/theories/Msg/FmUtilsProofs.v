(* The nested mask built by NestedMaskFromPaths, seen through the path set it was built from:
   the child for field k is the nested mask of the remainders of the paths starting with k, and a
   nested mask is empty iff no path had a segment. *)
From SC Require Import Base.Prelude Msg.Msg Msg.Path Msg.FmUtils.

Definition ins_all (ps : list path) (m : nmask) : nmask := fold_left (fun m p => nm_insert p m) ps m.

Lemma nested_of_paths_ins : forall ps, nested_of_paths ps = ins_all (map drop_empty ps) (NM []).
Proof.
  unfold nested_of_paths, ins_all. intros ps. generalize (NM []).
  induction ps as [|p ps IH]; intros m; simpl; auto.
Qed.

Definition sub_or_empty (o : option nmask) : nmask := match o with Some m => m | None => NM [] end.

Lemma alookup_upsert : forall k' k f l,
  alookup k' (nm_upsert k f l) =
  if String.eqb k' k then Some (f (sub_or_empty (alookup k l))) else alookup k' l.
Proof.
  induction l as [|[k0 m0] l IH]; simpl.
  - destruct (String.eqb k' k); reflexivity.
  - destruct (String.eqb k k0) eqn:E.
    + apply String.eqb_eq in E. subst k0. simpl. destruct (String.eqb k' k); reflexivity.
    + simpl. rewrite IH. destruct (String.eqb k' k0) eqn:E'; auto.
      apply String.eqb_eq in E'. subst k0.
      destruct (String.eqb k' k) eqn:E''; auto.
      apply String.eqb_eq in E''. subst k'. rewrite String.eqb_refl in E. discriminate.
Qed.

Lemma upsert_nonempty : forall k f l, nm_upsert k f l <> [].
Proof. intros k f [|[k0 m0] l]; simpl; [discriminate|]. destruct (String.eqb k k0); discriminate. Qed.

Lemma ins_all_lookup : forall ps m k,
  alookup k (nm_children (ins_all ps m)) =
  match alookup k (nm_children m), deriv k ps with
  | None, [] => None
  | o, d => Some (ins_all d (sub_or_empty o))
  end.
Proof.
  induction ps as [|p ps IH]; intros m k.
  - simpl. destruct (alookup k (nm_children m)); reflexivity.
  - change (ins_all (p :: ps) m) with (ins_all ps (nm_insert p m)). rewrite IH.
    destruct p as [|s r].
    + simpl. reflexivity.
    + change (deriv k ((s :: r) :: ps)) with ((if String.eqb s k then [r] else []) ++ deriv k ps).
      simpl nm_insert. simpl nm_children. rewrite alookup_upsert.
      rewrite (String.eqb_sym k s).
      destruct (String.eqb s k) eqn:E.
      * apply String.eqb_eq in E. subst s. simpl.
        destruct (alookup k (nm_children m)); simpl; destruct (deriv k ps); reflexivity.
      * simpl. reflexivity.
Qed.

Lemma ins_all_nonempty : forall ps m, nm_empty m = false -> nm_empty (ins_all ps m) = false.
Proof.
  induction ps as [|p ps IH]; intros m H; simpl; auto.
  apply IH. destruct p as [|s r]; simpl; auto.
  destruct (nm_upsert s (nm_insert r) (nm_children m)) eqn:E; auto.
  exfalso. eapply upsert_nonempty; eauto.
Qed.

Lemma nm_empty_ins_all : forall ps m, nm_empty (ins_all ps m) = nm_empty m && forallb is_nil ps.
Proof.
  induction ps as [|p ps IH]; intros m; simpl.
  - rewrite andb_true_r. reflexivity.
  - destruct p as [|s r]; simpl.
    + apply IH.
    + rewrite andb_false_r. apply ins_all_nonempty. simpl.
      destruct (nm_upsert s (nm_insert r) (nm_children m)) eqn:E; auto.
      exfalso. eapply upsert_nonempty; eauto.
Qed.

(* otraverse *)
Lemma otraverse_flat_map : forall {A B} (f : A -> option (list B)) (g : A -> list B) l,
  (forall x, In x l -> f x = Some (g x)) -> otraverse f l = Some (flat_map g l).
Proof.
  induction l as [|x l IH]; intros H; simpl; auto.
  rewrite (H x (or_introl eq_refl)). rewrite IH; auto. intros y Hy. apply H. right. exact Hy.
Qed.

Lemma otraverse_total : forall {A B} (f : A -> option (list B)) l,
  (forall x, In x l -> exists y, f x = Some y) -> exists r, otraverse f l = Some r.
Proof.
  induction l as [|x l IH]; intros H; simpl; eauto.
  destruct (H x (or_introl eq_refl)) as [y Hy]. rewrite Hy.
  destruct IH as [r Hr]. { intros z Hz. apply H. right. exact Hz. }
  rewrite Hr. eauto.
Qed.
