(* Final wave: the stream theorem from EVERY configuration.
   [ConcStreamProofs.predict_sound] is stated for [Inv] = [InvG blank] (a model constructed without an
   initial active value).  The same proof goes through for the invariant [InvG a0] of a model
   constructed with any active value a0 (it uses only: distinct ids, at most one normal mode, and that
   [step] preserves the invariant); restated here, and carried to every option list NewModel accepts:
   the PullModes events predicted for any history rebuild the model's listing after every write, every
   view a subscriber holds has at most one normal mode, the last PullActiveMode value is the final
   active value, and any emitted value implies that an activating call has succeeded. *)
From SC Require Import Base.Prelude Electric.Model Electric.ModelProofs Electric.C19Judge Electric.JudgeProofs
  Electric.ConcStreamProofs Electric.Config Electric.ConfigProofs.

Lemma step_events_gen {a0} : forall s now o, InvG a0 s ->
  let s' := fst (step s now o) in
  let d := modes_diff (modes s) (modes s') in
  fold_left apply_event d (modes s) = modes s' /\
  (forall rest, views_ok (modes s) (d ++ rest) = views_ok (modes s') rest).
Proof.
  intros s now o I s' d.
  assert (N : one_normal (modes s) = true).
  { apply Z.leb_le. rewrite <- normal_count_normals. apply (inv_normal _ I). }
  assert (N' : one_normal (modes s') = true).
  { apply Z.leb_le. rewrite <- normal_count_normals. apply (inv_normal _ (inv_step s now o I)). }
  pose proof (inv_nodup _ I) as ND.
  assert (G : fold_left apply_event d (modes s) = modes s' /\
              views_ok (modes s) d = true).
  { subst d s'. revert N'. generalize (step_shape s now o).
    generalize (modes (fst (step s now o))) as l'. intros l' Sh N'. unfold one_normal in N, N'.
    destruct Sh as [|m H|new old F|id x F].
    - rewrite (diff_same _ ND). cbn. split; [reflexivity|]. rewrite N. reflexivity.
    - rewrite (diff_insert _ ND m H). cbn [fold_left apply_event views_ok]. split; [reflexivity|].
      rewrite N, N'. reflexivity.
    - rewrite (diff_replace _ ND new old F). destruct (emode_eqb old new) eqn:E.
      + apply emode_eqb_eq in E. subst old. cbn. rewrite (replace_same new _ ND F).
        split; [reflexivity|rewrite N; reflexivity].
      + cbn [fold_left apply_event views_ok]. split; [reflexivity|].
        rewrite N, N'. reflexivity.
    - rewrite (diff_remove _ ND id x F). destruct (find_some _ _ _ F) as [E _].
      cbn [fold_left apply_event views_ok]. rewrite E. split; [reflexivity|].
      rewrite N, N'. reflexivity. }
  destruct G as [G1 G2]. split; [exact G1|].
  intros rest. rewrite views_ok_app, G1, G2. reflexivity.
Qed.

Lemma views_ok_nil : forall l, views_ok l [] = one_normal l.
Proof. intros l. cbn. unfold one_normal. destruct (_ <=? _); reflexivity. Qed.

Lemma predict_sound_gen {a0} : forall steps s lst, InvG a0 s -> lst = active s ->
  let me := fst (predict s lst steps) in
  let ae := snd (predict s lst steps) in
  views_ok (modes s) me = true /\
  fold_left apply_event me (modes s) = modes (run s steps) /\
  lastd ae lst = active (run s steps) /\
  (ae <> [] -> changed (run s steps) = true).
Proof.
  induction steps as [|[now o] rest IH]; intros s lst I L.
  - cbn [predict fst snd]. split; [|split; [reflexivity|split; [exact L|intros C; congruence]]].
    rewrite views_ok_nil. apply Z.leb_le. rewrite <- normal_count_normals. apply (inv_normal _ I).
  - cbn [predict]. destruct (step s now o) as [s' r] eqn:E.
    set (a := if activates o && (rcode r =? 0) && negb (emode_eqb (active s') lst) then [active s'] else []).
    set (lst' := match a with x :: _ => x | [] => lst end).
    assert (Es : s' = fst (step s now o)) by (rewrite E; reflexivity).
    assert (Er : r = snd (step s now o)) by (rewrite E; reflexivity).
    assert (I' : InvG a0 s') by (rewrite Es; apply inv_step; exact I).
    assert (L' : lst' = active s').
    { subst lst' a. destruct (activates o) eqn:A; cbn [andb].
      - destruct (rcode r =? 0) eqn:C; cbn [andb].
        + destruct (emode_eqb (active s') lst) eqn:Q; cbn [negb]; [|reflexivity].
          apply emode_eqb_eq in Q. symmetry. exact Q.
        + apply Z.eqb_neq in C. rewrite Er in C.
          pose proof (failed_is_noop true true s now o C) as F. fold step in F. rewrite <- Es in F.
          rewrite F. exact L.
      - rewrite Es. unfold step. rewrite (frame_active true true s now o A). exact L. }
    specialize (IH s' lst' I' L').
    destruct (predict s' lst' rest) as [me ae] eqn:P. cbn [fst snd] in IH |- *.
    destruct IH as [V [F [La Ch]]].
    pose proof (step_events_gen s now o I) as SE. cbn zeta in SE. rewrite <- Es in SE.
    destruct SE as [SE1 SE2].
    assert (R : run s ((now, o) :: rest) = run s' rest).
    { unfold run, run_gen. cbn [fold_left fst snd]. fold step. rewrite E. reflexivity. }
    rewrite R. split; [rewrite SE2; exact V|]. split; [rewrite fold_left_app, SE1; exact F|].
    split.
    + rewrite lastd_app. replace (lastd a lst) with lst'; [exact La|].
      subst lst'. destruct a as [|x [|y t]] eqn:Ea; try reflexivity.
      subst a. destruct (_ && _ && _); discriminate.
    + intros NE. destruct ae as [|x t]; [|apply Ch; discriminate].
      rewrite app_nil_r in NE. apply changed_run_mono.
      subst a. destruct (activates o) eqn:A; cbn [andb] in NE; [|congruence].
      destruct (rcode r =? 0) eqn:C; cbn [andb] in NE; [|congruence].
      pose proof (step_changed true true s now o) as SC. fold step in SC.
      rewrite <- Es, <- Er, A, C in SC. rewrite SC. apply Bool.orb_true_r.
Qed.

(* from every configuration NewModel accepts, for every history *)
Theorem config_streams_follow_model : forall opts s0 steps, new_model opts = Some s0 ->
  normal_count (cfg_records opts) <= 1 ->
  let me := fst (predict s0 (active s0) steps) in
  let ae := snd (predict s0 (active s0) steps) in
  views_ok (modes s0) me = true /\
  fold_left apply_event me (modes s0) = modes (run s0 steps) /\
  lastd ae (cfg_active opts) = active (run s0 steps) /\
  (ae <> [] -> changed (run s0 steps) = true /\ has (mid (active (run s0 steps))) (modes (run s0 steps)) = true).
Proof.
  intros opts s0 steps H N me ae.
  pose proof (new_model_inv opts s0 H N) as I.
  destruct (new_model_state opts s0 H) as [_ [_ [Ea _]]].
  destruct (predict_sound_gen steps s0 (active s0) I eq_refl) as [V [F [L C]]]. fold me ae in V, F, L, C.
  split; [exact V|]. split; [exact F|]. split; [rewrite <- Ea; exact L|].
  intros NE. split; [apply C; exact NE|].
  apply (inv_active _ (inv_run steps s0 I)). apply C. exact NE.
Qed.

(* non-vacuity: a configured model whose history emits on both streams *)
Local Open Scope string_scope.
Example config_streams_nonvacuous :
  let opts := [CClock 1; CInitial [ma]; CActive false mb; CInitial [mc; mb]; CRng] in
  exists s0, new_model opts = Some s0 /\ normal_count (cfg_records opts) <= 1 /\ active s0 = mb /\
  let steps := [(10, OAdd (mkM "x" "X" false None)); (20, SClear); (30, ODelete "x" false)] in
  fst (predict s0 (active s0) steps) =
    [MAdd (mkM "x" "X" false None); MRemove (mkM "x" "X" false None)] /\
  snd (predict s0 (active s0) steps) = [mkM "a" "normal" true (Some 20)].
Proof. eexists. split; [vm_compute; reflexivity|]. vm_compute. repeat split; discriminate. Qed.
Local Close Scope string_scope.
