(* Correspondence cases for C19.  A case is a whole history observed on the implementation:
     KSeq  - a sequential operation sequence with Modes(), ActiveMode(), NormalMode(), the error
             code and the returned mode recorded after every operation (and before the first);
     KConc - 2-4 goroutines issuing operations concurrently, with invocation/response stamps, the
             per-call results and the state at quiescence.
   [agrees] replays the history on the model (KConc: searches a linearization by the model);
   [C19_ok] evaluates the property clauses directly on consecutive *observed* states - it never
   calls [step]. *)
From SC Require Import Base.Prelude Electric.Model Electric.Config Electric.UpdateOpts.

Record obs := mkObs { ocode : Z; oret : option emode; omodes : list emode; oactive : emode; onormal : option emode }.

Record cop := mkCop { cop_op : op; cinv : Z; cresp : Z; ccode : Z; cret : option emode }.

(* what a PullModes subscriber receives *)
Inductive mevent := MAdd (new : emode) | MUpdate (old new : emode) | MRemove (old : emode).

Inductive c19case :=
| KSeq (initial : list emode) (o0 : obs) (steps : list (Z * op * obs))
| KConc (initial : list emode) (now : Z) (threads : list (list cop)) (fin : obs)
(* the PullModes and PullActiveMode streams (with back-pressure, so nothing is dropped) of a
   sequential history, subscribed before the first operation *)
| KStream (initial : list emode) (steps : list (Z * op)) (mev : list mevent) (aev : list emode)
(* a sequential history on a model constructed from an option list (Electric/Config.v):
   [panicked] = NewModel(opts...) panicked (then there is nothing else); the time of a step is the
   base time the harness gave its clocks, the stamping clock is decided by the option list;
   [evclk] = which clocks (0 = real) the change times of a PullModes / PullActiveMode event
   produced after the history showed, when measured *)
| KCfg (opts : list copt) (panicked : bool) (o0 : obs) (steps : list (Z * op * obs)) (evclk : option (Z * Z))
(* one Model.UpdateMode call with write options (Electric/UpdateOpts.v) on a store observed key by
   key (FindMode) before and after *)
| KOpt (l : kstore) (m : emode) (w : wopts) (code : Z) (ret : option emode) (l' : kstore).

Definition emodes_eqb := list_eqb emode_eqb.
Definition oemode_eqb := option_eqb emode_eqb.

(* ------------------------------------------------------------------ agrees *)
Definition obs_matches (s : state) (r : res) (o : obs) : bool :=
  (rcode r =? ocode o) && oemode_eqb (rret r) (oret o)
  && emodes_eqb (modes s) (omodes o) && emode_eqb (active s) (oactive o)
  && oemode_eqb (normal_of (modes s)) (onormal o).

Fixpoint replay (s : state) (steps : list (Z * op * obs)) : bool :=
  match steps with
  | [] => true
  | (now, o, ob) :: rest =>
      let '(s', r) := step s now o in
      obs_matches s' r ob && replay s' rest
  end.

Definition is_nil {A} (l : list A) : bool := match l with [] => true | _ => false end.

Fixpoint set_nth {A} (i : nat) (x : A) (l : list A) : list A :=
  match l, i with
  | [], _ => []
  | _ :: r, O => x :: r
  | y :: r, S k => y :: set_nth k x r
  end.

(* c may be linearized next only if no other pending call had already returned before c was
   invoked (heads suffice: stamps increase along a thread) *)
Definition may_go_first (c : cop) (i : nat) (threads : list (list cop)) : bool :=
  forallb (fun p => match snd p with
                    | [] => true
                    | d :: _ => Nat.eqb (fst p) i || (cinv c <? cresp d)
                    end)
          (combine (seq 0 (List.length threads)) threads).

(* linearizability against [step]: breadth-first search over the interleavings that respect
   program order and real-time order, pruned by the per-call results.  A configuration is the
   remaining calls of every thread and the model state reached; configurations of one level
   (same number of calls linearized) are deduplicated. *)
Definition cfg := (list (list cop) * state)%type.

Definition state_eqb (a b : state) : bool :=
  emodes_eqb (modes a) (modes b) && emode_eqb (active a) (active b) && Bool.eqb (changed a) (changed b).
Definition cfg_eqb (a b : cfg) : bool :=
  list_eqb Nat.eqb (map (@List.length cop) (fst a)) (map (@List.length cop) (fst b))
  && state_eqb (snd a) (snd b).

Definition succs (now : Z) (c : cfg) : list cfg :=
  let '(threads, s) := c in
  flat_map (fun i =>
    match nth i threads [] with
    | [] => []
    | d :: rest =>
        if may_go_first d i threads then
          let '(s', r) := step s now (cop_op d) in
          if (rcode r =? ccode d) && oemode_eqb (rret r) (cret d)
          then [(set_nth i rest threads, s')] else []
        else []
    end) (seq 0 (List.length threads)).

Fixpoint dedup (l acc : list cfg) : list cfg :=
  match l with
  | [] => acc
  | c :: r => if existsb (cfg_eqb c) acc then dedup r acc else dedup r (c :: acc)
  end.

Fixpoint lin (fuel : nat) (now : Z) (front : list cfg) (fin : state -> bool) : bool :=
  match fuel with
  | O => false
  | S f =>
      match front with
      | [] => false
      | c :: _ =>
          if forallb is_nil (fst c) then existsb (fun c => forallb is_nil (fst c) && fin (snd c)) front
          else lin f now (dedup (flat_map (succs now) front) []) fin
      end
  end.

Definition total_ops (threads : list (list cop)) : nat :=
  fold_right (fun t n => (List.length t + n)%nat) O threads.

(* ---- the streams the model predicts ---- *)
Definition mevent_eqb (a b : mevent) : bool :=
  match a, b with
  | MAdd x, MAdd y => emode_eqb x y
  | MUpdate o x, MUpdate p y => emode_eqb o p && emode_eqb x y
  | MRemove x, MRemove y => emode_eqb x y
  | _, _ => false
  end.

(* Collection.Pull: one event per entry that differs (an operation touches one id); an update that
   leaves the entry equal is not emitted (WithNoDuplicates) *)
Definition modes_diff (l l' : list emode) : list mevent :=
  flat_map (fun m => match find (mid m) l' with
                     | None => [MRemove m]
                     | Some m' => if emode_eqb m m' then [] else [MUpdate m m']
                     end) l
  ++ flat_map (fun m => if has (mid m) l then [] else [MAdd m]) l'.

Fixpoint predict (s : state) (last : emode) (steps : list (Z * op)) : list mevent * list emode :=
  match steps with
  | [] => ([], [])
  | (now, o) :: rest =>
      let '(s', r) := step s now o in
      (* Value.Pull: every successful Set publishes; equal to the last emitted value = dropped *)
      let a := if activates o && (rcode r =? 0) && negb (emode_eqb (active s') last) then [active s'] else [] in
      let last' := match a with x :: _ => x | [] => last end in
      let '(me, ae) := predict s' last' rest in
      (modes_diff (modes s) (modes s') ++ me, a ++ ae)
  end.

Definition retime (k : Z) (steps : list (Z * op * obs)) : list (Z * op * obs) :=
  map (fun p => (clock_reading k (fst (fst p)), snd (fst p), snd p)) steps.

Definition kstore_eqb : kstore -> kstore -> bool :=
  list_eqb (fun p q => String.eqb (fst p) (fst q) && emode_eqb (snd p) (snd q)).

Definition agrees (c : c19case) : bool :=
  match c with
  | KOpt l m w code ret l' =>
      let '(ml, mc, mr) := update_w true l m w in
      kstore_eqb ml l' && (mc =? code) && oemode_eqb mr ret
  | KCfg opts panicked o0 steps evclk =>
      match new_model opts with
      | None => panicked && is_nil steps
      | Some s0 => negb panicked && obs_matches s0 (ok_ None) o0 && replay s0 (retime (cfg_clock opts) steps)
                   && match evclk with
                      | None => true
                      | Some (mk, ak) => (mk =? cfg_mclock opts) && (ak =? cfg_aclock opts)
                      end
      end
  | KSeq initial o0 steps =>
      obs_matches (init_state initial) (ok_ None) o0 && replay (init_state initial) steps
  | KConc initial now threads fin =>
      lin (S (total_ops threads)) now [(threads, init_state initial)]
          (fun s => emodes_eqb (modes s) (omodes fin) && emode_eqb (active s) (oactive fin)
                    && oemode_eqb (normal_of (modes s)) (onormal fin))
  | KStream initial steps mev aev =>
      let '(me, ae) := predict (init_state initial) blank steps in
      (* seed values first: the stored modes in id order / the current active value *)
      list_eqb mevent_eqb mev (map MAdd initial ++ me) && emodes_eqb aev (blank :: ae)
  end.

(* ------------------------------------------------------------------ the property on observations *)
Definition ids (l : list emode) : list string := map mid l.
Definition id_in (id : string) (l : list emode) : bool := existsb (String.eqb id) (ids l).
Definition normals (l : list emode) : list emode := filter mnormal l.

Definition switch_target (o : op) : option (option string) :=   (* Some None = the normal mode *)
  match o with
  | OChange id | SChange id => Some (Some id)
  | OClear | SClear => Some None
  | _ => None
  end.
Definition delete_of (o : op) : option (string * bool) :=
  match o with ODelete id a | SDelete id a => Some (id, a) | _ => None end.

(* rejected before reaching the Model (server-side validation) or a documented panic: no clause
   other than "nothing changes" applies *)
Definition prevalidated (c : Z) : bool := (c =? cInvalidArgument) || (c =? cPanic).

(* a successful switch to the stored mode [id]: it is the active value and the returned value, its
   start time is the clock reading unless the id was already active, the rest is the stored mode *)
Definition sw_ok (pm : list emode) (pa : emode) (now : Z) (ob : obs) (id : string) : bool :=
  let a' := oactive ob in
  (ocode ob =? 0) && String.eqb (mid a') id && oemode_eqb (oret ob) (Some a')
  && (String.eqb (mid a') (mid pa) || option_eqb Z.eqb (mstart a') (Some now))
  && existsb (fun m => String.eqb (mid m) id && String.eqb (mtitle m) (mtitle a')
                       && Bool.eqb (mnormal m) (mnormal a')) pm.

(* the clauses of C19 on one observed step: before = (pm, pa, ch), after = ob *)
Section clauses.
Variables (pm : list emode) (pa : emode) (ch : bool) (now : Z) (o : op) (ob : obs).
Let m' := omodes ob.
Let a' := oactive ob.
Let okc := ocode ob =? 0.

(* 1. at most one mode is marked normal *)
Definition k_normal : bool := zlen (normals m') <=? 1.
(* 2. the active mode is never deleted *)
Definition k_survive : bool := negb (id_in (mid pa) pm) || id_in (mid pa) m'.
Definition k_delact : bool :=
  match delete_of o with
  | Some (id, _) => negb (String.eqb id (mid pa)) || prevalidated (ocode ob) || negb okc
  | None => true
  end.
(* 3. once changed, the active mode refers to a mode that exists *)
Definition k_exists : bool := negb (ch || (activates o && okc)) || id_in (mid a') m'.
(* a failed call changes nothing; only activating calls change the active mode; they do not
   change the modes *)
Definition k_failnoop : bool := okc || (emodes_eqb m' pm && emode_eqb a' pa).
Definition k_aframe : bool := activates o || emode_eqb a' pa.
Definition k_mframe : bool := negb (activates o) || emodes_eqb m' pm.
(* only a mode that exists can be made active (SetActiveMode stores the given message) *)
Definition k_setactive : bool :=
  match o with
  | OSetActive m => if id_in (mid m) pm then okc && emode_eqb a' m else ocode ob =? cNotFound
  | _ => true
  end.
(* NormalMode() is the mode marked normal *)
Definition k_normalmode : bool := oemode_eqb (onormal ob) (hd_error (normals m')).
(* 4. clearing selects the normal mode; 5. switching to a different mode stamps the clock *)
Definition k_switch : bool :=
  match switch_target o with
  | None => true
  | Some tgt =>
      if prevalidated (ocode ob) then true else
      let want := match tgt with
                  | Some id => if id_in id pm then Some id else None
                  | None => match normals pm with n :: _ => Some (mid n) | [] => None end
                  end in
      match want with
      | None => ocode ob =? cNotFound
      | Some id => sw_ok pm pa now ob id
      end
  end.
(* 6. deleting an absent mode: NotFound unless allow-missing, then success; a present,
      inactive mode is removed *)
Definition k_delete : bool :=
  match delete_of o with
  | None => true
  | Some (id, allow) =>
      if prevalidated (ocode ob) || String.eqb id (mid pa) then true
      else if id_in id pm then okc && negb (id_in id m') && (zlen m' =? zlen pm - 1)
      else (ocode ob =? (if allow then 0 else cNotFound)) && emodes_eqb m' pm
  end.

Definition step_ok : bool :=
  k_normal && k_survive && k_delact && k_exists && k_failnoop && k_aframe && k_mframe
  && k_setactive && k_normalmode && k_switch && k_delete.
End clauses.

Fixpoint steps_ok (pm : list emode) (pa : emode) (ch : bool) (steps : list (Z * op * obs)) : bool :=
  match steps with
  | [] => true
  | (now, o, ob) :: rest =>
      step_ok pm pa ch now o ob
      && steps_ok (omodes ob) (oactive ob) (ch || (activates o && (ocode ob =? 0))) rest
  end.

Definition cop_activated (c : cop) : bool := activates (cop_op c) && (ccode c =? 0).

(* the set of modes a subscriber reconstructs from the events (kept in id order, like a listing) *)
Definition apply_event (l : list emode) (e : mevent) : list emode :=
  match e with
  | MAdd m => insert m l
  | MUpdate _ m => replace m l
  | MRemove m => remove (mid m) l
  end.
(* the last element of a list, [d] for the empty list *)
Definition lastd {A} (l : list A) (d : A) : A := fold_left (fun _ x => x) l d.
Fixpoint views_ok (l : list emode) (evs : list mevent) : bool :=
  (zlen (normals l) <=? 1) &&
  match evs with
  | [] => true
  | e :: r => views_ok (apply_event l e) r
  end.

Definition C19_ok (c : c19case) : bool :=
  match c with
  | KOpt l m w code ret l' =>
      (* every mode is stored under its id, once (what "the active mode refers to a mode that exists" and
         "the active mode is never deleted" rest on), at most one mode is normal, the returned mode is the one addressed *)
      keyedb l' && distinct (map fst l') && (zlen (normals (bodies l')) <=? 1)
      && match ret with Some b => String.eqb (mid b) (mid m) | None => true end
  | KCfg opts panicked o0 steps _ =>
      (* the same clauses as for KSeq; "the model clock" = the clock of the last electricpb.WithClock *)
      panicked || ((zlen (normals (omodes o0)) <=? 1)
                   && steps_ok (omodes o0) (oactive o0) false (retime (cfg_clock opts) steps))
  | KSeq initial o0 steps =>
      (zlen (normals (omodes o0)) <=? 1) && steps_ok (omodes o0) (oactive o0) false steps
  | KConc initial now threads fin =>
      (* invariants at quiescence *)
      (zlen (normals (omodes fin)) <=? 1)
      && (negb (existsb (existsb cop_activated) threads) || id_in (mid (oactive fin)) (omodes fin))
      && oemode_eqb (onormal fin) (hd_error (normals (omodes fin)))
  | KStream initial steps mev aev =>
      (* a subscriber never sees two normal modes; at the end the last active value it was told
         about (if any call changed it) names a mode it still knows *)
      views_ok [] mev
      && match aev with
         | _ :: _ :: _ => id_in (mid (lastd aev blank)) (fold_left apply_event mev [])
         | _ => true
         end
  end.

(* ------------------------------------------------------------------ guard *)
(* The theorems start from a model constructed with initial modes whose ids are non-empty and
   distinct and of which at most one is normal (WithInitialMode does not check the latter), and
   address modes by non-empty ids through the Model API (the servers reject empty ids). *)
Fixpoint nodup_ids (l : list string) : bool :=
  match l with [] => true | x :: r => negb (existsb (String.eqb x) r) && nodup_ids r end.
Definition initial_ok (initial : list emode) : bool :=
  nodup_ids (ids initial) && forallb (fun m => negb (is_empty (mid m))) initial
  && (zlen (normals initial) <=? 1).
Definition op_guard (o : op) : bool :=
  match o with ODelete id _ => negb (is_empty id) | _ => true end.

(* configured modes carry ids and at most one of them is normal (duplicates are not excluded:
   NewModel panics on them, which the model predicts) *)
Definition cfg_ok (opts : list copt) : bool :=
  forallb (fun m => negb (is_empty (mid m))) (cfg_records opts)
  && (zlen (normals (cfg_records opts)) <=? 1).

Definition C19_guard (c : c19case) : bool :=
  match c with
  | KOpt l _ _ _ _ _ => keyedb l && distinct (map fst l) && (zlen (normals (bodies l)) <=? 1)
  | KCfg opts _ _ steps _ => cfg_ok opts && forallb (fun p => op_guard (snd (fst p))) steps
  | KSeq initial _ steps => initial_ok initial && forallb (fun p => op_guard (snd (fst p))) steps
  | KConc initial _ threads _ => initial_ok initial && forallb (forallb (fun c => op_guard (cop_op c))) threads
  | KStream initial steps _ _ =>
      (* the seed events rebuild the initial listing: the initial modes are given in id order *)
      initial_ok initial && emodes_eqb (fold_left apply_event (map MAdd initial) []) initial
      && forallb (fun p => op_guard (snd p)) steps
  end.

Definition judge (c : c19case) : Z :=
  let ok := if C19_guard c then C19_ok c else true in
  verdict (agrees c) ok None.

(* the same with the model of the code before the two repairs (used by Props/C19.v to show the
   refuted clauses on the recorded replays) *)
Fixpoint replay_v0 (s : state) (steps : list (Z * op * obs)) : bool :=
  match steps with
  | [] => true
  | (now, o, ob) :: rest =>
      let '(s', r) := step_v0 s now o in
      obs_matches s' r ob && replay_v0 s' rest
  end.
