(* UpdateMode with write options keeps the store well formed - every body under its own id, keys
   distinct, at most one normal mode (clause 1) - for every combination of update mask,
   create-if-absent and reset mask. *)
From SC Require Import Base.Prelude Electric.Model Electric.ModelProofs Electric.UpdateOpts.

Definition kkeys (l : kstore) : list string := map fst l.
Definition wf_store (l : kstore) : Prop := keyed l /\ NoDup (kkeys l) /\ (ncount (bodies l) <= 1)%nat.

Lemma kfind_in : forall k l b, kfind k l = Some b -> In (k, b) l.
Proof.
  induction l as [|[k' b'] r IH]; cbn; intros b H; [discriminate|].
  destruct (String.eqb k' k) eqn:E.
  - apply String.eqb_eq in E. injection H as <-. subst. left. reflexivity.
  - right. apply IH. exact H.
Qed.

Lemma kfind_none : forall k l, kfind k l = None -> ~ In k (kkeys l).
Proof.
  induction l as [|[k' b'] r IH]; cbn; intros H; [tauto|].
  destruct (String.eqb k' k) eqn:E; [discriminate|]. apply String.eqb_neq in E.
  intros [C|C]; [contradiction|]. apply (IH H C).
Qed.

Lemma in_kfind : forall k b l, NoDup (kkeys l) -> In (k, b) l -> kfind k l = Some b.
Proof.
  induction l as [|[k' b'] r IH]; cbn; intros ND H; [contradiction|].
  inversion ND as [|? ? Hn Hr]; subst. destruct H as [H|H].
  - injection H as -> ->. rewrite String.eqb_refl. reflexivity.
  - destruct (String.eqb k' k) eqn:E.
    + apply String.eqb_eq in E. subst. exfalso. apply Hn. apply (in_map fst) in H. exact H.
    + apply IH; assumption.
Qed.

Lemma kkeys_kreplace : forall k b l, kkeys (kreplace k b l) = kkeys l.
Proof.
  induction l as [|[k' b'] r IH]; cbn; [reflexivity|].
  destruct (String.eqb k' k) eqn:E; cbn.
  - apply String.eqb_eq in E. subst. reflexivity.
  - f_equal. exact IH.
Qed.

Lemma kkeys_kinsert : forall k b l x, In x (kkeys (kinsert k b l)) <-> x = k \/ In x (kkeys l).
Proof.
  induction l as [|[k' b'] r IH]; intros x; cbn.
  - split; intros [H|H]; auto.
  - destruct (String.ltb k k'); cbn.
    + split; intros [H|H]; auto.
    + rewrite IH. split; intros [H|[H|H]]; auto.
Qed.

Lemma nodup_kinsert : forall k b l, NoDup (kkeys l) -> ~ In k (kkeys l) -> NoDup (kkeys (kinsert k b l)).
Proof.
  induction l as [|[k' b'] r IH]; intros ND Hn; cbn.
  - constructor; [intros []|constructor].
  - destruct (String.ltb k k'); cbn.
    + constructor; assumption.
    + cbn in ND, Hn. inversion ND as [|? ? Hn' Hr]; subst.
      constructor; [|apply IH; [exact Hr|intros C; apply Hn; right; exact C]].
      rewrite kkeys_kinsert. intros [C|C]; [apply Hn; left; exact C|contradiction].
Qed.

Lemma ncount_cons : forall b r, ncount (b :: r) = (b2n (mnormal b) + ncount r)%nat.
Proof. intros b r. unfold ncount. cbn [filter]. destruct (mnormal b); reflexivity. Qed.

Lemma ncount_kreplace : forall k b l old, kfind k l = Some old ->
  (ncount (bodies (kreplace k b l)) + b2n (mnormal old) = ncount (bodies l) + b2n (mnormal b))%nat.
Proof.
  induction l as [|[k' b'] r IH]; cbn [kfind kreplace]; intros old H; [discriminate|].
  destruct (String.eqb k' k).
  - injection H as <-. cbn [bodies map snd]. rewrite !ncount_cons. lia.
  - cbn [bodies map snd]. rewrite !ncount_cons. specialize (IH old H). unfold bodies in IH. lia.
Qed.

Lemma ncount_kinsert : forall k b l, ncount (bodies (kinsert k b l)) = (b2n (mnormal b) + ncount (bodies l))%nat.
Proof.
  induction l as [|[k' b'] r IH]; cbn [kinsert].
  - cbn [bodies map snd]. rewrite ncount_cons. reflexivity.
  - destruct (String.ltb k k'); cbn [bodies map snd]; rewrite !ncount_cons; [reflexivity|].
    unfold bodies in IH. rewrite IH. lia.
Qed.

Local Open Scope string_scope.
(* a merged body is normal only if the old one was, or the message says so and the mask writes it *)
Lemma merge_w_normal : forall old m w, mnormal (merge_w old m w) = true ->
  mnormal old = true \/ (mnormal m = true /\ writes_normal (w_mask w) = true).
Proof.
  intros old m [mask c rs]. unfold merge_w. cbn [w_mask w_reset].
  assert (R : forall d, mnormal (match rs with None => d | Some ps => reset_fields d ps end) = true ->
                        mnormal d = true).
  { intros d. destruct rs as [ps|]; [|auto]. unfold reset_fields. cbn [mnormal].
    destruct (mem "normal" ps); [discriminate|auto]. }
  destruct mask as [[|p ps]|].
  - auto.
  - intros H. apply R in H. unfold merge in H. cbn [mnormal] in H. unfold writes_normal.
    destruct (mem "normal" (p :: ps)); [right; split; [exact H|reflexivity]|left; exact H].
  - intros H. apply R in H. unfold merge in H. right. split; [exact H|reflexivity].
Qed.
Local Close Scope string_scope.

Theorem update_w_wf : forall l m w, wf_store l -> wf_store (fst (fst (update_w true l m w))).
Proof.
  intros l m w [K [ND N]]. split; [apply update_w_keyed; exact K|].
  unfold update_w.
  destruct (mnormal m && writes_normal (w_mask w) && other_normal (mid m) (bodies l)) eqn:C; [split; assumption|].
  destruct (negb (mask_valid (w_mask w))); [split; assumption|].
  destruct (negb (mask_valid (w_reset w))); [split; assumption|].
  destruct (kfind (mid m) l) as [old|] eqn:F.
  - (* the mode exists: its entry is replaced *)
    cbn [fst]. unfold kset. rewrite F. split; [rewrite kkeys_kreplace; exact ND|].
    pose proof (ncount_kreplace (mid m) (with_id (merge_w old m w) (mid m)) l old F) as E.
    cbn [with_id mnormal] in E.
    destruct (mnormal (merge_w old m w)) eqn:Nn; cbn [b2n] in E; [|lia].
    destruct (mnormal old) eqn:No; cbn [b2n] in E; [lia|].
    destruct (merge_w_normal old m w Nn) as [X|[Nm Wn]]; [congruence|].
    rewrite Nm, Wn in C. cbn [andb] in C.
    destruct (other_normal_false _ _ C) as [Z|[n [Hn Hid]]]; [lia|].
    exfalso. destruct (normal_of_some _ _ Hn) as [Hin Nt].
    apply in_map_iff in Hin. destruct Hin as [[k0 n0] [E0 Hin]]. cbn in E0. subst n0.
    pose proof (K _ _ Hin) as Kk. rewrite Hid in Kk. subst k0.
    rewrite (in_kfind _ _ _ ND Hin) in F. injection F as <-. congruence.
  - destruct (w_create w); [|split; assumption].
    (* create-if-absent: a new entry *)
    cbn [fst]. unfold kset. rewrite F.
    split; [apply nodup_kinsert; [exact ND|apply kfind_none; exact F]|].
    rewrite ncount_kinsert. cbn [with_id mnormal].
    destruct (mnormal (merge_w blank m w)) eqn:Nn; cbn [b2n]; [|lia].
    destruct (merge_w_normal blank m w Nn) as [X|[Nm Wn]]; [discriminate|].
    rewrite Nm, Wn in C. cbn [andb] in C.
    destruct (other_normal_false _ _ C) as [Z|[n [Hn Hid]]]; [lia|].
    exfalso. destruct (normal_of_some _ _ Hn) as [Hin _].
    apply in_map_iff in Hin. destruct Hin as [[k0 n0] [E0 Hin]]. cbn in E0. subst n0.
    pose proof (K _ _ Hin) as Kk. rewrite Hid in Kk. subst k0.
    apply (kfind_none _ _ F). apply (in_map fst) in Hin. exact Hin.
Qed.

(* ... after any sequence of updates with any options *)
Theorem updates_w_wf : forall us l, wf_store l ->
  wf_store (fold_left (fun l u => fst (fst (update_w true l (fst u) (snd u)))) us l).
Proof.
  induction us as [|[m w] r IH]; intros l W; [exact W|]. cbn [fold_left fst snd].
  apply IH. apply update_w_wf. exact W.
Qed.

