(* Types of the table that harness/c19 (translator "electric-locks") generates from
   pkg/trait/electricpb/{model.go,model_server.go,memory_settings.go,model_opts.go} into
   Gen/ElectricLocks.v, and the decidable laws stated over it.  No proofs here. *)
From SC Require Import Base.Prelude.
Local Open Scope string_scope.

(* state of Model.mu at a call site: not held / read-locked / write-locked *)
Inductive lk := LNone | LR | LX.
Definition lk_eqb (a b : lk) : bool :=
  match a, b with LNone, LNone | LR, LR | LX, LX => true | _, _ => false end.

(* one call on a resource of the Model: m.<field>.<meth>(...) *)
Record rcall := mkCall { cfield : string; cmeth : string; clk : lk }.
(* a method of *Model: its resource calls in source order, helpers inlined *)
Record meth := mkMeth { mname : string; mexported : bool; mcalls : list rcall }.
(* a method of *ModelServer: the methods of s.model it calls *)
Record srv := mkSrv { sname : string; sfile : string; scalls : list string }.
(* an option constructor of model_opts.go: the fields of modelArgs it writes, the other
   constructors it is defined by *)
Record optrow := mkOptRow { oname : string; owrites : list string; ovia : list string }.

Definition str_in (s : string) (l : list string) : bool := existsb (String.eqb s) l.

(* the two resources the mode invariants are about *)
Definition mode_state (c : rcall) : bool := str_in (cfield c) ["modes"; "activeMode"].
Definition is_write (c : rcall) : bool :=
  mode_state c && str_in (cmeth c) ["Add"; "Update"; "Delete"; "Set"].

(* A method is one atomic step w.r.t. the mode state if
     - it writes: every one of its calls on modes/activeMode/clock is made with mu write-locked;
     - it only reads: it makes at most one such call (a single resource call is atomic by the
       resource's own lock), or all of them with mu at least read-locked. *)
Definition atomic_ok (m : meth) : bool :=
  let cs := filter (fun c => mode_state c || String.eqb (cfield c) "clock") (mcalls m) in
  if existsb is_write cs then forallb (fun c => lk_eqb (clk c) LX) cs
  else (Nat.leb (List.length cs) 1) || forallb (fun c => negb (lk_eqb (clk c) LNone)) cs.

Definition rcall_eqb (a b : rcall) : bool :=
  String.eqb (cfield a) (cfield b) && String.eqb (cmeth a) (cmeth b) && lk_eqb (clk a) (clk b).
Definition meth_eqb (a b : meth) : bool :=
  String.eqb (mname a) (mname b) && Bool.eqb (mexported a) (mexported b)
  && list_eqb rcall_eqb (mcalls a) (mcalls b).
Definition srv_eqb (a b : srv) : bool :=
  String.eqb (sname a) (sname b) && String.eqb (sfile a) (sfile b) && list_eqb String.eqb (scalls a) (scalls b).
Definition optrow_eqb (a b : optrow) : bool :=
  String.eqb (oname a) (oname b) && list_eqb String.eqb (owrites a) (owrites b)
  && list_eqb String.eqb (ovia a) (ovia b).

Fixpoint find_meth (n : string) (l : list meth) : option meth :=
  match l with [] => None | m :: r => if String.eqb (mname m) n then Some m else find_meth n r end.
Fixpoint find_srv (n : string) (l : list srv) : option srv :=
  match l with [] => None | m :: r => if String.eqb (sname m) n then Some m else find_srv n r end.

(* [a] is a subsequence of [b] *)
Fixpoint subseq (a b : list (string * string)) : bool :=
  match a, b with
  | [], _ => true
  | _ :: _, [] => false
  | x :: a', y :: b' =>
      if String.eqb (fst x) (fst y) && String.eqb (snd x) (snd y) then subseq a' b' else subseq a b'
  end.
