(* Construction of an electricpb.Model: NewModel(opts...) (model.go) with the option constructors of
   model_opts.go, as far as they bear on the mode state.  It mirrors calcModelArgs / modelArgs.apply:
   the default options are applied first, then the caller's in the order given; every option
   appends to / overwrites fields of modelArgs; NewModel then builds the two resources from them.

     modelArgs.modeOpts        -> [a_records]: the resource.WithInitialRecord options among them, in order
                                  (NewCollection panics on a repeated id)
     modelArgs.activeModeOpts  -> [a_active]: the last resource.WithInitialValue among them
     modelArgs.clock           -> [a_clock]: the clock that stamps StartTime; clock 0 is clock.Real()

   The option list is data (a list of [copt]), so "WithInitialMode used any number of times, in any
   position, with or without a normal mode" is part of the input of the model. *)
From SC Require Import Base.Prelude Electric.Model.

Inductive copt :=
| CInitial (ms : list emode)             (* electricpb.WithInitialMode(ms...); panics when an id is empty *)
| CRecord (viaModeOption : bool) (m : emode)
    (* true:  electricpb.WithModeOption(resource.WithInitialRecord(m.Id, m))
       false: resource.WithInitialRecord(m.Id, m) handed to NewModel as it is - not a ModelOption,
              so modelArgs.apply appends it to the options of all three resources *)
| CActive (viaHelper : bool) (m : emode)
    (* true: electricpb.WithInitialActiveMode(m); false: WithActiveModeOption(resource.WithInitialValue(m)) *)
| CClock (k : Z)                         (* electricpb.WithClock(clock k) *)
| CResClock (k : Z)                      (* resource.WithClock(clock k): reaches the resources, not Model.clock *)
| CModeClock (k : Z)                     (* WithModeOption(resource.WithClock(clock k)): the modes collection only *)
| CActiveClock (k : Z)                   (* WithActiveModeOption(resource.WithClock(clock k)): the active value only *)
| CRng.                                  (* electricpb.WithRNG(..): ids only *)

(* [a_mclock] / [a_aclock]: the clock of the modes collection / of the active value (the last
   resource.WithClock among modeOpts / activeModeOpts): the change time of their events *)
Record margs := mkArgs { a_records : list emode; a_active : emode; a_clock : Z; a_mclock : Z; a_aclock : Z }.

(* DefaultModelOptions: WithInitialActiveMode(&ElectricMode{}), WithClock(clock.Real()), no records *)
Definition default_args : margs := mkArgs [] blank 0 0 0.

Definition apply_opt (a : margs) (o : copt) : margs :=
  match o with
  | CInitial ms => mkArgs (a_records a ++ ms) (a_active a) (a_clock a) (a_mclock a) (a_aclock a)
  | CRecord _ m => mkArgs (a_records a ++ [m]) (a_active a) (a_clock a) (a_mclock a) (a_aclock a)
  | CActive _ m => mkArgs (a_records a) m (a_clock a) (a_mclock a) (a_aclock a)
  | CClock k => mkArgs (a_records a) (a_active a) k k k
  | CResClock k => mkArgs (a_records a) (a_active a) (a_clock a) k k
  | CModeClock k => mkArgs (a_records a) (a_active a) (a_clock a) k (a_aclock a)
  | CActiveClock k => mkArgs (a_records a) (a_active a) (a_clock a) (a_mclock a) k
  | CRng => a
  end.

Definition calc_args (opts : list copt) : margs := fold_left apply_opt opts default_args.

Definition cfg_records (opts : list copt) : list emode := a_records (calc_args opts).
Definition cfg_active (opts : list copt) : emode := a_active (calc_args opts).
Definition cfg_clock (opts : list copt) : Z := a_clock (calc_args opts).
Definition cfg_mclock (opts : list copt) : Z := a_mclock (calc_args opts).
Definition cfg_aclock (opts : list copt) : Z := a_aclock (calc_args opts).

(* WithInitialMode panics while the option is built, i.e. before NewModel runs *)
Definition opt_panics (o : copt) : bool :=
  match o with CInitial ms => existsb (fun m => is_empty (mid m)) ms | _ => false end.

Fixpoint distinct (l : list string) : bool :=
  match l with [] => true | x :: r => negb (existsb (String.eqb x) r) && distinct r end.

(* the collection lists by id *)
Definition sort_modes (l : list emode) : list emode := fold_right insert [] l.

(* NewModel(opts...): None = the expression panics *)
Definition new_model (opts : list copt) : option state :=
  if existsb opt_panics opts then None
  else if negb (distinct (map mid (cfg_records opts))) then None
  else Some (mkState (sort_modes (cfg_records opts)) (cfg_active opts) false).

(* what clock k shows while the harness runs the step whose base time is [now]; the harness sets its
   fake clocks 1..3 so and maps a stamp taken from the real clock during the call to clock 0's *)
Definition clock_reading (k now : Z) : Z := 4 * now + k.
