(* Model.UpdateMode with the write options that decide WHICH body is stored under WHICH key:
   resource.WithUpdateMask / WithUpdatePaths, resource.WithCreateIfAbsent, resource.WithResetMask /
   WithResetPaths.  Model.v keeps the collection as a list of bodies and takes "the key of an entry
   is the id of its body" for granted; here the key is kept apart from the body, so that this very
   fact is a theorem about updateMode (model.go) + Collection.Update + FieldUpdater.Merge:

     updateMode:         normal-mode check; id := mode.Id; InterceptAfter(new.Id = id) first in the options
     Collection.Update:  Validate (update mask: InvalidArgument, reset mask: Internal); look the key up;
                         absent: NotFound, or with create-if-absent start from an empty message;
                         changeFn: Merge, then the interceptor; store under the key
     FieldUpdater.Merge: nil mask = copy, empty mask = nothing (not even the reset), else the named
                         fields; then the reset mask clears its fields

   [fixI = false] is the code before the repair (no interceptor): [keyed_v0_refuted]. *)
From SC Require Import Base.Prelude Electric.Model.

Definition kstore := list (string * emode).

Fixpoint kfind (k : string) (l : kstore) : option emode :=
  match l with [] => None | (k', b) :: r => if String.eqb k' k then Some b else kfind k r end.

(* byId[k] = b, listed by key: an existing key keeps its place, a new one goes in key order *)
Fixpoint kreplace (k : string) (b : emode) (l : kstore) : kstore :=
  match l with
  | [] => []
  | (k', b') :: r => if String.eqb k' k then (k, b) :: r else (k', b') :: kreplace k b r
  end.
Fixpoint kinsert (k : string) (b : emode) (l : kstore) : kstore :=
  match l with
  | [] => [(k, b)]
  | (k', b') :: r => if String.ltb k k' then (k, b) :: l else (k', b') :: kinsert k b r
  end.
Definition kset (k : string) (b : emode) (l : kstore) : kstore :=
  match kfind k l with Some _ => kreplace k b l | None => kinsert k b l end.

Definition bodies (l : kstore) : list emode := map snd l.

Record wopts := mkW { w_mask : option (list string); w_create : bool; w_reset : option (list string) }.

Local Open Scope string_scope.
Definition reset_fields (m : emode) (ps : list string) : emode :=
  mkM (if mem "id" ps then "" else mid m) (if mem "title" ps then "" else mtitle m)
      (if mem "normal" ps then false else mnormal m) (if mem "start_time" ps then None else mstart m).
Local Close Scope string_scope.

Definition merge_w (old src : emode) (w : wopts) : emode :=
  match w_mask w with
  | Some [] => old
  | _ => let d := merge old src (w_mask w) in
         match w_reset w with None => d | Some ps => reset_fields d ps end
  end.

Definition cInternal := 13.

(* result: store, code, returned body *)
Definition update_w (fixI : bool) (l : kstore) (m : emode) (w : wopts) : kstore * Z * option emode :=
  if mnormal m && writes_normal (w_mask w) && other_normal (mid m) (bodies l) then (l, cAlreadyExists, None)
  else if negb (mask_valid (w_mask w)) then (l, cInvalidArgument, None)
  else if negb (mask_valid (w_reset w)) then (l, cInternal, None)
  else
    let key := mid m in
    let old := match kfind key l with
               | Some b => Some b
               | None => if w_create w then Some blank else None
               end in
    match old with
    | None => (l, cNotFound, None)
    | Some b =>
        let new := merge_w b m w in
        let new := if fixI then with_id new key else new in
        (kset key new l, 0, Some new)
    end.

(* every body is stored under its own id *)
Definition keyed (l : kstore) : Prop := forall k b, In (k, b) l -> mid b = k.
Definition keyedb (l : kstore) : bool := forallb (fun p => String.eqb (mid (snd p)) (fst p)) l.

Lemma keyedb_keyed : forall l, keyedb l = true <-> keyed l.
Proof.
  intros l. unfold keyedb, keyed. rewrite forallb_forall. split.
  - intros H k b Hin. specialize (H (k, b) Hin). cbn in H. apply String.eqb_eq. exact H.
  - intros H [k b] Hin. cbn. apply String.eqb_eq. apply H. exact Hin.
Qed.

Lemma in_kreplace : forall k b l p, In p (kreplace k b l) -> p = (k, b) \/ In p l.
Proof.
  induction l as [|[k' b'] r IH]; intros p H; cbn in H; [contradiction|].
  destruct (String.eqb k' k).
  - destruct H as [H|H]; [left; symmetry; exact H|right; right; exact H].
  - destruct H as [H|H]; [right; left; exact H|].
    destruct (IH p H) as [E|E]; [left; exact E|right; right; exact E].
Qed.

Lemma in_kinsert : forall k b l p, In p (kinsert k b l) <-> p = (k, b) \/ In p l.
Proof.
  induction l as [|[k' b'] r IH]; intros p; cbn.
  - split; intros [H|H]; auto.
  - destruct (String.ltb k k'); cbn.
    + split; intros [H|H]; auto.
    + rewrite IH. split; intros [H|[H|H]]; auto.
Qed.

Lemma in_kset : forall k b l p, In p (kset k b l) -> p = (k, b) \/ In p l.
Proof.
  intros k b l p. unfold kset. destruct (kfind k l); [apply in_kreplace|apply in_kinsert].
Qed.

(* With the repair, for EVERY combination of update mask, create-if-absent and reset mask, from any
   store and for any message: every stored body keeps the id it is stored under. *)
Theorem update_w_keyed : forall l m w, keyed l -> keyed (fst (fst (update_w true l m w))).
Proof.
  intros l m w K. unfold update_w.
  destruct (mnormal m && writes_normal (w_mask w) && other_normal (mid m) (bodies l)); [exact K|].
  destruct (negb (mask_valid (w_mask w))); [exact K|].
  destruct (negb (mask_valid (w_reset w))); [exact K|].
  destruct (match kfind (mid m) l with Some b => Some b | None => if w_create w then Some blank else None end);
    [|exact K].
  cbn [fst]. intros k b Hin. apply in_kset in Hin. destruct Hin as [E|Hin]; [|apply K; exact Hin].
  injection E as -> ->. reflexivity.
Qed.

(* ... hence after any sequence of such updates *)
Theorem updates_w_keyed : forall us l, keyed l ->
  keyed (fold_left (fun l u => fst (fst (update_w true l (fst u) (snd u)))) us l).
Proof.
  induction us as [|[m w] r IH]; intros l K; [exact K|]. cbn [fold_left fst snd].
  apply IH. apply update_w_keyed. exact K.
Qed.

(* the returned mode carries the id it was addressed by *)
Theorem update_w_returns_id : forall l m w l' b, update_w true l m w = (l', 0, Some b) -> mid b = mid m.
Proof.
  intros l m w l' b. unfold update_w.
  destruct (mnormal m && writes_normal (w_mask w) && other_normal (mid m) (bodies l)); [discriminate|].
  destruct (negb (mask_valid (w_mask w))); [discriminate|].
  destruct (negb (mask_valid (w_reset w))); [discriminate|].
  destruct (match kfind (mid m) l with Some b => Some b | None => if w_create w then Some blank else None end);
    [|discriminate].
  intros H. injection H as _ <-. reflexivity.
Qed.

(* Before the repair: create-if-absent with a mask that leaves out id, or a reset mask naming id,
   stores a body with the empty id under a non-empty key. *)
Local Open Scope string_scope.
Theorem keyed_v0_refuted :
  (exists l m w, keyed l /\ ~ keyed (fst (fst (update_w false l m w))) /\ w_reset w = None) /\
  (exists l m w, keyed l /\ ~ keyed (fst (fst (update_w false l m w))) /\ w_create w = false).
Proof.
  split.
  - exists [], (mkM "x" "T" false None), (mkW (Some ["title"]) true None).
    split; [intros k b []|]. split; [|reflexivity].
    intros K. specialize (K "x" (mkM "" "T" false None)). cbn in K.
    assert (H : "" = "x") by (apply K; left; reflexivity). discriminate.
  - exists [("b", mkM "b" "" false None)], (mkM "b" "z" false None), (mkW None false (Some ["id"])).
    split; [intros k b [E|[]]; injection E as <- <-; reflexivity|]. split; [|reflexivity].
    intros K. specialize (K "b" (mkM "" "z" false None)). cbn in K.
    assert (H : "" = "b") by (apply K; left; reflexivity). discriminate.
Qed.

(* non-vacuity: the same two calls with the repair *)
Example update_w_nonvacuous :
  update_w true [] (mkM "x" "T" false None) (mkW (Some ["title"]) true None)
    = ([("x", mkM "x" "T" false None)], 0, Some (mkM "x" "T" false None)) /\
  update_w true [("b", mkM "b" "" false None)] (mkM "b" "z" false None) (mkW None false (Some ["id"]))
    = ([("b", mkM "b" "z" false None)], 0, Some (mkM "b" "z" false None)) /\
  snd (fst (update_w true [] (mkM "x" "T" false None) (mkW (Some ["title"]) false None))) = cNotFound /\
  snd (fst (update_w true [] (mkM "x" "T" false None) (mkW None true (Some ["bogus"])))) = cInternal.
Proof. vm_compute. repeat split. Qed.
Local Close Scope string_scope.
