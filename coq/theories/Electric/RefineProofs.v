(* Final wave: theorem gaps of notes/C19.md closed.
   1. The two models of the update path are ONE model: [Model.do_update] (the collection as a list of
      bodies, what [step] uses) is [UpdateOpts.update_w] (keys kept apart from the bodies) restricted
      to plain masks - no create-if-absent, no reset mask - under the abstraction
      [kstore_of l] = every body under its own id.  Proved for every state, message and mask, and for
      every sequence of updates; conversely every keyed store IS such an abstraction.
   2. Deleting an absent id, without the "id is non-empty" guard of [delete_absent]: the result is
      decided completely - FailedPrecondition exactly when no activating call has succeeded yet and
      the id is the id of the configured active value (the empty id for a default model), else
      NotFound / success with allow-missing; the state never changes.
   3. The fine-grained (resource-call granularity) invariants from EVERY configuration NewModel
      accepts, not only from [init_state]. *)
From SC Require Import Base.Prelude Electric.Model Electric.ModelProofs Electric.UpdateOpts
  Electric.UpdateOptsProofs Electric.Config Electric.ConfigProofs Electric.LockDefs Electric.Fine
  Gen.ElectricLocks Electric.FineProofs.

(* ------------------------------------------------------------------ 1. do_update refines update_w *)
Definition kstore_of (l : list emode) : kstore := map (fun m => (mid m, m)) l.
Definition plain (mask : option (list string)) : wopts := mkW mask false None.

Lemma bodies_kstore_of : forall l, bodies (kstore_of l) = l.
Proof.
  intros l. unfold bodies, kstore_of. rewrite map_map. cbn [snd]. apply map_id.
Qed.

Lemma kfind_kstore_of : forall k l, kfind k (kstore_of l) = find k l.
Proof.
  induction l as [|x r IH]; cbn [kstore_of map kfind find]; [reflexivity|].
  destruct (String.eqb (mid x) k); [reflexivity|exact IH].
Qed.

Lemma kreplace_kstore_of : forall b l, kreplace (mid b) b (kstore_of l) = kstore_of (replace b l).
Proof.
  induction l as [|x r IH]; cbn [kstore_of map kreplace replace]; [reflexivity|].
  destruct (String.eqb (mid x) (mid b)); cbn [kstore_of map]; [reflexivity|].
  f_equal. exact IH.
Qed.

Lemma keyed_kstore_of : forall l, keyed (kstore_of l).
Proof.
  intros l k b H. unfold kstore_of in H. apply in_map_iff in H. destruct H as [x [E _]].
  injection E as <- <-. reflexivity.
Qed.

Lemma kkeys_kstore_of : forall l, kkeys (kstore_of l) = keys l.
Proof. intros l. unfold kkeys, kstore_of, keys. rewrite map_map. reflexivity. Qed.

(* every store whose bodies sit under their own ids is the abstraction of its list of bodies *)
Lemma keyed_is_kstore_of : forall l, keyed l -> l = kstore_of (bodies l).
Proof.
  induction l as [|[k b] r IH]; intros K; [reflexivity|].
  cbn [bodies map snd kstore_of]. f_equal.
  - rewrite (K k b (or_introl eq_refl)). reflexivity.
  - apply IH. intros k' b' H. apply K. right. exact H.
Qed.

(* the invariant of Model.v is the well-formedness of the keyed store *)
Lemma inv_wf_store {a0} : forall s, InvG a0 s -> wf_store (kstore_of (modes s)).
Proof.
  intros s I. split; [apply keyed_kstore_of|]. split.
  - rewrite kkeys_kstore_of. apply (inv_nodup _ I).
  - rewrite bodies_kstore_of. pose proof (inv_normal _ I) as N. rewrite normal_count_ncount in N. lia.
Qed.

Lemma merge_w_plain : forall old m mask, merge_w old m (plain mask) = merge old m mask.
Proof. intros old m [[|p ps]|]; reflexivity. Qed.

Lemma with_id_same : forall b, with_id b (mid b) = b.
Proof. intros [i t n st]. reflexivity. Qed.

(* Headline: for EVERY state, message and mask, UpdateMode with a plain mask on the keyed store of
   UpdateOpts.v is the update of Model.v: same store, same code, same returned mode. *)
Theorem update_w_plain_is_do_update : forall s m mask,
  update_w true (kstore_of (modes s)) m (plain mask) =
    (kstore_of (modes (fst (do_update true s m mask))),
     rcode (snd (do_update true s m mask)), rret (snd (do_update true s m mask))).
Proof.
  intros s m mask. unfold update_w, do_update. cbn [plain w_mask w_create w_reset mask_valid negb andb].
  rewrite bodies_kstore_of, kfind_kstore_of.
  destruct (mnormal m && writes_normal mask && other_normal (mid m) (modes s)); [reflexivity|].
  destruct (negb (mask_valid mask)); [reflexivity|].
  destruct (find (mid m) (modes s)) as [old|] eqn:F; [|reflexivity].
  change (mkW mask false None) with (plain mask). rewrite merge_w_plain.
  destruct (find_some _ _ _ F) as [Eid _].
  assert (Enew : mid (merge old m mask) = mid m).
  { rewrite (merge_id old m mask (eq_sym Eid)). exact Eid. }
  remember (merge old m mask) as new eqn:Hn. clear Hn.
  assert (Fn : find (mid new) (modes s) = Some old) by (rewrite Enew; exact F).
  rewrite <- Enew. rewrite with_id_same.
  cbn [fst snd set_modes modes rcode rret ok_].
  unfold kset. rewrite kfind_kstore_of, Fn, kreplace_kstore_of. reflexivity.
Qed.

(* ... stated from the side of UpdateOpts.v: on every keyed store, whatever the active value *)
Theorem update_w_plain_on_keyed : forall l a ch m mask, keyed l ->
  let sr := do_update true (mkState (bodies l) a ch) m mask in
  update_w true l m (plain mask) = (kstore_of (modes (fst sr)), rcode (snd sr), rret (snd sr)).
Proof.
  intros l a ch m mask K sr. rewrite (keyed_is_kstore_of l K) at 1.
  apply (update_w_plain_is_do_update (mkState (bodies l) a ch) m mask).
Qed.

(* ... and for all sequences of updates: the keyed store of the final state of [run] *)
Definition upd_op (now : Z) (u : emode * option (list string)) : top := (now, OUpdate (fst u) (snd u)).

Theorem updates_plain_refine : forall us now s,
  fold_left (fun l u => fst (fst (update_w true l (fst u) (plain (snd u))))) us (kstore_of (modes s)) =
  kstore_of (modes (run s (map (upd_op now) us))).
Proof.
  induction us as [|[m mask] r IH]; intros now s; [reflexivity|].
  cbn [fold_left map fst snd]. rewrite update_w_plain_is_do_update. cbn [fst].
  unfold run, run_gen. cbn [fold_left upd_op fst snd]. unfold step at 2. cbn [step_gen].
  apply (IH now (fst (do_update true s m mask))).
Qed.

(* the active value and the changed flag are not touched by an update *)
Lemma do_update_active : forall s m mask,
  active (fst (do_update true s m mask)) = active s /\ changed (fst (do_update true s m mask)) = changed s.
Proof.
  intros s m mask. unfold do_update.
  destruct (true && mnormal m && writes_normal mask && other_normal (mid m) (modes s)); [split; reflexivity|].
  destruct (negb (mask_valid mask)); [split; reflexivity|].
  destruct (find (mid m) (modes s)); split; reflexivity.
Qed.

Local Open Scope string_scope.
Example update_refine_nonvacuous :
  let s := mkState [mkM "a" "A" true None; mkM "b" "B" false None] blank false in
  (* a success that rewrites an entry, and the refusal of a second normal mode, on both models *)
  update_w true (kstore_of (modes s)) (mkM "b" "Z" false None) (plain (Some ["title"]))
    = ([("a", mkM "a" "A" true None); ("b", mkM "b" "Z" false None)], 0, Some (mkM "b" "Z" false None)) /\
  do_update true s (mkM "b" "Z" false None) (Some ["title"])
    = (mkState [mkM "a" "A" true None; mkM "b" "Z" false None] blank false, ok_ (Some (mkM "b" "Z" false None))) /\
  snd (fst (update_w true (kstore_of (modes s)) (mkM "b" "" true None) (plain None))) = cAlreadyExists /\
  rcode (snd (do_update true s (mkM "b" "" true None) None)) = cAlreadyExists.
Proof. vm_compute. repeat split. Qed.
Local Close Scope string_scope.

(* ------------------------------------------------------------------ 2. delete of an absent id, no guard *)
Theorem delete_absent_exact {a0} : forall s now id allow, InvG a0 s -> has id (modes s) = false ->
  step s now (ODelete id allow) =
    (s, if String.eqb id (mid (active s)) then err_ cFailedPrecondition
        else if allow then ok_ None else err_ cNotFound) /\
  step s now (SDelete id allow) =
    (s, if is_empty id then err_ cInvalidArgument
        else if String.eqb id (mid (active s)) then err_ cFailedPrecondition
        else if allow then ok_ None else err_ cNotFound) /\
  (String.eqb id (mid (active s)) = true <-> changed s = false /\ id = mid a0).
Proof.
  intros s now id allow I Habs.
  assert (D : do_delete true s id allow =
              (s, if String.eqb id (mid (active s)) then err_ cFailedPrecondition
                  else if allow then ok_ None else err_ cNotFound)).
  { unfold do_delete. destruct (String.eqb id (mid (active s))); [reflexivity|].
    unfold has in Habs. destruct (find id (modes s)); [discriminate|]. destruct allow; reflexivity. }
  split; [exact D|]. split.
  - unfold step. cbn [step_gen]. destruct (is_empty id); [reflexivity|exact D].
  - split.
    + intros E. apply String.eqb_eq in E. destruct (changed s) eqn:Ch.
      * pose proof (inv_active _ I Ch) as H. rewrite <- E, Habs in H. discriminate.
      * split; [reflexivity|]. rewrite E, (inv_blank _ I Ch). reflexivity.
    + intros [Ch E]. rewrite (inv_blank _ I Ch), E. apply String.eqb_refl.
Qed.

(* once an activating call has succeeded the clause of the property holds for EVERY absent id *)
Corollary delete_absent_once_changed {a0} : forall s now id allow, InvG a0 s ->
  changed s = true -> has id (modes s) = false ->
  step s now (ODelete id allow) = (s, if allow then ok_ None else err_ cNotFound).
Proof.
  intros s now id allow I Ch Habs.
  destruct (delete_absent_exact s now id allow I Habs) as [E [_ [X _]]]. rewrite E.
  destruct (String.eqb id (mid (active s))); [|reflexivity].
  destruct (X eq_refl) as [C _]. congruence.
Qed.

Example delete_absent_exact_nonvacuous :
  Inv (init_state []) /\ has EmptyString (modes (init_state [])) = false /\
  step (init_state []) 1 (ODelete EmptyString true) = (init_state [], err_ cFailedPrecondition) /\
  step (init_state []) 1 (ODelete "x"%string true) = (init_state [], ok_ None) /\
  step (init_state []) 1 (ODelete "x"%string false) = (init_state [], err_ cNotFound).
Proof.
  split; [apply inv_init; split; [constructor|cbn; lia]|]. vm_compute. repeat split.
Qed.

(* ------------------------------------------------------------------ 3. any configuration, any fine schedule *)
Theorem config_fine_invariants : forall opts s0 fsched threads, new_model opts = Some s0 ->
  normal_count (cfg_records opts) <= 1 ->
  let c := frun fsched (finit threads s0) in
  fowner c = None ->
  InvG (cfg_active opts) (fstate c) /\ wf_store (kstore_of (modes (fstate c))).
Proof.
  intros opts s0 fsched threads H N c Ho.
  assert (I : InvG (cfg_active opts) (fstate c)).
  { destruct (fine_is_coarse fsched threads s0) as [sch [_ S]]. fold c in S. rewrite Ho in S. rewrite S.
    destruct (concurrent_is_sequential sch threads s0) as [E _]. rewrite E.
    apply inv_run. apply new_model_inv; assumption. }
  split; [exact I|apply (inv_wf_store _ I)].
Qed.
