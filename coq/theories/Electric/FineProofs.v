(* The programs of Electric/Fine.v compose to Model.step, make only calls listed for their method in
   the table generated from the source (Gen/ElectricLocks.v), and - because every writing method
   holds Model.mu around all of its calls (law proved over the generated table) - every schedule at
   the granularity of resource calls is a schedule of whole operations. *)
From SC Require Import Base.Prelude Electric.Model Electric.ModelProofs Electric.LockDefs Electric.Fine
  Gen.ElectricLocks.
Local Open Scope string_scope.

(* ------------------------------------------------------------------ the generated table *)
(* every exported method that writes the mode state holds Model.mu exclusively around all of its
   calls (the unexported helpers are inlined in their callers and have no lock of their own);
   read-only methods make one resource call or hold at least the read lock *)
Lemma table_atomic : forallb atomic_ok (filter mexported model_methods) = true.
Proof. vm_compute. reflexivity. Qed.

(* the exported surface, exactly: what each method calls and under which lock *)
Definition expected_exported : list meth := [
  mkMeth "ActiveMode" true [mkCall "activeMode" "Get" LNone];
  mkMeth "AddMode" true [mkCall "modes" "List" LX; mkCall "modes" "Add" LX];
  mkMeth "ChangeActiveMode" true [mkCall "modes" "Get" LX; mkCall "activeMode" "Set" LX; mkCall "clock" "Now" LX];
  mkMeth "ChangeToNormalMode" true [mkCall "modes" "List" LX; mkCall "modes" "Get" LX; mkCall "activeMode" "Set" LX; mkCall "clock" "Now" LX];
  mkMeth "CreateMode" true [mkCall "modes" "List" LX; mkCall "modes" "Add" LX];
  mkMeth "DeleteMode" true [mkCall "activeMode" "Get" LX; mkCall "modes" "Delete" LX];
  mkMeth "Demand" true [mkCall "demand" "Get" LNone];
  mkMeth "FindMode" true [mkCall "modes" "Get" LR];
  mkMeth "Modes" true [mkCall "modes" "List" LNone];
  mkMeth "NormalMode" true [mkCall "modes" "List" LR];
  mkMeth "PullActiveMode" true [mkCall "activeMode" "Pull" LNone];
  mkMeth "PullDemand" true [mkCall "demand" "Pull" LNone];
  mkMeth "PullModes" true [mkCall "modes" "Pull" LNone];
  mkMeth "SetActiveMode" true [mkCall "modes" "Get" LX; mkCall "activeMode" "Set" LX];
  mkMeth "UpdateDemand" true [mkCall "demand" "Set" LNone];
  mkMeth "UpdateMode" true [mkCall "modes" "List" LX; mkCall "modes" "Update" LX]
].
Lemma table_exported : list_eqb meth_eqb (filter mexported model_methods) expected_exported = true.
Proof. vm_compute. reflexivity. Qed.

(* every rpc of the servers is one call of one Model method *)
Definition expected_servers : list srv := [
  mkSrv "ClearActiveMode" "model_server.go" ["ChangeToNormalMode"];
  mkSrv "CreateMode" "memory_settings.go" ["CreateMode"];
  mkSrv "DeleteMode" "memory_settings.go" ["DeleteMode"];
  mkSrv "GetActiveMode" "model_server.go" ["ActiveMode"];
  mkSrv "GetDemand" "model_server.go" ["Demand"];
  mkSrv "ListModes" "model_server.go" ["Modes"];
  mkSrv "PullActiveMode" "model_server.go" ["PullActiveMode"];
  mkSrv "PullDemand" "model_server.go" ["PullDemand"];
  mkSrv "PullModes" "model_server.go" ["PullModes"];
  mkSrv "Register" "model_server.go" [];
  mkSrv "Unwrap" "model_server.go" [];
  mkSrv "UpdateActiveMode" "model_server.go" ["ChangeActiveMode"];
  mkSrv "UpdateDemand" "memory_settings.go" ["UpdateDemand"];
  mkSrv "UpdateMode" "memory_settings.go" ["UpdateMode"]
].
Lemma table_servers : list_eqb srv_eqb server_methods expected_servers = true.
Proof. vm_compute. reflexivity. Qed.
Lemma servers_one_call : forallb (fun s => Nat.leb (List.length (scalls s)) 1) server_methods = true.
Proof. vm_compute. reflexivity. Qed.

(* option plumbing (model_opts.go): WithClock is the only constructor that writes modelArgs.clock
   - the clock that stamps StartTime -, and it also hands the clock to the three resources;
   a plain resource.WithClock is no ModelOption and reaches the resources only (modelArgs.apply) *)
Definition expected_options : list optrow := [
  mkOptRow "WithActiveModeOption" ["activeModeOpts"] [];
  mkOptRow "WithClock" ["demandOpts"; "activeModeOpts"; "modeOpts"; "clock"] [];
  mkOptRow "WithDemandOption" ["demandOpts"] [];
  mkOptRow "WithInitialActiveMode" [] ["WithActiveModeOption"];
  mkOptRow "WithInitialDemand" [] ["WithDemandOption"];
  mkOptRow "WithInitialMode" [] ["WithModeOption"];
  mkOptRow "WithModeOption" ["modeOpts"] [];
  mkOptRow "WithRNG" ["demandOpts"; "activeModeOpts"; "modeOpts"; "rng"] []
].
Lemma table_options : list_eqb optrow_eqb model_options expected_options = true
  /\ default_options = ["WithInitialDemand"; "WithInitialActiveMode"; "WithDemandOption";
                        "WithActiveModeOption"; "WithModeOption"; "WithClock"; "WithRNG"].
Proof. split; vm_compute; reflexivity. Qed.
Lemma only_withclock_sets_clock :
  map oname (filter (fun r => str_in "clock" (owrites r)) model_options) = ["WithClock"].
Proof. vm_compute. reflexivity. Qed.

(* the calls the source makes in the method an operation runs *)
Definition method_calls (n : string) : list (string * string) :=
  match find_meth n model_methods with
  | Some m => map (fun c => (cfield c, cmeth c)) (mcalls m)
  | None => []
  end.

(* every operation of the model runs a method that exists, writes under the exclusive lock only,
   and - for the rpcs - is the single Model call of that rpc *)
Lemma op_method_locked : forall o,
  match find_meth (op_method o) model_methods with
  | Some m => mexported m = true /\ atomic_ok m = true /\ forallb (fun c => lk_eqb (clk c) LX) (mcalls m) = true
  | None => False
  end.
Proof. intros o. destruct o; vm_compute; repeat split. Qed.
Lemma op_rpc_single : forall o r, op_rpc o = Some r ->
  option_map scalls (find_srv r server_methods) = Some [op_method o].
Proof. intros o r H. destruct o; inversion H; subst; vm_compute; reflexivity. Qed.

(* ------------------------------------------------------------------ programs = Model.step *)
Ltac act := eapply RunAct; [cbn beta; reflexivity|].

Lemma runs_add : forall m c s, exists tr,
  runs (p_add m c) s tr (fst (do_add s m c)) (snd (do_add s m c)) /\
  subseq tr [("modes", "List"); ("modes", "Add")] = true.
Proof.
  intros m c s. unfold p_add, do_add, ret_. destruct (mnormal m); cbn [andb].
  - destruct (has_normal (modes s)) eqn:H.
    + eexists. split; [eapply RunAct; [cbn beta; rewrite H; reflexivity|apply RunRet]|reflexivity].
    + destruct (c && (is_empty (mid m) || has (mid m) (modes s))) eqn:H1;
        [|destruct (has (mid m) (modes s)) eqn:H2];
        (eexists; split; [eapply RunAct; [cbn beta; rewrite H; reflexivity|];
                          eapply RunAct; [cbn beta; rewrite ?H2, ?H1; reflexivity|apply RunRet]|reflexivity]).
  - destruct (c && (is_empty (mid m) || has (mid m) (modes s))) eqn:H1;
      [|destruct (has (mid m) (modes s)) eqn:H2];
      (eexists; split; [eapply RunAct; [cbn beta; rewrite ?H2, ?H1; reflexivity|apply RunRet]|reflexivity]).
Qed.

Lemma runs_update : forall m k s, exists tr,
  runs (p_update m k) s tr (fst (do_update true s m k)) (snd (do_update true s m k)) /\
  subseq tr [("modes", "List"); ("modes", "Update")] = true.
Proof.
  intros m k s. unfold p_update, do_update, ret_. cbn [andb].
  destruct (mnormal m && writes_normal k); cbn [andb].
  - destruct (other_normal (mid m) (modes s)) eqn:H.
    + eexists. split; [eapply RunAct; [cbn beta; rewrite H; reflexivity|apply RunRet]|reflexivity].
    + destruct (negb (mask_valid k)) eqn:H1; [|destruct (find (mid m) (modes s)) eqn:H2];
        (eexists; split; [eapply RunAct; [cbn beta; rewrite H; reflexivity|];
                          eapply RunAct; [cbn beta; rewrite ?H2, ?H1; reflexivity|apply RunRet]|reflexivity]).
  - destruct (negb (mask_valid k)) eqn:H1; [|destruct (find (mid m) (modes s)) eqn:H2];
      (eexists; split; [eapply RunAct; [cbn beta; rewrite ?H2, ?H1; reflexivity|apply RunRet]|reflexivity]).
Qed.

Lemma runs_delete : forall id a s, exists tr,
  runs (p_delete id a) s tr (fst (do_delete true s id a)) (snd (do_delete true s id a)) /\
  subseq tr [("activeMode", "Get"); ("modes", "Delete")] = true.
Proof.
  intros id a s. unfold p_delete, do_delete, ret_.
  destruct (String.eqb id (mid (active s))) eqn:H.
  - eexists. split; [eapply RunAct; [cbn beta; rewrite H; reflexivity|apply RunRet]|reflexivity].
  - destruct (find id (modes s)) eqn:H2; [|destruct a];
      (eexists; split; [eapply RunAct; [cbn beta; rewrite H; reflexivity|];
                        eapply RunAct; [cbn beta; rewrite ?H2; reflexivity|apply RunRet]|reflexivity]).
Qed.

Lemma runs_set_active : forall m s, exists tr,
  runs (p_set_active m) s tr (fst (do_set_active s m)) (snd (do_set_active s m)) /\
  subseq tr [("modes", "Get"); ("activeMode", "Set")] = true.
Proof.
  intros m s. unfold p_set_active, do_set_active, ret_.
  destruct (find (mid m) (modes s)) eqn:H.
  - eexists. split; [eapply RunAct; [cbn beta; rewrite H; reflexivity|]; act; apply RunRet|reflexivity].
  - eexists. split; [eapply RunAct; [cbn beta; rewrite H; reflexivity|apply RunRet]|reflexivity].
Qed.

Lemma runs_change : forall now id s, exists tr,
  runs (p_change now id) s tr (fst (do_change s now id)) (snd (do_change s now id)) /\
  subseq tr [("modes", "Get"); ("activeMode", "Set")] = true.
Proof.
  intros now id s. unfold p_change, do_change, ret_.
  destruct (find id (modes s)) eqn:H.
  - eexists. split; [eapply RunAct; [cbn beta; rewrite H; reflexivity|]; act; apply RunRet|reflexivity].
  - eexists. split; [eapply RunAct; [cbn beta; rewrite H; reflexivity|apply RunRet]|reflexivity].
Qed.

Lemma runs_clear : forall now s, exists tr,
  runs (p_clear now) s tr (fst (do_clear s now)) (snd (do_clear s now)) /\
  subseq tr [("modes", "List"); ("modes", "Get"); ("activeMode", "Set")] = true.
Proof.
  intros now s. unfold p_clear, do_clear.
  destruct (normal_of (modes s)) eqn:H.
  - destruct (runs_change now (mid e) s) as [tr [R S]]. exists (("modes", "List") :: tr).
    split; [eapply RunAct; [cbn beta; rewrite H; reflexivity|exact R]|exact S].
  - eexists. split; [eapply RunAct; [cbn beta; rewrite H; reflexivity|apply RunRet]|reflexivity].
Qed.

Lemma subseq_nil : forall b, subseq [] b = true.
Proof. destruct b; reflexivity. Qed.
Lemma subseq_app_r : forall a b tr, subseq tr a = true -> subseq tr (a ++ b)%list = true.
Proof.
  induction a as [|y a IH]; intros b tr H.
  - destruct tr; [apply subseq_nil|discriminate].
  - destruct tr as [|x t]; [reflexivity|]. cbn [app subseq] in H |- *.
    destruct (String.eqb (fst x) (fst y) && String.eqb (snd x) (snd y)); apply IH; exact H.
Qed.
Lemma calls_change : method_calls "ChangeActiveMode" = ([("modes", "Get"); ("activeMode", "Set")] ++ [("clock", "Now")])%list.
Proof. vm_compute. reflexivity. Qed.
Lemma calls_clear : method_calls "ChangeToNormalMode" =
  ([("modes", "List"); ("modes", "Get"); ("activeMode", "Set")] ++ [("clock", "Now")])%list.
Proof. vm_compute. reflexivity. Qed.

(* each operation's program ends in the state and with the result of Model.step, and the calls it
   makes are, in order, among those the source of its method makes *)
Theorem prog_correct : forall now o s, exists tr,
  runs (prog_of now o) s tr (fst (step s now o)) (snd (step s now o)) /\
  subseq tr (method_calls (op_method o)) = true.
Proof.
  intros now o s. unfold step. destruct o; cbn [prog_of step_gen op_method].
  - destruct (negb (is_empty (mid m))); [exists []; split; [apply RunRet|reflexivity]|].
    destruct (runs_add (with_id m gen) true s) as [tr [R S]]. exists tr. split; [exact R|exact S].
  - destruct (is_empty (mid m)); [exists []; split; [apply RunRet|reflexivity]|].
    destruct (runs_add m false s) as [tr [R S]]. exists tr. split; [exact R|exact S].
  - destruct (runs_update m mask s) as [tr [R S]]. exists tr. split; [exact R|exact S].
  - destruct (runs_delete id allow s) as [tr [R S]]. exists tr. split; [exact R|exact S].
  - destruct (runs_set_active m s) as [tr [R S]]. exists tr. split; [exact R|exact S].
  - destruct (runs_change now id s) as [tr [R S]]. exists tr. split; [exact R|].
    rewrite calls_change. apply subseq_app_r. exact S.
  - destruct (runs_clear now s) as [tr [R S]]. exists tr. split; [exact R|].
    rewrite calls_clear. apply subseq_app_r. exact S.
  - destruct (negb (is_empty (mid m))); [exists []; split; [apply RunRet|reflexivity]|].
    destruct (runs_add (with_id m gen) true s) as [tr [R S]]. exists tr. split; [exact R|exact S].
  - destruct (is_empty (mid m)); [exists []; split; [apply RunRet|reflexivity]|].
    destruct (runs_update m mask s) as [tr [R S]]. exists tr. split; [exact R|exact S].
  - destruct (is_empty id); [exists []; split; [apply RunRet|reflexivity]|].
    destruct (runs_delete id allow s) as [tr [R S]]. exists tr. split; [exact R|exact S].
  - destruct (is_empty id); [exists []; split; [apply RunRet|reflexivity]|].
    destruct (runs_change now id s) as [tr [R S]]. exists tr. split; [exact R|].
    rewrite calls_change. apply subseq_app_r. exact S.
  - destruct (runs_clear now s) as [tr [R S]]. exists tr. split; [exact R|].
    rewrite calls_clear. apply subseq_app_r. exact S.
Qed.

(* ------------------------------------------------------------------ fine schedules are coarse schedules *)
Lemma nth_set_at_same : forall {A} (l : list A) i x y, nth_error l i = Some y -> nth_error (set_at i x l) i = Some x.
Proof.
  induction l as [|a r IH]; intros i x y H; destruct i; cbn in *; try discriminate; [reflexivity|].
  apply (IH i x y H).
Qed.
Lemma nth_set_at_other : forall {A} (l : list A) i j x, j <> i -> nth_error (set_at i x l) j = nth_error l j.
Proof.
  induction l as [|a r IH]; intros i j x H; destruct i, j; cbn; try reflexivity; [congruence|].
  apply IH. congruence.
Qed.
Lemma map_set_at_same : forall (l : list tst) i t t', nth_error l i = Some t -> pending t' = pending t ->
  map pending (set_at i t' l) = map pending l.
Proof.
  induction l as [|a r IH]; intros i t t' H P; destruct i; cbn in *; try discriminate.
  - inversion H; subst. rewrite P. reflexivity.
  - f_equal. apply (IH i t t' H P).
Qed.
Lemma take_turn_map : forall (l : list tst) i t t' o r, nth_error l i = Some t ->
  pending t = o :: r -> pending t' = r ->
  take_turn i (map pending l) = (Some o, map pending (set_at i t' l)).
Proof.
  induction l as [|a l IH]; intros i t t' o r H P P'; destruct i; cbn in H; try discriminate.
  - injection H as ->. cbn. rewrite P, P'. reflexivity.
  - cbn [map take_turn set_at]. rewrite (IH i t t' o r H P P'). reflexivity.
Qed.

Definition idle (t : tst) : Prop := exists ops, t = TIdle ops.

(* the coarse configuration a fine configuration stands for: same pending operations; the state is
   the shared state, or - while some thread is inside a method - the state in which that method ends *)
Record Sim (c : fcfg) (cc : list (list top) * state) : Prop := mkSim {
  sim_pending : map pending (fths c) = fst cc;
  sim_state :
    match fowner c with
    | None => (forall j t, nth_error (fths c) j = Some t -> idle t) /\ fstate c = snd cc
    | Some i => exists p r tr rs,
        nth_error (fths c) i = Some (TIn p r) /\
        (forall j t, j <> i -> nth_error (fths c) j = Some t -> idle t) /\
        runs p (fstate c) tr (snd cc) rs
    end
}.

Lemma sim_step : forall i c cc, Sim c cc ->
  exists sch, Sim (fstep i c) (crun sch cc).
Proof.
  intros i [ths s ow] [cths cs] [SP SS]. cbn [fths fstate fowner fst snd] in *.
  unfold fstep, fstep_gen. cbn [fths fstate fowner].
  destruct (nth_error ths i) as [[[|o r]|[rs|fl me f] r]|] eqn:N.
  - exists []. split; assumption.
  - destruct ow as [k|].
    + exists []. split; assumption.
    + destruct SS as [Id Es]. exists [i]. unfold crun. cbn [fold_left]. unfold cstep. cbn [fst snd].
      rewrite <- SP, (take_turn_map ths i (TIdle (o :: r)) (TIn (prog_of (fst o) (snd o)) r) o r N eq_refl eq_refl).
      split; cbn [fths fstate fowner fst snd]; [reflexivity|].
      destruct (prog_correct (fst o) (snd o) s) as [tr [R _]].
      exists (prog_of (fst o) (snd o)), r, tr, (snd (step s (fst o) (snd o))).
      split; [apply (nth_set_at_same ths i _ _ N)|]. split.
      * intros j t Hj Ht. rewrite (nth_set_at_other ths i j _ Hj) in Ht. apply (Id j t Ht).
      * rewrite <- Es. exact R.
  - (* release *)
    destruct ow as [k|].
    + destruct SS as [p [r0 [tr [rs0 [Nk [Oth R]]]]]].
      assert (k = i) as ->.
      { destruct (Nat.eq_dec i k) as [E|E]; [symmetry; exact E|].
        destruct (Oth i _ E N) as [ops X]. discriminate. }
      rewrite N in Nk. inversion Nk; subst p r0. inversion R; subst.
      exists []. split; cbn [fths fstate fowner fst snd crun fold_left].
      * rewrite (map_set_at_same ths i _ (TIdle r) N eq_refl). first [exact SP|reflexivity].
      * split; [|reflexivity]. intros j t Ht.
        destruct (Nat.eq_dec j i) as [->|E].
        -- rewrite (nth_set_at_same ths i _ _ N) in Ht. inversion Ht. exists r. reflexivity.
        -- rewrite (nth_set_at_other ths i j _ E) in Ht. apply (Oth j t E Ht).
    + destruct SS as [Id _]. destruct (Id i _ N) as [ops X]. discriminate.
  - (* one resource call of the thread inside *)
    destruct ow as [k|].
    + destruct SS as [p [r0 [tr [rs0 [Nk [Oth R]]]]]].
      assert (k = i) as ->.
      { destruct (Nat.eq_dec i k) as [E|E]; [symmetry; exact E|].
        destruct (Oth i _ E N) as [ops X]. discriminate. }
      rewrite N in Nk. inversion Nk; subst p r0. inversion R; subst.
      match goal with H : f s = _ |- _ => rewrite H end.
      exists []. split; cbn [fths fstate fowner fst snd crun fold_left].
      * rewrite (map_set_at_same ths i _ (TIn p' r) N eq_refl). first [exact SP|reflexivity].
      * exists p', r, tr0, rs0. split; [apply (nth_set_at_same ths i _ _ N)|]. split; [|assumption].
        intros j t Hj Ht. rewrite (nth_set_at_other ths i j _ Hj) in Ht. apply (Oth j t Hj Ht).
    + destruct SS as [Id _]. destruct (Id i _ N) as [ops X]. discriminate.
  - exists []. split; assumption.
Qed.

Lemma crun_app : forall a b c, crun (a ++ b) c = crun b (crun a c).
Proof. intros. unfold crun. apply fold_left_app. Qed.

Lemma sim_run : forall fs c cc, Sim c cc -> exists sch, Sim (frun fs c) (crun sch cc).
Proof.
  induction fs as [|i fs IH]; intros c cc S; [exists []; exact S|].
  destruct (sim_step i c cc S) as [s1 S1]. destruct (IH _ _ S1) as [s2 S2].
  exists (s1 ++ s2)%list. rewrite crun_app. exact S2.
Qed.

Lemma crun_run_sched : forall sched ths s, snd (crun sched (ths, s)) = run_sched sched ths s.
Proof.
  induction sched as [|i r IH]; intros ths s; [reflexivity|].
  cbn [crun fold_left run_sched]. unfold cstep at 2. cbn [fst snd].
  destruct (take_turn i ths) as [[o|] ths']; apply IH.
Qed.

Lemma sim_init : forall threads s, Sim (finit threads s) (threads, s).
Proof.
  intros threads s. split; cbn [finit fths fstate fowner fst snd].
  - rewrite map_map. cbn [pending]. apply map_id.
  - split; [|reflexivity]. intros j t H. apply nth_error_In in H. apply in_map_iff in H.
    destruct H as [ops [<- _]]. exists ops. reflexivity.
Qed.

(* Headline: with Model.mu held by every writing method around all of its calls, whatever the
   interleaving of the resource calls of any number of threads, the execution is a schedule of whole
   operations: the pending operations are those of a coarse schedule, and the shared state is the
   coarse state when nobody is inside a method, or a state from which the method in progress - run
   alone - ends in the coarse state. *)
Theorem fine_is_coarse : forall fsched threads s0,
  let c := frun fsched (finit threads s0) in
  exists sched,
    map pending (fths c) = fst (crun sched (threads, s0)) /\
    match fowner c with
    | None => fstate c = run_sched sched threads s0
    | Some i => exists p r tr rs, nth_error (fths c) i = Some (TIn p r) /\
                                  runs p (fstate c) tr (run_sched sched threads s0) rs
    end.
Proof.
  intros fsched threads s0 c.
  destruct (sim_run fsched _ _ (sim_init threads s0)) as [sch [SP SS]]. fold c in SP, SS.
  exists sch. split; [exact SP|]. rewrite <- crun_run_sched.
  destruct (fowner c).
  - destruct SS as [p [r [tr [rs [N [_ R]]]]]]. exists p, r, tr, rs. split; assumption.
  - destruct SS as [_ E]. exact E.
Qed.

(* hence the invariants hold whenever no call is in progress, for every fine-grained schedule *)
Theorem fine_invariants : forall initial fsched threads, wf_initial initial ->
  let c := frun fsched (finit threads (init_state initial)) in
  fowner c = None -> Inv (fstate c).
Proof.
  intros initial fsched threads W c H.
  destruct (fine_is_coarse fsched threads (init_state initial)) as [sch [_ S]]. fold c in S.
  rewrite H in S. rewrite S.
  destruct (concurrent_is_sequential sch threads (init_state initial)) as [E _]. rewrite E.
  apply inv_run. apply inv_init. exact W.
Qed.

(* the counterfactual: without the mutex the same threads can delete the active mode *)
Definition race_threads : list (list top) := [[(5, OChange "b")]; [(5, ODelete "b" false)]].
Definition race_initial : list emode := [mkM "a" "" true None; mkM "b" "" false None].
Example mutex_needed :
  let c := frun_gen false [0; 1; 0; 1; 0; 1; 0; 1]%nat (finit race_threads (init_state race_initial)) in
  changed (fstate c) = true /\ has (mid (active (fstate c))) (modes (fstate c)) = false /\
  let c' := frun [0; 1; 0; 1; 0; 1; 0; 1; 1; 1; 1]%nat (finit race_threads (init_state race_initial)) in
  fowner c' = None /\ has (mid (active (fstate c'))) (modes (fstate c')) = true.
Proof. vm_compute. repeat split. Qed.
