(* Fine-grained model of the Model methods of pkg/trait/electricpb/model.go: every method is a
   program of resource-level actions (one action = one call on m.modes / m.activeMode, atomic by the
   resource's own lock: C01/C02), executed between m.mu.Lock() and the deferred m.mu.Unlock().
   Threads interleave at the granularity of these actions; Model.mu is a mutex with an owner.
   Electric/FineProofs.v proves that the programs compose to Model.step and that every fine-grained
   schedule is a coarse schedule of whole operations (the atomicity that Model.v assumes).
   No proofs here. *)
From SC Require Import Base.Prelude Electric.Model.
Local Open Scope string_scope.

(* a program: return a result, or do one resource call m.<field>.<meth>, which may change the
   shared state, and continue depending on what it saw *)
Inductive prog :=
| PRet (r : res)
| PAct (field meth : string) (f : state -> state * prog).

Definition ret_ (s : state) (r : res) : state * prog := (s, PRet r).

(* createOrAddMode: normalMode() only when the new mode is normal, then modes.Add *)
Definition p_add (m : emode) (created : bool) : prog :=
  let add := PAct "modes" "Add" (fun s =>
    if created && (is_empty (mid m) || has (mid m) (modes s)) then ret_ s (err_ cAborted)
    else if has (mid m) (modes s) then ret_ s (err_ cAlreadyExists)
    else ret_ (set_modes s (insert m (modes s))) (ok_ (if created then Some m else None))) in
  if mnormal m
  then PAct "modes" "List" (fun s => (s, if has_normal (modes s) then PRet (err_ cAlreadyExists) else add))
  else add.

(* updateMode: normalMode() only when the update writes normal = true, then modes.Update *)
Definition p_update (m : emode) (mask : option (list string)) : prog :=
  let upd := PAct "modes" "Update" (fun s =>
    if negb (mask_valid mask) then ret_ s (err_ cInvalidArgument)
    else match find (mid m) (modes s) with
         | None => ret_ s (err_ cNotFound)
         | Some old => let new := merge old m mask in
                       ret_ (set_modes s (replace new (modes s))) (ok_ (Some new))
         end) in
  if mnormal m && writes_normal mask
  then PAct "modes" "List" (fun s => (s, if other_normal (mid m) (modes s) then PRet (err_ cAlreadyExists) else upd))
  else upd.

(* deleteMode: activeMode.Get, then modes.Delete - the decision uses the value read first *)
Definition p_delete (id : string) (allow : bool) : prog :=
  PAct "activeMode" "Get" (fun s =>
    (s, if String.eqb id (mid (active s)) then PRet (err_ cFailedPrecondition)
        else PAct "modes" "Delete" (fun s2 =>
               match find id (modes s2) with
               | None => ret_ s2 (if allow then ok_ None else err_ cNotFound)
               | Some _ => ret_ (set_modes s2 (remove id (modes s2))) (ok_ None)
               end))).

Definition p_set_active (m : emode) : prog :=
  PAct "modes" "Get" (fun s =>
    (s, match find (mid m) (modes s) with
        | None => PRet (err_ cNotFound)
        | Some _ => PAct "activeMode" "Set" (fun s2 => ret_ (set_active s2 m) (ok_ None))
        end)).

(* changeActiveMode: findMode, then activeMode.Set whose interceptor compares with the value
   stored at that moment and reads the clock *)
Definition p_change (now : Z) (id : string) : prog :=
  PAct "modes" "Get" (fun s =>
    (s, match find id (modes s) with
        | None => PRet (err_ cNotFound)
        | Some m => PAct "activeMode" "Set" (fun s2 =>
            let m' := if String.eqb (mid (active s2)) (mid m) then m else with_start m (Some now) in
            ret_ (set_active s2 m') (ok_ (Some m')))
        end)).

Definition p_clear (now : Z) : prog :=
  PAct "modes" "List" (fun s =>
    (s, match normal_of (modes s) with
        | None => PRet (err_ cNotFound)
        | Some n => p_change now (mid n)
        end)).

(* the pre-validation of the servers and the documented panics touch no shared state *)
Definition prog_of (now : Z) (o : op) : prog :=
  match o with
  | OCreate m gen => if negb (is_empty (mid m)) then PRet (err_ cPanic) else p_add (with_id m gen) true
  | OAdd m => if is_empty (mid m) then PRet (err_ cPanic) else p_add m false
  | OUpdate m mask => p_update m mask
  | ODelete id allow => p_delete id allow
  | OSetActive m => p_set_active m
  | OChange id => p_change now id
  | OClear => p_clear now
  | SCreate m gen => if negb (is_empty (mid m)) then PRet (err_ cInvalidArgument) else p_add (with_id m gen) true
  | SUpdate m mask => if is_empty (mid m) then PRet (err_ cInvalidArgument) else p_update m mask
  | SDelete id allow => if is_empty id then PRet (err_ cInvalidArgument) else p_delete id allow
  | SChange id => if is_empty id then PRet (err_ cInvalidArgument) else p_change now id
  | SClear => p_clear now
  end.

(* the Model method an operation runs (the rpcs call exactly one: Gen/ElectricLocks.server_methods) *)
Definition op_method (o : op) : string :=
  match o with
  | OCreate _ _ | SCreate _ _ => "CreateMode"
  | OAdd _ => "AddMode"
  | OUpdate _ _ | SUpdate _ _ => "UpdateMode"
  | ODelete _ _ | SDelete _ _ => "DeleteMode"
  | OSetActive _ => "SetActiveMode"
  | OChange _ | SChange _ => "ChangeActiveMode"
  | OClear | SClear => "ChangeToNormalMode"
  end.
Definition op_rpc (o : op) : option string :=
  match o with
  | SCreate _ _ => Some "CreateMode" | SUpdate _ _ => Some "UpdateMode" | SDelete _ _ => Some "DeleteMode"
  | SChange _ => Some "UpdateActiveMode" | SClear => Some "ClearActiveMode"
  | _ => None
  end.

(* big-step execution of a program, with the calls made *)
Inductive runs : prog -> state -> list (string * string) -> state -> res -> Prop :=
| RunRet : forall r s, runs (PRet r) s [] s r
| RunAct : forall fl me f s s' p' tr s'' r,
    f s = (s', p') -> runs p' s' tr s'' r -> runs (PAct fl me f) s ((fl, me) :: tr) s'' r.

(* ---- threads interleaving at the granularity of resource calls ---- *)
Inductive tst := TIdle (ops : list top) | TIn (p : prog) (rest : list top).
Record fcfg := mkF { fths : list tst; fstate : state; fowner : option nat }.

Fixpoint set_at {A} (i : nat) (x : A) (l : list A) : list A :=
  match l, i with
  | [], _ => []
  | _ :: r, O => x :: r
  | y :: r, S k => y :: set_at k x r
  end.

(* one step of thread i.  [mutex = false] is the counterfactual without Model.mu. *)
Definition fstep_gen (mutex : bool) (i : nat) (c : fcfg) : fcfg :=
  match nth_error (fths c) i with
  | None | Some (TIdle []) => c
  | Some (TIdle (o :: r)) =>
      match fowner c with
      | Some _ => if mutex then c     (* blocked in m.mu.Lock() *)
                  else mkF (set_at i (TIn (prog_of (fst o) (snd o)) r) (fths c)) (fstate c) (Some i)
      | None => mkF (set_at i (TIn (prog_of (fst o) (snd o)) r) (fths c)) (fstate c) (Some i)
      end
  | Some (TIn (PRet _) r) => mkF (set_at i (TIdle r) (fths c)) (fstate c) None      (* m.mu.Unlock() *)
  | Some (TIn (PAct _ _ f) r) =>
      let '(s', p') := f (fstate c) in mkF (set_at i (TIn p' r) (fths c)) s' (fowner c)
  end.
Definition fstep := fstep_gen true.
Definition frun_gen (mutex : bool) (sched : list nat) (c : fcfg) : fcfg :=
  fold_left (fun c i => fstep_gen mutex i c) sched c.
Definition frun := frun_gen true.
Definition finit (threads : list (list top)) (s : state) : fcfg := mkF (map TIdle threads) s None.

Definition pending (t : tst) : list top := match t with TIdle ops => ops | TIn _ r => r end.

(* coarse schedules on (remaining threads, state) *)
Definition cstep (c : list (list top) * state) (i : nat) : list (list top) * state :=
  match take_turn i (fst c) with
  | (Some o, ths') => (ths', fst (step (snd c) (fst o) (snd o)))
  | (None, ths') => (ths', snd c)
  end.
Definition crun (sched : list nat) (c : list (list top) * state) := fold_left cstep sched c.
