(* Soundness of the judge on concurrent histories (KConc: the linearization search) and on stream
   histories (KStream: the event replay): whenever the model reproduces the observation and the
   guard holds, the property predicate C19_ok holds.  Together with JudgeProofs.judge_sound_seq
   this gives C19_judge_sound for every kind of case. *)
From SC Require Import Base.Prelude Electric.Model Electric.ModelProofs Electric.C19Judge Electric.JudgeProofs.

(* ------------------------------------------------------------------ small list facts *)
Lemma flat_map_nil_in : forall {A B} (f : A -> list B) l,
  (forall x, In x l -> f x = []) -> flat_map f l = [].
Proof.
  induction l as [|x r IH]; intros H; [reflexivity|]. cbn.
  rewrite (H x (or_introl eq_refl)). cbn. apply IH. intros y Hy. apply H. right. exact Hy.
Qed.

Lemma flat_map_ext_in' : forall {A B} (f g : A -> list B) l,
  (forall x, In x l -> f x = g x) -> flat_map f l = flat_map g l.
Proof.
  induction l as [|x r IH]; intros H; [reflexivity|]. cbn.
  rewrite (H x (or_introl eq_refl)). f_equal. apply IH. intros y Hy. apply H. right. exact Hy.
Qed.

Lemma find_self : forall l x, NoDup (keys l) -> In x l -> find (mid x) l = Some x.
Proof.
  induction l as [|y r IH]; intros x ND Hin; [destruct Hin|].
  cbn in ND. inversion ND as [|? ? Hn ND']; subst. cbn.
  destruct Hin as [->|Hin]; [rewrite String.eqb_refl; reflexivity|].
  destruct (String.eqb (mid y) (mid x)) eqn:E.
  - apply String.eqb_eq in E. exfalso. apply Hn. rewrite E. apply in_map. exact Hin.
  - apply IH; assumption.
Qed.

(* exactly one element of a duplicate-free listing has a given id *)
Lemma flat_map_pick : forall {B} (g : emode -> list B) id l x0,
  NoDup (keys l) -> find id l = Some x0 ->
  flat_map (fun x => if String.eqb (mid x) id then g x else []) l = g x0.
Proof.
  induction l as [|y r IH]; intros x0 ND F; [discriminate|].
  cbn in ND. inversion ND as [|? ? Hn ND']; subst. cbn in F |- *.
  destruct (String.eqb (mid y) id) eqn:E.
  - inversion F; subst. apply String.eqb_eq in E. subst id.
    rewrite flat_map_nil_in; [apply app_nil_r|].
    intros z Hz. destruct (String.eqb (mid z) (mid x0)) eqn:E2; [|reflexivity].
    apply String.eqb_eq in E2. exfalso. apply Hn. rewrite <- E2. apply in_map. exact Hz.
  - cbn. apply IH; assumption.
Qed.

Lemma find_insert_other : forall m l k, k <> mid m -> find k (insert m l) = find k l.
Proof.
  intros m l k Hk. induction l as [|x r IH]; cbn.
  - destruct (String.eqb (mid m) k) eqn:E; [apply String.eqb_eq in E; congruence|reflexivity].
  - destruct (String.ltb (mid m) (mid x)); cbn.
    + destruct (String.eqb (mid m) k) eqn:E; [apply String.eqb_eq in E; congruence|reflexivity].
    + destruct (String.eqb (mid x) k); [reflexivity|exact IH].
Qed.

Lemma insert_split : forall m l, exists l1 l2, l = l1 ++ l2 /\ insert m l = l1 ++ m :: l2.
Proof.
  intros m. induction l as [|x r [l1 [l2 [E1 E2]]]]; [exists [], []; split; reflexivity|].
  cbn. destruct (String.ltb (mid m) (mid x)).
  - exists [], (x :: r). split; reflexivity.
  - exists (x :: l1), l2. cbn. rewrite <- E1, E2. split; reflexivity.
Qed.

Lemma find_replace_same : forall new l, has (mid new) l = true -> find (mid new) (replace new l) = Some new.
Proof.
  intros new. unfold has. induction l as [|x r IH]; cbn; [discriminate|].
  destruct (String.eqb (mid x) (mid new)) eqn:E; cbn.
  - intros _. rewrite String.eqb_refl. reflexivity.
  - intros H. rewrite E. apply IH. exact H.
Qed.

Lemma find_replace_other : forall new l k, k <> mid new -> find k (replace new l) = find k l.
Proof.
  intros new l k Hk. induction l as [|x r IH]; cbn; [reflexivity|].
  destruct (String.eqb (mid x) (mid new)) eqn:E; cbn.
  - apply String.eqb_eq in E.
    destruct (String.eqb (mid new) k) eqn:E1; [apply String.eqb_eq in E1; congruence|].
    destruct (String.eqb (mid x) k) eqn:E2; [apply String.eqb_eq in E2; congruence|reflexivity].
  - destruct (String.eqb (mid x) k); [reflexivity|exact IH].
Qed.

Lemma replace_same : forall new l, NoDup (keys l) -> find (mid new) l = Some new -> replace new l = l.
Proof.
  intros new. induction l as [|x r IH]; intros ND F; [reflexivity|]. cbn in F |- *.
  destruct (String.eqb (mid x) (mid new)) eqn:E.
  - inversion F; subst. reflexivity.
  - f_equal. cbn in ND. inversion ND; subst. apply IH; assumption.
Qed.

Lemma find_remove_other : forall id l k, k <> id -> find k (remove id l) = find k l.
Proof.
  intros id l k Hk. induction l as [|x r IH]; cbn; [reflexivity|].
  destruct (String.eqb (mid x) id) eqn:E; cbn.
  - apply String.eqb_eq in E.
    destruct (String.eqb (mid x) k) eqn:E2; [apply String.eqb_eq in E2; congruence|reflexivity].
  - destruct (String.eqb (mid x) k); [reflexivity|exact IH].
Qed.

Lemma has_find_none : forall id l, has id l = false -> find id l = None.
Proof. unfold has. intros id l. destruct (find id l); [discriminate|reflexivity]. Qed.

(* ------------------------------------------------------------------ the event(s) of one write *)
Section diff.
Variable l : list emode.
Hypothesis ND : NoDup (keys l).

Lemma has_member : forall y, In y l -> has (mid y) l = true.
Proof. intros y Hy. apply has_keys. apply in_map. exact Hy. Qed.

Lemma diff_same : modes_diff l l = [].
Proof.
  unfold modes_diff. rewrite !flat_map_nil_in; [reflexivity| |].
  - intros y Hy. rewrite (has_member y Hy). reflexivity.
  - intros x Hx. rewrite (find_self l x ND Hx), emode_eqb_refl. reflexivity.
Qed.

Lemma diff_insert : forall m, has (mid m) l = false -> modes_diff l (insert m l) = [MAdd m].
Proof.
  intros m H. unfold modes_diff. rewrite flat_map_nil_in.
  - cbn. destruct (insert_split m l) as [l1 [l2 [E1 E2]]]. rewrite E2, flat_map_app. cbn.
    rewrite H. rewrite !flat_map_nil_in; [reflexivity| |].
    + intros y Hy. rewrite has_member; [reflexivity|]. rewrite E1. apply in_or_app. right. exact Hy.
    + intros y Hy. rewrite has_member; [reflexivity|]. rewrite E1. apply in_or_app. left. exact Hy.
  - intros x Hx. rewrite find_insert_other.
    + rewrite (find_self l x ND Hx), emode_eqb_refl. reflexivity.
    + intros E. rewrite <- E, (has_member x Hx) in H. discriminate.
Qed.

Lemma diff_replace : forall new old, find (mid new) l = Some old ->
  modes_diff l (replace new l) = if emode_eqb old new then [] else [MUpdate old new].
Proof.
  intros new old F. unfold modes_diff. rewrite (flat_map_nil_in _ (replace new l)).
  - rewrite app_nil_r.
    rewrite (flat_map_ext_in' _ (fun x => if String.eqb (mid x) (mid new)
                                        then (if emode_eqb x new then [] else [MUpdate x new]) else [])).
    + apply (flat_map_pick (fun x => if emode_eqb x new then [] else [MUpdate x new]) (mid new) l old ND F).
    + intros x Hx. destruct (String.eqb (mid x) (mid new)) eqn:E.
      * apply String.eqb_eq in E. rewrite E, find_replace_same; [reflexivity|].
        apply (find_some_has _ _ _ F).
      * rewrite find_replace_other.
        -- rewrite (find_self l x ND Hx), emode_eqb_refl. reflexivity.
        -- intros E2. rewrite E2, String.eqb_refl in E. discriminate.
  - intros y Hy. assert (In (mid y) (keys (replace new l))) as K by (apply in_map; exact Hy).
    rewrite keys_replace in K. apply has_keys in K. rewrite K. reflexivity.
Qed.

Lemma diff_remove : forall id x, find id l = Some x -> modes_diff l (remove id l) = [MRemove x].
Proof.
  intros id x F. unfold modes_diff. rewrite (flat_map_nil_in _ (remove id l)).
  - rewrite app_nil_r.
    rewrite (flat_map_ext_in' _ (fun x => if String.eqb (mid x) id then [MRemove x] else [])).
    + apply (flat_map_pick (fun x => [MRemove x]) id l x ND F).
    + intros y Hy. destruct (String.eqb (mid y) id) eqn:E.
      * apply String.eqb_eq in E. rewrite E.
        rewrite (has_find_none _ _ (has_remove_same id l ND)). reflexivity.
      * rewrite find_remove_other.
        -- rewrite (find_self l y ND Hy), emode_eqb_refl. reflexivity.
        -- intros E2. rewrite E2, String.eqb_refl in E. discriminate.
  - intros y Hy. rewrite has_member; [reflexivity|]. apply (in_remove id l y Hy).
Qed.
End diff.

(* every operation writes at most one entry of the collection *)
Inductive shape (l : list emode) : list emode -> Prop :=
| ShSame : shape l l
| ShIns m : has (mid m) l = false -> shape l (insert m l)
| ShRep new old : find (mid new) l = Some old -> shape l (replace new l)
| ShRem id x : find id l = Some x -> shape l (remove id l).

Lemma shape_add : forall s m c, shape (modes s) (modes (fst (do_add s m c))).
Proof.
  intros s m c. unfold do_add.
  destruct (mnormal m && has_normal (modes s)); [constructor|].
  destruct (c && (is_empty (mid m) || has (mid m) (modes s))); [constructor|].
  destruct (has (mid m) (modes s)) eqn:H; [constructor|]. cbn. apply ShIns. exact H.
Qed.

Lemma shape_update : forall s m k, shape (modes s) (modes (fst (do_update true s m k))).
Proof.
  intros s m k. unfold do_update.
  destruct (true && mnormal m && writes_normal k && other_normal (mid m) (modes s)); [constructor|].
  destruct (negb (mask_valid k)); [constructor|].
  destruct (find (mid m) (modes s)) as [old|] eqn:F; [|constructor]. cbn.
  apply (ShRep _ _ old). destruct (find_some _ _ _ F) as [E _].
  rewrite (merge_id old m k (eq_sym E)), E. exact F.
Qed.

Lemma shape_delete : forall s i a, shape (modes s) (modes (fst (do_delete true s i a))).
Proof.
  intros s i a. unfold do_delete. destruct (String.eqb _ _); [constructor|].
  destruct (find i (modes s)) as [x|] eqn:F; [cbn; apply (ShRem _ _ x F)|].
  destruct (a && true); constructor.
Qed.

Lemma step_shape : forall s now o, shape (modes s) (modes (fst (step s now o))).
Proof.
  intros s now o. destruct (activates o) eqn:A.
  - unfold step. rewrite (frame_modes true true s now o A). constructor.
  - destruct o; cbn in A; try discriminate; unfold step; cbn [step_gen].
    + destruct (negb _); [constructor|apply shape_add].
    + destruct (is_empty _); [constructor|apply shape_add].
    + apply shape_update.
    + apply shape_delete.
    + destruct (negb _); [constructor|apply shape_add].
    + destruct (is_empty _); [constructor|apply shape_update].
    + destruct (is_empty _); [constructor|apply shape_delete].
Qed.

Definition one_normal (l : list emode) : bool := zlen (normals l) <=? 1.

Lemma views_ok_app : forall a l b,
  views_ok l (a ++ b) = views_ok l a && views_ok (fold_left apply_event a l) b.
Proof.
  induction a as [|e a IH]; intros l b.
  - cbn [app fold_left]. destruct b; cbn [views_ok]; destruct (zlen (normals l) <=? 1); reflexivity.
  - cbn [app views_ok fold_left]. rewrite IH. destruct (zlen (normals l) <=? 1); reflexivity.
Qed.

(* the events of one model step rebuild the next listing, and both views have at most one normal mode *)
Lemma step_events : forall s now o, Inv s ->
  let s' := fst (step s now o) in
  let d := modes_diff (modes s) (modes s') in
  fold_left apply_event d (modes s) = modes s' /\
  (forall rest, views_ok (modes s) (d ++ rest) = views_ok (modes s') rest).
Proof.
  intros s now o I s' d.
  assert (N : one_normal (modes s) = true).
  { apply Z.leb_le. rewrite <- normal_count_normals. apply (inv_normal _ I). }
  assert (N' : one_normal (modes s') = true).
  { apply Z.leb_le. rewrite <- normal_count_normals. apply (inv_normal _ (inv_step s now o I)). }
  pose proof (inv_nodup _ I) as ND.
  assert (G : fold_left apply_event d (modes s) = modes s' /\
              views_ok (modes s) d = true).
  { subst d s'. revert N'. generalize (step_shape s now o).
    generalize (modes (fst (step s now o))) as l'. intros l' Sh N'. unfold one_normal in N, N'.
    destruct Sh as [|m H|new old F|id x F].
    - rewrite (diff_same _ ND). cbn. split; [reflexivity|]. rewrite N. reflexivity.
    - rewrite (diff_insert _ ND m H). cbn [fold_left apply_event views_ok]. split; [reflexivity|].
      rewrite N, N'. reflexivity.
    - rewrite (diff_replace _ ND new old F). destruct (emode_eqb old new) eqn:E.
      + apply emode_eqb_eq in E. subst old. cbn. rewrite (replace_same new _ ND F).
        split; [reflexivity|rewrite N; reflexivity].
      + cbn [fold_left apply_event views_ok]. split; [reflexivity|].
        rewrite N, N'. reflexivity.
    - rewrite (diff_remove _ ND id x F). destruct (find_some _ _ _ F) as [E _].
      cbn [fold_left apply_event views_ok]. rewrite E. split; [reflexivity|].
      rewrite N, N'. reflexivity. }
  destruct G as [G1 G2]. split; [exact G1|].
  intros rest. rewrite views_ok_app, G1, G2. reflexivity.
Qed.

Lemma views_ok_nil : forall l, views_ok l [] = one_normal l.
Proof. intros l. cbn. unfold one_normal. destruct (_ <=? _); reflexivity. Qed.

Lemma changed_run_mono : forall ops s, changed s = true -> changed (run s ops) = true.
Proof.
  induction ops as [|[now o] r IH]; intros s H; [exact H|].
  unfold run, run_gen. cbn [fold_left fst snd]. apply IH.
  pose proof (step_changed true true s now o) as C. fold step in C. rewrite C, H. reflexivity.
Qed.

Lemma lastd_app : forall {A} (a b : list A) d, lastd (a ++ b) d = lastd b (lastd a d).
Proof. intros. unfold lastd. apply fold_left_app. Qed.

(* what the replay predicts for the streams, for any history *)
Lemma predict_sound : forall steps s lst, Inv s -> lst = active s ->
  let me := fst (predict s lst steps) in
  let ae := snd (predict s lst steps) in
  views_ok (modes s) me = true /\
  fold_left apply_event me (modes s) = modes (run s steps) /\
  lastd ae lst = active (run s steps) /\
  (ae <> [] -> changed (run s steps) = true).
Proof.
  induction steps as [|[now o] rest IH]; intros s lst I L.
  - cbn [predict fst snd]. split; [|split; [reflexivity|split; [exact L|intros C; congruence]]].
    rewrite views_ok_nil. apply Z.leb_le. rewrite <- normal_count_normals. apply (inv_normal _ I).
  - cbn [predict]. destruct (step s now o) as [s' r] eqn:E.
    set (a := if activates o && (rcode r =? 0) && negb (emode_eqb (active s') lst) then [active s'] else []).
    set (lst' := match a with x :: _ => x | [] => lst end).
    assert (Es : s' = fst (step s now o)) by (rewrite E; reflexivity).
    assert (Er : r = snd (step s now o)) by (rewrite E; reflexivity).
    assert (I' : Inv s') by (rewrite Es; apply inv_step; exact I).
    assert (L' : lst' = active s').
    { subst lst' a. destruct (activates o) eqn:A; cbn [andb].
      - destruct (rcode r =? 0) eqn:C; cbn [andb].
        + destruct (emode_eqb (active s') lst) eqn:Q; cbn [negb]; [|reflexivity].
          apply emode_eqb_eq in Q. symmetry. exact Q.
        + apply Z.eqb_neq in C. rewrite Er in C.
          pose proof (failed_is_noop true true s now o C) as F. fold step in F. rewrite <- Es in F.
          rewrite F. exact L.
      - rewrite Es. unfold step. rewrite (frame_active true true s now o A). exact L. }
    specialize (IH s' lst' I' L').
    destruct (predict s' lst' rest) as [me ae] eqn:P. cbn [fst snd] in IH |- *.
    destruct IH as [V [F [La Ch]]].
    pose proof (step_events s now o I) as SE. cbn zeta in SE. rewrite <- Es in SE.
    destruct SE as [SE1 SE2].
    assert (R : run s ((now, o) :: rest) = run s' rest).
    { unfold run, run_gen. cbn [fold_left fst snd]. fold step. rewrite E. reflexivity. }
    rewrite R. split; [rewrite SE2; exact V|]. split; [rewrite fold_left_app, SE1; exact F|].
    split.
    + rewrite lastd_app. replace (lastd a lst) with lst'; [exact La|].
      subst lst'. destruct a as [|x [|y t]] eqn:Ea; try reflexivity.
      subst a. destruct (_ && _ && _); discriminate.
    + intros NE. destruct ae as [|x t]; [|apply Ch; discriminate].
      rewrite app_nil_r in NE. apply changed_run_mono.
      subst a. destruct (activates o) eqn:A; cbn [andb] in NE; [|congruence].
      destruct (rcode r =? 0) eqn:C; cbn [andb] in NE; [|congruence].
      pose proof (step_changed true true s now o) as SC. fold step in SC.
      rewrite <- Es, <- Er, A, C in SC. rewrite SC. apply Bool.orb_true_r.
Qed.

(* the views during seeding *)
Lemma seed_views : forall init l, (ncount l + ncount init <= 1)%nat ->
  views_ok l (map MAdd init) = true.
Proof.
  induction init as [|m r IH]; intros l H.
  - cbn [map]. rewrite views_ok_nil. apply Z.leb_le. change (zlen (normals l)) with (normal_count l).
    rewrite normal_count_ncount. unfold ncount in *. cbn [filter List.length] in H. lia.
  - cbn [map views_ok apply_event]. rewrite IH.
    + rewrite Bool.andb_true_r. apply Z.leb_le. change (zlen (normals l)) with (normal_count l).
      rewrite normal_count_ncount. lia.
    + rewrite ncount_insert. unfold ncount in H |- *. cbn [filter] in H.
      destruct (mnormal m); cbn [b2n List.length] in H |- *; lia.
Qed.

Theorem judge_sound_stream : forall initial steps mev aev,
  C19_guard (KStream initial steps mev aev) = true -> agrees (KStream initial steps mev aev) = true ->
  C19_ok (KStream initial steps mev aev) = true.
Proof.
  intros initial steps mev aev G A. cbn [C19_guard] in G. cbn [agrees] in A. cbn [C19_ok].
  apply Bool.andb_true_iff in G. destruct G as [G _].
  apply Bool.andb_true_iff in G. destruct G as [G Seed].
  apply emodes_eqb_eq in Seed.
  pose proof (initial_ok_wf initial G) as W.
  pose proof (inv_init initial W) as I.
  pose proof (predict_sound steps (init_state initial) blank I eq_refl) as P. cbn zeta in P.
  destruct (predict (init_state initial) blank steps) as [me ae] eqn:E. cbn [fst snd] in P.
  apply Bool.andb_true_iff in A. destruct A as [A1 A2].
  assert (M : mev = map MAdd initial ++ me).
  { clear - A1. revert A1. generalize (map MAdd initial ++ me) as l2. induction mev as [|x r IH]; intros [|y t] H; cbn in H; try discriminate; [reflexivity|].
    apply Bool.andb_true_iff in H. destruct H as [H1 H2]. f_equal; [|apply IH; exact H2].
    destruct x, y; cbn in H1; try discriminate.
    - apply emode_eqb_eq in H1. congruence.
    - apply Bool.andb_true_iff in H1. destruct H1 as [Ha Hb].
      apply emode_eqb_eq in Ha. apply emode_eqb_eq in Hb. congruence.
    - apply emode_eqb_eq in H1. congruence. }
  apply emodes_eqb_eq in A2. subst mev aev.
  destruct P as [V [F [La Ch]]]. cbn [init_state modes] in V, F.
  apply Bool.andb_true_iff. split.
  - rewrite views_ok_app, Seed, V, Bool.andb_true_r. apply seed_views.
    destruct W as [_ N]. rewrite normal_count_ncount in N. unfold ncount at 1. cbn. lia.
  - destruct ae as [|x t]; [reflexivity|].
    rewrite fold_left_app, Seed, F.
    change (lastd (blank :: x :: t) blank) with (lastd (x :: t) blank). rewrite La.
    rewrite id_in_has. apply (inv_active _ (inv_run steps _ I)). apply Ch. discriminate.
Qed.

(* ------------------------------------------------------------------ the linearization search *)
Definition act_in (ths : list (list cop)) : bool := existsb (existsb cop_activated) ths.

Lemma act_split : forall ths i d rest, nth i ths [] = d :: rest -> act_in ths = true ->
  cop_activated d = true \/ act_in (set_nth i rest ths) = true.
Proof.
  induction ths as [|t r IH]; intros i d rest N H; [destruct i; discriminate|].
  destruct i as [|i]; cbn in N.
  - subst t. cbn in H |- *. destruct (cop_activated d); [left; reflexivity|right; exact H].
  - cbn in H |- *. destruct (existsb cop_activated t); [right; reflexivity|].
    cbn in H |- *. apply (IH i d rest N H).
Qed.

Lemma all_nil_no_act : forall ths, forallb is_nil ths = true -> act_in ths = false.
Proof.
  induction ths as [|t r IH]; [reflexivity|]. cbn. destruct t; cbn; [exact IH|discriminate].
Qed.

Section lin.
Variables (now : Z) (threads0 : list (list cop)).

(* what the search maintains of every configuration: the model invariant, and every successful
   activating call already linearized has set the ghost flag *)
Definition K (c : cfg) : Prop :=
  Inv (snd c) /\ (act_in threads0 = true -> changed (snd c) = true \/ act_in (fst c) = true).

Lemma succs_K : forall c c', K c -> In c' (succs now c) -> K c'.
Proof.
  intros [ths s] c' [I Hc] Hin. cbn [fst snd] in *. unfold succs in Hin.
  apply in_flat_map in Hin. destruct Hin as [i [_ Hin]].
  destruct (nth i ths []) as [|d rest] eqn:N; [destruct Hin|].
  destruct (may_go_first d i ths); [|destruct Hin].
  destruct (step s now (cop_op d)) as [s' r] eqn:E.
  destruct ((rcode r =? ccode d) && oemode_eqb (rret r) (cret d)) eqn:T; [|destruct Hin].
  destruct Hin as [<-|[]]. unfold K. cbn [fst snd].
  apply Bool.andb_true_iff in T. destruct T as [T _]. apply Z.eqb_eq in T.
  assert (Es : s' = fst (step s now (cop_op d))) by (rewrite E; reflexivity).
  assert (Er : r = snd (step s now (cop_op d))) by (rewrite E; reflexivity).
  pose proof (step_changed true true s now (cop_op d)) as SC. fold step in SC. rewrite <- Es, <- Er in SC.
  split; [rewrite Es; apply inv_step; exact I|].
  intros H0. destruct (Hc H0) as [C|C].
  - left. rewrite SC, C. reflexivity.
  - destruct (act_split ths i d rest N C) as [D|D]; [|right; exact D].
    left. unfold cop_activated in D. apply Bool.andb_true_iff in D. destruct D as [D1 D2].
    rewrite SC, D1, T, D2. apply Bool.orb_true_r.
Qed.

Lemma dedup_in : forall l acc c, In c (dedup l acc) -> In c l \/ In c acc.
Proof.
  induction l as [|x r IH]; intros acc c H; [right; exact H|]. cbn in H.
  destruct (existsb (cfg_eqb x) acc).
  - destruct (IH acc c H); [left; right; assumption|right; assumption].
  - destruct (IH (x :: acc) c H) as [|[->|]]; [left; right; assumption|left; left; reflexivity|right; assumption].
Qed.

Lemma lin_sound : forall fuel front fin, (forall c, In c front -> K c) ->
  lin fuel now front fin = true ->
  exists c, K c /\ forallb is_nil (fst c) = true /\ fin (snd c) = true.
Proof.
  induction fuel as [|f IH]; intros front fin HK H; [discriminate|]. cbn [lin] in H.
  destruct front as [|c0 fr]; [discriminate|].
  destruct (forallb is_nil (fst c0)).
  - apply existsb_exists in H. destruct H as [c [Hin T]].
    apply Bool.andb_true_iff in T. destruct T as [T1 T2]. exists c. split; [apply HK; exact Hin|split; assumption].
  - apply (IH (dedup (flat_map (succs now) (c0 :: fr)) []) fin); [|exact H]. intros c Hin. apply dedup_in in Hin. destruct Hin as [Hin|[]].
    apply in_flat_map in Hin. destruct Hin as [c1 [H1 H2]]. apply (succs_K c1 c (HK c1 H1) H2).
Qed.
End lin.

Theorem judge_sound_conc : forall initial now threads fin,
  C19_guard (KConc initial now threads fin) = true -> agrees (KConc initial now threads fin) = true ->
  C19_ok (KConc initial now threads fin) = true.
Proof.
  intros initial now threads fin G A. cbn [C19_guard] in G. cbn [agrees] in A. cbn [C19_ok].
  apply Bool.andb_true_iff in G. destruct G as [G _].
  pose proof (inv_init initial (initial_ok_wf initial G)) as I.
  apply (lin_sound now threads) in A.
  - destruct A as [[ths s] [[Is Hc] [Hn Hf]]]. cbn [fst snd] in *.
    apply Bool.andb_true_iff in Hf. destruct Hf as [Hf F3].
    apply Bool.andb_true_iff in Hf. destruct Hf as [F1 F2].
    apply emodes_eqb_eq in F1. apply emode_eqb_eq in F2. apply oemode_eqb_eq in F3.
    rewrite <- F1, <- F2, <- F3.
    apply Bool.andb_true_iff. split; [apply Bool.andb_true_iff; split|].
    + apply Z.leb_le. rewrite <- normal_count_normals. apply (inv_normal _ Is).
    + fold (act_in threads). destruct (act_in threads) eqn:Act; [|reflexivity]. cbn [negb orb].
      rewrite id_in_has. apply (inv_active _ Is).
      destruct (Hc eq_refl) as [C|C]; [exact C|]. rewrite (all_nil_no_act ths Hn) in C. discriminate.
    + rewrite normal_of_hd. apply oemode_eqb_refl.
  - intros c [<-|[]]. split; [exact I|]. intros H. right. exact H.
Qed.

(* every kind of case *)
Theorem judge_sound : forall c, C19_guard c = true -> agrees c = true -> C19_ok c = true.
Proof.
  intros [initial o0 steps|initial now threads fin|initial steps mev aev|opts panicked o0 steps evclk|l m w code ret l'].
  - apply judge_sound_seq.
  - apply judge_sound_conc.
  - apply judge_sound_stream.
  - apply judge_sound_cfg.
  - apply judge_sound_opt.
Qed.

Corollary judge_never_2 : forall c, judge c <> 2.
Proof.
  intros c. unfold judge. destruct (C19_guard c) eqn:G.
  - destruct (agrees c) eqn:A.
    + rewrite (judge_sound c G A). cbn. discriminate.
    + destruct (C19_ok c); cbn; discriminate.
  - destruct (agrees c); cbn; discriminate.
Qed.
