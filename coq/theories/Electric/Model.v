(* Executable model of pkg/trait/electricpb: Model (model.go) and the mode operations of
   ModelServer (model_server.go: UpdateActiveMode, ClearActiveMode; memory_settings.go:
   CreateMode, UpdateMode, DeleteMode).  It mirrors the code as it is; no proofs here.

   What is carried of a traits.ElectricMode: id, title, normal, start_time (as unix nanoseconds).
   description/voltage/segments are always left at their zero value by the harness.

   The two resources are plain containers here (their own conformance is property C01):
     - modes : resource.Collection  = association list kept sorted by id (what List() returns);
               the key of an entry is always the Id field of its body (Add stores the body with the
               id, Update looks up mode.Id and a nil-mask merge copies mode.Id, a masked merge
               either leaves Id or writes mode.Id, which is the key);
     - active : resource.Value      = a register holding one mode message.
   Every operation below is one atomic step: each Model method takes m.mu for its whole body.
   [changed] is a ghost flag: some SetActiveMode/ChangeActiveMode/ChangeToNormalMode succeeded
   ("once changed" in the doc comment of ActiveMode). *)
From SC Require Import Base.Prelude.

Record emode := mkM { mid : string; mtitle : string; mnormal : bool; mstart : option Z }.

Definition emode_eqb (a b : emode) : bool :=
  String.eqb (mid a) (mid b) && String.eqb (mtitle a) (mtitle b)
  && Bool.eqb (mnormal a) (mnormal b) && option_eqb Z.eqb (mstart a) (mstart b).

(* WithInitialActiveMode(&traits.ElectricMode{}) *)
Definition blank : emode := mkM EmptyString EmptyString false None.

Record state := mkState { modes : list emode; active : emode; changed : bool }.

Definition init_state (initial : list emode) : state := mkState initial blank false.

(* ---- the collection as a sorted association list ---- *)
Fixpoint find (id : string) (l : list emode) : option emode :=
  match l with
  | [] => None
  | m :: r => if String.eqb (mid m) id then Some m else find id r
  end.
Definition has (id : string) (l : list emode) : bool :=
  match find id l with Some _ => true | None => false end.

(* byte-wise order on ids, as Go's string < used by Collection.List's sort *)
Fixpoint insert (m : emode) (l : list emode) : list emode :=
  match l with
  | [] => [m]
  | x :: r => if String.ltb (mid m) (mid x) then m :: l else x :: insert m r
  end.
Fixpoint replace (m : emode) (l : list emode) : list emode :=
  match l with
  | [] => []
  | x :: r => if String.eqb (mid x) (mid m) then m :: r else x :: replace m r
  end.
Fixpoint remove (id : string) (l : list emode) : list emode :=
  match l with
  | [] => []
  | x :: r => if String.eqb (mid x) id then r else x :: remove id r
  end.

(* Model.normalMode: first mode in id order with Normal set *)
Fixpoint normal_of (l : list emode) : option emode :=
  match l with
  | [] => None
  | m :: r => if mnormal m then Some m else normal_of r
  end.
Definition has_normal (l : list emode) : bool :=
  match normal_of l with Some _ => true | None => false end.

(* the check of the repaired updateMode: the normal mode found by normalMode() (the first one in
   id order) is a different mode *)
Definition other_normal (id : string) (l : list emode) : bool :=
  match normal_of l with Some n => negb (String.eqb (mid n) id) | None => false end.

Definition normal_count (l : list emode) : Z := zlen (filter mnormal l).

(* ---- results ---- *)
(* gRPC status code of the returned error (0 = nil error); 100 = the call panicked.
   [rret] is the returned mode, recorded only when the error is nil. *)
Record res := mkRes { rcode : Z; rret : option emode }.
Definition ok_ (r : option emode) := mkRes 0 r.
Definition err_ (c : Z) := mkRes c None.
Definition cInvalidArgument := 3.
Definition cNotFound := 5.
Definition cAlreadyExists := 6.
Definition cFailedPrecondition := 9.
Definition cAborted := 10.
Definition cPanic := 100.

(* ---- field masks (resource.WithUpdateMask) ---- *)
Local Open Scope string_scope.
Definition valid_paths : list string :=
  ["id"; "title"; "description"; "voltage"; "start_time"; "segments"; "normal"].
Definition mem (p : string) (l : list string) : bool := existsb (String.eqb p) l.
Definition mask_valid (mask : option (list string)) : bool :=
  match mask with None => true | Some ps => forallb (fun p => mem p valid_paths) ps end.
(* does an update with this mask write the normal flag? *)
Definition writes_normal (mask : option (list string)) : bool :=
  match mask with None => true | Some ps => mem "normal" ps end.
(* masks.FieldUpdater.Merge: nil mask = dst becomes src; empty mask = no change; otherwise the
   named fields of dst become those of src (a zero/absent src field clears the dst field) *)
Definition merge (old src : emode) (mask : option (list string)) : emode :=
  match mask with
  | None => src
  | Some [] => old
  | Some ps =>
      mkM (if mem "id" ps then mid src else mid old)
          (if mem "title" ps then mtitle src else mtitle old)
          (if mem "normal" ps then mnormal src else mnormal old)
          (if mem "start_time" ps then mstart src else mstart old)
  end.
Local Close Scope string_scope.

(* ---- operations ---- *)
Inductive op :=
(* Model API *)
| OCreate (m : emode) (gen : string)   (* CreateMode; gen = the id the collection generated *)
| OAdd (m : emode)                     (* AddMode *)
| OUpdate (m : emode) (mask : option (list string))   (* UpdateMode(m, WithUpdateMask(mask)) *)
| ODelete (id : string) (allow : bool)                (* DeleteMode(id, WithAllowMissing(allow)) *)
| OSetActive (m : emode)               (* SetActiveMode *)
| OChange (id : string)                (* ChangeActiveMode *)
| OClear                               (* ChangeToNormalMode *)
(* ElectricApi / MemorySettingsApi through ModelServer *)
| SCreate (m : emode) (gen : string)
| SUpdate (m : emode) (mask : option (list string))
| SDelete (id : string) (allow : bool)
| SChange (id : string)                (* UpdateActiveMode *)
| SClear.                              (* ClearActiveMode *)

(* operations that set the active mode when they succeed / that switch to a stored mode *)
Definition activates (o : op) : bool :=
  match o with OSetActive _ | OChange _ | OClear | SChange _ | SClear => true | _ => false end.
Definition switches (o : op) : bool :=
  match o with OChange _ | OClear | SChange _ | SClear => true | _ => false end.

Definition set_modes (s : state) (l : list emode) : state := mkState l (active s) (changed s).
Definition set_active (s : state) (m : emode) : state := mkState (modes s) m true.
Definition with_id (m : emode) (id : string) := mkM id (mtitle m) (mnormal m) (mstart m).
Definition with_start (m : emode) (t : option Z) := mkM (mid m) (mtitle m) (mnormal m) t.
Definition is_empty (s : string) : bool := String.eqb s EmptyString.

(* createOrAddMode, after the id has been decided.  For CreateMode the id is generated inside
   Collection.Add, i.e. after the normal-mode check (a refused create consumes no id). *)
Definition do_add (s : state) (m : emode) (created : bool) : state * res :=
  if mnormal m && has_normal (modes s) then (s, err_ cAlreadyExists)
  else if created && (is_empty (mid m) || has (mid m) (modes s)) then (s, err_ cAborted)
  else if has (mid m) (modes s) then (s, err_ cAlreadyExists)
  else (set_modes s (insert m (modes s)), ok_ (if created then Some m else None)).

(* updateMode.  fixU = false is the code before the fix (no normal-mode check). *)
Definition do_update (fixU : bool) (s : state) (m : emode) (mask : option (list string)) : state * res :=
  if fixU && mnormal m && writes_normal mask && other_normal (mid m) (modes s) then (s, err_ cAlreadyExists)
  else if negb (mask_valid mask) then (s, err_ cInvalidArgument)
  else match find (mid m) (modes s) with
       | None => (s, err_ cNotFound)
       | Some old => let new := merge old m mask in
                     (set_modes s (replace new (modes s)), ok_ (Some new))
       end.

(* deleteMode.  fixD = false is the code before the fix (nil delete result => ErrModeNotFound). *)
Definition do_delete (fixD : bool) (s : state) (id : string) (allow : bool) : state * res :=
  if String.eqb id (mid (active s)) then (s, err_ cFailedPrecondition)
  else match find id (modes s) with
       | None => if allow && fixD then (s, ok_ None) else (s, err_ cNotFound)
       | Some _ => (set_modes s (remove id (modes s)), ok_ None)
       end.

Definition do_set_active (s : state) (m : emode) : state * res :=
  match find (mid m) (modes s) with
  | None => (s, err_ cNotFound)
  | Some _ => (set_active s m, ok_ None)
  end.

(* changeActiveMode: the stored mode becomes the active value; StartTime := clock.Now() iff
   the id differs from the previously active id *)
Definition do_change (s : state) (now : Z) (id : string) : state * res :=
  match find id (modes s) with
  | None => (s, err_ cNotFound)
  | Some m =>
      let m' := if String.eqb (mid (active s)) (mid m) then m else with_start m (Some now) in
      (set_active s m', ok_ (Some m'))
  end.

Definition do_clear (s : state) (now : Z) : state * res :=
  match normal_of (modes s) with
  | None => (s, err_ cNotFound)
  | Some n => do_change s now (mid n)
  end.

Definition step_gen (fixU fixD : bool) (s : state) (now : Z) (o : op) : state * res :=
  match o with
  | OCreate m gen => if negb (is_empty (mid m)) then (s, err_ cPanic) else do_add s (with_id m gen) true
  | OAdd m => if is_empty (mid m) then (s, err_ cPanic) else do_add s m false
  | OUpdate m mask => do_update fixU s m mask
  | ODelete id allow => do_delete fixD s id allow
  | OSetActive m => do_set_active s m
  | OChange id => do_change s now id
  | OClear => do_clear s now
  | SCreate m gen => if negb (is_empty (mid m)) then (s, err_ cInvalidArgument) else do_add s (with_id m gen) true
  | SUpdate m mask => if is_empty (mid m) then (s, err_ cInvalidArgument) else do_update fixU s m mask
  | SDelete id allow => if is_empty id then (s, err_ cInvalidArgument) else do_delete fixD s id allow
  | SChange id => if is_empty id then (s, err_ cInvalidArgument) else do_change s now id
  | SClear => do_clear s now
  end.

(* the code as it is now (both repairs in) and as it was at the pinned commit *)
Definition step := step_gen true true.
Definition step_v0 := step_gen false false.

(* a timed operation: the fake clock's reading while the operation runs, and the operation *)
Definition top := (Z * op)%type.

Definition run_gen (st : state -> Z -> op -> state * res) (s : state) (ops : list top) : state :=
  fold_left (fun s o => fst (st s (fst o) (snd o))) ops s.
Definition run := run_gen step.
Definition run_v0 := run_gen step_v0.

(* results along a run *)
Fixpoint trace_gen (st : state -> Z -> op -> state * res) (s : state) (ops : list top) : list (state * res) :=
  match ops with
  | [] => []
  | o :: r => let sr := st s (fst o) (snd o) in sr :: trace_gen st (fst sr) r
  end.

(* ---- concurrency: threads whose atomic steps are whole operations (the model mutex) ---- *)
(* Each thread is a list of timed operations; a schedule names which thread moves next.  A thread
   that has finished ignores its turn. *)
Fixpoint take_turn (tid : nat) (threads : list (list top)) : option top * list (list top) :=
  match threads, tid with
  | [], _ => (None, [])
  | t :: rest, O => match t with [] => (None, threads) | o :: t' => (Some o, t' :: rest) end
  | t :: rest, S k => let '(o, rest') := take_turn k rest in (o, t :: rest')
  end.

(* the operation sequence a schedule induces *)
Fixpoint linearize (sched : list nat) (threads : list (list top)) : list top :=
  match sched with
  | [] => []
  | tid :: sched' =>
      match take_turn tid threads with
      | (Some o, threads') => o :: linearize sched' threads'
      | (None, threads') => linearize sched' threads'
      end
  end.

Fixpoint run_sched (sched : list nat) (threads : list (list top)) (s : state) : state :=
  match sched with
  | [] => s
  | tid :: sched' =>
      match take_turn tid threads with
      | (Some o, threads') => run_sched sched' threads' (fst (step s (fst o) (snd o)))
      | (None, threads') => run_sched sched' threads' s
      end
  end.
