(* NewModel(opts...) establishes the invariant, for every option list. *)
From SC Require Import Base.Prelude Electric.Model Electric.ModelProofs Electric.Config.

(* ------------------------------------------------------------------ what an option list amounts to *)
Definition records_of (o : copt) : list emode :=
  match o with CInitial ms => ms | CRecord _ m => [m] | _ => [] end.

Lemma fold_records : forall opts a,
  a_records (fold_left apply_opt opts a) = a_records a ++ flat_map records_of opts.
Proof.
  induction opts as [|o r IH]; intros a; cbn [fold_left flat_map]; [rewrite app_nil_r; reflexivity|].
  rewrite IH. destruct o; cbn [apply_opt a_records records_of]; rewrite <- ?app_assoc; cbn [app]; reflexivity.
Qed.

(* the configured modes are those of every WithInitialMode / WithInitialRecord, in the order given *)
Theorem cfg_records_flat : forall opts, cfg_records opts = flat_map records_of opts.
Proof. intros opts. unfold cfg_records, calc_args. rewrite fold_records. reflexivity. Qed.

Lemma calc_args_snoc : forall opts o, calc_args (opts ++ [o]) = apply_opt (calc_args opts) o.
Proof. intros opts o. unfold calc_args. rewrite fold_left_app. reflexivity. Qed.

(* the last WithInitialActiveMode / WithClock wins; every other option leaves them alone *)
Theorem cfg_active_last : forall opts o,
  cfg_active (opts ++ [o]) = match o with CActive _ m => m | _ => cfg_active opts end.
Proof. intros opts o. unfold cfg_active. rewrite calc_args_snoc. destruct o; reflexivity. Qed.

Theorem cfg_clock_last : forall opts o,
  cfg_clock (opts ++ [o]) = match o with CClock k => k | _ => cfg_clock opts end.
Proof. intros opts o. unfold cfg_clock. rewrite calc_args_snoc. destruct o; reflexivity. Qed.

(* the change times of events: the last clock handed to that resource, by whatever route *)
Theorem cfg_event_clocks_last : forall opts o,
  cfg_mclock (opts ++ [o]) = match o with CClock k | CResClock k | CModeClock k => k | _ => cfg_mclock opts end /\
  cfg_aclock (opts ++ [o]) = match o with CClock k | CResClock k | CActiveClock k => k | _ => cfg_aclock opts end.
Proof. intros opts o. unfold cfg_mclock, cfg_aclock. rewrite calc_args_snoc. destruct o; split; reflexivity. Qed.

Lemma fold_active_irrelevant : forall opts a b,
  a_active a = a_active b -> a_clock a = a_clock b ->
  a_active (fold_left apply_opt opts a) = a_active (fold_left apply_opt opts b) /\
  a_clock (fold_left apply_opt opts a) = a_clock (fold_left apply_opt opts b).
Proof.
  induction opts as [|o r IH]; intros a b Ha Hc; cbn [fold_left]; [split; assumption|].
  apply IH; destruct o; cbn [apply_opt a_active a_clock]; assumption || reflexivity.
Qed.

(* WithInitialMode is additive: one use with l1 ++ l2 = two uses, anywhere in the option list *)
Theorem initial_mode_additive : forall pre l1 l2 post,
  new_model (pre ++ CInitial (l1 ++ l2) :: post) = new_model (pre ++ CInitial l1 :: CInitial l2 :: post).
Proof.
  intros pre l1 l2 post. unfold new_model.
  assert (P : existsb opt_panics (pre ++ CInitial (l1 ++ l2) :: post)
              = existsb opt_panics (pre ++ CInitial l1 :: CInitial l2 :: post)).
  { rewrite !existsb_app. cbn [existsb opt_panics]. rewrite existsb_app, <- !Bool.orb_assoc. reflexivity. }
  assert (R : cfg_records (pre ++ CInitial (l1 ++ l2) :: post)
              = cfg_records (pre ++ CInitial l1 :: CInitial l2 :: post)).
  { rewrite !cfg_records_flat, !flat_map_app. cbn [flat_map records_of]. rewrite <- app_assoc. reflexivity. }
  assert (A : cfg_active (pre ++ CInitial (l1 ++ l2) :: post) = cfg_active (pre ++ CInitial l1 :: CInitial l2 :: post)
           /\ cfg_clock (pre ++ CInitial (l1 ++ l2) :: post) = cfg_clock (pre ++ CInitial l1 :: CInitial l2 :: post)).
  { unfold cfg_active, cfg_clock, calc_args. rewrite !fold_left_app. cbn [fold_left].
    apply fold_active_irrelevant; reflexivity. }
  rewrite P, R, (proj1 A). reflexivity.
Qed.

(* ------------------------------------------------------------------ the listing *)
Lemma keys_sort : forall l id, In id (keys (sort_modes l)) <-> In id (keys l).
Proof.
  induction l as [|m r IH]; intros id; cbn [sort_modes fold_right]; [tauto|].
  fold (sort_modes r). rewrite keys_insert, IH. cbn. split; intros [H|H]; auto.
Qed.

Lemma in_sort : forall l x, In x (sort_modes l) <-> In x l.
Proof.
  induction l as [|m r IH]; intros x; cbn [sort_modes fold_right]; [tauto|].
  fold (sort_modes r). rewrite in_insert, IH. cbn. split; intros [H|H]; auto.
Qed.

Lemma nodup_sort : forall l, NoDup (keys l) -> NoDup (keys (sort_modes l)).
Proof.
  induction l as [|m r IH]; intros ND; cbn [sort_modes fold_right]; [constructor|].
  fold (sort_modes r). cbn in ND. inversion ND as [|? ? Hn Hr]; subst.
  apply nodup_insert; [apply IH; exact Hr|]. rewrite keys_sort. exact Hn.
Qed.

Lemma ncount_sort : forall l, ncount (sort_modes l) = ncount l.
Proof.
  induction l as [|m r IH]; cbn [sort_modes fold_right]; [reflexivity|].
  fold (sort_modes r). rewrite ncount_insert, IH. unfold ncount. cbn [filter].
  destruct (mnormal m); reflexivity.
Qed.

Lemma has_sort : forall l id, has id (sort_modes l) = has id l.
Proof.
  intros l id. destruct (has id l) eqn:E.
  - apply has_keys. apply keys_sort. apply has_keys. exact E.
  - apply has_false_keys. rewrite keys_sort. apply has_false_keys. exact E.
Qed.

Lemma distinct_NoDup : forall l, distinct l = true -> NoDup l.
Proof.
  induction l as [|x r IH]; cbn; intros H; [constructor|].
  apply Bool.andb_true_iff in H. destruct H as [H1 H2]. constructor; [|apply IH; exact H2].
  intros C. apply Bool.negb_true_iff in H1.
  assert (existsb (String.eqb x) r = true).
  { apply existsb_exists. exists x. split; [exact C|apply String.eqb_refl]. }
  congruence.
Qed.

Lemma NoDup_distinct : forall l, NoDup l -> distinct l = true.
Proof.
  induction l as [|x r IH]; intros ND; [reflexivity|]. inversion ND as [|? ? Hn Hr]; subst. cbn.
  rewrite (IH Hr), Bool.andb_true_r. apply Bool.negb_true_iff.
  destruct (existsb (String.eqb x) r) eqn:E; [|reflexivity].
  apply existsb_exists in E. destruct E as [y [Hy Exy]]. apply String.eqb_eq in Exy. subst y. contradiction.
Qed.

(* ------------------------------------------------------------------ NewModel *)
(* NewModel panics exactly when a WithInitialMode was given a mode without an id or an id is
   configured twice *)
Theorem new_model_panics_iff : forall opts,
  new_model opts = None <->
  (exists ms m, In (CInitial ms) opts /\ In m ms /\ mid m = EmptyString) \/ ~ NoDup (keys (cfg_records opts)).
Proof.
  intros opts. unfold new_model. destruct (existsb opt_panics opts) eqn:P.
  - split; [intros _|reflexivity]. left. apply existsb_exists in P. destruct P as [o [Ho Po]].
    destruct o; cbn in Po; try discriminate. apply existsb_exists in Po. destruct Po as [m [Hm Em]].
    exists ms, m. split; [exact Ho|]. split; [exact Hm|]. apply String.eqb_eq. exact Em.
  - destruct (distinct (map mid (cfg_records opts))) eqn:D; cbn [negb].
    + split; [discriminate|]. intros [[ms [m [Ho [Hm Em]]]]|ND].
      * exfalso. assert (existsb opt_panics opts = true); [|congruence].
        apply existsb_exists. exists (CInitial ms). split; [exact Ho|]. cbn. apply existsb_exists.
        exists m. split; [exact Hm|]. apply String.eqb_eq. exact Em.
      * exfalso. apply ND. apply distinct_NoDup. exact D.
    + split; [intros _|reflexivity]. right. intros ND. apply NoDup_distinct in ND.
      unfold keys in ND. congruence.
Qed.

(* The constructed model satisfies the invariant, whatever the option list, as long as at most one
   of the configured modes is normal (WithInitialMode does not check that). *)
Theorem new_model_inv : forall opts s, new_model opts = Some s ->
  normal_count (cfg_records opts) <= 1 -> InvG (cfg_active opts) s.
Proof.
  intros opts s H N. unfold new_model in H.
  destruct (existsb opt_panics opts); [discriminate|].
  destruct (distinct (map mid (cfg_records opts))) eqn:D; cbn [negb] in H; [|discriminate].
  injection H as <-. constructor; cbn [modes active changed].
  - apply nodup_sort. apply distinct_NoDup. exact D.
  - rewrite normal_count_ncount, ncount_sort, <- normal_count_ncount. exact N.
  - discriminate.
  - reflexivity.
Qed.

(* the constructed model stores exactly the configured modes and nothing has been activated *)
Theorem new_model_state : forall opts s, new_model opts = Some s ->
  (forall m, In m (modes s) <-> In m (cfg_records opts)) /\
  (forall id, has id (modes s) = has id (cfg_records opts)) /\
  active s = cfg_active opts /\ changed s = false.
Proof.
  intros opts s H. unfold new_model in H.
  destruct (existsb opt_panics opts); [discriminate|].
  destruct (negb _); [discriminate|]. injection H as <-. cbn [modes active changed].
  split; [intros m; apply in_sort|]. split; [intros id; apply has_sort|]. split; reflexivity.
Qed.

(* ------------------------------------------------------------------ whole histories from any configuration *)
Theorem config_invariants : forall opts s0 ops, new_model opts = Some s0 ->
  normal_count (cfg_records opts) <= 1 ->
  let s := run s0 ops in
  normal_count (modes s) <= 1 /\
  (forall a b, In a (modes s) -> In b (modes s) -> mnormal a = true -> mnormal b = true -> a = b) /\
  (changed s = true -> has (mid (active s)) (modes s) = true) /\
  (changed s = false -> active s = cfg_active opts).
Proof.
  intros opts s0 ops H N s.
  pose proof (inv_run ops s0 (new_model_inv opts s0 H N)) as I. fold s in I.
  split; [apply (inv_normal _ I)|]. split.
  - intros a b Ha Hb Na Nb. pose proof (inv_normal _ I) as N1. rewrite normal_count_ncount in N1.
    apply (ncount_le1_unique (modes s)); [lia|assumption..].
  - split; [apply (inv_active _ I)|apply (inv_blank _ I)].
Qed.

(* clearing after any history from any configuration with a normal mode still stored selects it *)
Theorem config_clear_selects_normal : forall opts s0 ops now n, new_model opts = Some s0 ->
  normal_count (cfg_records opts) <= 1 ->
  let s := run s0 ops in
  In n (modes s) -> mnormal n = true ->
  rcode (snd (step s now OClear)) = 0 /\ mid (active (fst (step s now OClear))) = mid n.
Proof.
  intros opts s0 ops now n H N s Hin Hn.
  pose proof (inv_run ops s0 (new_model_inv opts s0 H N)) as I. fold s in I.
  pose proof (clear_selects_normal s now I) as C.
  destruct (normal_of (modes s)) as [n'|] eqn:E.
  - destruct C as [_ [_ [U [a' [St [A _]]]]]]. rewrite St. cbn [fst snd rcode ok_ set_active active].
    split; [reflexivity|]. rewrite A. f_equal. symmetry. apply U; assumption.
  - destruct C as [C _]. rewrite (C n Hin) in Hn. discriminate.
Qed.

(* ------------------------------------------------------------------ non-vacuity / the seeded class *)
Local Open Scope string_scope.
Definition ma := mkM "a" "normal" true None.
Definition mb := mkM "b" "boost" false None.
Definition mc := mkM "c" "eco" false None.
Definition md := mkM "d" "" true None.

(* WithInitialMode twice, the normal mode in the first use: it is still the normal mode *)
Example config_nonvacuous :
  exists s0, new_model [CClock 1; CInitial [ma]; CInitial [mc; mb]; CRng] = Some s0 /\
  modes s0 = [ma; mb; mc] /\ normal_count (cfg_records [CClock 1; CInitial [ma]; CInitial [mc; mb]; CRng]) <= 1 /\
  rcode (snd (step s0 10 (OAdd md))) = cAlreadyExists /\
  rcode (snd (step s0 10 (OUpdate (mkM "b" "boost" true None) None))) = cAlreadyExists /\
  mid (active (fst (step s0 10 SClear))) = "a".
Proof. eexists. split; [vm_compute; reflexivity|]. vm_compute. repeat split; discriminate. Qed.

Example config_panics :
  new_model [CInitial [ma]; CRecord true (mkM "a" "" false None)] = None /\
  new_model [CInitial [mkM "" "" false None]] = None /\
  cfg_clock [CClock 1; CResClock 2; CClock 3; CResClock 2] = 3 /\ cfg_clock [CResClock 2] = 0 /\
  cfg_active [CActive true mb; CActive false mc; CInitial [ma]] = mc /\
  cfg_mclock [CClock 1; CModeClock 2; CActiveClock 3] = 2 /\ cfg_aclock [CClock 1; CModeClock 2; CActiveClock 3] = 3 /\
  cfg_mclock [CClock 1; CResClock 3] = 3 /\ cfg_aclock [CResClock 3; CClock 1] = 1.
Proof. vm_compute. repeat split. Qed.
