(* Proofs about Electric/Model.v: the invariant, its preservation by every operation, and the
   behavioural clauses of C19. *)
From SC Require Import Base.Prelude Electric.Model.

Definition keys (l : list emode) : list string := map mid l.
Definition ncount (l : list emode) : nat := List.length (filter mnormal l).
Definition b2n (b : bool) : nat := if b then 1%nat else 0%nat.

Lemma normal_count_ncount : forall l, normal_count l = Z.of_nat (ncount l).
Proof. reflexivity. Qed.

(* ------------------------------------------------------------------ find / has *)
Lemma find_some : forall id l m, find id l = Some m -> mid m = id /\ In m l.
Proof.
  induction l as [|x r IH]; intros m H; cbn in H; [discriminate|].
  destruct (String.eqb_spec (mid x) id) as [E|E].
  - inversion H; subst. split; [reflexivity|left; reflexivity].
  - destruct (IH m H) as [A B]. split; [exact A|right; exact B].
Qed.

Lemma has_keys : forall id l, has id l = true <-> In id (keys l).
Proof.
  unfold has. induction l as [|x r IH]; cbn.
  - split; [discriminate|tauto].
  - destruct (String.eqb_spec (mid x) id) as [E|E].
    + split; [intros _; left; exact E|reflexivity].
    + rewrite IH. split; [intros H; right; exact H|intros [H|H]; [contradiction|exact H]].
Qed.

Lemma has_false_keys : forall id l, has id l = false <-> ~ In id (keys l).
Proof.
  intros id l. rewrite <- has_keys. destruct (has id l); split.
  - intros H; discriminate.
  - intros H; exfalso; apply H; reflexivity.
  - intros _ C; discriminate.
  - reflexivity.
Qed.

Lemma find_none_has : forall id l, find id l = None -> has id l = false.
Proof. intros id l H. unfold has. rewrite H. reflexivity. Qed.
Lemma find_some_has : forall id l m, find id l = Some m -> has id l = true.
Proof. intros id l m H. unfold has. rewrite H. reflexivity. Qed.

Lemma nodup_same_id : forall l a b, NoDup (keys l) -> In a l -> In b l -> mid a = mid b -> a = b.
Proof.
  induction l as [|x r IH]; intros a b ND Ha Hb E; [contradiction|].
  cbn in ND. inversion ND as [|k ks Hnot ND']; subst.
  destruct Ha as [Ha|Ha], Hb as [Hb|Hb]; subst.
  - reflexivity.
  - exfalso. apply Hnot. rewrite E. apply in_map. exact Hb.
  - exfalso. apply Hnot. rewrite <- E. apply in_map. exact Ha.
  - apply IH; assumption.
Qed.

(* ------------------------------------------------------------------ insert *)
Lemma keys_insert : forall m l id, In id (keys (insert m l)) <-> id = mid m \/ In id (keys l).
Proof.
  induction l as [|x r IH]; intros id; cbn.
  - split; [intros [H|[]]; left; symmetry; exact H|intros [H|[]]; left; symmetry; exact H].
  - destruct (String.ltb (mid m) (mid x)); cbn.
    + split; [intros [H|H]; [left; symmetry; exact H|right; exact H]
             |intros [H|H]; [left; symmetry; exact H|right; exact H]].
    + rewrite IH. tauto.
Qed.

Lemma in_insert : forall m l x, In x (insert m l) <-> x = m \/ In x l.
Proof.
  induction l as [|y r IH]; intros x; cbn.
  - split; [intros [H|[]]; left; symmetry; exact H|intros [H|[]]; left; symmetry; exact H].
  - destruct (String.ltb (mid m) (mid y)); cbn.
    + split; [intros [H|H]; [left; symmetry; exact H|right; exact H]
             |intros [H|H]; [left; symmetry; exact H|right; exact H]].
    + rewrite IH. tauto.
Qed.

Lemma nodup_insert : forall m l, NoDup (keys l) -> ~ In (mid m) (keys l) -> NoDup (keys (insert m l)).
Proof.
  induction l as [|x r IH]; intros ND Hn; cbn.
  - constructor; [intros []|constructor].
  - destruct (String.ltb (mid m) (mid x)); cbn.
    + constructor; assumption.
    + cbn in ND. inversion ND as [|k ks Hnot ND']; subst.
      constructor.
      * intros C. apply keys_insert in C. destruct C as [C|C]; [|contradiction].
        apply Hn. left. exact C.
      * apply IH; [exact ND'|]. intros C. apply Hn. right. exact C.
Qed.

Lemma ncount_insert : forall m l, ncount (insert m l) = (b2n (mnormal m) + ncount l)%nat.
Proof.
  unfold ncount. induction l as [|x r IH]; cbn.
  - destruct (mnormal m); reflexivity.
  - destruct (String.ltb (mid m) (mid x)); cbn.
    + destruct (mnormal m); reflexivity.
    + destruct (mnormal x); cbn; rewrite IH; destruct (mnormal m); cbn; lia.
Qed.

Lemma has_insert : forall m l id, has id (insert m l) = String.eqb id (mid m) || has id l.
Proof.
  intros m l id. apply Bool.eq_true_iff_eq. rewrite Bool.orb_true_iff, !has_keys, keys_insert.
  rewrite String.eqb_eq. tauto.
Qed.

(* ------------------------------------------------------------------ normal_of *)
Lemma normal_of_none : forall l, normal_of l = None <-> ncount l = 0%nat.
Proof.
  unfold ncount. induction l as [|x r IH]; cbn; [tauto|].
  destruct (mnormal x); cbn; [split; [discriminate|lia]|exact IH].
Qed.

Lemma normal_of_some : forall l n, normal_of l = Some n -> In n l /\ mnormal n = true.
Proof.
  induction l as [|x r IH]; intros n H; cbn in H; [discriminate|].
  destruct (mnormal x) eqn:E.
  - inversion H; subst. split; [left; reflexivity|exact E].
  - destruct (IH n H) as [A B]. split; [right; exact A|exact B].
Qed.

Lemma has_normal_false : forall l, has_normal l = false <-> ncount l = 0%nat.
Proof.
  intros l. unfold has_normal. rewrite <- normal_of_none.
  destruct (normal_of l); split; intros H; try reflexivity; discriminate.
Qed.

Lemma in_filter_normal : forall l m, In m l -> mnormal m = true -> In m (filter mnormal l).
Proof. intros l m H E. apply filter_In. split; assumption. Qed.

Lemma ncount_zero_none_normal : forall l, ncount l = 0%nat -> forall m, In m l -> mnormal m = false.
Proof.
  intros l H m Hin. destruct (mnormal m) eqn:E; [|reflexivity].
  pose proof (in_filter_normal l m Hin E) as F. unfold ncount in H.
  destruct (filter mnormal l); [contradiction|discriminate].
Qed.

(* at most one normal mode, as a statement about members *)
Lemma ncount_le1_unique : forall l, (ncount l <= 1)%nat ->
  forall a b, In a l -> In b l -> mnormal a = true -> mnormal b = true -> a = b.
Proof.
  intros l H a b Ha Hb Na Nb.
  pose proof (in_filter_normal l a Ha Na) as Fa. pose proof (in_filter_normal l b Hb Nb) as Fb.
  unfold ncount in H. destruct (filter mnormal l) as [|x [|y t]]; cbn in *.
  - contradiction.
  - destruct Fa as [Fa|[]], Fb as [Fb|[]]. congruence.
  - lia.
Qed.

Lemma unique_ncount_le1 : forall l, NoDup l ->
  (forall a b, In a l -> In b l -> mnormal a = true -> mnormal b = true -> a = b) -> (ncount l <= 1)%nat.
Proof.
  intros l ND U. unfold ncount.
  assert (NDf : NoDup (filter mnormal l)) by (apply NoDup_filter; exact ND).
  destruct (filter mnormal l) as [|x [|y t]] eqn:F; cbn; try lia.
  exfalso.
  assert (Hx : In x (filter mnormal l)) by (rewrite F; left; reflexivity).
  assert (Hy : In y (filter mnormal l)) by (rewrite F; right; left; reflexivity).
  apply filter_In in Hx. apply filter_In in Hy. destruct Hx as [Hx Nx], Hy as [Hy Ny].
  assert (E : x = y) by (apply U; assumption). subst y.
  inversion NDf as [|k ks Hnot _]; subst. apply Hnot. left. reflexivity.
Qed.

(* ------------------------------------------------------------------ replace *)
Lemma keys_replace : forall m l, keys (replace m l) = keys l.
Proof.
  unfold keys. induction l as [|x r IH]; cbn; [reflexivity|].
  destruct (String.eqb_spec (mid x) (mid m)) as [E|E]; cbn; [rewrite E; reflexivity|rewrite IH; reflexivity].
Qed.

Lemma has_replace : forall m l id, has id (replace m l) = has id l.
Proof.
  intros m l id. apply Bool.eq_true_iff_eq. rewrite !has_keys, keys_replace. tauto.
Qed.

Lemma ncount_replace : forall new l old, find (mid new) l = Some old ->
  (ncount (replace new l) + b2n (mnormal old) = ncount l + b2n (mnormal new))%nat.
Proof.
  unfold ncount. induction l as [|x r IH]; intros old H; cbn in H; [discriminate|]. cbn.
  destruct (String.eqb (mid x) (mid new)).
  - inversion H; subst. cbn. destruct (mnormal new), (mnormal old); cbn; lia.
  - cbn. specialize (IH old H). destruct (mnormal x); cbn; lia.
Qed.

Lemma in_replace : forall new l old x, find (mid new) l = Some old ->
  In x (replace new l) -> x = new \/ In x l.
Proof.
  induction l as [|y r IH]; intros old x H Hin; cbn in H; [discriminate|]. cbn in Hin.
  destruct (String.eqb (mid y) (mid new)).
  - destruct Hin as [Hin|Hin]; [left; symmetry; exact Hin|right; right; exact Hin].
  - destruct Hin as [Hin|Hin]; [right; left; exact Hin|].
    destruct (IH old x H Hin) as [A|A]; [left; exact A|right; right; exact A].
Qed.

(* ------------------------------------------------------------------ remove *)
Lemma keys_remove_incl : forall id l k, In k (keys (remove id l)) -> In k (keys l).
Proof.
  induction l as [|x r IH]; intros k H; cbn in *; [exact H|].
  destruct (String.eqb (mid x) id); [right; exact H|].
  destruct H as [H|H]; [left; exact H|right; apply IH; exact H].
Qed.

Lemma nodup_remove : forall id l, NoDup (keys l) -> NoDup (keys (remove id l)).
Proof.
  induction l as [|x r IH]; intros ND; cbn; [constructor|].
  cbn in ND. inversion ND as [|k ks Hnot ND']; subst.
  destruct (String.eqb (mid x) id); [exact ND'|].
  cbn. constructor; [intros C; apply Hnot; apply keys_remove_incl in C; exact C|apply IH; exact ND'].
Qed.

Lemma ncount_remove : forall id l, (ncount (remove id l) <= ncount l)%nat.
Proof.
  unfold ncount. induction l as [|x r IH]; cbn; [lia|].
  destruct (String.eqb (mid x) id); [destruct (mnormal x); cbn; lia|].
  cbn. destruct (mnormal x); cbn; lia.
Qed.

Lemma has_remove_other : forall id l k, k <> id -> has k (remove id l) = has k l.
Proof.
  intros id l k Hne. unfold has. induction l as [|x r IH]; cbn; [reflexivity|].
  destruct (String.eqb_spec (mid x) id) as [E|E].
  - destruct (String.eqb_spec (mid x) k) as [E2|E2]; [congruence|reflexivity].
  - cbn. destruct (String.eqb (mid x) k); [reflexivity|exact IH].
Qed.

Lemma has_remove_same : forall id l, NoDup (keys l) -> has id (remove id l) = false.
Proof.
  intros id l ND. apply has_false_keys. induction l as [|x r IH]; cbn; [tauto|].
  cbn in ND. inversion ND as [|k ks Hnot ND']; subst.
  destruct (String.eqb_spec (mid x) id) as [E|E].
  - rewrite <- E. exact Hnot.
  - cbn. intros [C|C]; [contradiction|]. exact (IH ND' C).
Qed.

Lemma in_remove : forall id l x, In x (remove id l) -> In x l.
Proof.
  induction l as [|y r IH]; intros x H; cbn in *; [exact H|].
  destruct (String.eqb (mid y) id); [right; exact H|].
  destruct H as [H|H]; [left; exact H|right; apply IH; exact H].
Qed.

(* ------------------------------------------------------------------ merge *)
Lemma merge_normal : forall old m mask,
  mnormal (merge old m mask) = if writes_normal mask then mnormal m else mnormal old.
Proof.
  intros old m [[|p ps]|]; cbn [merge writes_normal]; reflexivity.
Qed.

Lemma merge_id : forall old m mask, mid m = mid old -> mid (merge old m mask) = mid old.
Proof.
  intros old m [[|p ps]|] E; cbn [merge].
  - reflexivity.
  - cbn [mid]. destruct (mem _ _); [exact E|reflexivity].
  - exact E.
Qed.

(* ------------------------------------------------------------------ the invariant *)
(* [a0] is the active value the model was constructed with (WithInitialActiveMode; the default is
   the blank mode): until an activating call succeeds the active value is still that one. *)
Record InvG (a0 : emode) (s : state) : Prop := mkInv {
  inv_nodup : NoDup (keys (modes s));                                  (* ids are keys *)
  inv_normal : normal_count (modes s) <= 1;                            (* 1. at most one normal mode *)
  inv_active : changed s = true -> has (mid (active s)) (modes s) = true;   (* 3. *)
  inv_blank : changed s = false -> active s = a0
}.
Arguments inv_nodup {a0} s _.
Arguments inv_normal {a0} s _.
Arguments inv_active {a0} s _.
Arguments inv_blank {a0} s _.
Notation Inv := (InvG blank).

Definition wf_initial (initial : list emode) : Prop :=
  NoDup (keys initial) /\ normal_count initial <= 1.

Lemma inv_init : forall initial, wf_initial initial -> Inv (init_state initial).
Proof.
  intros initial [ND N]. constructor; cbn; try assumption; [discriminate|reflexivity].
Qed.

Lemma inv_set_modes {a0} : forall s l, InvG a0 s -> NoDup (keys l) -> normal_count l <= 1 ->
  (forall id, has id (modes s) = true -> has id l = true) -> InvG a0 (set_modes s l).
Proof.
  intros s l I ND N Hmono. destruct I as [I1 I2 I3 I4]. constructor; cbn; try assumption.
  intros C. apply Hmono. apply I3. exact C.
Qed.

Lemma inv_set_active {a0} : forall s m, InvG a0 s -> has (mid m) (modes s) = true -> InvG a0 (set_active s m).
Proof.
  intros s m [I1 I2 I3 I4] H. constructor; cbn; try assumption; [intros _; exact H|discriminate].
Qed.

Lemma inv_do_add {a0} : forall s m created, InvG a0 s -> InvG a0 (fst (do_add s m created)).
Proof.
  intros s m created I. unfold do_add.
  destruct (mnormal m && has_normal (modes s)) eqn:C1; [exact I|].
  destruct (created && (is_empty (mid m) || has (mid m) (modes s))) eqn:C2; [exact I|].
  destruct (has (mid m) (modes s)) eqn:C3; [exact I|]. cbn [fst].
  apply inv_set_modes; [exact I| | |].
  - apply nodup_insert; [apply (inv_nodup _ I)|apply has_false_keys; exact C3].
  - rewrite normal_count_ncount, ncount_insert. pose proof (inv_normal _ I) as N.
    rewrite normal_count_ncount in N.
    destruct (mnormal m); cbn [b2n].
    + cbn in C1. apply has_normal_false in C1. lia.
    + lia.
  - intros id H. rewrite has_insert, H. apply Bool.orb_true_r.
Qed.

Lemma other_normal_false : forall id l, other_normal id l = false ->
  ncount l = 0%nat \/ exists n, normal_of l = Some n /\ mid n = id.
Proof.
  intros id l H. unfold other_normal in H. destruct (normal_of l) as [n|] eqn:E.
  - right. exists n. split; [reflexivity|]. apply Bool.negb_false_iff in H. apply String.eqb_eq. exact H.
  - left. apply normal_of_none. exact E.
Qed.

Lemma inv_do_update {a0} : forall s m mask, InvG a0 s -> InvG a0 (fst (do_update true s m mask)).
Proof.
  intros s m mask I. unfold do_update.
  destruct (true && mnormal m && writes_normal mask && other_normal (mid m) (modes s)) eqn:C1; [exact I|].
  destruct (negb (mask_valid mask)); [exact I|].
  destruct (find (mid m) (modes s)) as [old|] eqn:F; [|exact I]. cbn [fst].
  destruct (find_some _ _ _ F) as [Eid Hin].
  assert (Enew : mid (merge old m mask) = mid m) by (rewrite merge_id; [exact Eid|symmetry; exact Eid]).
  apply inv_set_modes; [exact I| | |].
  - rewrite keys_replace. apply (inv_nodup _ I).
  - rewrite normal_count_ncount. pose proof (inv_normal _ I) as N. rewrite normal_count_ncount in N.
    assert (F' : find (mid (merge old m mask)) (modes s) = Some old) by (rewrite Enew; exact F).
    pose proof (ncount_replace _ _ _ F') as R. rewrite merge_normal in R.
    cbn [andb] in C1.
    destruct (writes_normal mask) eqn:W.
    + destruct (mnormal m) eqn:Nm.
      * cbn [andb] in C1. destruct (other_normal_false _ _ C1) as [Z|[n [Hn En]]].
        -- cbn [b2n] in R. destruct (mnormal old); cbn [b2n] in R; lia.
        -- destruct (normal_of_some _ _ Hn) as [Hinn Nn].
           assert (n = old).
           { apply (nodup_same_id (modes s)); [apply (inv_nodup _ I)|exact Hinn|exact Hin|congruence]. }
           subst n. rewrite Nn in R. cbn [b2n] in R. lia.
      * cbn [b2n] in R. lia.
    + lia.
  - intros id H. rewrite has_replace. exact H.
Qed.

Lemma inv_do_delete {a0} : forall fixD s id allow, InvG a0 s -> InvG a0 (fst (do_delete fixD s id allow)).
Proof.
  intros fixD s id allow I. unfold do_delete.
  destruct (String.eqb_spec id (mid (active s))) as [E|E]; [exact I|].
  destruct (find id (modes s)) eqn:F.
  - cbn [fst]. destruct I as [I1 I2 I3 I4]. constructor; cbn.
    + apply nodup_remove. exact I1.
    + rewrite normal_count_ncount in *. pose proof (ncount_remove id (modes s)). lia.
    + intros C. rewrite has_remove_other; [apply I3; exact C|intros C2; apply E; symmetry; exact C2].
    + exact I4.
  - destruct (allow && fixD); exact I.
Qed.

Lemma inv_do_set_active {a0} : forall s m, InvG a0 s -> InvG a0 (fst (do_set_active s m)).
Proof.
  intros s m I. unfold do_set_active. destruct (find (mid m) (modes s)) eqn:F; [|exact I].
  cbn [fst]. apply inv_set_active; [exact I|]. eapply find_some_has. exact F.
Qed.

Lemma inv_do_change {a0} : forall s now id, InvG a0 s -> InvG a0 (fst (do_change s now id)).
Proof.
  intros s now id I. unfold do_change. destruct (find id (modes s)) as [m|] eqn:F; [|exact I].
  cbn [fst]. destruct (find_some _ _ _ F) as [Eid _].
  apply inv_set_active; [exact I|].
  assert (E : mid (if String.eqb (mid (active s)) (mid m) then m else with_start m (Some now)) = id).
  { destruct (String.eqb _ _); cbn; exact Eid. }
  rewrite E. eapply find_some_has. exact F.
Qed.

Lemma inv_do_clear {a0} : forall s now, InvG a0 s -> InvG a0 (fst (do_clear s now)).
Proof.
  intros s now I. unfold do_clear. destruct (normal_of (modes s)); [apply inv_do_change; exact I|exact I].
Qed.

(* every operation preserves the invariant (with the repaired updateMode; either deleteMode) *)
Lemma inv_step_gen {a0} : forall fixD s now o, InvG a0 s -> InvG a0 (fst (step_gen true fixD s now o)).
Proof.
  intros fixD s now o I. destruct o; cbn [step_gen].
  - destruct (negb (is_empty (mid m))); [exact I|apply inv_do_add; exact I].
  - destruct (is_empty (mid m)); [exact I|apply inv_do_add; exact I].
  - apply inv_do_update; exact I.
  - apply inv_do_delete; exact I.
  - apply inv_do_set_active; exact I.
  - apply inv_do_change; exact I.
  - apply inv_do_clear; exact I.
  - destruct (negb (is_empty (mid m))); [exact I|apply inv_do_add; exact I].
  - destruct (is_empty (mid m)); [exact I|apply inv_do_update; exact I].
  - destruct (is_empty id); [exact I|apply inv_do_delete; exact I].
  - destruct (is_empty id); [exact I|apply inv_do_change; exact I].
  - apply inv_do_clear; exact I.
Qed.

Lemma inv_step {a0} : forall s now o, InvG a0 s -> InvG a0 (fst (step s now o)).
Proof. intros. apply inv_step_gen. assumption. Qed.

Lemma inv_run {a0} : forall ops s, InvG a0 s -> InvG a0 (run s ops).
Proof.
  unfold run, run_gen. induction ops as [|o r IH]; intros s I; cbn; [exact I|].
  apply IH. apply inv_step. exact I.
Qed.

(* ------------------------------------------------------------------ theorems over all sequences *)
(* from ANY state satisfying the invariant (whatever the active value the model was constructed with) *)
Theorem at_most_one_normal_from {a0} : forall s0 ops, InvG a0 s0 ->
  normal_count (modes (run s0 ops)) <= 1.
Proof. intros s0 ops I. apply (@inv_normal a0). apply inv_run. exact I. Qed.

Theorem active_exists_once_changed_from {a0} : forall s0 ops, InvG a0 s0 ->
  let s := run s0 ops in
  changed s = true -> has (mid (active s)) (modes s) = true.
Proof. intros s0 ops I s. apply (@inv_active a0). apply inv_run. exact I. Qed.

Theorem at_most_one_normal : forall initial ops, wf_initial initial ->
  normal_count (modes (run (init_state initial) ops)) <= 1.
Proof. intros initial ops W. apply (@at_most_one_normal_from blank). apply inv_init. exact W. Qed.

Theorem at_most_one_normal_members : forall initial ops, wf_initial initial ->
  forall a b, let l := modes (run (init_state initial) ops) in
  In a l -> In b l -> mnormal a = true -> mnormal b = true -> a = b.
Proof.
  intros initial ops W a b l Ha Hb Na Nb. subst l.
  pose proof (at_most_one_normal initial ops W) as N. rewrite normal_count_ncount in N.
  apply (ncount_le1_unique (modes (run (init_state initial) ops))); [lia|assumption..].
Qed.

Theorem active_exists_once_changed : forall initial ops, wf_initial initial ->
  let s := run (init_state initial) ops in
  changed s = true -> has (mid (active s)) (modes s) = true.
Proof. intros initial ops W s. apply (@inv_active blank). apply inv_run. apply inv_init. exact W. Qed.

(* [changed] is exactly "some activating call has succeeded" *)
Lemma step_changed : forall fixU fixD s now o,
  changed (fst (step_gen fixU fixD s now o)) =
  changed s || (activates o && (rcode (snd (step_gen fixU fixD s now o)) =? 0)).
Proof.
  intros fixU fixD s now o.
  assert (A : forall s m c, changed (fst (do_add s m c)) = changed s).
  { intros s0 m c. unfold do_add.
    destruct (mnormal m && has_normal (modes s0)); [reflexivity|].
    destruct (c && (is_empty (mid m) || has (mid m) (modes s0))); [reflexivity|].
    destruct (has (mid m) (modes s0)); reflexivity. }
  assert (U : forall s m k, changed (fst (do_update fixU s m k)) = changed s).
  { intros s0 m k. unfold do_update.
    destruct (fixU && mnormal m && writes_normal k && other_normal (mid m) (modes s0)); [reflexivity|].
    destruct (negb (mask_valid k)); [reflexivity|].
    destruct (find _ _); reflexivity. }
  assert (D : forall s i a, changed (fst (do_delete fixD s i a)) = changed s).
  { intros s0 i a. unfold do_delete. destruct (String.eqb _ _); [reflexivity|].
    destruct (find _ _); [reflexivity|]. destruct (_ && _); reflexivity. }
  assert (C : forall s i, changed (fst (do_change s now i)) = changed s || (rcode (snd (do_change s now i)) =? 0)).
  { intros s0 i. unfold do_change. destruct (find _ _); cbn; [rewrite Bool.orb_true_r|rewrite Bool.orb_false_r]; reflexivity. }
  assert (L : changed (fst (do_clear s now)) = changed s || (rcode (snd (do_clear s now)) =? 0)).
  { unfold do_clear. destruct (normal_of _); [apply C|cbn; rewrite Bool.orb_false_r; reflexivity]. }
  destruct o; cbn [step_gen activates andb]; rewrite ?Bool.orb_false_r; auto.
  - destruct (negb _); [reflexivity|apply A].
  - destruct (is_empty _); [reflexivity|apply A].
  - unfold do_set_active. destruct (find _ _); cbn; [rewrite Bool.orb_true_r|rewrite Bool.orb_false_r]; reflexivity.
  - destruct (negb _); [reflexivity|apply A].
  - destruct (is_empty _); [reflexivity|apply U].
  - destruct (is_empty _); [reflexivity|apply D].
  - destruct (is_empty _); [cbn; rewrite Bool.orb_false_r; reflexivity|apply C].
Qed.

(* 2. the active mode is never deleted: whatever the operation, the mode that is active before
   it is still there after it *)
Lemma active_survives_step : forall fixU fixD s now o,
  has (mid (active s)) (modes s) = true ->
  has (mid (active s)) (modes (fst (step_gen fixU fixD s now o))) = true.
Proof.
  intros fixU fixD s now o H.
  assert (A : forall m c, has (mid (active s)) (modes (fst (do_add s m c))) = true).
  { intros m c. unfold do_add.
    destruct (mnormal m && has_normal (modes s)); [exact H|].
    destruct (c && (is_empty (mid m) || has (mid m) (modes s))); [exact H|].
    destruct (has (mid m) (modes s)); [exact H|].
    cbn. rewrite has_insert, H. apply Bool.orb_true_r. }
  assert (U : forall m k, has (mid (active s)) (modes (fst (do_update fixU s m k))) = true).
  { intros m k. unfold do_update.
    destruct (fixU && mnormal m && writes_normal k && other_normal (mid m) (modes s)); [exact H|].
    destruct (negb (mask_valid k)); [exact H|].
    destruct (find _ _); [|exact H]. cbn. rewrite has_replace. exact H. }
  assert (D : forall i a, has (mid (active s)) (modes (fst (do_delete fixD s i a))) = true).
  { intros i a. unfold do_delete. destruct (String.eqb_spec i (mid (active s))) as [E|E]; [exact H|].
    destruct (find _ _); [|destruct (_ && _); exact H].
    cbn. rewrite has_remove_other; [exact H|intros C; apply E; symmetry; exact C]. }
  assert (C : forall i, has (mid (active s)) (modes (fst (do_change s now i))) = true).
  { intros i. unfold do_change. destruct (find _ _); exact H. }
  assert (L : has (mid (active s)) (modes (fst (do_clear s now))) = true).
  { unfold do_clear. destruct (normal_of _); [apply C|exact H]. }
  destruct o; cbn [step_gen]; auto.
  - destruct (negb _); [exact H|apply A].
  - destruct (is_empty _); [exact H|apply A].
  - unfold do_set_active. destruct (find _ _); exact H.
  - destruct (negb _); [exact H|apply A].
  - destruct (is_empty _); [exact H|apply U].
  - destruct (is_empty _); [exact H|apply D].
  - destruct (is_empty _); [exact H|apply C].
Qed.

Theorem active_never_deleted : forall initial ops now o, wf_initial initial ->
  let s := run (init_state initial) ops in
  has (mid (active s)) (modes s) = true ->
  has (mid (active s)) (modes (fst (step s now o))) = true.
Proof. intros initial ops now o _ s. apply active_survives_step. Qed.

(* a delete naming the active id is refused and changes nothing (any state) *)
Theorem delete_active_refused : forall s now allow,
  step s now (ODelete (mid (active s)) allow) = (s, err_ cFailedPrecondition) /\
  (is_empty (mid (active s)) = false ->
   step s now (SDelete (mid (active s)) allow) = (s, err_ cFailedPrecondition)).
Proof.
  intros s now allow. unfold step. cbn [step_gen]. unfold do_delete.
  rewrite String.eqb_refl. split; [reflexivity|]. intros E. rewrite E. reflexivity.
Qed.

(* 4. clearing selects the normal mode *)
Theorem clear_selects_normal {a0} : forall s now, InvG a0 s ->
  match normal_of (modes s) with
  | Some n =>
      In n (modes s) /\ mnormal n = true /\
      (forall m, In m (modes s) -> mnormal m = true -> m = n) /\
      exists a', step s now OClear = (set_active s a', ok_ (Some a')) /\
                 mid a' = mid n /\ mtitle a' = mtitle n /\ mnormal a' = true /\
                 mstart a' = (if String.eqb (mid (active s)) (mid n) then mstart n else Some now)
  | None =>
      (forall m, In m (modes s) -> mnormal m = false) /\ step s now OClear = (s, err_ cNotFound)
  end.
Proof.
  intros s now I. destruct (normal_of (modes s)) as [n|] eqn:E.
  - destruct (normal_of_some _ _ E) as [Hin Nn].
    split; [exact Hin|]. split; [exact Nn|]. split.
    + intros m Hm Nm. pose proof (inv_normal _ I) as N. rewrite normal_count_ncount in N.
      apply (ncount_le1_unique (modes s)); [lia|assumption..].
    + unfold step. cbn [step_gen]. unfold do_clear. rewrite E. unfold do_change.
      assert (F : find (mid n) (modes s) = Some n).
      { destruct (find (mid n) (modes s)) as [x|] eqn:F.
        - destruct (find_some _ _ _ F) as [Ex Hx].
          f_equal. apply (nodup_same_id (modes s)); [apply (inv_nodup _ I)|exact Hx|exact Hin|exact Ex].
        - exfalso. apply find_none_has in F. apply has_false_keys in F. apply F. apply in_map. exact Hin. }
      rewrite F. eexists. split; [reflexivity|].
      destruct (String.eqb (mid (active s)) (mid n)); cbn; auto.
  - split.
    + apply ncount_zero_none_normal. apply normal_of_none. exact E.
    + unfold step. cbn [step_gen]. unfold do_clear. rewrite E. reflexivity.
Qed.

Lemma sclear_is_clear : forall s now, step s now SClear = step s now OClear.
Proof. reflexivity. Qed.

(* 5. switching to a different mode stamps its start time with the clock's current time *)
Definition switched_to (s : state) (now : Z) (s' : state) (r : res) : Prop :=
  rret r = Some (active s') /\ modes s' = modes s /\
  exists m, find (mid (active s')) (modes s) = Some m /\
            mid (active s') = mid m /\ mtitle (active s') = mtitle m /\ mnormal (active s') = mnormal m /\
            mstart (active s') = (if String.eqb (mid (active s)) (mid m) then mstart m else Some now).

Theorem switch_stamps_clock : forall fixU fixD s now o s' r,
  switches o = true -> step_gen fixU fixD s now o = (s', r) -> rcode r = 0 ->
  switched_to s now s' r /\
  (mid (active s') <> mid (active s) -> mstart (active s') = Some now).
Proof.
  intros fixU fixD s now o s' r Sw St Rc.
  assert (C : forall id, do_change s now id = (s', r) ->
          switched_to s now s' r /\
          (mid (active s') <> mid (active s) -> mstart (active s') = Some now)).
  { intros id H. unfold do_change in H. destruct (find id (modes s)) as [m|] eqn:F.
    - destruct (find_some _ _ _ F) as [Eid _]. inversion H; subst s' r; clear H. subst id.
      unfold switched_to. cbn [active set_active modes rret ok_].
      destruct (String.eqb_spec (mid (active s)) (mid m)) as [E|E].
      + split.
        * split; [reflexivity|]. split; [reflexivity|]. exists m. rewrite F.
          split; [reflexivity|]. split; [reflexivity|]. split; [reflexivity|]. split; [reflexivity|].
          destruct (String.eqb_spec (mid (active s)) (mid m)); [reflexivity|contradiction].
        * intros C. exfalso. apply C. symmetry. exact E.
      + split.
        * split; [reflexivity|]. split; [reflexivity|]. exists m. cbn [mid with_start]. rewrite F.
          split; [reflexivity|]. split; [reflexivity|]. split; [reflexivity|]. split; [reflexivity|].
          cbn [mstart]. destruct (String.eqb_spec (mid (active s)) (mid m)); [contradiction|reflexivity].
        * intros _. reflexivity.
    - inversion H; subst. cbn in Rc. discriminate. }
  destruct o; cbn in Sw; try discriminate; cbn [step_gen] in St.
  - apply (C id). exact St.
  - unfold do_clear in St. destruct (normal_of (modes s)) as [n|].
    + apply (C (mid n)). exact St.
    + inversion St; subst. cbn in Rc. discriminate.
  - destruct (is_empty id).
    + inversion St; subst. cbn in Rc. discriminate.
    + apply (C id). exact St.
  - unfold do_clear in St. destruct (normal_of (modes s)) as [n|].
    + apply (C (mid n)). exact St.
    + inversion St; subst. cbn in Rc. discriminate.
Qed.

(* ChangeActiveMode succeeds exactly for stored ids and then makes that id active *)
Theorem change_targets_id : forall s now id,
  (has id (modes s) = true ->
     exists a', step s now (OChange id) = (set_active s a', ok_ (Some a')) /\ mid a' = id) /\
  (has id (modes s) = false -> step s now (OChange id) = (s, err_ cNotFound)).
Proof.
  intros s now id. unfold step. cbn [step_gen]. unfold do_change, has.
  destruct (find id (modes s)) as [m|] eqn:F.
  - split; [|discriminate]. intros _. destruct (find_some _ _ _ F) as [E _].
    eexists. split; [reflexivity|]. destruct (String.eqb _ _); cbn; exact E.
  - split; [discriminate|reflexivity].
Qed.

(* 6. deleting an absent mode: NotFound unless allow-missing, then success; nothing changes *)
Theorem delete_absent_gen {a0} : forall s now id allow, InvG a0 s ->
  id <> EmptyString -> id <> mid a0 -> has id (modes s) = false ->
  step s now (ODelete id allow) = (s, if allow then ok_ None else err_ cNotFound) /\
  step s now (SDelete id allow) = (s, if allow then ok_ None else err_ cNotFound).
Proof.
  intros s now id allow I Hne Hne0 Habs.
  assert (Hact : String.eqb id (mid (active s)) = false).
  { apply String.eqb_neq. intros C. destruct (changed s) eqn:Ch.
    - pose proof (inv_active _ I Ch) as H. rewrite <- C, Habs in H. discriminate.
    - pose proof (inv_blank _ I Ch) as H. rewrite H in C. contradiction. }
  assert (Hemp : is_empty id = false) by (apply String.eqb_neq; exact Hne).
  unfold step. cbn [step_gen]. rewrite Hemp. unfold do_delete. rewrite Hact.
  unfold has in Habs. destruct (find id (modes s)); [discriminate|].
  destruct allow; split; reflexivity.
Qed.

Theorem delete_absent : forall s now id allow, Inv s ->
  id <> EmptyString -> has id (modes s) = false ->
  step s now (ODelete id allow) = (s, if allow then ok_ None else err_ cNotFound) /\
  step s now (SDelete id allow) = (s, if allow then ok_ None else err_ cNotFound).
Proof. intros s now id allow I Hne. apply (delete_absent_gen s now id allow I Hne). exact Hne. Qed.

(* deleting a stored mode that is not active removes exactly it *)
Theorem delete_present {a0} : forall s now id allow, InvG a0 s ->
  has id (modes s) = true -> id <> mid (active s) ->
  let s' := fst (step s now (ODelete id allow)) in
  snd (step s now (ODelete id allow)) = ok_ None /\ has id (modes s') = false /\
  (forall k, k <> id -> has k (modes s') = has k (modes s)) /\ active s' = active s.
Proof.
  intros s now id allow I Hh Hne. unfold step. cbn [step_gen]. unfold do_delete.
  assert (E : String.eqb id (mid (active s)) = false) by (apply String.eqb_neq; exact Hne). rewrite E.
  unfold has in Hh. destruct (find id (modes s)) eqn:F; [|discriminate]. cbn.
  split; [reflexivity|]. split; [apply has_remove_same; apply (inv_nodup _ I)|].
  split; [intros k Hk; apply has_remove_other; exact Hk|reflexivity].
Qed.

(* a failed call changes nothing *)
Theorem failed_is_noop : forall fixU fixD s now o,
  rcode (snd (step_gen fixU fixD s now o)) <> 0 -> fst (step_gen fixU fixD s now o) = s.
Proof.
  intros fixU fixD s now o.
  assert (A : forall m c, rcode (snd (do_add s m c)) <> 0 -> fst (do_add s m c) = s).
  { intros m c. unfold do_add.
    destruct (mnormal m && has_normal (modes s)); [reflexivity|].
    destruct (c && (is_empty (mid m) || has (mid m) (modes s))); [reflexivity|].
    destruct (has (mid m) (modes s)); [reflexivity|].
    cbn. intros C; exfalso; apply C; reflexivity. }
  assert (U : forall m k, rcode (snd (do_update fixU s m k)) <> 0 -> fst (do_update fixU s m k) = s).
  { intros m k. unfold do_update.
    destruct (fixU && mnormal m && writes_normal k && other_normal (mid m) (modes s)); [reflexivity|].
    destruct (negb (mask_valid k)); [reflexivity|].
    destruct (find _ _); [|reflexivity]. cbn. intros C; exfalso; apply C; reflexivity. }
  assert (D : forall i a, rcode (snd (do_delete fixD s i a)) <> 0 -> fst (do_delete fixD s i a) = s).
  { intros i a. unfold do_delete. destruct (String.eqb _ _); [reflexivity|].
    destruct (find _ _); [cbn; intros C; exfalso; apply C; reflexivity|]. destruct (_ && _); reflexivity. }
  assert (C : forall i, rcode (snd (do_change s now i)) <> 0 -> fst (do_change s now i) = s).
  { intros i. unfold do_change. destruct (find _ _); [cbn; intros C; exfalso; apply C; reflexivity|reflexivity]. }
  assert (L : rcode (snd (do_clear s now)) <> 0 -> fst (do_clear s now) = s).
  { unfold do_clear. destruct (normal_of _); [apply C|reflexivity]. }
  destruct o; cbn [step_gen]; auto.
  - destruct (negb _); [reflexivity|apply A].
  - destruct (is_empty _); [reflexivity|apply A].
  - unfold do_set_active. destruct (find _ _); [cbn; intros X; exfalso; apply X; reflexivity|reflexivity].
  - destruct (negb _); [reflexivity|apply A].
  - destruct (is_empty _); [reflexivity|apply U].
  - destruct (is_empty _); [reflexivity|apply D].
  - destruct (is_empty _); [reflexivity|apply C].
Qed.

(* ------------------------------------------------------------------ the code before the repairs *)
Local Open Scope string_scope.
Definition two_normal_ops : list top :=
  [(1, OAdd (mkM "a" "" true None)); (2, OAdd (mkM "b" "" false None));
   (3, OUpdate (mkM "b" "" true None) None)].

Theorem at_most_one_normal_v0_refuted :
  wf_initial [] /\ normal_count (modes (run_v0 (init_state []) two_normal_ops)) = 2.
Proof. split; [split; [constructor|cbn; lia]|vm_compute; reflexivity]. Qed.

(* the same sequence is refused by the repaired updateMode *)
Example update_second_normal_refused :
  snd (step (run (init_state []) (firstn 2 two_normal_ops)) 3 (OUpdate (mkM "b" "" true None) None))
  = err_ cAlreadyExists.
Proof. vm_compute. reflexivity. Qed.

Theorem delete_absent_v0_refuted :
  exists s id, Inv s /\ id <> EmptyString /\ has id (modes s) = false /\
               step_v0 s 1 (ODelete id true) = (s, err_ cNotFound).
Proof.
  exists (init_state []), "nope". split; [apply inv_init; split; [constructor|cbn; lia]|].
  split; [discriminate|]. split; reflexivity.
Qed.
Local Close Scope string_scope.

(* ------------------------------------------------------------------ concurrency *)
(* Every Model method holds m.mu for its whole body, so the atomic steps of a concurrent
   execution are whole operations: a schedule only decides which thread's next operation runs. *)
Inductive interleaves : list (list top) -> list top -> Prop :=
| il_nil : forall threads, interleaves threads []
| il_step : forall threads tid o threads' rest,
    take_turn tid threads = (Some o, threads') -> interleaves threads' rest ->
    interleaves threads (o :: rest).

(* what a turn does: it pops the head of the named thread and touches no other thread *)
Lemma take_turn_spec : forall tid threads o threads',
  take_turn tid threads = (Some o, threads') ->
  nth tid threads [] = o :: nth tid threads' [] /\
  List.length threads' = List.length threads /\
  forall j, j <> tid -> nth j threads' [] = nth j threads [].
Proof.
  induction tid as [|k IH]; intros threads o threads' H; destruct threads as [|t rest]; cbn in H; try discriminate.
  - destruct t as [|x t']; [discriminate|]. inversion H; subst. cbn. split; [reflexivity|]. split; [reflexivity|].
    intros [|j] Hj; [contradiction|reflexivity].
  - destruct (take_turn k rest) as [o' rest'] eqn:E. inversion H; subst.
    destruct (IH _ _ _ E) as [A [B C]]. cbn. split; [exact A|]. split; [rewrite B; reflexivity|].
    intros [|j] Hj; [reflexivity|]. apply C. intros X. apply Hj. rewrite X. reflexivity.
Qed.

Lemma linearize_interleaves : forall sched threads, interleaves threads (linearize sched threads).
Proof.
  induction sched as [|tid r IH]; intros threads; cbn; [constructor|].
  destruct (take_turn tid threads) as [[o|] threads'] eqn:E.
  - eapply il_step; [exact E|apply IH].
  - assert (threads' = threads).
    { clear IH. revert threads threads' E. induction tid as [|k IHk]; intros [|t rest] th' E; cbn in E.
      - inversion E; reflexivity.
      - destruct t; inversion E; reflexivity.
      - inversion E; reflexivity.
      - destruct (take_turn k rest) as [o' rest'] eqn:E2. inversion E; subst.
        f_equal. apply IHk. exact E2. }
    subst. apply IH.
Qed.

Theorem concurrent_is_sequential : forall sched threads s,
  run_sched sched threads s = run s (linearize sched threads) /\
  interleaves threads (linearize sched threads).
Proof.
  intros sched threads s. split; [|apply linearize_interleaves].
  revert threads s. induction sched as [|tid r IH]; intros threads s; cbn; [reflexivity|].
  destruct (take_turn tid threads) as [[o|] threads'].
  - rewrite IH. reflexivity.
  - apply IH.
Qed.

Theorem concurrent_invariants : forall initial sched threads, wf_initial initial ->
  let s := run_sched sched threads (init_state initial) in
  normal_count (modes s) <= 1 /\ (changed s = true -> has (mid (active s)) (modes s) = true).
Proof.
  intros initial sched threads W s. unfold s.
  destruct (concurrent_is_sequential sched threads (init_state initial)) as [E _]. rewrite E.
  split; [apply at_most_one_normal; exact W|apply active_exists_once_changed; exact W].
Qed.
