(* The predicate C19_ok evaluated by the check is implied by the model: every sequential history
   that the model reproduces (agrees = true) from a well-formed initial mode set satisfies every
   clause of step_ok.  Hence on guarded KSeq cases verdict 2 cannot occur, and a predicate failure
   always comes with a model mismatch (verdict 3). *)
From SC Require Import Base.Prelude Electric.Model Electric.ModelProofs Electric.Config Electric.ConfigProofs Electric.UpdateOpts Electric.UpdateOptsProofs Electric.C19Judge.

(* ------------------------------------------------------------------ reflection *)
Lemma optz_eqb_eq : forall a b : option Z, option_eqb Z.eqb a b = true <-> a = b.
Proof.
  intros [a|] [b|]; cbn; split; intros H; try discriminate; try reflexivity.
  - apply Z.eqb_eq in H. subst. reflexivity.
  - inversion H. apply Z.eqb_refl.
Qed.

Lemma emode_eqb_eq : forall a b, emode_eqb a b = true <-> a = b.
Proof.
  intros [i1 t1 n1 s1] [i2 t2 n2 s2]. unfold emode_eqb. cbn [mid mtitle mnormal mstart].
  rewrite !Bool.andb_true_iff, !String.eqb_eq, Bool.eqb_true_iff, optz_eqb_eq.
  split.
  - intros [[[A B] C] D]. subst. reflexivity.
  - intros H. inversion H. auto.
Qed.

Lemma emode_eqb_refl : forall a, emode_eqb a a = true.
Proof. intros a. apply emode_eqb_eq. reflexivity. Qed.

Lemma emodes_eqb_eq : forall a b, emodes_eqb a b = true <-> a = b.
Proof.
  unfold emodes_eqb. induction a as [|x a IH]; intros [|y b]; cbn; split; intros H;
    try discriminate; try reflexivity.
  - apply Bool.andb_true_iff in H. destruct H as [H1 H2].
    apply emode_eqb_eq in H1. apply IH in H2. subst. reflexivity.
  - inversion H; subst. rewrite emode_eqb_refl. cbn. apply IH. reflexivity.
Qed.

Lemma emodes_eqb_refl : forall a, emodes_eqb a a = true.
Proof. intros a. apply emodes_eqb_eq. reflexivity. Qed.

Lemma oemode_eqb_eq : forall a b, oemode_eqb a b = true <-> a = b.
Proof.
  unfold oemode_eqb. intros [a|] [b|]; cbn; split; intros H; try discriminate; try reflexivity.
  - apply emode_eqb_eq in H. subst. reflexivity.
  - inversion H. apply emode_eqb_refl.
Qed.

Lemma oemode_eqb_refl : forall a, oemode_eqb a a = true.
Proof. intros a. apply oemode_eqb_eq. reflexivity. Qed.

(* ------------------------------------------------------------------ small facts *)
Lemma id_in_has : forall id l, id_in id l = has id l.
Proof.
  unfold id_in, ids, has. induction l as [|x r IH]; cbn; [reflexivity|].
  rewrite String.eqb_sym. destruct (String.eqb (mid x) id); cbn; [reflexivity|exact IH].
Qed.

Lemma normal_of_hd : forall l, normal_of l = hd_error (normals l).
Proof.
  unfold normals. induction l as [|x r IH]; cbn; [reflexivity|].
  destruct (mnormal x); cbn; [reflexivity|exact IH].
Qed.

Lemma normal_count_normals : forall l, normal_count l = zlen (normals l).
Proof. reflexivity. Qed.

Lemma length_remove : forall id l, has id l = true ->
  (List.length (remove id l) + 1 = List.length l)%nat.
Proof.
  unfold has. induction l as [|x r IH]; cbn; [discriminate|].
  destruct (String.eqb (mid x) id); [intros _; lia|]. intros H. cbn. rewrite <- (IH H). lia.
Qed.

(* non-activating operations leave the active value alone; activating ones leave the modes alone *)
Lemma frame_active : forall fixU fixD s now o, activates o = false ->
  active (fst (step_gen fixU fixD s now o)) = active s.
Proof.
  intros fixU fixD s now o Ha.
  assert (A : forall m c, active (fst (do_add s m c)) = active s).
  { intros m c. unfold do_add.
    destruct (mnormal m && has_normal (modes s)); [reflexivity|].
    destruct (c && (is_empty (mid m) || has (mid m) (modes s))); [reflexivity|].
    destruct (has (mid m) (modes s)); reflexivity. }
  assert (U : forall m k, active (fst (do_update fixU s m k)) = active s).
  { intros m k. unfold do_update.
    destruct (fixU && mnormal m && writes_normal k && other_normal (mid m) (modes s)); [reflexivity|].
    destruct (negb (mask_valid k)); [reflexivity|]. destruct (find _ _); reflexivity. }
  assert (D : forall i a, active (fst (do_delete fixD s i a)) = active s).
  { intros i a. unfold do_delete. destruct (String.eqb _ _); [reflexivity|].
    destruct (find _ _); [reflexivity|]. destruct (_ && _); reflexivity. }
  destruct o; cbn in Ha; try discriminate; cbn [step_gen]; auto.
  - destruct (negb _); [reflexivity|apply A].
  - destruct (is_empty _); [reflexivity|apply A].
  - destruct (negb _); [reflexivity|apply A].
  - destruct (is_empty _); [reflexivity|apply U].
  - destruct (is_empty _); [reflexivity|apply D].
Qed.

Lemma frame_modes : forall fixU fixD s now o, activates o = true ->
  modes (fst (step_gen fixU fixD s now o)) = modes s.
Proof.
  intros fixU fixD s now o Ha.
  assert (C : forall i, modes (fst (do_change s now i)) = modes s).
  { intros i. unfold do_change. destruct (find _ _); reflexivity. }
  assert (L : modes (fst (do_clear s now)) = modes s).
  { unfold do_clear. destruct (normal_of _); [apply C|reflexivity]. }
  destruct o; cbn in Ha; try discriminate; cbn [step_gen]; auto.
  - unfold do_set_active. destruct (find _ _); reflexivity.
  - destruct (is_empty _); [reflexivity|apply C].
Qed.

(* ------------------------------------------------------------------ the clauses hold of the model *)
Definition obs_of (sr : state * res) : obs :=
  mkObs (rcode (snd sr)) (rret (snd sr)) (modes (fst sr)) (active (fst sr)) (normal_of (modes (fst sr))).

Section model_step.
Context {a0 : emode}.
Variables (s : state) (now : Z) (o : op).
Hypothesis I : InvG a0 s.
Let sr := step s now o.
Let ob := obs_of sr.

Lemma I' : InvG a0 (fst sr).
Proof. apply inv_step. exact I. Qed.

Lemma k_normal_model : k_normal ob = true.
Proof.
  unfold k_normal, ob, obs_of. cbn [omodes]. apply Z.leb_le.
  rewrite <- normal_count_normals. apply (inv_normal _ I').
Qed.

Lemma k_survive_model : k_survive (modes s) (active s) ob = true.
Proof.
  unfold k_survive, ob, obs_of. cbn [omodes]. rewrite !id_in_has.
  destruct (has (mid (active s)) (modes s)) eqn:H; [|reflexivity]. cbn.
  apply active_survives_step. exact H.
Qed.

Lemma k_exists_model : k_exists (changed s) o ob = true.
Proof.
  unfold k_exists, ob, obs_of. cbn [omodes oactive ocode].
  unfold sr, step. rewrite <- step_changed. fold step. fold sr.
  destruct (changed (fst sr)) eqn:H; [|reflexivity]. cbn. rewrite id_in_has.
  apply (inv_active _ I'). exact H.
Qed.

Lemma k_failnoop_model : k_failnoop (modes s) (active s) ob = true.
Proof.
  unfold k_failnoop, ob, obs_of. cbn [omodes oactive ocode].
  destruct (Z.eqb_spec (rcode (snd sr)) 0) as [E|E]; [reflexivity|]. cbn.
  unfold sr, step in *. rewrite (failed_is_noop _ _ _ _ _ E).
  rewrite emodes_eqb_refl, emode_eqb_refl. reflexivity.
Qed.

Lemma k_aframe_model : k_aframe (active s) o ob = true.
Proof.
  unfold k_aframe, ob, obs_of. cbn [oactive]. destruct (activates o) eqn:Ha; [reflexivity|]. cbn.
  unfold sr, step. rewrite (frame_active _ _ _ _ _ Ha). apply emode_eqb_refl.
Qed.

Lemma k_mframe_model : k_mframe (modes s) o ob = true.
Proof.
  unfold k_mframe, ob, obs_of. cbn [omodes]. destruct (activates o) eqn:Ha; [|reflexivity]. cbn.
  unfold sr, step. rewrite (frame_modes _ _ _ _ _ Ha). apply emodes_eqb_refl.
Qed.

Lemma k_normalmode_model : k_normalmode ob = true.
Proof.
  unfold k_normalmode, ob, obs_of. cbn [onormal omodes]. rewrite normal_of_hd. apply oemode_eqb_refl.
Qed.

Lemma delete_clause_act : forall id allow,
  String.eqb id (mid (active s)) = true ->
  rcode (snd (do_delete true s id allow)) = cFailedPrecondition.
Proof. intros id allow E. unfold do_delete. rewrite E. reflexivity. Qed.

Lemma k_delact_model : k_delact (active s) o ob = true.
Proof.
  unfold k_delact, ob, obs_of, sr, step. cbn [ocode].
  destruct o; cbn [delete_of]; try reflexivity; cbn [step_gen].
  - destruct (String.eqb id (mid (active s))) eqn:E; [|reflexivity].
    rewrite (delete_clause_act _ _ E). reflexivity.
  - destruct (is_empty id); [destruct (negb (String.eqb id (mid (active s)))); reflexivity|].
    destruct (String.eqb id (mid (active s))) eqn:E; [|reflexivity].
    rewrite (delete_clause_act _ _ E). reflexivity.
Qed.

Lemma k_setactive_model : k_setactive (modes s) o ob = true.
Proof.
  unfold k_setactive, ob, obs_of, sr, step. cbn [ocode oactive].
  destruct o; try reflexivity. cbn [step_gen]. rewrite id_in_has. unfold has, do_set_active.
  destruct (find (mid m) (modes s)); cbn; [apply emode_eqb_refl|reflexivity].
Qed.

(* a change to a stored id satisfies sw_ok *)
Lemma sw_ok_change : forall id m, find id (modes s) = Some m ->
  sw_ok (modes s) (active s) now (obs_of (do_change s now id)) id = true.
Proof.
  intros id m F. destruct (find_some _ _ _ F) as [Eid Hin].
  unfold sw_ok, obs_of, do_change. rewrite F. cbn [fst snd ocode oret oactive rcode rret ok_ active set_active].
  set (a' := if String.eqb (mid (active s)) (mid m) then m else with_start m (Some now)).
  assert (Ea : mid a' = id) by (unfold a'; destruct (String.eqb _ _); cbn; exact Eid).
  assert (Et : mtitle a' = mtitle m) by (unfold a'; destruct (String.eqb _ _); reflexivity).
  assert (En : mnormal a' = mnormal m) by (unfold a'; destruct (String.eqb _ _); reflexivity).
  rewrite Ea, String.eqb_refl, oemode_eqb_refl. cbn [andb Z.eqb].
  apply Bool.andb_true_iff. split.
  - unfold a'. destruct (String.eqb_spec (mid (active s)) (mid m)) as [E|E].
    + rewrite <- Eid, E, String.eqb_refl. reflexivity.
    + cbn [mstart with_start]. cbn [option_eqb]. rewrite Z.eqb_refl. apply Bool.orb_true_r.
  - apply existsb_exists. exists m. split; [exact Hin|].
    rewrite Eid, String.eqb_refl, Et, En, String.eqb_refl, Bool.eqb_reflx. reflexivity.
Qed.

Lemma find_normal : forall n, normal_of (modes s) = Some n -> find (mid n) (modes s) = Some n.
Proof.
  intros n E. destruct (normal_of_some _ _ E) as [Hin _].
  destruct (find (mid n) (modes s)) as [x|] eqn:F.
  - destruct (find_some _ _ _ F) as [Ex Hx]. f_equal.
    apply (nodup_same_id (modes s)); [apply (inv_nodup _ I)|exact Hx|exact Hin|exact Ex].
  - exfalso. apply find_none_has in F. apply has_false_keys in F. apply F. apply in_map. exact Hin.
Qed.

Lemma change_clause : forall id,
  (if prevalidated (rcode (snd (do_change s now id))) then true
   else match (if id_in id (modes s) then Some id else None) with
        | None => rcode (snd (do_change s now id)) =? cNotFound
        | Some id' => sw_ok (modes s) (active s) now (obs_of (do_change s now id)) id'
        end) = true.
Proof.
  intros id. rewrite id_in_has. unfold has.
  destruct (find id (modes s)) as [m|] eqn:F.
  - pose proof (sw_ok_change id m F) as H.
    unfold do_change in *. rewrite F in *. cbn [snd rcode ok_]. cbn [prevalidated]. exact H.
  - unfold do_change. rewrite F. reflexivity.
Qed.

Lemma clear_clause :
  (if prevalidated (rcode (snd (do_clear s now))) then true
   else match (match normals (modes s) with n :: _ => Some (mid n) | [] => None end) with
        | None => rcode (snd (do_clear s now)) =? cNotFound
        | Some id' => sw_ok (modes s) (active s) now (obs_of (do_clear s now)) id'
        end) = true.
Proof.
  unfold do_clear. pose proof (normal_of_hd (modes s)) as H.
  destruct (normal_of (modes s)) as [n|] eqn:E.
  - destruct (normals (modes s)) as [|n' t]; cbn in H; [discriminate|]. inversion H; subst n'.
    pose proof (find_normal n E) as F. pose proof (sw_ok_change (mid n) n F) as S.
    unfold do_change in *. rewrite F in *. cbn [snd rcode ok_]. cbn [prevalidated]. exact S.
  - destruct (normals (modes s)) as [|n' t]; cbn in H; [reflexivity|discriminate].
Qed.

Lemma k_switch_model : k_switch (modes s) (active s) now o ob = true.
Proof.
  unfold k_switch, ob, sr, step.
  destruct o; cbn [switch_target]; try reflexivity; cbn [step_gen].
  - apply (change_clause id).
  - apply clear_clause.
  - destruct (is_empty id); [reflexivity|]. apply (change_clause id).
  - apply clear_clause.
Qed.

Lemma delete_clause : forall id allow,
  (if prevalidated (rcode (snd (do_delete true s id allow))) || String.eqb id (mid (active s)) then true
   else if id_in id (modes s)
        then (rcode (snd (do_delete true s id allow)) =? 0)
             && negb (id_in id (modes (fst (do_delete true s id allow))))
             && (zlen (modes (fst (do_delete true s id allow))) =? zlen (modes s) - 1)
        else (rcode (snd (do_delete true s id allow)) =? (if allow then 0 else cNotFound))
             && emodes_eqb (modes (fst (do_delete true s id allow))) (modes s)) = true.
Proof.
  intros id allow. unfold do_delete.
  destruct (String.eqb id (mid (active s))) eqn:E; [rewrite Bool.orb_true_r; reflexivity|].
  rewrite !id_in_has. destruct (find id (modes s)) as [m|] eqn:F.
  - cbn [fst snd rcode ok_ modes set_modes]. cbn [prevalidated orb].
    rewrite (find_some_has _ _ _ F).
    rewrite (has_remove_same id (modes s) (inv_nodup _ I)). cbn [negb andb Z.eqb].
    apply Z.eqb_eq. unfold zlen. pose proof (length_remove id (modes s) (find_some_has _ _ _ F)). lia.
  - rewrite (find_none_has _ _ F). destruct allow; cbn; apply emodes_eqb_refl.
Qed.

Lemma k_delete_model : k_delete (modes s) (active s) o ob = true.
Proof.
  unfold k_delete, ob, obs_of, sr, step. cbn [ocode omodes].
  destruct o; cbn [delete_of]; try reflexivity; cbn [step_gen].
  - apply delete_clause.
  - destruct (is_empty id); [reflexivity|]. apply delete_clause.
Qed.

Theorem step_ok_model : step_ok (modes s) (active s) (changed s) now o ob = true.
Proof.
  unfold step_ok.
  rewrite k_normal_model, k_survive_model, k_delact_model, k_exists_model, k_failnoop_model,
    k_aframe_model, k_mframe_model, k_setactive_model, k_normalmode_model, k_switch_model, k_delete_model.
  reflexivity.
Qed.
End model_step.

(* ------------------------------------------------------------------ whole sequential histories *)
Lemma obs_matches_eq : forall s r ob, obs_matches s r ob = true -> ob = obs_of (s, r).
Proof.
  intros s r [c rt ms a n] H. unfold obs_matches in H. cbn in H.
  apply Bool.andb_true_iff in H. destruct H as [H H5].
  apply Bool.andb_true_iff in H. destruct H as [H H4].
  apply Bool.andb_true_iff in H. destruct H as [H H3].
  apply Bool.andb_true_iff in H. destruct H as [H1 H2].
  apply Z.eqb_eq in H1. apply oemode_eqb_eq in H2. apply emodes_eqb_eq in H3.
  apply emode_eqb_eq in H4. apply oemode_eqb_eq in H5. subst. reflexivity.
Qed.

Lemma replay_steps_ok {a0} : forall steps s, InvG a0 s -> replay s steps = true ->
  steps_ok (modes s) (active s) (changed s) steps = true.
Proof.
  induction steps as [|[[now o] ob] rest IH]; intros s I H; [reflexivity|].
  cbn [replay] in H. destruct (step s now o) as [s' r] eqn:E.
  apply Bool.andb_true_iff in H. destruct H as [Hm Hr].
  apply obs_matches_eq in Hm. subst ob. cbn [steps_ok].
  pose proof (step_ok_model s now o I) as S. rewrite E in S. rewrite S. cbn [andb].
  assert (I2 : InvG a0 s') by (pose proof (inv_step s now o I) as X; rewrite E in X; exact X).
  specialize (IH s' I2 Hr). cbn [obs_of fst snd omodes oactive ocode].
  pose proof (step_changed true true s now o) as Ch. fold step in Ch. rewrite E in Ch. cbn [fst snd] in Ch.
  rewrite <- Ch. exact IH.
Qed.

Lemma nodup_ids_NoDup : forall l, nodup_ids l = true -> NoDup l.
Proof.
  induction l as [|x r IH]; cbn; intros H; [constructor|].
  apply Bool.andb_true_iff in H. destruct H as [H1 H2]. constructor; [|apply IH; exact H2].
  intros C. apply Bool.negb_true_iff in H1.
  assert (existsb (String.eqb x) r = true).
  { apply existsb_exists. exists x. split; [exact C|apply String.eqb_refl]. }
  congruence.
Qed.

Lemma initial_ok_wf : forall initial, initial_ok initial = true -> wf_initial initial.
Proof.
  intros initial H. unfold initial_ok in H.
  apply Bool.andb_true_iff in H. destruct H as [H H3].
  apply Bool.andb_true_iff in H. destruct H as [H1 _].
  split; [apply nodup_ids_NoDup; exact H1|]. apply Z.leb_le in H3. exact H3.
Qed.

(* every guarded sequential history reproduced by the model satisfies the property predicate *)
Theorem judge_sound_seq : forall initial o0 steps,
  C19_guard (KSeq initial o0 steps) = true -> agrees (KSeq initial o0 steps) = true ->
  C19_ok (KSeq initial o0 steps) = true.
Proof.
  intros initial o0 steps G A. cbn [C19_guard] in G. cbn [agrees] in A. cbn [C19_ok].
  apply Bool.andb_true_iff in G. destruct G as [G _].
  apply Bool.andb_true_iff in A. destruct A as [A0 A].
  pose proof (inv_init initial (initial_ok_wf initial G)) as I.
  apply obs_matches_eq in A0. subst o0. cbn [obs_of fst snd omodes oactive].
  apply Bool.andb_true_iff. split.
  - apply Z.leb_le. rewrite <- normal_count_normals. apply (inv_normal _ I).
  - apply (replay_steps_ok steps (init_state initial) I A).
Qed.

Corollary judge_never_2_seq : forall initial o0 steps, judge (KSeq initial o0 steps) <> 2.
Proof.
  intros initial o0 steps. unfold judge.
  destruct (C19_guard (KSeq initial o0 steps)) eqn:G.
  - destruct (agrees (KSeq initial o0 steps)) eqn:A.
    + rewrite (judge_sound_seq _ _ _ G A). cbn. discriminate.
    + destruct (C19_ok (KSeq initial o0 steps)); cbn; discriminate.
  - destruct (agrees (KSeq initial o0 steps)); cbn; discriminate.
Qed.

(* ------------------------------------------------------------------ histories from a configured model *)
Lemma cfg_ok_normal : forall opts, cfg_ok opts = true -> normal_count (cfg_records opts) <= 1.
Proof.
  intros opts H. unfold cfg_ok in H. apply Bool.andb_true_iff in H. destruct H as [_ H].
  apply Z.leb_le in H. rewrite normal_count_normals. exact H.
Qed.

(* every guarded history on a model built from ANY option list, reproduced by the model, satisfies
   the property predicate (a predicted panic of NewModel has no history) *)
Theorem judge_sound_cfg : forall opts panicked o0 steps evclk,
  C19_guard (KCfg opts panicked o0 steps evclk) = true -> agrees (KCfg opts panicked o0 steps evclk) = true ->
  C19_ok (KCfg opts panicked o0 steps evclk) = true.
Proof.
  intros opts panicked o0 steps evclk G A. cbn [C19_guard] in G. cbn [agrees] in A. cbn [C19_ok].
  apply Bool.andb_true_iff in G. destruct G as [G _].
  destruct (new_model opts) as [s0|] eqn:N.
  - apply Bool.andb_true_iff in A. destruct A as [A _].
    apply Bool.andb_true_iff in A. destruct A as [A A2].
    apply Bool.andb_true_iff in A. destruct A as [A0 A1].
    apply Bool.negb_true_iff in A0. subst panicked. cbn [orb].
    pose proof (new_model_inv opts s0 N (cfg_ok_normal opts G)) as I.
    pose proof (new_model_state opts s0 N) as [_ [_ [_ Ch]]].
    apply obs_matches_eq in A1. subst o0. cbn [obs_of fst snd omodes oactive].
    apply Bool.andb_true_iff. split.
    + apply Z.leb_le. rewrite <- normal_count_normals. apply (inv_normal _ I).
    + rewrite <- Ch. apply (replay_steps_ok _ s0 I A2).
  - apply Bool.andb_true_iff in A. destruct A as [A _]. rewrite A. reflexivity.
Qed.

(* ------------------------------------------------------------------ UpdateMode with write options *)
Lemma kstore_eqb_eq : forall a b, kstore_eqb a b = true -> a = b.
Proof.
  induction a as [|[k x] r IH]; destruct b as [|[k' y] r']; cbn; intros H; try discriminate; [reflexivity|].
  apply Bool.andb_true_iff in H. destruct H as [H Hr].
  apply Bool.andb_true_iff in H. destruct H as [Hk Hx]. cbn in Hk, Hx.
  apply String.eqb_eq in Hk. apply emode_eqb_eq in Hx. subst. f_equal. apply IH. exact Hr.
Qed.

Lemma normals_le1 : forall l, (zlen (normals l) <=? 1) = true <-> (ncount l <= 1)%nat.
Proof. intros l. rewrite Z.leb_le. unfold zlen, normals, ncount. lia. Qed.

Theorem judge_sound_opt : forall l m w code ret l',
  C19_guard (KOpt l m w code ret l') = true -> agrees (KOpt l m w code ret l') = true ->
  C19_ok (KOpt l m w code ret l') = true.
Proof.
  intros l m w code ret l' G A. cbn [C19_guard] in G. cbn [agrees] in A. cbn [C19_ok].
  apply Bool.andb_true_iff in G. destruct G as [G G3].
  apply Bool.andb_true_iff in G. destruct G as [G1 G2].
  assert (W : wf_store l).
  { split; [apply keyedb_keyed; exact G1|]. split; [apply distinct_NoDup; exact G2|apply normals_le1; exact G3]. }
  pose proof (update_w_wf l m w W) as [K [ND N]].
  pose proof (update_w_returns_id l m w) as R.
  destruct (update_w true l m w) as [[ml mc] mr] eqn:E. cbn [fst] in K, ND, N.
  apply Bool.andb_true_iff in A. destruct A as [A A3].
  apply Bool.andb_true_iff in A. destruct A as [A1 A2].
  apply kstore_eqb_eq in A1. apply Z.eqb_eq in A2. apply oemode_eqb_eq in A3. subst.
  apply Bool.andb_true_iff. split.
  { apply Bool.andb_true_iff. split; [apply Bool.andb_true_iff; split|].
    - apply keyedb_keyed; exact K.
    - apply NoDup_distinct. exact ND.
    - apply normals_le1. exact N. }
  destruct ret as [b|]; [|reflexivity]. apply String.eqb_eq.
  (* a returned mode comes with code 0 *)
  assert (Z0 : code = 0).
  { unfold update_w in E.
    destruct (mnormal m && writes_normal (w_mask w) && other_normal (mid m) (bodies l)); [inversion E|].
    destruct (negb (mask_valid (w_mask w))); [inversion E|].
    destruct (negb (mask_valid (w_reset w))); [inversion E|].
    destruct (match kfind (mid m) l with Some b => Some b | None => if w_create w then Some blank else None end);
      inversion E; reflexivity. }
  subst code. apply (R l' b eq_refl).
Qed.
