(* Final wave: the RESULTS of the calls are part of the atomicity theorem.
   [fine_is_coarse] (FineProofs.v) relates pending operations and shared state of a fine-grained
   execution (threads interleaving at single resource calls, Model.mu as a mutex) to a coarse
   schedule of whole operations, but says nothing about what the calls return.  Here the fine
   execution carries the log of returned results - thread i's call returns r at the step where its
   program has reached [PRet r] and releases the mutex - and the coarse schedule the log of the
   results of [step].  Theorem [fine_results_are_coarse]: for any number of threads and ANY
   fine-grained schedule there is a coarse schedule with the same pending operations, the same
   state AND the same log of (thread, result) pairs; while a call is in progress the coarse log is
   one entry ahead, and that entry is what the call in progress returns when run alone.
   So every result a caller can observe under any interleaving is the result [step] gives at the
   call's place in a sequential order that respects each thread's program order. *)
From SC Require Import Base.Prelude Electric.Model Electric.ModelProofs Electric.LockDefs Electric.Fine
  Gen.ElectricLocks Electric.FineProofs.

Definition rlog := list (nat * res).

(* one fine step of thread i, with the log of returned results *)
Definition fstep_log (i : nat) (cl : fcfg * rlog) : fcfg * rlog :=
  (fstep i (fst cl),
   match nth_error (fths (fst cl)) i with
   | Some (TIn (PRet r) _) => (snd cl ++ [(i, r)])%list
   | _ => snd cl
   end).
Definition frun_log (sched : list nat) (cl : fcfg * rlog) : fcfg * rlog :=
  fold_left (fun cl i => fstep_log i cl) sched cl.

(* one coarse step (a whole operation of thread i), with the log of the results of [step] *)
Definition cstep_log (c : (list (list top) * state) * rlog) (i : nat) : (list (list top) * state) * rlog :=
  (cstep (fst c) i,
   match take_turn i (fst (fst c)) with
   | (Some o, _) => (snd c ++ [(i, snd (step (snd (fst c)) (fst o) (snd o)))])%list
   | (None, _) => snd c
   end).
Definition crun_log (sched : list nat) (c : (list (list top) * state) * rlog) := fold_left cstep_log sched c.

(* the logged runs are the runs of Fine.v with a log beside them *)
Lemma frun_log_fst : forall sched c l, fst (frun_log sched (c, l)) = frun sched c.
Proof.
  induction sched as [|i r IH]; intros c l; [reflexivity|].
  cbn [frun_log fold_left]. unfold fstep_log at 2. cbn [fst snd].
  unfold frun_log in IH. rewrite IH. reflexivity.
Qed.
Lemma crun_log_fst : forall sched cc l, fst (crun_log sched (cc, l)) = crun sched cc.
Proof.
  induction sched as [|i r IH]; intros cc l; [reflexivity|].
  cbn [crun_log crun fold_left]. unfold cstep_log at 2. cbn [fst snd].
  unfold crun_log, crun in IH. rewrite IH. reflexivity.
Qed.
Lemma crun_log_app : forall a b c, crun_log (a ++ b) c = crun_log b (crun_log a c).
Proof. intros. unfold crun_log. apply fold_left_app. Qed.

(* the simulation of FineProofs.Sim, with the logs *)
Record SimL (c : fcfg) (l : rlog) (cc : list (list top) * state) (cl : rlog) : Prop := mkSimL {
  siml_pending : map pending (fths c) = fst cc;
  siml_state :
    match fowner c with
    | None => (forall j t, nth_error (fths c) j = Some t -> idle t) /\ fstate c = snd cc /\ l = cl
    | Some i => exists p r tr rs,
        nth_error (fths c) i = Some (TIn p r) /\
        (forall j t, j <> i -> nth_error (fths c) j = Some t -> idle t) /\
        runs p (fstate c) tr (snd cc) rs /\ cl = (l ++ [(i, rs)])%list
    end
}.

Lemma siml_step : forall i c l cc cl, SimL c l cc cl ->
  exists sch, SimL (fst (fstep_log i (c, l))) (snd (fstep_log i (c, l)))
                   (fst (crun_log sch (cc, cl))) (snd (crun_log sch (cc, cl))).
Proof.
  intros i [ths s ow] l [cths cs] cl [SP SS]. cbn [fths fstate fowner fst snd] in *.
  unfold fstep_log, fstep, fstep_gen. cbn [fths fstate fowner fst snd].
  destruct (nth_error ths i) as [[[|o r]|[rs|fl me f] r]|] eqn:N.
  - exists []. split; assumption.
  - destruct ow as [k|].
    + exists []. split; assumption.
    + destruct SS as [Id [Es El]]. exists [i]. unfold crun_log. cbn [fold_left]. unfold cstep_log, cstep.
      cbn [fst snd].
      rewrite <- SP, (take_turn_map ths i (TIdle (o :: r)) (TIn (prog_of (fst o) (snd o)) r) o r N eq_refl eq_refl).
      split; cbn [fths fstate fowner fst snd]; [reflexivity|].
      destruct (prog_correct (fst o) (snd o) s) as [tr [R _]].
      exists (prog_of (fst o) (snd o)), r, tr, (snd (step s (fst o) (snd o))).
      split; [apply (nth_set_at_same ths i _ _ N)|]. split; [|split].
      * intros j t Hj Ht. rewrite (nth_set_at_other ths i j _ Hj) in Ht. apply (Id j t Ht).
      * rewrite <- Es. exact R.
      * rewrite <- Es, El. reflexivity.
  - (* release: the call of thread i returns rs *)
    destruct ow as [k|].
    + destruct SS as [p [r0 [tr [rs0 [Nk [Oth [R El]]]]]]].
      assert (k = i) as ->.
      { destruct (Nat.eq_dec i k) as [E|E]; [symmetry; exact E|].
        destruct (Oth i _ E N) as [ops X]. discriminate. }
      rewrite N in Nk. inversion Nk; subst p r0. inversion R; subst.
      exists []. split; cbn [fths fstate fowner fst snd crun_log fold_left].
      * rewrite (map_set_at_same ths i _ (TIdle r) N eq_refl). first [exact SP|reflexivity].
      * split; [|split; reflexivity]. intros j t Ht.
        destruct (Nat.eq_dec j i) as [->|E].
        -- rewrite (nth_set_at_same ths i _ _ N) in Ht. inversion Ht. exists r. reflexivity.
        -- rewrite (nth_set_at_other ths i j _ E) in Ht. apply (Oth j t E Ht).
    + destruct SS as [Id _]. destruct (Id i _ N) as [ops X]. discriminate.
  - (* one resource call of the thread inside: nothing is returned *)
    destruct ow as [k|].
    + destruct SS as [p [r0 [tr [rs0 [Nk [Oth [R El]]]]]]].
      assert (k = i) as ->.
      { destruct (Nat.eq_dec i k) as [E|E]; [symmetry; exact E|].
        destruct (Oth i _ E N) as [ops X]. discriminate. }
      rewrite N in Nk. inversion Nk; subst p r0. inversion R; subst.
      match goal with H : f s = _ |- _ => rewrite H end.
      exists []. split; cbn [fths fstate fowner fst snd crun_log fold_left].
      * rewrite (map_set_at_same ths i _ (TIn p' r) N eq_refl). first [exact SP|reflexivity].
      * exists p', r, tr0, rs0. split; [apply (nth_set_at_same ths i _ _ N)|]. split; [|split; [assumption|reflexivity]].
        intros j t Hj Ht. rewrite (nth_set_at_other ths i j _ Hj) in Ht. apply (Oth j t Hj Ht).
    + destruct SS as [Id _]. destruct (Id i _ N) as [ops X]. discriminate.
  - exists []. split; assumption.
Qed.

Lemma siml_run : forall fs c l cc cl, SimL c l cc cl ->
  exists sch, SimL (fst (frun_log fs (c, l))) (snd (frun_log fs (c, l)))
                   (fst (crun_log sch (cc, cl))) (snd (crun_log sch (cc, cl))).
Proof.
  induction fs as [|i fs IH]; intros c l cc cl S; [exists []; exact S|].
  destruct (siml_step i c l cc cl S) as [s1 S1].
  destruct (IH _ _ _ _ S1) as [s2 S2].
  exists (s1 ++ s2)%list. rewrite crun_log_app.
  cbn [frun_log fold_left]. unfold frun_log in S2.
  rewrite <- !surjective_pairing in S2. exact S2.
Qed.

Lemma siml_init : forall threads s, SimL (finit threads s) [] (threads, s) [].
Proof.
  intros threads s. split; cbn [finit fths fstate fowner fst snd].
  - rewrite map_map. cbn [pending]. apply map_id.
  - split; [|split; reflexivity]. intros j t H. apply nth_error_In in H. apply in_map_iff in H.
    destruct H as [ops [<- _]]. exists ops. reflexivity.
Qed.

(* Headline. *)
Theorem fine_results_are_coarse : forall fsched threads s0,
  let c := frun fsched (finit threads s0) in
  let l := snd (frun_log fsched (finit threads s0, [])) in
  exists sched,
    let cl := snd (crun_log sched ((threads, s0), [])) in
    map pending (fths c) = fst (crun sched (threads, s0)) /\
    match fowner c with
    | None => fstate c = run_sched sched threads s0 /\ l = cl
    | Some i => exists p r tr rs, nth_error (fths c) i = Some (TIn p r) /\
                                  runs p (fstate c) tr (run_sched sched threads s0) rs /\
                                  cl = (l ++ [(i, rs)])%list
    end.
Proof.
  intros fsched threads s0 c l.
  destruct (siml_run fsched _ _ _ _ (siml_init threads s0)) as [sch [SP SS]].
  rewrite frun_log_fst in SP, SS. fold c in SP, SS. fold l in SS.
  rewrite crun_log_fst in SP, SS.
  exists sch. cbv zeta. split; [exact SP|]. rewrite <- crun_run_sched.
  destruct (fowner c).
  - destruct SS as [p [r [tr [rs [N [_ [R E]]]]]]]. exists p, r, tr, rs. repeat split; assumption.
  - destruct SS as [_ [E1 E2]]. split; assumption.
Qed.

(* the coarse log is the list of results of [step] along the linearization: entry k is the result of
   the k-th operation of [linearize sched threads] run from the state its predecessors leave *)
Lemma crun_log_results : forall sched threads s l,
  map snd (snd (crun_log sched ((threads, s), l))) =
  (map snd l ++ map snd (trace_gen step s (linearize sched threads)))%list.
Proof.
  induction sched as [|i r IH]; intros threads s l.
  - cbn. rewrite app_nil_r. reflexivity.
  - cbn [crun_log fold_left linearize]. unfold cstep_log at 2, cstep. cbn [fst snd].
    destruct (take_turn i threads) as [[o|] ths'] eqn:T; cbn [fst snd].
    + unfold crun_log in IH. rewrite IH. rewrite map_app. cbn [map snd trace_gen].
      rewrite <- app_assoc. reflexivity.
    + unfold crun_log in IH. rewrite IH. reflexivity.
Qed.

(* at quiescence: what the calls returned, in the order they returned, is exactly what the
   sequential run of an interleaving of the threads returns *)
Theorem fine_results_sequential : forall fsched threads s0,
  let c := frun fsched (finit threads s0) in
  let l := snd (frun_log fsched (finit threads s0, [])) in
  fowner c = None ->
  exists ops, interleaves threads ops /\ fstate c = run s0 ops /\
              map snd l = map snd (trace_gen step s0 ops).
Proof.
  intros fsched threads s0 c l Ho.
  destruct (fine_results_are_coarse fsched threads s0) as [sch [_ S]]. fold c l in S. rewrite Ho in S.
  destruct S as [Es El]. exists (linearize sch threads).
  destruct (concurrent_is_sequential sch threads s0) as [E I].
  split; [exact I|]. split; [rewrite Es; exact E|].
  rewrite El, crun_log_results. reflexivity.
Qed.

(* non-vacuity: the two racing threads of [mutex_needed]; under the mutex the delete that was
   started second is refused, and the log says so *)
Example fine_results_nonvacuous :
  let cl := frun_log [0; 1; 0; 1; 0; 1; 0; 1; 1; 1; 1]%nat (finit race_threads (init_state race_initial), []) in
  fowner (fst cl) = None /\
  map (fun p => (fst p, rcode (snd p))) (snd cl) = [(0%nat, 0); (1%nat, cFailedPrecondition)] /\
  let cl' := frun_log [1; 0; 1; 0; 1; 0; 1; 0; 0; 0; 0]%nat (finit race_threads (init_state race_initial), []) in
  fowner (fst cl') = None /\
  map (fun p => (fst p, rcode (snd p))) (snd cl') = [(1%nat, 0); (0%nat, cNotFound)].
Proof. vm_compute. repeat split. Qed.

(* a program run alone from a given state has ONE outcome (calls made, final state, result): "the
   result the call in progress returns when run alone" above is well defined *)
Lemma runs_deterministic : forall p s tr1 s1 r1, runs p s tr1 s1 r1 ->
  forall tr2 s2 r2, runs p s tr2 s2 r2 -> tr1 = tr2 /\ s1 = s2 /\ r1 = r2.
Proof.
  intros p s tr1 s1 r1 R. induction R as [r s|fl me f s s' p' tr s'' r E R IH]; intros tr2 s2 r2 R2.
  - inversion R2; subst. repeat split; reflexivity.
  - inversion R2; subst.
    match goal with H : f s = (?a, ?b) |- _ => rewrite E in H; injection H as <- <- end.
    match goal with H : runs p' s' _ _ _ |- _ => destruct (IH _ _ _ H) as [-> [-> ->]] end.
    repeat split; reflexivity.
Qed.

(* hence, with [prog_correct]: whatever run of an operation's program one exhibits, it ends in the
   state and with the result of the atomic step *)
Theorem prog_runs_only_step : forall now o s tr s' r,
  runs (prog_of now o) s tr s' r -> s' = fst (step s now o) /\ r = snd (step s now o).
Proof.
  intros now o s tr s' r R. destruct (prog_correct now o s) as [tr0 [R0 _]].
  destruct (runs_deterministic _ _ _ _ _ R _ _ _ R0) as [_ [E1 E2]]. split; assumption.
Qed.

(* which thread each entry of the log belongs to: the threads that actually took a turn, in order *)
Fixpoint sched_tids (sched : list nat) (threads : list (list top)) : list nat :=
  match sched with
  | [] => []
  | i :: r => match take_turn i threads with
              | (Some _, ths') => i :: sched_tids r ths'
              | (None, ths') => sched_tids r ths'
              end
  end.

Lemma crun_log_tids : forall sched threads s l,
  map fst (snd (crun_log sched ((threads, s), l))) = (map fst l ++ sched_tids sched threads)%list.
Proof.
  induction sched as [|i r IH]; intros threads s l.
  - cbn. rewrite app_nil_r. reflexivity.
  - cbn [crun_log fold_left sched_tids]. unfold cstep_log at 2, cstep. cbn [fst snd].
    destruct (take_turn i threads) as [[o|] ths'] eqn:T; cbn [fst snd].
    + unfold crun_log in IH. rewrite IH. rewrite map_app. cbn [map fst].
      rewrite <- app_assoc. reflexivity.
    + unfold crun_log in IH. rewrite IH. reflexivity.
Qed.

Lemma sched_tids_length : forall sched threads,
  List.length (sched_tids sched threads) = List.length (linearize sched threads).
Proof.
  induction sched as [|i r IH]; intros threads; [reflexivity|].
  cbn [sched_tids linearize]. destruct (take_turn i threads) as [[o|] ths']; cbn [List.length]; rewrite IH; reflexivity.
Qed.

Lemma combine_fst_snd : forall {A B} (l : list (A * B)), combine (map fst l) (map snd l) = l.
Proof. induction l as [|[a b] r IH]; [reflexivity|]. cbn. rewrite IH. reflexivity. Qed.

(* at quiescence, with the thread of every entry: the log IS the list of (thread that took the
   turn, result of [step] at that place of the linearization) of some coarse schedule *)
Theorem fine_results_tagged : forall fsched threads s0,
  let c := frun fsched (finit threads s0) in
  let l := snd (frun_log fsched (finit threads s0, [])) in
  fowner c = None ->
  exists sched,
    fstate c = run s0 (linearize sched threads) /\
    map pending (fths c) = fst (crun sched (threads, s0)) /\
    l = combine (sched_tids sched threads) (map snd (trace_gen step s0 (linearize sched threads))).
Proof.
  intros fsched threads s0 c l Ho.
  destruct (fine_results_are_coarse fsched threads s0) as [sch [P S]]. fold c l in P, S. rewrite Ho in S.
  destruct S as [Es El]. exists sch.
  destruct (concurrent_is_sequential sch threads s0) as [E _].
  split; [rewrite Es; exact E|]. split; [exact P|].
  rewrite <- (combine_fst_snd l). rewrite El at 1 2. rewrite crun_log_tids, crun_log_results. reflexivity.
Qed.

(* ---- per thread: the operations the schedule took from thread j, in order, followed by what is
   still pending in thread j, are thread j's program ---- *)
Fixpoint lin_tagged (sched : list nat) (threads : list (list top)) : list (nat * top) :=
  match sched with
  | [] => []
  | i :: r => match take_turn i threads with
              | (Some o, ths') => (i, o) :: lin_tagged r ths'
              | (None, ths') => lin_tagged r ths'
              end
  end.

Lemma lin_tagged_fst : forall sched threads, map fst (lin_tagged sched threads) = sched_tids sched threads.
Proof.
  induction sched as [|i r IH]; intros threads; [reflexivity|]. cbn [lin_tagged sched_tids].
  destruct (take_turn i threads) as [[o|] ths']; cbn [map fst]; rewrite IH; reflexivity.
Qed.
Lemma lin_tagged_snd : forall sched threads, map snd (lin_tagged sched threads) = linearize sched threads.
Proof.
  induction sched as [|i r IH]; intros threads; [reflexivity|]. cbn [lin_tagged linearize].
  destruct (take_turn i threads) as [[o|] ths']; cbn [map snd]; rewrite IH; reflexivity.
Qed.

Lemma take_turn_some_nth : forall i threads o ths', take_turn i threads = (Some o, ths') ->
  nth i threads [] = o :: nth i ths' [] /\ (forall j, j <> i -> nth j ths' [] = nth j threads []).
Proof.
  induction i as [|k IH]; intros [|t rest] o ths' H; cbn [take_turn] in H; try discriminate.
  - destruct t as [|x t']; [discriminate|]. injection H as <- <-. split; [reflexivity|].
    intros [|j] Hj; [congruence|reflexivity].
  - destruct (take_turn k rest) as [o1 rest'] eqn:T. injection H as -> <-.
    destruct (IH rest o rest' T) as [A B]. split; [exact A|].
    intros [|j] Hj; [reflexivity|]. cbn [nth]. apply B. congruence.
Qed.
Lemma take_turn_none_same : forall i threads ths', take_turn i threads = (None, ths') -> ths' = threads.
Proof.
  induction i as [|k IH]; intros [|t rest] ths' H; cbn [take_turn] in H.
  - injection H as <-. reflexivity.
  - destruct t as [|x t']; [injection H as <-; reflexivity|discriminate].
  - injection H as <-. reflexivity.
  - destruct (take_turn k rest) as [o1 rest'] eqn:T. injection H as -> <-.
    rewrite (IH rest rest' T). reflexivity.
Qed.

Theorem per_thread_program_order : forall sched threads s j,
  (map snd (filter (fun p => Nat.eqb (fst p) j) (lin_tagged sched threads))
   ++ nth j (fst (crun sched (threads, s))) [])%list = nth j threads [].
Proof.
  induction sched as [|i r IH]; intros threads s j; [reflexivity|].
  cbn [crun fold_left lin_tagged]. unfold cstep at 2. cbn [fst snd].
  destruct (take_turn i threads) as [[o|] ths'] eqn:T.
  - destruct (take_turn_some_nth i threads o ths' T) as [A B].
    cbn [filter fst]. unfold crun in IH. destruct (Nat.eqb i j) eqn:E.
    + apply Nat.eqb_eq in E. subst j. cbn [map snd app]. rewrite IH, A. reflexivity.
    + apply Nat.eqb_neq in E. rewrite IH. apply B. congruence.
  - rewrite (take_turn_none_same i threads ths' T). unfold crun in IH. apply IH.
Qed.

(* Headline per thread, at quiescence: the log is [combine tids results] for the tagged
   linearization [lt]; thread j's entries of [lt], in order, followed by its pending operations, are
   exactly thread j's program - so the k-th result thread j received is the result [step] gives for
   its k-th operation at that operation's place in the sequential order. *)
Theorem fine_results_per_thread : forall fsched threads s0,
  let c := frun fsched (finit threads s0) in
  let l := snd (frun_log fsched (finit threads s0, [])) in
  fowner c = None ->
  exists lt : list (nat * top),
    fstate c = run s0 (map snd lt) /\
    l = combine (map fst lt) (map snd (trace_gen step s0 (map snd lt))) /\
    forall j, (map snd (filter (fun p => Nat.eqb (fst p) j) lt) ++ nth j (map pending (fths c)) [])%list
              = nth j threads [].
Proof.
  intros fsched threads s0 c l Ho.
  destruct (fine_results_tagged fsched threads s0 Ho) as [sch [Es [P El]]]. fold c l in Es, P, El.
  exists (lin_tagged sch threads). rewrite lin_tagged_fst, lin_tagged_snd.
  split; [exact Es|]. split; [exact El|].
  intros j. rewrite P. apply per_thread_program_order.
Qed.
