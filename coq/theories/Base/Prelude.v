(* Shared definitions: Go integer wrap-around, verdict codes used by every
   correspondence file, small list helpers.  No proofs here. *)
From Coq Require Export List ZArith Bool String Lia.
Export ListNotations.
Open Scope Z_scope.

(* Go's fixed-width signed integers: the value a Go expression of that type
   holds after an arithmetic operation whose mathematical result is z. *)
Definition wrap64 (z : Z) : Z := ((z + 9223372036854775808) mod 18446744073709551616) - 9223372036854775808.
Definition wrap32 (z : Z) : Z := ((z + 2147483648) mod 4294967296) - 2147483648.
Definition in64 (z : Z) : bool := (-9223372036854775808 <=? z) && (z <=? 9223372036854775807).
Definition in32 (z : Z) : bool := (-2147483648 <=? z) && (z <=? 2147483647).

(* Verdict of one correspondence case.
     0        model = observed and the property predicate holds on the observation
     1        model <> observed, property predicate still holds on the observation
              (correspondence broken, this case is not itself a failing input)
     2        model = observed but the property predicate fails (only possible for an
              input outside the proved guard; such inputs carry a known-finding class)
     3        model <> observed and the property predicate fails on the observation:
              a failing input for the implementation
     100 + k  the input lies in known-finding class k, the model (of the code as it
              is) agrees with the observation, and the predicate fails as recorded *)
Definition verdict (agree ok : bool) (known_class : option Z) : Z :=
  match agree, ok with
  | true, true => 0
  | false, true => 1
  | true, false => match known_class with Some k => 100 + k | None => 2 end
  | false, false => 3
  end.

Fixpoint zip_index {A} (n : Z) (l : list A) : list (Z * A) :=
  match l with [] => [] | x :: r => (n, x) :: zip_index (n + 1) r end.

(* keep only the non-zero verdicts, with their case index *)
Definition failures {A} (judge : A -> Z) (cases : list A) : list (Z * Z) :=
  filter (fun p => negb (snd p =? 0)) (map (fun p => (fst p, judge (snd p))) (zip_index 0 cases)).

Definition option_eqb {A} (eqb : A -> A -> bool) (a b : option A) : bool :=
  match a, b with
  | None, None => true
  | Some x, Some y => eqb x y
  | _, _ => false
  end.

Fixpoint list_eqb {A} (eqb : A -> A -> bool) (a b : list A) : bool :=
  match a, b with
  | [], [] => true
  | x :: a', y :: b' => eqb x y && list_eqb eqb a' b'
  | _, _ => false
  end.

Definition sumZ (l : list Z) : Z := fold_right Z.add 0 l.

(* String is exported after List, so [length] alone means String.length *)
Definition zlen {A} (l : list A) : Z := Z.of_nat (List.length l).
