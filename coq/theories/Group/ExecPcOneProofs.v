(* ExecuteOne under a parent cancellation: the event model of Group/ExecPc.v ([one_result_ev]: the
   loop run step by step, with fuel) equals the closed form of Group/C17PJudge.v ([one_contract_ev]:
   the recursion [one_spec] over the members with the time at which each is invoked), for ALL
   members, both values of [pre] and all event lists that release every member exactly once and
   cancel the parent context exactly once (the guard of C17P).

   Route: [cons_at s o]   the gates / parent cancellation recorded in the state are those of the
                          events up to step s;
          [final_of s o F] either the call has returned and F is what it returned, or the cursor
                          is blocked at time s on a member that cannot return yet and F is
                          [one_spec] resumed at that member at time s;
          [adv_spec]      [one_adv] at time s (enough fuel) establishes [final_of s];
          [stuck_shift]   a member blocked at time s: resuming [one_spec] at time s or S s is the same;
          [step_inv]      one event preserves [cons_at] and [final_of] for the same F;
          at the end of the event list nobody is blocked. *)
From SC Require Import Base.Prelude Group.Exec Group.C17Judge Group.ExecLemmas Group.ExecProofs Group.ExecPc Group.C17PJudge.
From Coq Require Import Arith Permutation.

Local Open Scope nat_scope.

(* ---- reading the event list ---- *)
Lemma tpos_from_range : forall i evs s0,
  tpos_from i s0 evs = 0 \/ s0 <= tpos_from i s0 evs < s0 + List.length evs.
Proof.
  induction evs as [|e t IH]; intros s0; simpl; auto.
  destruct e as [j|].
  - destruct (Nat.eqb i j); [right; lia|]. destruct (IH (S s0)); [auto|right; lia].
  - destruct (IH (S s0)); [auto|right; lia].
Qed.

Lemma tpos_from_in : forall i evs s0, In i (rel_order evs) ->
  s0 <= tpos_from i s0 evs < s0 + List.length evs.
Proof.
  induction evs as [|e t IH]; intros s0 H; simpl in *; [tauto|].
  destruct e as [j|].
  - destruct (Nat.eqb_spec i j); [lia|]. destruct H as [->|H]; [congruence|].
    specialize (IH (S s0) H). lia.
  - specialize (IH (S s0) H). lia.
Qed.

Lemma tpos_from_nth : forall i evs s0 k, 1 <= s0 -> tpos_from i s0 evs = s0 + k ->
  nth_error evs k = Some (ERel i).
Proof.
  induction evs as [|e t IH]; intros s0 k H1 H; simpl in *; [lia|].
  destruct e as [j|].
  - destruct (Nat.eqb_spec i j) as [->|N].
    + assert (k = 0) by lia. subst. reflexivity.
    + destruct (tpos_from_range i t (S s0)) as [Z|R]; [lia|].
      destruct k as [|k]; [lia|]. simpl. apply (IH (S s0)); lia.
  - destruct (tpos_from_range i t (S s0)) as [Z|R]; [lia|].
    destruct k as [|k]; [lia|]. simpl. apply (IH (S s0)); lia.
Qed.

Lemma nth_rel_in : forall evs k i, nth_error evs k = Some (ERel i) -> In i (rel_order evs).
Proof.
  induction evs as [|e t IH]; intros [|k] i H; simpl in *; try discriminate.
  - inversion H; subst. left; auto.
  - destruct e; [right|]; eauto.
Qed.

Lemma nth_tpos_from : forall i evs s0 k, NoDup (rel_order evs) -> nth_error evs k = Some (ERel i) ->
  tpos_from i s0 evs = s0 + k.
Proof.
  induction evs as [|e t IH]; intros s0 [|k] ND H; simpl in *; try discriminate.
  - inversion H; subst. rewrite Nat.eqb_refl. lia.
  - destruct e as [j|].
    + inversion ND as [|? ? Hj NDt]; subst.
      destruct (Nat.eqb_spec i j) as [->|N]; [exfalso; apply Hj; eapply nth_rel_in; eauto|].
      rewrite (IH (S s0) k NDt H). lia.
    + rewrite (IH (S s0) k ND H). lia.
Qed.

Lemma tpar_from_nth : forall evs s0 r, tpar_from s0 evs = Some r ->
  exists k, r = s0 + k /\ nth_error evs k = Some EPar.
Proof.
  induction evs as [|e t IH]; intros s0 r H; simpl in *; [discriminate|].
  destruct e as [j|].
  - destruct (IH _ _ H) as [k [E N]]. exists (S k). split; [lia|auto].
  - inversion H; subst. exists 0. split; [lia|auto].
Qed.

Lemma npar0_nth : forall evs k, npar evs = 0 -> nth_error evs k = Some EPar -> False.
Proof.
  unfold npar. induction evs as [|e t IH]; intros [|k] H N; simpl in *; try discriminate.
  - inversion N; subst. simpl in H. discriminate.
  - destruct e; simpl in H; [eauto|discriminate].
Qed.

Lemma nth_tpar_from : forall evs s0 k, npar evs <= 1 -> nth_error evs k = Some EPar ->
  tpar_from s0 evs = Some (s0 + k).
Proof.
  induction evs as [|e t IH]; intros s0 [|k] H N; simpl in *; try discriminate.
  - inversion N; subst. f_equal. lia.
  - destruct e as [j|].
    + unfold npar in H. simpl in H. rewrite (IH (S s0) k H N). f_equal. lia.
    + exfalso. apply (npar0_nth t k); auto. unfold npar in *. simpl in H. lia.
Qed.

Lemma skipn_nth_cons : forall A (d : A) l i, i < List.length l -> skipn i l = nth i l d :: skipn (S i) l.
Proof.
  induction l as [|h t IH]; intros [|i] H; simpl in *; try lia; auto.
  apply IH. lia.
Qed.

Section One.
Variables (ms : list member) (evs : list ev) (tp : nat).

Definition fin_own (aw : bool) (r t : nat) : nat * bool :=
  if aw then
    if (tp <=? t)%nat then (t, false)
    else if (r <=? t)%nat then (t, true)
    else if (r <? tp)%nat then (r, true) else (tp, false)
  else (Nat.max t r, true).

Lemma one_spec_cons : forall m rest i t first saw,
  one_spec (m :: rest) ms evs tp i t first saw =
  let '(fin, own) := fin_own (m_aware m) (tpos evs i) t in
  if own && is_ok (m_out m) then (RSingle (zi i) (Z.of_nat i) 0, fin, saw, S i)
  else one_spec rest ms evs tp (S i) fin
         (if Nat.eqb i 0 then (if own then err_of i (m_out m) else cancel_err i) else first)
         (if own then saw else set_nth i (Z.of_nat fin) saw).
Proof. reflexivity. Qed.

Lemma fin_own_shift : forall aw r s, s < r -> (aw = true -> s < tp) ->
  fin_own aw r s = fin_own aw r (S s).
Proof.
  intros aw r s H A. unfold fin_own. destruct aw.
  - specialize (A eq_refl).
    destruct (Nat.leb_spec tp s); [lia|]. destruct (Nat.leb_spec r s); [lia|].
    destruct (Nat.leb_spec tp (S s)); destruct (Nat.leb_spec r (S s)); destruct (Nat.ltb_spec r tp);
      try lia; f_equal; lia.
  - f_equal. lia.
Qed.

Lemma stuck_shift : forall m rest i s first saw,
  s < tpos evs i -> (m_aware m = true -> s < tp) ->
  one_spec (m :: rest) ms evs tp i s first saw = one_spec (m :: rest) ms evs tp i (S s) first saw.
Proof.
  intros. rewrite !one_spec_cons. rewrite (fin_own_shift (m_aware m) (tpos evs i) s); auto.
Qed.

Definition cons_at (s : nat) (o : oworld) : Prop :=
  List.length (o_open o) = List.length ms /\
  (forall j, j < List.length ms -> (nth j (o_open o) false = true <-> tpos evs j <= s)) /\
  o_par o = (if tp <=? s then Some tp else None).

Definition final_of (s : nat) (o : oworld) (F : ret * nat * list Z * nat) : Prop :=
  match o_done o with
  | Some r => exists rs, o_retstep o = Some rs /\
                         F = (r, rs, o_saw o, Nat.min (S (o_cur o)) (List.length ms))
  | None => o_cur o < List.length ms /\ nth (o_cur o) (o_open o) false = false /\
            is_some (o_par o) && aware_at ms (o_cur o) = false /\
            F = one_spec (skipn (o_cur o) ms) ms evs tp (o_cur o) s (o_first o) (o_saw o)
  end.

Lemma adv_spec : forall fuel o s,
  cons_at s o -> o_done o = None -> o_cur o <= List.length ms -> List.length ms - o_cur o < fuel ->
  o_open (one_adv fuel ms s o) = o_open o /\ o_par (one_adv fuel ms s o) = o_par o /\
  final_of s (one_adv fuel ms s o)
    (one_spec (skipn (o_cur o) ms) ms evs tp (o_cur o) s (o_first o) (o_saw o)).
Proof.
  induction fuel as [|f IH]; intros o s C D L F; [lia|].
  destruct o as [i dn first rst saw opn par]. simpl in D, L, F. subst dn.
  destruct C as [CL [CO CP]]. simpl in CL, CO, CP.
  cbn [one_adv o_done o_cur o_first o_saw o_open o_par].
  destruct (Nat.leb_spec (List.length ms) i) as [Hle|Hlt].
  - assert (i = List.length ms) by lia. subst i. rewrite skipn_all. cbn [one_spec].
    split; [reflexivity|]. split; [reflexivity|].
    unfold final_of. cbn [o_done o_retstep o_saw o_cur]. exists s. split; auto.
    rewrite Nat.min_r by lia. reflexivity.
  - rewrite (skipn_nth_cons _ dflt_member) by auto. rewrite one_spec_cons.
    unfold aware_at, out_at. remember (nth i ms dflt_member) as m eqn:Em.
    assert (STEP : forall first2 saw2 own,
       fin_own (m_aware m) (tpos evs i) s = (s, own) ->
       own && is_ok (m_out m) = false ->
       first2 = (if Nat.eqb i 0 then (if own then err_of i (m_out m) else cancel_err i) else first) ->
       saw2 = (if own then saw else set_nth i (Z.of_nat s) saw) ->
       let o2 := mkO (S i) None first2 None saw2 opn par in
       o_open (one_adv f ms s o2) = opn /\ o_par (one_adv f ms s o2) = par /\
       final_of s (one_adv f ms s o2)
         (let '(fin, own) := fin_own (m_aware m) (tpos evs i) s in
          if own && is_ok (m_out m) then (RSingle (zi i) (Z.of_nat i) 0, fin, saw, S i)
          else one_spec (skipn (S i) ms) ms evs tp (S i) fin
                 (if Nat.eqb i 0 then (if own then err_of i (m_out m) else cancel_err i) else first)
                 (if own then saw else set_nth i (Z.of_nat fin) saw))).
    { intros first2 saw2 own E1 E2 E3 E4 o2. rewrite E1, E2. rewrite <- E3, <- E4.
      assert (C2 : cons_at s o2) by (split; [|split]; auto).
      assert (D2 : o_done o2 = None) by reflexivity.
      assert (L2 : o_cur o2 <= List.length ms) by (simpl; lia).
      assert (F2 : List.length ms - o_cur o2 < f) by (simpl; lia).
      destruct (IH o2 s C2 D2 L2 F2) as [A [B Cc]].
      split; [exact A|]. split; [exact B|]. exact Cc. }
    subst par.
    destruct (nth i opn false) eqn:G.
    + assert (R : tpos evs i <= s) by (apply CO; auto).
      destruct (Nat.leb_spec tp s) as [Tp|Tp]; cbn [is_some andb]; destruct (m_aware m) eqn:Aw; cbn [andb].
      * (* parent cancelled, aware *)
        apply STEP with (own := false).
        -- unfold fin_own. destruct (Nat.leb_spec tp s); [auto|lia].
        -- reflexivity.
        -- destruct (Nat.eqb i 0); reflexivity.
        -- reflexivity.
      * (* gate open, not aware *)
        assert (FO : fin_own false (tpos evs i) s = (s, true)) by (unfold fin_own; f_equal; lia).
        destruct (is_ok (m_out m)) eqn:OK.
        -- rewrite FO. cbn [andb]. split; [reflexivity|]. split; [reflexivity|].
           unfold final_of. cbn [o_done o_retstep o_saw o_cur]. exists s. split; auto.
           rewrite Nat.min_l by lia. reflexivity.
        -- apply STEP with (own := true); auto.
      * (* gate open, aware, parent not cancelled *)
        assert (FO : fin_own true (tpos evs i) s = (s, true)).
        { unfold fin_own. destruct (Nat.leb_spec tp s); [lia|]. destruct (Nat.leb_spec (tpos evs i) s); [auto|lia]. }
        destruct (is_ok (m_out m)) eqn:OK.
        -- rewrite FO. cbn [andb]. split; [reflexivity|]. split; [reflexivity|].
           unfold final_of. cbn [o_done o_retstep o_saw o_cur]. exists s. split; auto.
           rewrite Nat.min_l by lia. reflexivity.
        -- apply STEP with (own := true); auto.
      * assert (FO : fin_own false (tpos evs i) s = (s, true)) by (unfold fin_own; f_equal; lia).
        destruct (is_ok (m_out m)) eqn:OK.
        -- rewrite FO. cbn [andb]. split; [reflexivity|]. split; [reflexivity|].
           unfold final_of. cbn [o_done o_retstep o_saw o_cur]. exists s. split; auto.
           rewrite Nat.min_l by lia. reflexivity.
        -- apply STEP with (own := true); auto.
    + destruct (Nat.leb_spec tp s) as [Tp|Tp]; cbn [is_some andb]; destruct (m_aware m) eqn:Aw; cbn [andb].
      * apply STEP with (own := false).
        -- unfold fin_own. destruct (Nat.leb_spec tp s); [auto|lia].
        -- reflexivity.
        -- destruct (Nat.eqb i 0); reflexivity.
        -- reflexivity.
      * (* blocked *)
        split; [reflexivity|]. split; [reflexivity|].
        unfold final_of. cbn [o_done o_cur o_open o_par o_first o_saw].
        split; [auto|]. split; [auto|]. split.
        { unfold aware_at. rewrite <- Em, Aw. apply andb_false_r. }
        rewrite (skipn_nth_cons _ dflt_member ms i Hlt). rewrite one_spec_cons. rewrite <- Em, Aw. reflexivity.
      * split; [reflexivity|]. split; [reflexivity|].
        unfold final_of. cbn [o_done o_cur o_open o_par o_first o_saw].
        split; [auto|]. split; [auto|]. split; [reflexivity|].
        rewrite (skipn_nth_cons _ dflt_member ms i Hlt). rewrite one_spec_cons. rewrite <- Em, Aw. reflexivity.
      * split; [reflexivity|]. split; [reflexivity|].
        unfold final_of. cbn [o_done o_cur o_open o_par o_first o_saw].
        split; [auto|]. split; [auto|]. split; [reflexivity|].
        rewrite (skipn_nth_cons _ dflt_member ms i Hlt). rewrite one_spec_cons. rewrite <- Em, Aw. reflexivity.
Qed.

(* what the event of step S s is, in terms of [tpos] / [tp] *)
Definition ev_at (s1 : nat) (e : ev) : Prop :=
  match e with
  | ERel i => (forall j, j < List.length ms -> (tpos evs j = s1 <-> j = i)) /\ tp <> s1
  | EPar => (forall j, j < List.length ms -> tpos evs j <> s1) /\ tp = s1
  end.

Lemma step_inv : forall F s o e,
  cons_at s o -> final_of s o F -> ev_at (S s) e ->
  cons_at (S s) (one_step ms o (S s) e) /\ final_of (S s) (one_step ms o (S s) e) F.
Proof.
  intros F s o e C Fi E. unfold one_step.
  match goal with |- context [one_adv _ ms (S s) ?x] => set (o1 := x) end.
  assert (C1 : cons_at (S s) o1).
  { destruct C as [CL [CO CP]]. destruct e as [i|]; simpl in E; destruct E as [E1 E2]; subst o1;
      (split; [|split]); cbn [o_open o_par].
    - rewrite set_nth_length. auto.
    - intros j Hj. rewrite nth_set_nth. rewrite CL.
      destruct (Nat.eqb_spec j i) as [->|N].
      + destruct (Nat.ltb_spec i (List.length ms)); [|lia]. simpl.
        assert (tpos evs i = S s) by (apply E1; auto). split; [lia|auto].
      + simpl. rewrite (CO j Hj). assert (tpos evs j <> S s) by (intros X; apply N, (E1 j Hj); auto).
        lia.
    - rewrite CP. destruct (Nat.leb_spec tp s); destruct (Nat.leb_spec tp (S s)); auto; lia.
    - auto.
    - intros j Hj. rewrite (CO j Hj). specialize (E1 j Hj). lia.
    - rewrite CP, E2. destruct (Nat.leb_spec (S s) s); [lia|].
      destruct (Nat.leb_spec (S s) (S s)); [auto|lia]. }
  assert (Same : o_cur o1 = o_cur o /\ o_done o1 = o_done o /\ o_first o1 = o_first o /\
                 o_retstep o1 = o_retstep o /\ o_saw o1 = o_saw o).
  { subst o1. destruct e; repeat split. }
  destruct Same as [S1 [S2 [S3 [S4 S5]]]].
  unfold final_of in Fi. destruct (o_done o) as [r|] eqn:D.
  - assert (X : one_adv (S (S (List.length ms))) ms (S s) o1 = o1) by (simpl; rewrite S2; reflexivity).
    rewrite X. split; auto. unfold final_of. rewrite S2, S4, S5, S1. exact Fi.
  - destruct Fi as [Hi [G [A EF]]].
    destruct (adv_spec (S (S (List.length ms))) o1 (S s) C1) as [A1 [A2 A3]]; auto.
    + rewrite S1. lia.
    + rewrite S1. lia.
    + split.
      * destruct C1 as [CL [CO CP]]. split; [|split].
        -- rewrite A1. auto.
        -- rewrite A1. auto.
        -- rewrite A2. auto.
      * rewrite S1, S3, S5 in A3. rewrite EF.
        rewrite (skipn_nth_cons _ dflt_member ms (o_cur o) Hi) in *.
        rewrite stuck_shift; auto.
        -- destruct C as [CL [CO CP]]. destruct (Nat.le_gt_cases (tpos evs (o_cur o)) s) as [Le|Gt]; auto.
           apply (CO _ Hi) in Le. congruence.
        -- intros Aw. destruct C as [CL [CO CP]]. rewrite CP in A. unfold aware_at in A. rewrite Aw in A.
           destruct (Nat.leb_spec tp s); [simpl in A; discriminate|auto].
Qed.

Lemma run_inv : forall F l s o,
  (forall k e, nth_error l k = Some e -> ev_at (S (s + k)) e) ->
  cons_at s o -> final_of s o F ->
  cons_at (s + List.length l) (one_run ms o (S s) l) /\ final_of (s + List.length l) (one_run ms o (S s) l) F.
Proof.
  induction l as [|e t IH]; intros s o H C Fi; simpl.
  - rewrite Nat.add_0_r. auto.
  - destruct (step_inv F s o e C Fi) as [C1 F1].
    { specialize (H 0 e eq_refl). rewrite Nat.add_0_r in H. exact H. }
    replace (s + S (List.length t)) with (S s + List.length t) by lia.
    apply IH; auto.
    intros k e' N. specialize (H (S k) e' N). replace (S s + k) with (s + S k) by lia. exact H.
Qed.

End One.

Theorem one_ev_meets_contract : forall ms (pre : bool) evs,
  perm_b (rel_order evs) (List.length ms) = true ->
  Nat.eqb (npar evs + (if pre then 1 else 0)) 1 = true ->
  one_result_ev ms pre evs = one_contract_ev ms pre evs.
Proof.
  intros ms pre evs HP HN.
  apply perm_b_sound in HP. apply Nat.eqb_eq in HN.
  pose proof (perm_nodup _ _ HP) as ND.
  assert (Hin : forall j, j < List.length ms -> In j (rel_order evs)) by (intros j Hj; apply (perm_in _ _ j HP); auto).
  assert (Hpos : forall j, j < List.length ms -> 1 <= tpos evs j <= List.length evs).
  { intros j Hj. pose proof (tpos_from_in j evs 1 (Hin j Hj)). unfold tpos. lia. }
  set (tp := tpar pre evs).
  assert (Htp : (pre = true /\ tp = 0 /\ npar evs = 0) \/
                (pre = false /\ npar evs = 1 /\ tpar_from 1 evs = Some tp /\ 1 <= tp <= List.length evs)).
  { destruct pre; [left; repeat split; auto; lia|right].
    assert (N1 : npar evs = 1) by lia. split; auto. split; auto.
    assert (exists k, nth_error evs k = Some EPar) as [k Hk].
    { clear -N1. unfold npar in N1. induction evs as [|e t IH]; simpl in N1; [discriminate|].
      destruct e; [destruct (IH N1) as [k Hk]; exists (S k); auto|exists 0; auto]. }
    pose proof (nth_tpar_from evs 1 k ltac:(lia) Hk) as T.
    unfold tp, tpar. rewrite T. split; auto.
    assert (k < List.length evs) by (apply nth_error_Some; congruence). lia. }
  assert (EV : forall k e, nth_error evs k = Some e -> ev_at ms evs tp (S (0 + k)) e).
  { intros k e N. simpl. destruct e as [i|]; simpl; split.
    - intros j Hj. split.
      + intros T. unfold tpos in T. apply (tpos_from_nth j evs 1 k) in T; [|lia]. congruence.
      + intros ->. unfold tpos. rewrite (nth_tpos_from i evs 1 k ND N). lia.
    - destruct Htp as [[_ [T _]]|[_ [_ [T _]]]]; [lia|].
      intros X. apply tpar_from_nth in T as [k' [E N']]. assert (k' = k) by lia. subst. congruence.
    - intros j Hj T. unfold tpos in T. apply (tpos_from_nth j evs 1 k) in T; [|lia]. congruence.
    - destruct Htp as [[_ [_ T]]|[_ [N1 [T _]]]].
      + exfalso. eapply npar0_nth; eauto.
      + rewrite (nth_tpar_from evs 1 k) in T by (auto; lia). inversion T. lia. }
  unfold one_result_ev, one_contract_ev. cbv zeta. fold tp.
  set (n := List.length ms).
  set (o0 := mkO 0 None 0 None (repeat (-1)%Z n) (repeat false n) (if pre then Some 0 else None)).
  assert (C0 : cons_at ms evs tp 0 o0).
  { split; [|split]; simpl.
    - apply repeat_length.
    - intros j Hj. rewrite nth_repeat_same. specialize (Hpos j Hj). split; [discriminate|lia].
    - destruct Htp as [[-> [-> _]]|[-> [_ [_ T]]]]; simpl; auto.
      destruct (Nat.leb_spec tp 0); [lia|auto]. }
  destruct (adv_spec ms evs tp (S (S n)) o0 0 C0) as [A1 [A2 A3]]; [reflexivity|simpl; lia|simpl; lia|].
  assert (C1 : cons_at ms evs tp 0 (one_adv (S (S n)) ms 0 o0)).
  { destruct C0 as [CL [CO CP]]. split; [|split]; [rewrite A1; auto|rewrite A1; auto|rewrite A2; auto]. }
  cbn [o_cur o_first o_saw skipn] in A3.
  destruct (run_inv ms evs tp _ evs 0 _ EV C1 A3) as [CE FE].
  change (0 + List.length evs) with (List.length evs) in CE, FE.
  set (o := one_run ms (one_adv (S (S n)) ms 0 o0) 1 evs) in *.
  assert (TPL : tp <= List.length evs) by (destruct Htp as [[_ [T _]]|[_ [_ [_ T]]]]; lia).
  destruct CE as [CL [CO CP]].
  destruct (Nat.leb_spec tp (List.length evs)); [|lia].
  unfold final_of in FE. destruct (o_done o) as [r|] eqn:D.
  - destruct FE as [rs [R E]]. fold n in E.
    change (one_spec (skipn (o_cur o0) ms) ms evs tp (o_cur o0) 0 (o_first o0) (o_saw o0))
      with (one_spec ms ms evs tp 0 0 0 (repeat (-1)%Z n)) in E.
    rewrite E. rewrite R, CP. simpl.
    unfold cancel_spec. subst n. destruct ms; reflexivity.
  - exfalso. destruct FE as [Hi [G _]].
    assert (nth (o_cur o) (o_open o) false = true) by (apply CO; auto; apply Hpos; auto).
    congruence.
Qed.

(* ---- Execute with strategy 4 (One): the single result placed at its own index ---- *)
Lemma one_spec_single : forall rest ms evs tp i t first saw,
  match fst (fst (fst (one_spec rest ms evs tp i t first saw))) with RSingle _ _ _ => True | _ => False end.
Proof.
  induction rest as [|m rest IH]; intros ms evs tp i t first saw; [simpl; auto|].
  rewrite one_spec_cons. destruct (fin_own tp (m_aware m) (tpos evs i) t) as [fin own].
  destruct (own && is_ok (m_out m)); [simpl; auto|apply IH].
Qed.

Lemma one_contract_ev_single : forall ms pre evs,
  match x_ret (one_contract_ev ms pre evs) with RSingle _ _ _ => True | _ => False end.
Proof.
  intros ms pre evs. unfold one_contract_ev. cbv zeta.
  pose proof (one_spec_single ms ms evs (tpar pre evs) 0 0 0%Z (repeat (-1)%Z (List.length ms))) as H.
  destruct (one_spec ms ms evs (tpar pre evs) 0 0 0%Z (repeat (-1)%Z (List.length ms))) as [[[r rs] saw] nc].
  exact H.
Qed.

Theorem one_ev_placed_meets_contract : forall ms (pre : bool) evs,
  perm_b (rel_order evs) (List.length ms) = true ->
  Nat.eqb (npar evs + (if pre then 1 else 0)) 1 = true ->
  with_ret (place (List.length ms)) (one_result_ev ms pre evs) = placed ms (one_contract_ev ms pre evs).
Proof.
  intros ms pre evs HP HN. rewrite one_ev_meets_contract by auto.
  apply place_placed, one_contract_ev_single.
Qed.

(* the two entries of ExecuteOne in [exec_ev] / [contract_ev] *)
Theorem exec_ev_one_meets_contract : forall a ms (pre : bool) evs,
  a = AOne \/ a = AExecute 4 ->
  perm_b (rel_order evs) (List.length ms) = true ->
  Nat.eqb (npar evs + (if pre then 1 else 0)) 1 = true ->
  exec_ev a ms pre evs = contract_ev a ms pre evs.
Proof.
  intros a ms pre evs [->| ->] HP HN.
  - apply one_ev_meets_contract; auto.
  - apply one_ev_placed_meets_contract; auto.
Qed.
