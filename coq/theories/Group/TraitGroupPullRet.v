(* The Pull judge's return half ([pull_ok_ret]) against the Pull model, for the case "no Send
   failed, the server context is not cancelled": Pull returns at the step of the r-th stream end,
   r and the error being Execute's closed-form [contract] for the order in which the streams ended. *)
From Coq Require Import QArith Lia Permutation.
From SC Require Import Base.Prelude Group.Exec Group.ExecLemmas Group.ExecProofs Group.ExecAwareProofs Group.C17Judge
  Group.TraitGroup Group.TraitGroupJudge Group.TraitGroupProofs Group.TraitGroupPullProofs Group.TraitGroupPullJudge.
Open Scope Z_scope.

(* ---- steps are labels: the world machinery of Exec.v commutes with relabelling ---- *)
Section Relab.
Variable g : nat -> nat.
Variable ms : list member.
Definition gz (z : Z) : Z := if z <? 0 then z else Z.of_nat (g (Z.to_nat z)).
Definition relab (w : world) : world :=
  mkW (w_cons w) (option_map g (w_cancel w)) (option_map g (w_ret w)) (w_live w) (map gz (w_saw w)) (w_lost w).

Lemma gz_nat : forall s, gz (Z.of_nat s) = Z.of_nat (g s).
Proof. intros s. unfold gz. destruct (Z.ltb_spec (Z.of_nat s) 0); [lia|]. rewrite Nat2Z.id. reflexivity. Qed.

Lemma map_set_nth : forall A B (f : A -> B) l i x, map f (set_nth i x l) = set_nth i (f x) (map f l).
Proof. induction l as [|h t IH]; intros [|i] x; simpl; auto. f_equal. apply IH. Qed.

Lemma deliver_relab : forall s w r,
  deliver (g s) (relab w) r = (relab (fst (deliver s w r)), snd (deliver s w r)).
Proof.
  intros s w r. unfold deliver, relab. simpl. destruct (is_done (w_cons w)); [reflexivity|].
  destruct (recv (w_cons w) r) as [c b]. destruct (is_done c); reflexivity.
Qed.

Lemma flush_one_relab : forall s w j, relab (flush_one s ms w j) = flush_one (g s) ms (relab w) j.
Proof.
  intros s w j. unfold flush_one. simpl w_live.
  destruct (nth j (w_live w) false && aware_at ms j); [|reflexivity].
  match goal with |- relab (fst (deliver s ?w1 ?r)) = _ =>
    transitivity (fst (deliver (g s) (relab w1) r)); [rewrite deliver_relab; reflexivity|] end.
  f_equal. f_equal. unfold relab. simpl. rewrite map_set_nth, gz_nat. reflexivity.
Qed.

Lemma flush_relab : forall s w, relab (flush s ms w) = flush (g s) ms (relab w).
Proof.
  intros s w. unfold flush. generalize (seq 0 (List.length ms)). intros l. revert w.
  induction l as [|j t IH]; intros w; simpl; [reflexivity|]. rewrite IH, flush_one_relab. reflexivity.
Qed.

Lemma settle_relab : forall s w, relab (settle s w) = settle (g s) (relab w).
Proof.
  intros s w. unfold settle. simpl. destruct (is_done (w_cons w)); [reflexivity|].
  destruct (forallb negb (w_live w)); [|reflexivity]. unfold relab. simpl. destruct (w_cancel w); reflexivity.
Qed.

Lemma release_relab : forall w s i, relab (release ms w s i) = release ms (relab w) (g s) i.
Proof.
  intros w s i. unfold release. simpl w_live. destruct (nth i (w_live w) false); [|reflexivity].
  change (member_returns i (relab w)) with (relab (member_returns i w)). rewrite deliver_relab.
  destruct (deliver s (member_returns i w) (own_resp ms i)) as [w1 c]. simpl fst. simpl snd.
  rewrite settle_relab. f_equal. simpl w_cancel. destruct (w_cancel w1); simpl; [reflexivity|].
  destruct c; [|reflexivity]. rewrite flush_relab. reflexivity.
Qed.

Definition rel_steps (w : world) (l : list (nat * nat)) : world :=
  fold_left (fun w p => release ms w (fst p) (snd p)) l w.

Lemma releases_relab : forall ends k w,
  relab (releases ms w k ends) = rel_steps (relab w) (combine (map g (seq k (List.length ends))) ends).
Proof.
  induction ends as [|i t IH]; intros k w; simpl; [reflexivity|]. rewrite IH, release_relab. reflexivity.
Qed.
End Relab.

(* ---- list facts ---- *)
Lemma combine_app_eq : forall A B (a a' : list A) (b b' : list B), List.length a = List.length b ->
  combine (a ++ a') (b ++ b') = combine a b ++ combine a' b'.
Proof.
  induction a as [|x a IH]; intros a' [|y b] b' H; simpl in *; try discriminate; auto. f_equal. apply IH. lia.
Qed.

Lemma combine_fst_snd : forall A B (l : list (A * B)), combine (map fst l) (map snd l) = l.
Proof. induction l as [|[a b] l IH]; simpl; [reflexivity|]. f_equal. exact IH. Qed.

Lemma map_nth_seq0 : forall A (l : list A) d, map (fun j => nth j l d) (seq 0 (List.length l)) = l.
Proof.
  intros A l d. apply (list_ext _ d).
  - rewrite map_length, seq_length. reflexivity.
  - intros j Hj. rewrite map_length, seq_length in Hj. rewrite nth_map_seq by auto. reflexivity.
Qed.

(* stream ends with their steps (nat) *)
Definition end_nat {V} (evs : list (pevent V)) : list (nat * nat) :=
  flat_map (fun p => match snd p with EEnd i => [(fst p, i)] | _ => [] end) (combine (seq 1 (List.length evs)) evs).

Lemma end_nat_snoc : forall V (evs : list (pevent V)) e,
  end_nat (evs ++ [e]) = end_nat evs ++ match e with EEnd i => [(S (List.length evs), i)] | _ => [] end.
Proof.
  intros V evs e. unfold end_nat. rewrite app_length. simpl List.length. rewrite seq_app.
  rewrite combine_app_eq by (rewrite seq_length; reflexivity). rewrite flat_map_app. f_equal.
  simpl. destruct e; reflexivity.
Qed.

Lemma end_steps_nat_gen : forall V (evs : list (pevent V)) k,
  flat_map (fun p => match snd p with EEnd i => [(fst p, i)] | _ => [] end)
           (combine (map Z.of_nat (seq k (List.length evs))) evs) =
  map (fun p => (Z.of_nat (fst p), snd p))
      (flat_map (fun p => match snd p with EEnd i => [(fst p, i)] | _ => [] end) (combine (seq k (List.length evs)) evs)).
Proof.
  intros V evs. induction evs as [|e t IH]; intros k; simpl; [reflexivity|].
  rewrite map_app, IH. f_equal. destruct e; reflexivity.
Qed.

Lemma end_steps_nat : forall V (evs : list (pevent V)),
  end_steps evs = map (fun p => (Z.of_nat (fst p), snd p)) (end_nat evs).
Proof. intros V evs. unfold end_steps, ev_steps, end_nat. apply end_steps_nat_gen. Qed.

(* ---- the world under stream ends only ---- *)
Section PureWorld.
Variable ms : list member.

Lemma release_wi : forall w s i, WI0 w -> WI1 w ->
  WI0 (release ms w s i) /\ WI1 (release ms w s i) /\ step_rel s w (release ms w s i).
Proof. intros w s i A B. rewrite release_is_resp. apply release_resp_wi; auto. Qed.

Lemma releases_range : forall l k w, WI0 w -> WI1 w ->
  let W := releases ms w k l in
  WI0 W /\ WI1 W /\
  match w_ret w with
  | Some x => w_ret W = Some x /\ w_cons W = w_cons w
  | None => w_ret W = None \/ exists r, w_ret W = Some r /\ (k <= r < k + List.length l)%nat
  end.
Proof.
  induction l as [|i t IH]; intros k w A B; simpl.
  - split; [exact A|split; [exact B|]]. destruct (w_ret w); auto.
  - destruct (release_wi w k i A B) as (A1 & B1 & S1).
    destruct (IH (S k) _ A1 B1) as (A2 & B2 & S2). split; [exact A2|split; [exact B2|]].
    unfold step_rel in S1. destruct (w_ret w) as [x|].
    + destruct S1 as [E1 E2]. rewrite E1 in S2. destruct S2 as [E3 E4]. split; congruence.
    + destruct S1 as [E1|E1]; rewrite E1 in S2.
      * destruct S2 as [E|[r [E H]]]; [auto|]. right. exists r. split; [exact E|lia].
      * destruct S2 as [E _]. right. exists k. split; [exact E|lia].
Qed.

Lemma releases_app : forall a b k w, releases ms w k (a ++ b) = releases ms (releases ms w k a) (k + List.length a) b.
Proof.
  induction a as [|i t IH]; intros b k w; simpl.
  - rewrite Nat.add_0_r. reflexivity.
  - rewrite IH. f_equal. lia.
Qed.

Lemma w0_wi : forall c n, is_done c = false ->
  let w0 := settle 0 (init_world c n) in
  WI0 w0 /\ WI1 w0 /\ (w_ret w0 = None \/ w_ret w0 = Some 0%nat).
Proof.
  intros c n H w0.
  assert (I0 : WI0 (init_world c n)) by (unfold WI0, init_world; simpl; exact H).
  destruct (settle_wi 0 _ I0) as [S0 [S1 SS]]. split; [exact S0|split; [exact S1|]].
  unfold step_rel in SS. simpl in SS. exact SS.
Qed.
End PureWorld.

(* ---- Pull's world is the world under the stream ends, as long as Pull has not returned ---- *)
Section PullRet.
Variable V : Type.
Variable reduce : list (option V) -> option V.
Variable veqb : V -> V -> bool.
Variable ms : list member.
Variable fail_at : Z.
Variable strategy : Z.
Local Notation n := (List.length ms).
Local Notation pull := (pull reduce veqb ms fail_at strategy).
Local Notation pstep := (pstep reduce veqb ms fail_at).
Definition w0 : world := settle 0 (init_world (cons_of strategy n) n).
Definition pw (evs : list (pevent V)) : world := rel_steps ms w0 (end_nat evs).

Lemma pstep_nondet_back : forall s st ev, p_nondet (pstep s st ev) = false -> p_nondet st = false.
Proof.
  intros s st ev H. destruct (p_nondet st) eqn:E; [|reflexivity].
  rewrite (nondet_sticky_step V reduce veqb ms fail_at s st ev E) in H. discriminate.
Qed.

Lemma pstep_failed_back : forall s st ev, p_failed (pstep s st ev) = None -> p_failed st = None.
Proof.
  intros s st ev H. destruct (p_failed st) as [e|] eqn:E; [|reflexivity].
  assert (L : listening st = false) by (unfold listening; rewrite E; destruct (p_ret st); reflexivity).
  destruct (not_listening_step V reduce veqb ms fail_at s st ev L) as (_ & _ & K). rewrite (K e E) in H. discriminate.
Qed.

(* the world after one event, while Pull is in its select and neither fails nor is cancelled *)
Lemma pstep_world_listening : forall s st ev,
  p_ret st = None -> p_nondet (pstep s st ev) = false -> p_failed (pstep s st ev) = None ->
  match ev with EParent => False | _ => True end ->
  p_w (pstep s st ev) = match ev with EEnd i => release ms (p_w st) s i | _ => p_w st end.
Proof.
  intros s st ev Hr Hn Hf Hp.
  pose proof (pstep_failed_back s st ev Hf) as Hf0.
  assert (L : listening st = true) by (unfold listening; rewrite Hr, Hf0; reflexivity).
  unfold TraitGroup.pstep in *. rewrite check_ret_w.
  destruct (check_ret_fields V s
    (match ev with
     | EMsg i chs =>
         if nth i (w_live (p_w st)) false then
           if listening st then match w_cancel (p_w st) with None => main_recv reduce veqb ms fail_at s st i chs | Some _ => nondet st end
           else match w_cancel (p_w st) with
                | Some _ => with_w st (release_resp ms (p_w st) s i (mkR i 0 bare_cancel_err))
                | None => nondet st end
         else nondet st
     | EEnd i => if nth i (w_live (p_w st)) false then with_w st (release ms (p_w st) s i) else nondet st
     | EParent => with_w st (cancel_ctx ms s (p_w st))
     end)) as (_ & F & N & _).
  rewrite F in Hf. rewrite N in Hn. clear F N.
  destruct ev as [i chs|i|]; [| |contradiction].
  - rewrite L in *. destruct (nth i (w_live (p_w st)) false); [|simpl in Hn; discriminate].
    destruct (w_cancel (p_w st)); [simpl in Hn; discriminate|].
    unfold main_recv in *. destruct (rev chs) as [|[v t] l]; [reflexivity|]. cbv zeta in *.
    destruct (option_eqb veqb (p_last st) _); [reflexivity|].
    destruct (reduce _); [|reflexivity].
    destruct (_ =? fail_at); [simpl in Hf; discriminate|reflexivity].
  - destruct (nth i (w_live (p_w st)) false); [reflexivity|simpl in Hn; discriminate].
Qed.

Lemma has_parent_app : forall (a b : list (pevent V)), has_parent (a ++ b) = has_parent a || has_parent b.
Proof. intros a b. unfold has_parent. apply existsb_app. Qed.

Lemma pull_world_is_pure : forall evs,
  let st := pull evs in
  p_nondet st = false -> p_failed st = None -> has_parent evs = false ->
  WI0 (pw evs) /\ WI1 (pw evs) /\
  match p_ret st with
  | None => p_w st = pw evs
  | Some (r, e) => w_ret (pw evs) = Some r /\ exec_err (pw evs) = e
  end.
Proof.
  intros evs. induction evs as [|e evs IH] using rev_ind; intros st Hn Hf Hp.
  - unfold pw, end_nat. simpl. destruct (w0_wi (cons_of strategy n) n (cons_of_not_done _ _)) as (A & B & _).
    split; [exact A|split; [exact B|]].
    destruct (pull_PI2 V reduce veqb ms fail_at strategy []) as (_ & _ & RO). fold st in RO. unfold RetOK in RO.
    assert (Ew : p_w st = w0) by (unfold st, TraitGroup.pull, pinit; simpl; rewrite check_ret_w; reflexivity).
    destruct (p_ret st) as [[r x]|]; [|exact Ew]. rewrite Hf, Ew in RO. destruct RO as [R1 R2]. split; [exact R1|congruence].
  - unfold st in *. clear st. rewrite pull_snoc in *. set (st := pull evs) in *. set (s := S (List.length evs)) in *.
    rewrite has_parent_app in Hp. apply Bool.orb_false_iff in Hp as [Hp1 Hp2].
    assert (He : match e with EParent => False | _ => True end).
    { destruct e; auto. simpl in Hp2. discriminate. }
    destruct (IH (pstep_nondet_back s st e Hn) (pstep_failed_back s st e Hf) Hp1) as (A & B & C).
    assert (Epw : pw (evs ++ [e]) = match e with EEnd i => release ms (pw evs) s i | _ => pw evs end).
    { unfold pw. rewrite end_nat_snoc. unfold rel_steps. rewrite fold_left_app. destruct e; reflexivity. }
    assert (W' : WI0 (pw (evs ++ [e])) /\ WI1 (pw (evs ++ [e])) /\ step_rel s (pw evs) (pw (evs ++ [e]))).
    { rewrite Epw. destruct e; try (split; [exact A|split; [exact B|apply step_rel_refl]]). apply release_wi; auto. }
    destruct W' as (A' & B' & SR). split; [exact A'|split; [exact B'|]].
    destruct (p_ret st) as [[r x]|] eqn:Er.
    + assert (Er' : p_ret (pstep s st e) = Some (r, x)).
      { apply (ret_sticky V reduce veqb ms fail_at [e] s st (r, x) Er). }
      rewrite Er'. destruct C as [C1 C2]. unfold step_rel in SR. rewrite C1 in SR. destruct SR as [S1 S2].
      split; [exact S1|]. rewrite (exec_err_ext _ _ S2). exact C2.
    + assert (Ew : p_w (pstep s st e) = pw (evs ++ [e])).
      { rewrite (pstep_world_listening s st e Er Hn Hf He), Epw, C. destruct e; reflexivity. }
      destruct (pstep_PI2 V reduce veqb ms fail_at s st e (pull_PI2 V reduce veqb ms fail_at strategy evs)) as (_ & _ & RO).
      unfold RetOK in RO. destruct (p_ret (pstep s st e)) as [[r x]|]; [|exact Ew].
      rewrite Hf, Ew in RO. destruct RO as [R1 R2]. split; [exact R1|congruence].
Qed.
End PullRet.

(* ---- a member that has returned stays returned: the stream ends form a permutation prefix ---- *)
Definition dead (j : nat) (w : world) : Prop := nth j (w_live w) false = false.

Lemma deliver_live' : forall s w r, w_live (fst (deliver s w r)) = w_live w.
Proof.
  intros s w r. unfold deliver. destruct (is_done (w_cons w)); [reflexivity|].
  destruct (recv (w_cons w) r) as [c b]. destruct (is_done c); reflexivity.
Qed.
Lemma settle_live' : forall s w, w_live (settle s w) = w_live w.
Proof. intros s w. unfold settle. destruct (is_done (w_cons w)); [reflexivity|]. destruct (forallb negb (w_live w)); reflexivity. Qed.

Lemma dead_set_false : forall (l : list bool) i j, nth j l false = false -> nth j (set_nth i false l) false = false.
Proof. intros l i j H. rewrite nth_set_nth. destruct (Nat.eqb j i && (i <? List.length l)%nat); auto. Qed.

Lemma dead_flush_one : forall s ms w k j, dead j w -> dead j (flush_one s ms w k).
Proof.
  intros s ms w k j H. unfold flush_one, dead. destruct (nth k (w_live w) false && aware_at ms k); [|exact H].
  rewrite deliver_live'. simpl. apply dead_set_false. exact H.
Qed.
Lemma dead_flush : forall s ms w j, dead j w -> dead j (flush s ms w).
Proof.
  intros s ms w j. unfold flush. generalize (seq 0 (List.length ms)). intros l. revert w.
  induction l as [|k t IH]; intros w H; simpl; [exact H|]. apply IH. apply dead_flush_one. exact H.
Qed.
Lemma dead_tail : forall s ms w1 (c : bool) j, dead j w1 ->
  dead j (settle s (match w_cancel w1 with None => if c then flush s ms (set_cancel s w1) else w1 | Some _ => w1 end)).
Proof.
  intros s ms w1 c j H. unfold dead. rewrite settle_live'. destruct (w_cancel w1); [exact H|].
  destruct c; [|exact H]. apply dead_flush. exact H.
Qed.
Lemma dead_release_resp : forall ms w s i r j, dead j w -> dead j (release_resp ms w s i r).
Proof.
  intros ms w s i r j H. unfold release_resp. destruct (nth i (w_live w) false); [|exact H].
  destruct (deliver s (member_returns i w) r) as [w1 c] eqn:D. apply dead_tail.
  unfold dead. replace w1 with (fst (deliver s (member_returns i w) r)) by (rewrite D; reflexivity).
  rewrite deliver_live'. simpl. apply dead_set_false. exact H.
Qed.
Lemma self_dead : forall ms w s i r, nth i (w_live w) false = true -> dead i (release_resp ms w s i r).
Proof.
  intros ms w s i r H. unfold release_resp. rewrite H.
  destruct (deliver s (member_returns i w) r) as [w1 c] eqn:D. apply dead_tail.
  unfold dead. replace w1 with (fst (deliver s (member_returns i w) r)) by (rewrite D; reflexivity).
  rewrite deliver_live'. simpl. rewrite nth_set_nth, Nat.eqb_refl. apply live_lt in H.
  destruct (Nat.ltb_spec i (List.length (w_live w))); [reflexivity|lia].
Qed.
Lemma dead_cancel_ctx : forall ms s w j, dead j w -> dead j (cancel_ctx ms s w).
Proof.
  intros ms s w j H. unfold cancel_ctx. destruct (w_cancel w); [exact H|].
  unfold dead. rewrite settle_live'. apply dead_flush. exact H.
Qed.

Lemma NoDup_app_intro : forall A (a b : list A), NoDup a -> NoDup b -> (forall x, In x a -> ~ In x b) -> NoDup (a ++ b).
Proof.
  induction a as [|x a IH]; intros b Ha Hb H; simpl; [exact Hb|]. inversion Ha; subst. constructor.
  - intros K. apply in_app_or in K as [K|K]; [auto|]. apply (H x); [left; reflexivity|exact K].
  - apply IH; auto. intros y Hy. apply H. right. exact Hy.
Qed.

Lemma perm_of_ends : forall ends n, NoDup ends -> (forall i, In i ends -> (i < n)%nat) ->
  is_perm (ends ++ filter (fun i => negb (inb i ends)) (seq 0 n)) n.
Proof.
  intros ends n ND HI. unfold is_perm. apply NoDup_Permutation.
  - apply NoDup_app_intro; [exact ND|apply NoDup_filter; apply seq_NoDup|].
    intros x Hx K. apply filter_In in K as [_ K]. apply Bool.negb_true_iff in K.
    assert (inb x ends = true) by (unfold inb; apply existsb_exists; exists x; split; [exact Hx|apply Nat.eqb_refl]).
    congruence.
  - apply seq_NoDup.
  - intros x. split.
    + intros H. apply in_app_or in H as [H|H]; [apply in_seq; specialize (HI x H); lia|].
      apply filter_In in H as [H _]. exact H.
    + intros H. apply in_or_app. destruct (inb x ends) eqn:E.
      * left. unfold inb in E. apply existsb_exists in E as [y [Hy E]]. apply Nat.eqb_eq in E. subst. exact Hy.
      * right. apply filter_In. split; [exact H|]. rewrite E. reflexivity.
Qed.

Section Ends.
Variable V : Type.
Variable reduce : list (option V) -> option V.
Variable veqb : V -> V -> bool.
Variable ms : list member.
Variable fail_at : Z.
Variable strategy : Z.
Local Notation n := (List.length ms).
Local Notation pull := (pull reduce veqb ms fail_at strategy).
Local Notation pstep := (pstep reduce veqb ms fail_at).

Lemma ends_dead : forall evs, p_nondet (pull evs) = false ->
  let ends := map snd (end_nat evs) in
  NoDup ends /\ forall i, In i ends -> (i < n)%nat /\ dead i (p_w (pull evs)).
Proof.
  intros evs. induction evs as [|e evs IH] using rev_ind; intros Hn ends.
  - unfold ends, end_nat. simpl. split; [constructor|intros i []].
  - unfold ends. clear ends. rewrite pull_snoc in *. set (st := pull evs) in *. set (s := S (List.length evs)) in *.
    destruct (IH (pstep_nondet_back V reduce veqb ms fail_at s st e Hn)) as [ND HD].
    rewrite end_nat_snoc, map_app.
    assert (KEEP : forall i, dead i (p_w st) -> dead i (p_w (pstep s st e))).
    { intros i H. apply (pstep_world_inv V reduce veqb ms fail_at (dead i)); auto.
      - intros; apply dead_release_resp; auto.
      - intros; apply dead_cancel_ctx; auto. }
    destruct e as [i chs|i|]; simpl map; try rewrite app_nil_r.
    1,3: split; [exact ND|]; intros j Hj; destruct (HD j Hj); split; auto.
    assert (Li : nth i (w_live (p_w st)) false = true).
    { destruct (nth i (w_live (p_w st)) false) eqn:E; [reflexivity|]. exfalso.
      unfold TraitGroup.pstep in Hn. rewrite E in Hn.
      destruct (check_ret_fields V s (nondet st)) as (_ & _ & N & _). rewrite N in Hn. simpl in Hn. discriminate. }
    assert (Ew : p_w (pstep s st (EEnd i)) = release_resp ms (p_w st) s i (own_resp ms i)).
    { unfold TraitGroup.pstep. rewrite check_ret_w, Li. simpl. apply release_is_resp. }
    split.
    + apply (Permutation_NoDup (l := i :: map snd (end_nat evs))); [apply Permutation_cons_append|].
      constructor; [|exact ND]. intros K. destruct (HD i K) as [_ D]. unfold dead in D. congruence.
    + intros j Hj. apply in_app_or in Hj as [Hj|[Hj|[]]].
      * destruct (HD j Hj). split; auto.
      * subst j. split.
        -- destruct (pull_WL V reduce veqb ms fail_at strategy evs) as [LL _]. fold st in LL. rewrite <- LL.
           apply live_lt. exact Li.
        -- rewrite Ew. apply self_dead. exact Li.
Qed.
End Ends.

(* ---- Execute's model in terms of its world ---- *)
Definition err_of_ret (r : ret) : Z := match r with RSlice _ e => e | _ => 0 end.

Lemma exec_shape : forall strategy ms order, strategy <> 4 ->
  exec (AExecute strategy) ms order = contract (AExecute strategy) ms order ->
  let W := run_par (cons_of strategy (List.length ms)) ms order in
  x_retstep (exec (AExecute strategy) ms order) = optZ (w_ret W) /\
  err_of_ret (x_ret (exec (AExecute strategy) ms order)) = exec_err W.
Proof.
  intros strategy ms order N4 Hc. cbv zeta. revert Hc.
  unfold exec, exec_gen, contract, cons_of.
  destruct (strategy =? 2); [|destruct (strategy =? 3); [|destruct (Z.eqb_spec strategy 4); [contradiction|
    destruct (strategy =? 5); [|destruct (strategy =? 6)]]]].
  1,2,5: intros Hc; split; [reflexivity|]; apply (f_equal x_ret) in Hc; unfold upto_contract in Hc; simpl in Hc;
    unfold par_result, exec_err; simpl; destruct (w_cons _) as [| | |r]; try discriminate Hc; subst r; reflexivity.
  all: intros _; split; [reflexivity|]; unfold par_result, exec_err, with_ret; simpl;
    destruct (w_cons _) as [| | |r]; try reflexivity; destruct r; simpl; try reflexivity;
    destruct ((0 <=? idx) && (idx <? Z.of_nat (List.length ms))); reflexivity.
Qed.

Lemma relab_w0 : forall g c n, g 0%nat = 0%nat ->
  relab g (settle 0 (init_world c n)) = settle 0 (init_world c n).
Proof.
  intros g c n G. rewrite settle_relab, G. f_equal. unfold relab, init_world. simpl. f_equal.
  induction n as [|k IH]; simpl; [reflexivity|]. f_equal. exact IH.
Qed.

Theorem pull_ret_by_contract : forall V reduce veqb ms eofs fail_at strategy (evs : list (pevent V)),
  let st := pull reduce veqb ms fail_at strategy evs in
  strategy <> 4 -> p_nondet st = false -> p_failed st = None -> has_parent evs = false ->
  ret_by_contract ms eofs strategy evs =
  (retZ V st, match p_ret st with Some (_, e) => perr eofs e | None => 0 end).
Proof.
  intros V reduce veqb ms eofs fail_at strategy evs st N4 Hn Hf Hp.
  set (L := end_nat evs).
  assert (EL : end_steps evs = map (fun p => (Z.of_nat (fst p), snd p)) L) by apply end_steps_nat.
  assert (E1 : map snd (end_steps evs) = map snd L) by (rewrite EL, map_map; reflexivity).
  assert (E2 : map fst (end_steps evs) = map Z.of_nat (map fst L)) by (rewrite EL, !map_map; reflexivity).
  destruct (ends_dead V reduce veqb ms fail_at strategy evs Hn) as [ND HD]. fold L in ND, HD.
  set (ends := map snd L) in *.
  set (rest := filter (fun i => negb (inb i ends)) (seq 0 (List.length ms))).
  assert (P : is_perm (ends ++ rest) (List.length ms)).
  { apply perm_of_ends; [exact ND|]. intros i Hi. apply (HD i Hi). }
  pose proof (exec_meets_contract_full (AExecute strategy) ms (ends ++ rest) P) as Hc.
  destruct (exec_shape strategy ms (ends ++ rest) N4 Hc) as [X1 X2].
  unfold ret_by_contract. rewrite E1, E2. fold ends. fold rest. rewrite <- Hc.
  fold (err_of_ret (x_ret (exec (AExecute strategy) ms (ends ++ rest)))). rewrite X1, X2.
  (* the worlds *)
  set (c := cons_of strategy (List.length ms)) in *.
  set (w0' := settle 0 (init_world c (List.length ms))).
  set (W1 := releases ms w0' 1 ends).
  assert (EW : run_par c ms (ends ++ rest) = releases ms W1 (1 + List.length ends) rest).
  { unfold run_par. fold w0'. rewrite releases_app. reflexivity. }
  rewrite EW. clear X1 X2 Hc.
  set (g := fun j => match j with O => O | S j' => nth j' (map fst L) O end).
  assert (Epw : pw V ms strategy evs = relab g W1).
  { unfold W1. rewrite releases_relab. unfold w0', c. rewrite relab_w0 by reflexivity.
    unfold pw, w0. fold L. f_equal.
    rewrite <- seq_shift, map_map. unfold ends. rewrite map_length.
    replace (map (fun x => g (S x)) (seq 0 (List.length L))) with (map fst L).
    - symmetry. apply combine_fst_snd.
    - symmetry. rewrite <- (map_length fst L). apply map_nth_seq0. }
  destruct (pull_world_is_pure V reduce veqb ms fail_at strategy evs Hn Hf Hp) as (_ & _ & C). fold st in C.
  destruct (pull_PI2 V reduce veqb ms fail_at strategy evs) as (_ & _ & RO). fold st in RO. unfold RetOK in RO.
  destruct (w0_wi c (List.length ms) (cons_of_not_done _ _)) as (A0 & B0 & R0). fold w0' in A0, B0, R0.
  destruct (releases_range ms ends 1 w0' A0 B0) as (A1 & B1 & R1). fold W1 in A1, B1, R1.
  destruct (releases_range ms rest (1 + List.length ends) W1 A1 B1) as (_ & _ & R2).
  set (W := releases ms W1 (1 + List.length ends) rest) in *.
  assert (Lends : List.length ends = List.length (map fst L)) by (unfold ends; rewrite !map_length; reflexivity).
  rewrite Epw in C. unfold retZ.
  destruct (w_ret W1) as [r0|] eqn:Er1.
  - destruct R2 as [R2a R2b]. rewrite R2a. simpl optZ.
    rewrite (exec_err_ext W1 W R2b).
    destruct (p_ret st) as [[r e]|].
    2:{ exfalso. rewrite C in RO. simpl in RO. rewrite Er1 in RO. discriminate. }
    destruct C as [C1 C2]. simpl in C1. rewrite Er1 in C1. simpl in C1. inversion C1; subst r.
    rewrite (exec_err_ext W1 (relab g W1) eq_refl) in C2. subst e.
    destruct r0 as [|k].
    + simpl. reflexivity.
    + assert (Hk : (k < List.length ends)%nat).
      { destruct R0 as [R0|R0]; rewrite R0 in R1.
        - destruct R1 as [R1|[r [R1 H]]]; [congruence|]. assert (r = S k) by congruence. lia.
        - destruct R1 as [R1 _]. congruence. }
      replace (Z.of_nat (S k) <=? 0) with false by (symmetry; apply Z.leb_gt; lia).
      replace (Z.to_nat (Z.of_nat (S k)) - 1)%nat with k by (rewrite Nat2Z.id; lia).
      rewrite (nth_indep _ (-1) (Z.of_nat 0)) by (rewrite map_length; lia). rewrite map_nth.
      replace (Z.of_nat (nth k (map fst L) 0%nat) <? 0) with false by (symmetry; apply Z.ltb_ge; lia).
      reflexivity.
  - destruct (p_ret st) as [[r e]|].
    { exfalso. destruct C as [C1 _]. simpl in C1. rewrite Er1 in C1. discriminate. }
    destruct R2 as [R2|[r [R2 H]]]; rewrite R2; simpl optZ.
    + reflexivity.
    + replace (Z.of_nat r <=? 0) with false by (symmetry; apply Z.leb_gt; lia).
      rewrite nth_overflow by (rewrite map_length, Nat2Z.id; lia). reflexivity.
Qed.

(* ---- the judge ---- *)
Lemma Inv_prun : forall V reduce veqb ms fail_at (evs : list (pevent V)) s st,
  Inv V ms fail_at s st -> Inv V ms fail_at (s + List.length evs) (prun reduce veqb ms fail_at s st evs).
Proof.
  intros V reduce veqb ms fail_at evs. induction evs as [|e t IH]; intros s st H; simpl.
  - rewrite Nat.add_0_r. exact H.
  - replace (s + S (List.length t))%nat with (S s + List.length t)%nat by lia. apply IH. apply Inv_pstep. exact H.
Qed.

Section RetJudge.
Variable V : Type.
Variable reduce : list (option V) -> option V.
Variable veqb : V -> V -> bool.
Variable R : V -> V -> Prop.
Hypothesis veqb_R : forall a b, veqb a b = true <-> R a b.

Theorem pull_judge_ret_sound_no_failed_send : forall ms eofs fail_at strategy evs obs,
  let st := pull reduce veqb ms fail_at strategy evs in
  pobs_eqb veqb obs (pobs_of ms eofs st) = true -> pull_guard strategy ms eofs st = true ->
  fail_step fail_at obs < 0 ->
  pull_ok_ret ms eofs fail_at strategy evs obs = true.
Proof.
  intros ms eofs fail_at strategy evs obs st HA HG HF.
  unfold pobs_eqb in HA. rewrite !Bool.andb_true_iff in HA.
  destruct HA as [[[[[[HS HR] HE] _] _] _] _]. simpl in HS, HR, HE.
  apply (list_eqb_R V veqb R veqb_R) in HS. apply Z.eqb_eq in HR. apply Z.eqb_eq in HE.
  unfold pull_guard in HG. rewrite !Bool.andb_true_iff in HG. destruct HG as [[[[_ G4] _] _] GN].
  apply Bool.negb_true_iff in GN. apply Bool.negb_true_iff in G4. apply Z.eqb_neq in G4.
  assert (Hf : p_failed st = None).
  { destruct (p_failed st) as [e|] eqn:E; [|reflexivity]. exfalso.
    pose proof (Inv_prun V reduce veqb ms fail_at evs 1 _ (Inv_pinit V ms fail_at strategy)) as I.
    fold (pull reduce veqb ms fail_at strategy evs) in I. fold st in I.
    destruct I as (_ & (B1 & B2) & _ & D & S & _). destruct (D e E) as [D1 D2].
    change (fail_step fail_at obs) with (fstep V fail_at (po_sent obs)) in HF.
    rewrite (fstep_R V R fail_at _ _ HS) in HF. unfold fstep in HF.
    replace (0 <? fail_at) with true in HF by (symmetry; apply Z.ltb_lt; lia).
    rewrite nth_error_map in HF.
    destruct (nth_error (p_sent st) (Z.to_nat (fail_at - 1))) as [m|] eqn:N.
    - simpl in HF. apply nth_error_In in N. rewrite Forall_forall in S. specialize (S m N). lia.
    - apply nth_error_None in N. lia. }
  unfold pull_ok_ret.
  replace (0 <=? fail_step fail_at obs) with false by (symmetry; apply Z.leb_gt; exact HF).
  destruct (has_parent evs) eqn:Hp; [reflexivity|].
  rewrite (pull_ret_by_contract V reduce veqb ms eofs fail_at strategy evs G4 GN Hf Hp). fold st.
  rewrite HR, HE. unfold retZ. rewrite !Z.eqb_refl. reflexivity.
Qed.
End RetJudge.

Definition no_failed_send (c : c17tcase) : bool :=
  match c with
  | KUnary _ _ _ _ _ _ _ => true
  | KPullOnOff s ms eofs fa evs obs => fail_step fa obs <? 0
  | KPullLight s ms eofs fa evs obs => fail_step fa obs <? 0
  end.

(* every case (unary; Pull in which no Send failed) that agrees with the model and passes the guard
   satisfies the whole closed form of the judge.  Missing for the full statement: [pull_ok_ret] of the
   Pull cases in which a Send failed ([ret_after_failed_send]); their [pull_ok_sends] half is
   [trait_judge_sound_partial]. *)
Theorem trait_judge_sound_no_failed_send_partial : forall c,
  tagrees c = true -> C17T_guard c = true -> no_failed_send c = true -> C17T_ok c = true.
Proof.
  intros c A G F. rewrite C17T_ok_split, (trait_judge_sound_partial c A G). simpl.
  destruct c as [tk w s ms vals order obs|s ms eofs fa evs obs|s ms eofs fa evs obs]; [reflexivity| |];
    cbn [tagrees C17T_guard C17T_ok_ret no_failed_send] in *; apply Z.ltb_lt in F.
  - eapply (pull_judge_ret_sound_no_failed_send Z onoff_reduce_p Z.eqb (@eq Z)); eauto.
    intros a b. apply Z.eqb_eq.
  - cbv zeta in A, G. rewrite Bool.andb_true_iff in G. destruct G as [G H]. rewrite H in A.
    eapply (pull_judge_ret_sound_no_failed_send Q light_reduce_p Qeq_bool Qeq); eauto.
    intros a b. apply Qeq_bool_iff.
Qed.

Example trait_judge_sound_no_failed_send_partial_nonvacuous :
  let ms := [mkM Fail true; mkM Fail false; mkM Fail true] in
  let evs := [EMsg 0%nat [(1, 7)]; EEnd 1%nat; EMsg 2%nat [(0, 8)]; EEnd 2%nat] in
  let c := KPullOnOff 2 ms [false; true; false] 0 evs (pobs_of ms [false; true; false] (pull_onoff ms 0 2 evs)) in
  tagrees c = true /\ C17T_guard c = true /\ no_failed_send c = true /\
  po_ret (pobs_of ms [false; true; false] (pull_onoff ms 0 2 evs)) = 4.
Proof. vm_compute. repeat split; reflexivity. Qed.
