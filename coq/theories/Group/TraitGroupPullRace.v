(* The Pull judge's return half after a failed Send under strategy Race, and the full soundness theorem
   of the trait-group judge. *)
From Coq Require Import QArith Lia Permutation.
From SC Require Import Base.Prelude Group.Exec Group.ExecLemmas Group.ExecProofs Group.C17Judge
  Group.TraitGroup Group.TraitGroupJudge Group.TraitGroupProofs Group.TraitGroupPullProofs Group.TraitGroupPullJudge
  Group.TraitGroupPullRet Group.TraitGroupPullFail.
Open Scope Z_scope.

Definition RD (w : world) : Prop := match w_cons w with CRace => True | CDone _ => True | _ => False end.

Lemma deliver_RD : forall s w r, RD w -> RD (fst (deliver s w r)).
Proof.
  intros s w r H. unfold RD, deliver in *. destruct (w_cons w) eqn:C; try contradiction; simpl; try rewrite C; exact I.
Qed.
Lemma settle_RD : forall s w, RD w -> RD (settle s w).
Proof.
  intros s w H. unfold settle. destruct (is_done (w_cons w)); [exact H|].
  destruct (forallb negb (w_live w)); [exact I|exact H].
Qed.
Lemma flush_RD : forall s ms w, RD w -> RD (flush s ms w).
Proof.
  intros s ms w. unfold flush. generalize (seq 0 (List.length ms)). intros l. revert w.
  induction l as [|k t IH]; intros w H; simpl; [exact H|]. apply IH. unfold flush_one.
  destruct (nth k (w_live w) false && aware_at ms k); [|exact H]. apply deliver_RD. exact H.
Qed.
Lemma release_resp_RD : forall ms w s i r, RD w -> RD (release_resp ms w s i r).
Proof.
  intros ms w s i r H. unfold release_resp. destruct (nth i (w_live w) false); [|exact H].
  pose proof (deliver_RD s (member_returns i w) r H) as H1.
  destruct (deliver s (member_returns i w) r) as [w1 c]. simpl in H1. apply settle_RD.
  destruct (w_cancel w1); [exact H1|]. destruct c; [|exact H1]. apply flush_RD. exact H1.
Qed.
Lemma cancel_ctx_RD : forall ms s w, RD w -> RD (cancel_ctx ms s w).
Proof.
  intros ms s w H. unfold cancel_ctx. destruct (w_cancel w); [exact H|]. apply settle_RD, flush_RD. exact H.
Qed.

Definition PostInvR (w : world) (D : list nat) : Prop :=
  WI0 w /\ WI1 w /\ w_cons w = CRace /\ w_ret w = None /\ (exists x, w_cancel w = Some x) /\
  (forall j, nth j (w_live w) false = true <-> In j D).

Lemma fold_min_spec : forall a l, let M := fold_right Z.min a l in
  (forall x, In x (a :: l) -> M <= x) /\ In M (a :: l).
Proof.
  intros a l. induction l as [|b l IH]; simpl.
  - split; [intros x [->|[]]; lia|left; reflexivity].
  - destruct IH as [I1 I2]. simpl in I1, I2. split.
    + intros x [->|[->|H]]; [specialize (I1 x (or_introl eq_refl)); lia|lia|specialize (I1 x (or_intror H)); lia].
    + destruct (Z.min_spec b (fold_right Z.min a l)) as [[_ E]|[_ E]]; rewrite E; [right; left; reflexivity|].
      destruct I2 as [I2|I2]; [left; exact I2|right; right; exact I2].
Qed.

Lemma race_hit : forall ms w s i r x, WI0 w -> WI1 w -> w_cons w = CRace -> w_ret w = None -> w_cancel w = Some x ->
  nth i (w_live w) false = true ->
  let w' := release_resp ms w s i r in WI0 w' /\ WI1 w' /\ w_ret w' = Some s.
Proof.
  intros ms w s i r x A B C Rn Cx Li w'. destruct (release_resp_wi ms w s i r A B) as (A' & B' & _).
  split; [exact A'|split; [exact B'|]]. unfold w'. rewrite (release_resp_cancelled ms w s i r x Cx), Li.
  unfold deliver. simpl. rewrite C. simpl. reflexivity.
Qed.

Theorem post_ret_race : forall V ms (post : list (pevent V)) s w D, PostInvR w D ->
  optZ (w_ret (wrun ms w s post)) =
  match filter (fun x => 0 <=? x) (map (fe s post) D) with [] => -1 | a :: l => fold_right Z.min a l end.
Proof.
  intros V ms post. induction post as [|e t IH]; intros s w D PI.
  - simpl wrun. destruct PI as (_ & _ & _ & Rn & _). rewrite Rn. simpl.
    rewrite filter_none; [reflexivity|]. intros x Hx. apply in_map_iff in Hx as [j [<- _]]. reflexivity.
  - simpl wrun.
    assert (TGT : (exists i r, In i D /\ mentions i e = true /\ wstep ms w s e = release_resp ms w s i r) \/
                  (wstep ms w s e = w /\ forall j, In j D -> mentions j e = false)).
    { destruct PI as (_ & _ & _ & _ & _ & Lv).
      destruct e as [i chs|i|]; simpl.
      - destruct (nth i (w_live w) false) eqn:Li.
        + left. exists i, (mkR i 0 bare_cancel_err). apply Lv in Li. repeat split; auto. apply Nat.eqb_refl.
        + right. split; [unfold release_resp; rewrite Li; reflexivity|].
          intros j Hj. apply Nat.eqb_neq. intros ->. apply Lv in Hj. congruence.
      - destruct (nth i (w_live w) false) eqn:Li.
        + left. exists i, (own_resp ms i). apply Lv in Li. repeat split; auto. apply Nat.eqb_refl.
        + right. split; [unfold release_resp; rewrite Li; reflexivity|].
          intros j Hj. apply Nat.eqb_neq. intros ->. apply Lv in Hj. congruence.
      - right. split; auto. }
    destruct TGT as [(i & r & Hi & Mi & Ew)|[Ew NM]].
    2:{ rewrite Ew, (IH (S s) w D PI).
        rewrite (map_ext_in (fe s (e :: t)) (fe (S s) t)); [reflexivity|].
        intros j Hj. rewrite fe_cons, (NM j Hj). reflexivity. }
    rewrite Ew. destruct PI as (A & B & C & Rn & [x Cx] & Lv).
    destruct (race_hit ms w s i r x A B C Rn Cx (proj2 (Lv i) Hi)) as (A' & B' & R').
    rewrite (wrun_sticky V ms t _ (S s) s A' B' R'). simpl optZ.
    assert (IN : In (Z.of_nat s) (filter (fun x0 => 0 <=? x0) (map (fe s (e :: t)) D))).
    { apply filter_In. split; [|apply Z.leb_le; lia]. apply in_map_iff. exists i. split; [|exact Hi].
      rewrite fe_cons, Mi. reflexivity. }
    destruct (filter (fun x0 => 0 <=? x0) (map (fe s (e :: t)) D)) as [|a l] eqn:FL; [destruct IN|].
    destruct (fold_min_spec a l) as [M1 M2]. specialize (M1 _ IN).
    rewrite <- FL in M2. apply filter_In in M2 as [M2 M3]. apply Z.leb_le in M3.
    apply in_map_iff in M2 as [j [Ej _]]. destruct (fe_range V (e :: t) s j) as [K|K]; lia.
Qed.

Lemma flush_race_hit : forall s ms l w, WI0 w -> w_cons w = CRace -> w_ret w = None ->
  (exists j, In j l /\ nth j (w_live w) false = true /\ aware_at ms j = true) ->
  w_ret (fold_left (flush_one s ms) l w) = Some s.
Proof.
  intros s ms l. induction l as [|k t IH]; intros w A C Rn [j [Hj [Lj Aj]]]; [destruct Hj|]. simpl.
  destruct (nth k (w_live w) false && aware_at ms k) eqn:Ck.
  - destruct (flush_one_wi s ms w k A) as [A1 _].
    assert (R1 : w_ret (flush_one s ms w k) = Some s).
    { unfold flush_one. rewrite Ck. unfold deliver. simpl. rewrite C. simpl. reflexivity. }
    destruct (flush_fold_wi s ms t _ A1) as [_ SR]. unfold step_rel in SR. rewrite R1 in SR. tauto.
  - assert (E : flush_one s ms w k = w) by (unfold flush_one; rewrite Ck; reflexivity). rewrite E.
    apply IH; auto. exists j. destruct Hj as [<-|Hj]; [rewrite Lj, Aj in Ck; discriminate|auto].
Qed.

Lemma flush_noop : forall s ms l w, (forall j, In j l -> nth j (w_live w) false && aware_at ms j = false) ->
  fold_left (flush_one s ms) l w = w.
Proof.
  intros s ms l. induction l as [|k t IH]; intros w H; simpl; [reflexivity|].
  assert (E : flush_one s ms w k = w) by (unfold flush_one; rewrite (H k (or_introl eq_refl)); reflexivity).
  rewrite E. apply IH. intros j Hj. apply H. right. exact Hj.
Qed.

Lemma cancel_ctx_race : forall ms s w L0,
  WI0 w -> WI1 w -> w_cons w = CRace -> w_ret w = None -> w_cancel w = None ->
  (forall j, nth j (w_live w) false = true <-> In j L0) -> (forall j, In j L0 -> (j < List.length ms)%nat) ->
  let w' := cancel_ctx ms s w in
  WI0 w' /\ WI1 w' /\ (exists x, w_cancel w' = Some x) /\
  (existsb (aware_at ms) L0 = true -> w_ret w' = Some s) /\
  (existsb (aware_at ms) L0 = false -> PostInvR w' L0).
Proof.
  intros ms s w L0 A B C Rn Cn Lv LR w'.
  destruct (cancel_ctx_wi ms s w A B) as (A' & B' & _). fold w' in A', B'.
  split; [exact A'|split; [exact B'|]].
  assert (Cx : w_cancel w' = Some s).
  { unfold w', cancel_ctx. rewrite Cn. apply settle_cancel_keep. rewrite flush_cancel'. reflexivity. }
  split; [exists s; exact Cx|]. split.
  - intros H. apply existsb_exists in H as [j [Hj Aj]].
    unfold w', cancel_ctx. rewrite Cn.
    assert (A1 : WI0 (set_cancel s w)) by exact A.
    assert (R1 : w_ret (flush s ms (set_cancel s w)) = Some s).
    { unfold flush. apply flush_race_hit; auto. exists j. split; [apply in_seq; specialize (LR j Hj); lia|].
      split; [apply Lv; exact Hj|exact Aj]. }
    destruct (flush_fold_wi s ms (seq 0 (List.length ms)) _ A1) as [A2 _]. fold (flush s ms (set_cancel s w)) in A2.
    destruct (settle_wi s _ A2) as (_ & _ & SR). unfold step_rel in SR. rewrite R1 in SR. tauto.
  - intros H.
    assert (NO : forall j, nth j (w_live w) false && aware_at ms j = false).
    { intros j. destruct (nth j (w_live w) false) eqn:Lj; [|reflexivity]. simpl.
      destruct (aware_at ms j) eqn:Aj; [|reflexivity].
      assert (existsb (aware_at ms) L0 = true); [|congruence].
      apply existsb_exists. exists j. split; [apply Lv; exact Lj|exact Aj]. }
    assert (EW : w' = set_cancel s w).
    { unfold w', cancel_ctx. rewrite Cn. unfold flush. rewrite flush_noop by (intros; apply NO).
      unfold settle. simpl. rewrite C. simpl.
      destruct (forallb negb (w_live w)) eqn:F; [|reflexivity].
      exfalso. unfold WI1 in B. specialize (B F). rewrite C in B. discriminate. }
    split; [exact A'|split; [exact B'|]]. rewrite EW. simpl.
    split; [exact C|split; [exact Rn|split; [exists s; reflexivity|exact Lv]]].
Qed.

Section FailRace.
Variable V : Type.
Variable reduce : list (option V) -> option V.
Variable veqb : V -> V -> bool.
Variable ms : list member.
Variable fail_at : Z.
Variable strategy : Z.
Hypothesis E6 : strategy = 6.
Local Notation n := (List.length ms).
Local Notation pull := (pull reduce veqb ms fail_at strategy).
Local Notation pstep := (pstep reduce veqb ms fail_at).
Local Notation prun := (prun reduce veqb ms fail_at).

Lemma pull_RD : forall evs, RD (p_w (pull evs)).
Proof.
  intros evs. unfold TraitGroup.pull.
  apply (prun_inv V reduce veqb ms fail_at (fun st => RD (p_w st))).
  - intros s st ev H. apply (pstep_world_inv V reduce veqb ms fail_at RD); auto.
    + intros; apply release_resp_RD; auto.
    + intros; apply cancel_ctx_RD; auto.
  - unfold pinit. rewrite check_ret_w. simpl. apply settle_RD. unfold RD, init_world, cons_of. rewrite E6. simpl. exact I.
Qed.

Theorem pull_ret_after_failed_send_race : forall evs,
  let st := pull evs in
  p_nondet st = false -> p_failed st <> None ->
  exists f : nat,
    fstep V fail_at (map (tr V) (p_sent st)) = Z.of_nat f /\
    ret_after_failed_send ms fail_at strategy evs (Z.of_nat f) =
      (retZ V st, match p_ret st with Some (_, e) => e | None => 0 end).
Proof.
  intros evs st ND FN.
  destruct (fail_split V reduce veqb ms fail_at strategy evs FN) as (pre & e & post & E & F0 & F1).
  set (f := S (List.length pre)).
  assert (Est : st = prun (S f) (pstep f (pull pre) e) post).
  { unfold st. rewrite E. unfold TraitGroup.pull. rewrite (prun_app V reduce veqb ms fail_at). reflexivity. }
  rewrite pull_snoc in F1. fold f in F1. set (st0 := pull pre) in *. set (st1 := pstep f st0 e) in *.
  assert (ND1 : p_nondet st1 = false).
  { destruct (p_nondet st1) eqn:X; [|reflexivity].
    rewrite Est, (nondet_sticky V reduce veqb ms fail_at post (S f) st1 X) in ND. discriminate. }
  destruct (fail_step_facts V reduce veqb ms fail_at f st0 e F0 F1 ND1) as (i & chs & m & Ee & R0 & C0 & W1 & Ff & Sn & Sm & Kn).
  fold st1 in W1, Ff, Sn.
  assert (L1 : listening st1 = false) by (unfold listening; rewrite Ff; destruct (p_ret st1); reflexivity).
  destruct (not_listening_run V reduce veqb ms fail_at post (S f) st1 L1) as [S1 _]. rewrite <- Est in S1.
  pose proof (Inv_prun V reduce veqb ms fail_at pre 1 _ (Inv_pinit V ms fail_at strategy)) as I0.
  change (TraitGroup.prun reduce veqb ms fail_at 1 (pinit ms strategy) pre) with st0 in I0.
  destruct I0 as (_ & (B1 & B2) & _).
  exists f. split.
  { rewrite S1, Sn, map_app. unfold fstep. replace (0 <? fail_at) with true by (symmetry; apply Z.ltb_lt; lia).
    rewrite nth_error_app2 by (rewrite map_length; lia). rewrite map_length, B1.
    replace (Z.to_nat (fail_at - 1) - Z.to_nat (p_nsend st0))%nat with 0%nat by lia. unfold tr. simpl. exact Sm. }
  (* the world just before the failing Send *)
  destruct (pull_PI2 V reduce veqb ms fail_at strategy pre) as (A0 & B0 & RO0). fold st0 in A0, B0, RO0.
  unfold RetOK in RO0. rewrite R0 in RO0.
  assert (ND0 : p_nondet st0 = false) by (apply (pstep_nondet_back V reduce veqb ms fail_at f st0 e ND1)).
  set (ended := map snd (end_nat pre)).
  set (L0 := filter (fun i => negb (inb i ended)) (seq 0 n)).
  assert (Lv0 : forall j, nth j (w_live (p_w st0)) false = true <-> In j L0).
  { intros j. unfold L0. rewrite filter_In, in_seq. split.
    - intros H. destruct (ends_dead V reduce veqb ms fail_at strategy pre ND0) as [_ HD]. fold st0 in HD.
      assert (Hj : (j < n)%nat).
      { destruct (pull_WL V reduce veqb ms fail_at strategy pre) as [LL _]. fold st0 in LL. rewrite <- LL. apply live_lt. exact H. }
      split; [lia|]. apply Bool.negb_true_iff. destruct (inb j ended) eqn:I; [|reflexivity].
      unfold inb in I. apply existsb_exists in I as [y [Hy Ey]]. apply Nat.eqb_eq in Ey. subst y.
      destruct (HD j Hy) as [_ Dd]. unfold dead in Dd. congruence.
    - intros [H1 H2]. apply (live_back V reduce veqb ms fail_at strategy pre C0); [lia|]. intros K. apply Bool.negb_true_iff in H2.
      assert (inb j ended = true) by (unfold inb; apply existsb_exists; exists j; split; [exact K|apply Nat.eqb_refl]).
      congruence. }
  assert (LR0 : forall j, In j L0 -> (j < n)%nat).
  { intros j H. unfold L0 in H. apply filter_In in H as [H _]. apply in_seq in H. lia. }
  assert (Cr0 : w_cons (p_w st0) = CRace).
  { pose proof (pull_RD pre) as H. fold st0 in H. unfold RD in H. unfold WI0 in A0. rewrite RO0 in A0. simpl in A0.
    destruct (w_cons (p_w st0)); try contradiction; [reflexivity|discriminate A0]. }
  destruct (cancel_ctx_race ms f (p_w st0) L0 A0 B0 Cr0 RO0 C0 Lv0 LR0) as (A1 & B1' & [x Cx] & D1 & D2).
  rewrite <- W1 in A1, B1', Cx, D1, D2.
  set (D := filter (fun i => negb (aware_at ms i)) L0) in *.
  destruct (prun_world_failed V reduce veqb ms fail_at post (S f) st1 x _ Ff Cx) as [Wf Ffin]. rewrite <- Est in Wf, Ffin.
  destruct (pull_PI2 V reduce veqb ms fail_at strategy evs) as (_ & _ & RO). fold st in RO.
  unfold RetOK in RO. rewrite Ffin in RO.
  (* the judge's side *)
  assert (EJ : map snd (filter (fun p => fst p <? Z.of_nat f) (end_steps evs)) = ended).
  { rewrite end_steps_nat, E. change (end_nat (pre ++ e :: post)) with (end_from 1 (pre ++ e :: post)).
    rewrite end_from_app, map_app, filter_app, map_app.
    rewrite filter_all.
    2:{ intros p Hp. apply in_map_iff in Hp as [q [<- Hq]]. apply end_from_range in Hq. simpl. apply Z.ltb_lt. unfold f. lia. }
    rewrite filter_none.
    2:{ intros p Hp. apply in_map_iff in Hp as [q [<- Hq]]. apply end_from_range in Hq. simpl. apply Z.ltb_ge. unfold f. lia. }
    rewrite app_nil_r, map_map. reflexivity. }
  assert (EF : forall j, first_event_after evs (Z.of_nat f) j = fe (S f) post j).
  { intros j. unfold first_event_after, fe, ev_steps. rewrite E, app_length. simpl List.length.
    rewrite seq_app, map_app, combine_app_eq by (rewrite map_length, seq_length; reflexivity).
    rewrite find_skip.
    2:{ intros p Hp. apply combine_steps_range in Hp. apply Bool.andb_false_iff. left. apply Z.ltb_ge. unfold f. lia. }
    replace (1 + List.length pre)%nat with f by reflexivity.
    cbn [seq map combine find fst snd].
    replace (Z.of_nat f <? Z.of_nat f) with false by (symmetry; apply Z.ltb_irrefl). cbn [andb].
    erewrite find_ext_in; [reflexivity|]. intros p Hp. apply combine_steps_range in Hp.
    replace (Z.of_nat f <? fst p) with true by (symmetry; apply Z.ltb_lt; lia). cbn [andb].
    unfold mentions. destruct (snd p); reflexivity. }
  unfold ret_after_failed_send. cbv zeta. rewrite EJ. fold L0. fold D.
  destruct (Z.eqb_spec strategy 6) as [_|N6]; [|contradiction].
  rewrite (map_ext _ _ EF).
  destruct (existsb (aware_at ms) L0) eqn:AW.
  - specialize (D1 eq_refl).
    pose proof (wrun_sticky V ms post (p_w st1) (S f) f A1 B1' D1) as WS. rewrite <- Wf in WS.
    unfold retZ. destruct (p_ret st) as [[s e']|].
    + destruct RO as [RO1 RO2]. rewrite WS in RO1. assert (Es : s = f) by congruence. rewrite Es, RO2. reflexivity.
    + rewrite WS in RO. discriminate.
  - specialize (D2 eq_refl).
    assert (PD : PostInvR (p_w st1) D).
    { destruct D2 as (X1 & X2 & X3 & X4 & X5 & X6). repeat split; auto; try (apply X6).
      - intros H. apply X6 in H. unfold D. apply filter_In. split; [exact H|].
        destruct (aware_at ms j) eqn:Aj; [|reflexivity].
        assert (existsb (aware_at ms) L0 = true); [|congruence]. apply existsb_exists. exists j. auto.
      - intros H. unfold D in H. apply filter_In in H as [H _]. apply X6. exact H. }
    pose proof (post_ret_race V ms post (S f) (p_w st1) D PD) as PR. rewrite <- Wf in PR.
    destruct (filter (fun x0 => 0 <=? x0) (map (fe (S f) post) D)) as [|a l] eqn:FL.
    + unfold retZ. destruct (p_ret st) as [[s e']|].
      * destruct RO as [RO1 _]. rewrite RO1 in PR. cbn [optZ] in PR. lia.
      * reflexivity.
    + destruct (fold_min_spec a l) as [_ M2]. rewrite <- FL in M2. apply filter_In in M2 as [_ M3]. apply Z.leb_le in M3.
      unfold retZ. destruct (p_ret st) as [[s e']|].
      * destruct RO as [RO1 RO2]. rewrite RO1 in PR. cbn [optZ] in PR. rewrite <- PR, RO2. reflexivity.
      * rewrite RO in PR. cbn [optZ] in PR. lia.
Qed.
End FailRace.

(* ---- the whole judge ---- *)
Lemma pull_ret_sound : forall V reduce veqb (R : V -> V -> Prop), (forall a b, veqb a b = true <-> R a b) ->
  forall ms eofs fa s evs obs,
  let st := pull reduce veqb ms fa s evs in
  pobs_eqb veqb obs (pobs_of ms eofs st) = true -> pull_guard s ms eofs st = true ->
  (fail_step fa obs <? 0) || (List.length ms <=? 3000)%nat = true ->
  pull_ok_ret ms eofs fa s evs obs = true.
Proof.
  intros V reduce veqb R HR ms eofs fa s evs obs st A G S.
  destruct (Z.eqb_spec s 6) as [E6|N6].
  2:{ eapply (pull_ret_sound_side V reduce veqb R HR); eauto.
      apply Z.eqb_neq in N6. rewrite N6. simpl. exact S. }
  destruct (Z.ltb_spec (fail_step fa obs) 0) as [F|F].
  { eapply (pull_judge_ret_sound_no_failed_send V reduce veqb R HR); eauto. }
  simpl in S. apply Nat.leb_le in S.
  (* as pull_judge_ret_sound_failed_send, with the Race theorem *)
  pose proof A as HA. unfold pobs_eqb in HA. rewrite !Bool.andb_true_iff in HA.
  destruct HA as [[[[[[HS HRt] HE] _] _] _] _]. simpl in HS, HRt, HE.
  apply (list_eqb_R V veqb R HR) in HS. apply Z.eqb_eq in HRt. apply Z.eqb_eq in HE.
  pose proof G as HG. unfold pull_guard in HG. rewrite !Bool.andb_true_iff in HG. destruct HG as [[_ GL] GN].
  apply Bool.negb_true_iff in GN. apply Nat.eqb_eq in GL.
  assert (HF : 0 <= fstep V fa (map (tr V) (p_sent st))).
  { change (fail_step fa obs) with (fstep V fa (po_sent obs)) in F. rewrite (fstep_R V R fa _ _ HS) in F. exact F. }
  assert (FA : 0 < fa).
  { unfold fstep in HF. destruct (Z.ltb_spec 0 fa); [auto|lia]. }
  assert (FN : p_failed st <> None).
  { intros E.
    pose proof (Inv_prun V reduce veqb ms fa evs 1 _ (Inv_pinit V ms fa s)) as I.
    change (TraitGroup.prun reduce veqb ms fa 1 (pinit ms s) evs) with st in I.
    destruct I as (_ & (B1 & B2) & C & _). specialize (C E). unfold fstep in HF.
    replace (0 <? fa) with true in HF by (symmetry; apply Z.ltb_lt; lia).
    rewrite nth_error_map in HF.
    destruct (nth_error (p_sent st) (Z.to_nat (fa - 1))) eqn:N; [|simpl in HF; lia].
    assert (nth_error (p_sent st) (Z.to_nat (fa - 1)) <> None) by congruence.
    apply nth_error_Some in H. lia. }
  destruct (pull_ret_after_failed_send_race V reduce veqb ms fa s E6 evs GN FN) as [f [F1 F2]]. fold st in F1, F2.
  assert (FS : fail_step fa obs = Z.of_nat f).
  { change (fail_step fa obs) with (fstep V fa (po_sent obs)). rewrite (fstep_R V R fa _ _ HS). exact F1. }
  unfold pull_ok_ret. rewrite FS.
  replace (0 <=? Z.of_nat f) with true by (symmetry; apply Z.leb_le; lia).
  destruct (rafs_err V ms fa s evs (Z.of_nat f)) as [K|K]; rewrite F2 in *; simpl in K.
  - rewrite HRt, HE. unfold retZ. simpl. rewrite Z.eqb_refl. simpl.
    destruct (p_ret st) as [[s' e]|]; [|reflexivity]. rewrite K. reflexivity.
  - rewrite HRt, HE. unfold retZ. simpl. rewrite Z.eqb_refl. simpl.
    destruct (p_ret st) as [[s' e]|]; [|reflexivity]. rewrite K. unfold perr, send_err.
    replace ((1000 <? 3000 + fa) && (3000 + fa <? 2000)) with false
      by (symmetry; apply Bool.andb_false_iff; right; apply Z.ltb_ge; lia).
    replace (3000 + fa <=? Z.of_nat (List.length eofs)) with false by (symmetry; apply Z.leb_gt; lia).
    rewrite Bool.andb_false_r. simpl. apply Z.eqb_refl.
Qed.

(* Every case - unary or Pull, any member list, strategy, fail_at, event list, observation - that agrees
   with the model and passes the guard satisfies the judge's closed form. *)
Theorem trait_judge_sound : forall c, tagrees c = true -> C17T_guard c = true -> C17T_ok c = true.
Proof.
  intros c A G. rewrite C17T_ok_split, (trait_judge_sound_partial c A G). simpl.
  destruct c as [tk w s ms vals order obs|s ms eofs fa evs obs|s ms eofs fa evs obs]; [reflexivity| |];
    cbn [tagrees C17T_guard C17T_ok_ret] in *.
  - eapply (pull_ret_sound Z onoff_reduce_p Z.eqb (@eq Z)); eauto; [intros a b; apply Z.eqb_eq|].
    unfold pull_guard in G. rewrite !Bool.andb_true_iff in G. destruct G as [[[[G _] _] _] _]. rewrite G.
    apply Bool.orb_true_r.
  - cbv zeta in A, G. rewrite Bool.andb_true_iff in G. destruct G as [G H]. rewrite H in A.
    eapply (pull_ret_sound Q light_reduce_p Qeq_bool Qeq); eauto; [intros a b; apply Qeq_bool_iff|].
    unfold pull_guard in G. rewrite !Bool.andb_true_iff in G. destruct G as [[[[G _] _] _] _]. rewrite G.
    apply Bool.orb_true_r.
Qed.

Example trait_judge_sound_race_nonvacuous :
  let ms := [mkM Fail false; mkM Fail false; mkM Fail false] in
  let evs := [EMsg 0%nat [(2, 7)]; EMsg 1%nat [(1, 8)]; EParent; EMsg 2%nat []; EEnd 1%nat] in
  let c := KPullOnOff 6 ms [false; true; false] 2 evs (pobs_of ms [false; true; false] (pull_onoff ms 2 6 evs)) in
  tagrees c = true /\ C17T_guard c = true /\ C17T_ok c = true /\ no_failed_send c = false /\
  po_ret (pobs_of ms [false; true; false] (pull_onoff ms 2 6 evs)) = 4.
Proof. vm_compute. repeat split; reflexivity. Qed.
