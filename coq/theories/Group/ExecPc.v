(* Group calls under an event list that may contain a cancellation of the PARENT context
   (the ctx argument of Execute / ExecuteUpTo / ExecuteOne / ExecuteFast / ExecuteRace cancelled
   from outside), and the sequence of responses that reached the receiving loop (the trace).

   Events, one per step:  [ERel i]  member i is allowed to finish (its gate is opened);
                          [EPar]    the parent context is cancelled.
   [pre = true]: the parent context is already cancelled when the call is made (step 0).

   The parallel strategies reuse [deliver] / [recv] / [settle] / [member_returns] of Group/Exec.v
   unchanged; [release_t], [flush_t] are [release], [flush] of Exec.v carrying the trace along
   (Group/ExecPcProofs.v proves that forgetting the trace gives back exactly Exec.v's functions, so
   an event list without [EPar] is the old model).  A parent cancellation cancels the derived
   context too: if it is not cancelled yet, every cancellation-aware member still running returns
   its context error (in index order, as in [flush]) and the channel closes if nobody is left.

   ExecuteOne calls the members on the caller's goroutine with the parent context itself: a
   cancellation-aware member returns the context error as soon as the parent is cancelled (at once
   if it is invoked after the cancellation), a context-ignoring member waits for its gate.

   No proofs in this file. *)
From SC Require Import Base.Prelude Group.Exec.

Inductive ev := ERel (i : nat) | EPar.

Record tworld := mkT { t_w : world; t_tr : list resp }.

Definition on_w (f : world -> world) (tw : tworld) : tworld := mkT (f (t_w tw)) (t_tr tw).

(* a response is offered on the channel; it is received (and recorded in the trace) when the loop
   is still running *)
Definition deliver_t (s : nat) (tw : tworld) (r : resp) : tworld * bool :=
  let w := t_w tw in
  (mkT (fst (deliver s w r)) (if is_done (w_cons w) then t_tr tw else t_tr tw ++ [r]),
   snd (deliver s w r)).

Definition flush_one_t (s : nat) (ms : list member) (tw : tworld) (j : nat) : tworld :=
  let w := t_w tw in
  if nth j (w_live w) false && aware_at ms j then
    let w1 := mkW (w_cons w) (w_cancel w) (w_ret w) (set_nth j false (w_live w))
                  (set_nth j (Z.of_nat s) (w_saw w)) (w_lost w) in
    fst (deliver_t s (mkT w1 (t_tr tw)) (cancel_resp j))
  else tw.
Definition flush_t (s : nat) (ms : list member) (tw : tworld) : tworld :=
  fold_left (flush_one_t s ms) (seq 0 (List.length ms)) tw.

Definition release_t (ms : list member) (tw : tworld) (s : nat) (i : nat) : tworld :=
  if nth i (w_live (t_w tw)) false then
    let '(tw1, c) := deliver_t s (on_w (member_returns i) tw) (own_resp ms i) in
    let tw2 := match w_cancel (t_w tw1) with
               | None => if c then flush_t s ms (on_w (set_cancel s) tw1) else tw1
               | Some _ => tw1
               end in
    on_w (settle s) tw2
  else tw.

(* the parent context is cancelled at step s *)
Definition pcancel_t (ms : list member) (tw : tworld) (s : nat) : tworld :=
  match w_cancel (t_w tw) with
  | None => on_w (settle s) (flush_t s ms (on_w (set_cancel s) tw))
  | Some _ => tw
  end.

Definition step_t (ms : list member) (tw : tworld) (s : nat) (e : ev) : tworld :=
  match e with ERel i => release_t ms tw s i | EPar => pcancel_t ms tw s end.

Fixpoint run_t (ms : list member) (tw : tworld) (s : nat) (evs : list ev) : tworld :=
  match evs with
  | [] => tw
  | e :: t => run_t ms (step_t ms tw s e) (S s) t
  end.

Definition start_t (c : rcv) (ms : list member) (pre : bool) : tworld :=
  let tw0 := mkT (init_world c (List.length ms)) [] in
  on_w (settle 0) (if pre then flush_t 0 ms (on_w (set_cancel 0) tw0) else tw0).

Definition run_par_t (c : rcv) (ms : list member) (pre : bool) (evs : list ev) : tworld :=
  run_t ms (start_t c ms pre) 1 evs.

(* ---- the receiving loop as a function of the trace ---- *)
Fixpoint consume (c : rcv) (rs : list resp) : rcv :=
  match rs with
  | [] => c
  | r :: t => if is_done c then c else consume (fst (recv c r)) t
  end.

Definition ret_of (c : rcv) : ret := match c with CDone r => r | _ => RHang end.

(* what the call returns once it has returned, as a function of the responses it received *)
Definition trace_ret (c0 : rcv) (tr : list resp) : ret :=
  let c := consume c0 tr in if is_done c then ret_of c else closed c.

(* ---- ExecuteOne under events ---- *)
Record oworld := mkO {
  o_cur : nat;               (* index of the member being called (= n: the loop is over) *)
  o_done : option ret;
  o_first : Z;               (* firstErr *)
  o_retstep : option nat;
  o_saw : list Z;
  o_open : list bool;        (* gates opened so far *)
  o_par : option nat         (* step at which the parent context was cancelled *)
}.

Definition is_some {A} (o : option A) : bool := match o with Some _ => true | None => false end.

Fixpoint one_adv (fuel : nat) (ms : list member) (s : nat) (o : oworld) : oworld :=
  match fuel with
  | O => o
  | S f =>
      match o_done o with
      | Some _ => o
      | None =>
          let i := o_cur o in
          if (List.length ms <=? i)%nat
          then mkO i (Some (RSingle 0 0 (o_first o))) (o_first o) (Some s) (o_saw o) (o_open o) (o_par o)
          else if is_some (o_par o) && aware_at ms i
          then one_adv f ms s (mkO (S i) None (if (i =? 0)%nat then cancel_err i else o_first o) None
                                   (set_nth i (Z.of_nat s) (o_saw o)) (o_open o) (o_par o))
          else if nth i (o_open o) false
          then if is_ok (out_at ms i)
               then mkO i (Some (RSingle (zi i) (Z.of_nat i) 0)) (o_first o) (Some s) (o_saw o) (o_open o) (o_par o)
               else one_adv f ms s (mkO (S i) None (if (i =? 0)%nat then err_of i (out_at ms i) else o_first o) None
                                        (o_saw o) (o_open o) (o_par o))
          else o
      end
  end.

Definition one_step (ms : list member) (o : oworld) (s : nat) (e : ev) : oworld :=
  let o1 := match e with
            | ERel i => mkO (o_cur o) (o_done o) (o_first o) (o_retstep o) (o_saw o) (set_nth i true (o_open o)) (o_par o)
            | EPar => mkO (o_cur o) (o_done o) (o_first o) (o_retstep o) (o_saw o) (o_open o)
                          (match o_par o with None => Some s | x => x end)
            end in
  one_adv (S (S (List.length ms))) ms s o1.

Fixpoint one_run (ms : list member) (o : oworld) (s : nat) (evs : list ev) : oworld :=
  match evs with
  | [] => o
  | e :: t => one_run ms (one_step ms o s e) (S s) t
  end.

Definition one_result_ev (ms : list member) (pre : bool) (evs : list ev) : result :=
  let n := List.length ms in
  let o0 := mkO 0 None 0 None (repeat (-1) n) (repeat false n) (if pre then Some 0%nat else None) in
  let o := one_run ms (one_adv (S (S n)) ms 0 o0) 1 evs in
  let invoked := Nat.min (S (o_cur o)) n in
  mkRes (match o_done o with Some r => r | None => RHang end)
        (map Z.of_nat (seq 0 invoked))
        (match n with O => -1 | _ => optZ (o_par o) end)
        (optZ (o_retstep o)) (o_saw o) 0.

(* ---- results ---- *)
Definition par_result_ev (ms : list member) (tw : tworld) : result := par_result true ms (t_w tw).

Definition exec_ev (a : api) (ms : list member) (pre : bool) (evs : list ev) : result :=
  let n := List.length ms in
  let par c := par_result_ev ms (run_par_t c ms pre evs) in
  match a with
  | AUpTo k => par (CUpTo k (empty_upto n))
  | AOne => one_result_ev ms pre evs
  | AFast => par (CFast None)
  | ARace => par CRace
  | AExecute s =>
      if s =? 2 then par (CUpTo (Z.of_nat n / 2) (empty_upto n))
      else if s =? 3 then par (CUpTo (Z.of_nat n - 1) (empty_upto n))
      else if s =? 4 then with_ret (place n) (one_result_ev ms pre evs)
      else if s =? 5 then with_ret (place n) (par (CFast None))
      else if s =? 6 then with_ret (place n) (par CRace)
      else par (CUpTo 0 (empty_upto n))
  end.

(* the initial state of the receiving loop of a parallel API *)
Definition loop_of (a : api) (n : nat) : option rcv :=
  match a with
  | AUpTo k => Some (CUpTo k (empty_upto n))
  | AOne => None
  | AFast => Some (CFast None)
  | ARace => Some CRace
  | AExecute s =>
      if s =? 2 then Some (CUpTo (Z.of_nat n / 2) (empty_upto n))
      else if s =? 3 then Some (CUpTo (Z.of_nat n - 1) (empty_upto n))
      else if s =? 4 then None
      else if s =? 5 then Some (CFast None)
      else if s =? 6 then Some CRace
      else Some (CUpTo 0 (empty_upto n))
  end.

(* the laws of the three loops, in closed form over a received sequence *)
Definition is_err (r : resp) : bool := negb (r_err r =? 0).
Definition count_err (tr : list resp) : Z := zlen (filter is_err tr).
Definition first_err_of (tr : list resp) : Z :=
  match find is_err tr with Some r => r_err r | None => 0 end.
Definition slots (n : nat) (tr : list resp) : list Z :=
  fold_left (fun res r => set_nth (r_i r) (r_msg r) res) tr (repeat 0 n).

Definition upto_law (k : Z) (n : nat) (tr : list resp) : ret :=
  RSlice (slots n tr) (if k <? count_err tr then first_err_of tr else 0).
Definition fast_law (tr : list resp) : ret :=
  match find (fun r => negb (is_err r)) tr with
  | Some r => RSingle (r_msg r) (Z.of_nat (r_i r)) 0
  | None => match find is_err tr with
            | Some r => RSingle 0 (Z.of_nat (r_i r)) (r_err r)
            | None => RSingle 0 0 no_members_err
            end
  end.
Definition race_law (tr : list resp) : ret :=
  match tr with
  | [] => RSingle 0 0 no_members_err
  | r :: _ => RSingle (r_msg r) (Z.of_nat (r_i r)) (r_err r)
  end.
