(* The reducers of the Pull loops (accumulator starting nil) against the closed forms the judge
   uses (TraitGroupJudge.v: onoff_spec_p, light_spec_p). *)
From Coq Require Import QArith.
From SC Require Import Base.Prelude Group.Exec Group.C17Judge Group.TraitGroup Group.TraitGroupJudge
  Group.TraitGroupProofs.
Open Scope Z_scope.

Lemma onoff_fold_p_some : forall sl a,
  fold_left onoff_acc_p sl (Some a) = Some (fold_left onoff_acc sl a).
Proof.
  induction sl as [|o t IH]; intros a; [reflexivity|].
  destruct o as [v|]; simpl; apply IH.
Qed.

Lemma onoff_step_zero : forall v, onoff_step 0 v = v.
Proof. intros v. unfold onoff_step. reflexivity. Qed.

Lemma onoff_fold_p_none : forall sl,
  fold_left onoff_acc_p sl None = if existsb is_some sl then Some (fold_left onoff_acc sl 0) else None.
Proof.
  induction sl as [|o t IH]; [reflexivity|].
  destruct o as [v|]; simpl.
  - rewrite onoff_fold_p_some, onoff_step_zero. reflexivity.
  - exact IH.
Qed.

(* reduceOnOffChanges: nothing while no member has reported, then the same closed form as the unary
   reducer over the members that have *)
Theorem onoff_reduce_p_closed_form : forall sl, onoff_reduce_p sl = onoff_spec_p sl.
Proof.
  intros sl. unfold onoff_reduce_p, onoff_spec_p. rewrite onoff_fold_p_none.
  destruct (existsb is_some sl); [|reflexivity].
  f_equal. exact (onoff_reduce_closed_form sl).
Qed.

Definition oq_eq (a b : option Q) : Prop :=
  match a, b with
  | Some x, Some y => (x == y)%Q
  | None, None => True
  | _, _ => False
  end.

Lemma light_fold_p_some : forall sl i a,
  light_fold_p i (Some a) sl = Some (light_fold i a sl).
Proof.
  induction sl as [|o t IH]; intros i a; [reflexivity|].
  destruct o as [v|]; simpl; apply IH.
Qed.

Lemma light_fold_p_none : forall sl i, oq_eq (light_fold_p i None sl) (light_spec_p_from i sl).
Proof.
  induction sl as [|o t IH]; intros i; [exact I|].
  destruct o as [v|]; simpl.
  - rewrite light_fold_p_some. simpl. apply light_fold_weighted.
  - apply IH.
Qed.

(* reduceBrightnessChanges: the first member that has reported is copied whatever its index, the later
   ones are folded in with the index-weighted step:  v0 * prod_{k>i0} k/(k+1) + sum_{j>i0} v_j/(j+1) * prod_{k>j} k/(k+1) *)
Theorem light_reduce_p_closed_form : forall sl, oq_eq (light_reduce_p sl) (light_spec_p sl).
Proof. intros sl. apply light_fold_p_none. Qed.
