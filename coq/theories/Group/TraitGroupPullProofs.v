From Coq Require Import QArith Permutation.
From SC Require Import Base.Prelude Group.Exec Group.C17Judge Group.ExecLemmas Group.ExecProofs Group.ExecAwareProofs Group.ContractProofs Group.TraitGroup Group.TraitGroupJudge.
Open Scope Z_scope.

(* Theorems about a Pull call of a trait group for ALL event lists: invariants of [pinit]/[pstep],
   carried through [prun] by induction. *)

(* ================= the world: Execute on its own goroutine ================= *)
Definition is_some {A} (o : option A) : bool := match o with Some _ => true | None => false end.

(* the loop has returned iff a return step is recorded *)
Definition WI0 (w : world) : Prop := is_done (w_cons w) = is_some (w_ret w).
(* every member has returned -> the call is done *)
Definition WI1 (w : world) : Prop := forallb negb (w_live w) = true -> is_done (w_cons w) = true.

(* one operation of step s: a recorded return is frozen, a new one is recorded as s *)
Definition step_rel (s : nat) (w w' : world) : Prop :=
  match w_ret w with
  | Some x => w_ret w' = Some x /\ w_cons w' = w_cons w
  | None => w_ret w' = None \/ w_ret w' = Some s
  end.

Lemma step_rel_refl : forall s w, step_rel s w w.
Proof. intros s w. unfold step_rel. destruct (w_ret w); auto. Qed.

Lemma step_rel_trans : forall s a b c, step_rel s a b -> step_rel s b c -> step_rel s a c.
Proof.
  intros s a b c. unfold step_rel. destruct (w_ret a) as [x|].
  - intros [H1 H2]. rewrite H1. intros [H3 H4]. split; congruence.
  - intros [H|H]; rewrite H; auto. intros [H3 _]. auto.
Qed.

Lemma deliver_wi : forall s w r, WI0 w ->
  WI0 (fst (deliver s w r)) /\ step_rel s w (fst (deliver s w r)).
Proof.
  intros s w r H. unfold WI0, step_rel, deliver in *.
  destruct (is_done (w_cons w)) eqn:D.
  - simpl. rewrite D. split; auto. destruct (w_ret w); simpl in H; [auto|discriminate].
  - destruct (recv (w_cons w) r) as [c b]. destruct (w_ret w) as [x|] eqn:R; simpl in H; [discriminate|].
    destruct (is_done c) eqn:Dc; simpl; rewrite ?Dc, ?R; simpl; auto.
Qed.

Lemma flush_one_wi : forall s ms w j, WI0 w ->
  WI0 (flush_one s ms w j) /\ step_rel s w (flush_one s ms w j).
Proof.
  intros s ms w j H. unfold flush_one.
  destruct (nth j (w_live w) false && aware_at ms j).
  - exact (deliver_wi s (mkW (w_cons w) (w_cancel w) (w_ret w) (set_nth j false (w_live w))
                             (set_nth j (Z.of_nat s) (w_saw w)) (w_lost w)) (cancel_resp j) H).
  - split; auto. apply step_rel_refl.
Qed.

Lemma flush_fold_wi : forall s ms l w, WI0 w ->
  WI0 (fold_left (flush_one s ms) l w) /\ step_rel s w (fold_left (flush_one s ms) l w).
Proof.
  intros s ms l. induction l as [|h t IH]; intros w H; simpl.
  - split; auto. apply step_rel_refl.
  - destruct (flush_one_wi s ms w h H) as [F0 FS].
    destruct (IH _ F0) as [G0 GS]. split; auto. eapply step_rel_trans; eauto.
Qed.

Lemma flush_wi : forall s ms w, WI0 w -> WI0 (flush s ms w) /\ step_rel s w (flush s ms w).
Proof. intros s ms w H. unfold flush. apply flush_fold_wi. auto. Qed.

Lemma settle_wi : forall s w, WI0 w ->
  WI0 (settle s w) /\ WI1 (settle s w) /\ step_rel s w (settle s w).
Proof.
  intros s w H. unfold settle. destruct (is_done (w_cons w)) eqn:D.
  - split; auto. split; [unfold WI1; auto|apply step_rel_refl].
  - destruct (forallb negb (w_live w)) eqn:F.
    + split; [unfold WI0; reflexivity|]. split; [unfold WI1; simpl; auto|].
      unfold step_rel. unfold WI0 in H. rewrite D in H.
      destruct (w_ret w); simpl in H; [discriminate|]. simpl. auto.
    + split; auto. split; [unfold WI1; rewrite F; discriminate|apply step_rel_refl].
Qed.

Lemma release_resp_wi : forall ms w s i r, WI0 w -> WI1 w ->
  WI0 (release_resp ms w s i r) /\ WI1 (release_resp ms w s i r) /\ step_rel s w (release_resp ms w s i r).
Proof.
  intros ms w s i r H0 H1. unfold release_resp.
  destruct (nth i (w_live w) false).
  2:{ split; auto. split; auto. apply step_rel_refl. }
  destruct (deliver_wi s (member_returns i w) r H0) as [D0 DS].
  change (step_rel s w (fst (deliver s (member_returns i w) r))) in DS.
  destruct (deliver s (member_returns i w) r) as [w1 c]. simpl in D0, DS.
  assert (W2 : forall w2, WI0 w2 -> step_rel s w1 w2 ->
               WI0 (settle s w2) /\ WI1 (settle s w2) /\ step_rel s w (settle s w2)).
  { intros w2 A B. destruct (settle_wi s w2 A) as [S0 [S1 SS]]. split; auto. split; auto.
    eapply step_rel_trans; [exact DS|]. eapply step_rel_trans; eauto. }
  destruct (w_cancel w1).
  - apply W2; auto. apply step_rel_refl.
  - destruct c.
    + destruct (flush_wi s ms (set_cancel s w1) D0) as [F0 FS]. apply W2; auto.
    + apply W2; auto. apply step_rel_refl.
Qed.

Lemma release_is_resp : forall ms w s i, release ms w s i = release_resp ms w s i (own_resp ms i).
Proof. reflexivity. Qed.

Lemma cancel_ctx_wi : forall ms s w, WI0 w -> WI1 w ->
  WI0 (cancel_ctx ms s w) /\ WI1 (cancel_ctx ms s w) /\ step_rel s w (cancel_ctx ms s w).
Proof.
  intros ms s w H0 H1. unfold cancel_ctx. destruct (w_cancel w).
  - split; auto. split; auto. apply step_rel_refl.
  - destruct (flush_wi s ms (set_cancel s w) H0) as [F0 FS].
    destruct (settle_wi s _ F0) as [S0 [S1 SS]]. split; auto. split; auto.
    eapply step_rel_trans; [exact FS|exact SS].
Qed.

Lemma cons_of_not_done : forall s n, is_done (cons_of s n) = false.
Proof.
  intros s n. unfold cons_of.
  destruct (s =? 2); [reflexivity|]. destruct (s =? 3); [reflexivity|].
  destruct (s =? 5); [reflexivity|]. destruct (s =? 6); reflexivity.
Qed.

Lemma exec_err_ext : forall w w', w_cons w' = w_cons w -> exec_err w' = exec_err w.
Proof. intros w w' H. unfold exec_err. rewrite H. reflexivity. Qed.

(* ================= histories ================= *)
Definition changes_of {V} (n : nat) (hist : list (nat * V)) : list (option V) := map (latest hist) (seq 0 n).

Lemma latest_snoc : forall V (hist : list (nat * V)) i v j,
  latest (hist ++ [(i, v)]) j = if Nat.eqb i j then Some v else latest hist j.
Proof. intros V hist i v j. unfold latest. rewrite rev_unit. simpl. destruct (Nat.eqb i j); reflexivity. Qed.

Lemma changes_of_length : forall V n (hist : list (nat * V)), List.length (changes_of n hist) = n.
Proof. intros V n hist. unfold changes_of. rewrite map_length, seq_length. reflexivity. Qed.

Lemma changes_of_nil : forall V n, changes_of n (@nil (nat * V)) = repeat None n.
Proof.
  intros V n. unfold changes_of. generalize 0%nat. induction n as [|n IH]; intros a; simpl; [auto|].
  f_equal. apply IH.
Qed.

Lemma set_nth_changes : forall V n (hist : list (nat * V)) i v,
  set_nth i (Some v) (changes_of n hist) = changes_of n (hist ++ [(i, v)]).
Proof.
  intros V n hist i v. apply (list_ext _ None).
  - rewrite set_nth_length, !changes_of_length. reflexivity.
  - intros j Hj. rewrite set_nth_length, changes_of_length in Hj.
    rewrite nth_set_nth, changes_of_length. unfold changes_of. rewrite !nth_map_seq by auto.
    rewrite latest_snoc.
    destruct (Nat.eqb_spec j i) as [->|N].
    + rewrite Nat.eqb_refl. destruct (Nat.ltb_spec i n); [reflexivity|lia].
    + simpl. destruct (Nat.eqb_spec i j); [congruence|reflexivity].
Qed.

Lemma firstn_app_le : forall A (l x : list A) k, (k <= List.length l)%nat -> firstn k (l ++ x) = firstn k l.
Proof.
  intros A l x k H. rewrite firstn_app. replace (k - List.length l)%nat with 0%nat by lia.
  simpl. apply app_nil_r.
Qed.

Lemma nth_error_last_rev : forall A (l : list A) k x,
  nth_error l k = Some x -> S k = List.length l -> exists r, rev l = x :: r.
Proof.
  intros A l k x H L. apply nth_error_split in H as [l1 [l2 [E K]]]. subst l.
  rewrite app_length in L. simpl in L. destruct l2 as [|y l2]; [|simpl in L; lia].
  exists (rev l1). apply rev_unit.
Qed.

(* ================= the Pull state ================= *)
Section PullProofs.
Variable V : Type.
Variable reduce : list (option V) -> option V.
Variable veqb : V -> V -> bool.
Variable ms : list member.
Variable fail_at : Z.

Definition RetOK (st : pstate V) : Prop :=
  match p_ret st with
  | None => w_ret (p_w st) = None
  | Some (s, e) => w_ret (p_w st) = Some s /\
                   e = match p_failed st with Some e' => e' | None => exec_err (p_w st) end
  end.

(* before [check_ret] of step s *)
Definition PreOK (s : nat) (st : pstate V) : Prop :=
  match p_ret st with
  | None => w_ret (p_w st) = None \/ w_ret (p_w st) = Some s
  | Some (s0, e) => w_ret (p_w st) = Some s0 /\
                    e = match p_failed st with Some e' => e' | None => exec_err (p_w st) end
  end.

Definition PI2 (st : pstate V) : Prop := WI0 (p_w st) /\ WI1 (p_w st) /\ RetOK st.

Lemma check_ret_w : forall s (st : pstate V), p_w (check_ret s st) = p_w st.
Proof. intros s st. unfold check_ret. destruct (p_ret st); [|destruct (w_ret (p_w st))]; reflexivity. Qed.

Lemma check_ret_failed : forall s (st : pstate V), p_failed (check_ret s st) = p_failed st.
Proof. intros s st. unfold check_ret. destruct (p_ret st); [|destruct (w_ret (p_w st))]; reflexivity. Qed.

Lemma check_ret_ret : forall s (st : pstate V),
  p_ret (check_ret s st) =
  match p_ret st with
  | Some x => Some x
  | None => match w_ret (p_w st) with
            | None => None
            | Some _ => Some (s, match p_failed st with Some e => e | None => exec_err (p_w st) end)
            end
  end.
Proof.
  intros s st. unfold check_ret. destruct (p_ret st) eqn:R; [auto|].
  destruct (w_ret (p_w st)); simpl; auto.
Qed.

Lemma check_ret_ok : forall s st, WI0 (p_w st) -> WI1 (p_w st) -> PreOK s st -> PI2 (check_ret s st).
Proof.
  intros s st H0 H1 HP. unfold PI2, RetOK.
  rewrite check_ret_w, check_ret_failed, check_ret_ret.
  split; auto. split; auto. unfold PreOK in HP.
  destruct (p_ret st) as [[s0 e]|]; auto.
  destruct HP as [HP|HP]; rewrite HP; auto.
Qed.

Lemma pre_ok_of_step : forall s st st1, PI2 st -> step_rel s (p_w st) (p_w st1) ->
  p_ret st1 = p_ret st -> (p_ret st <> None -> p_failed st1 = p_failed st) -> PreOK s st1.
Proof.
  intros s st st1 [_ [_ HR]] HS ER EF. unfold PreOK, RetOK, step_rel in *. rewrite ER.
  destruct (p_ret st) as [[s0 e]|].
  - destruct HR as [R1 R2]. rewrite R1 in HS. destruct HS as [S1 S2].
    split; auto. rewrite EF by discriminate. rewrite (exec_err_ext _ _ S2). auto.
  - rewrite HR in HS. auto.
Qed.

Lemma inv_nondet : forall s st, PI2 st -> PI2 (check_ret s (nondet st)).
Proof.
  intros s st H. pose proof H as [H0 [H1 _]]. apply check_ret_ok; auto.
  apply (pre_ok_of_step s st); auto. apply step_rel_refl.
Qed.

Lemma inv_with_w : forall s st w', PI2 st -> WI0 w' -> WI1 w' -> step_rel s (p_w st) w' ->
  PI2 (check_ret s (with_w st w')).
Proof.
  intros s st w' H A B C. apply check_ret_ok; auto. apply (pre_ok_of_step s st); auto.
Qed.

Lemma main_recv_world : forall s st i chs,
  p_ret (main_recv reduce veqb ms fail_at s st i chs) = p_ret st /\
  (p_w (main_recv reduce veqb ms fail_at s st i chs) = p_w st \/
   p_w (main_recv reduce veqb ms fail_at s st i chs) = cancel_ctx ms s (p_w st)).
Proof.
  intros s st i chs. unfold main_recv. destruct (rev chs) as [|[v t] l]; [auto|].
  destruct (option_eqb veqb (p_last st) _); [simpl; auto|].
  destruct (reduce _); [|simpl; auto].
  destruct (_ =? fail_at); simpl; auto.
Qed.

Lemma listening_ret : forall st : pstate V, listening st = true -> p_ret st = None.
Proof. intros st. unfold listening. destruct (p_ret st); [discriminate|auto]. Qed.

Lemma inv_main_recv : forall s st i chs, PI2 st -> listening st = true ->
  PI2 (check_ret s (main_recv reduce veqb ms fail_at s st i chs)).
Proof.
  intros s st i chs H L. pose proof H as [H0 [H1 _]]. apply listening_ret in L.
  destruct (main_recv_world s st i chs) as [ER EW].
  destruct (cancel_ctx_wi ms s (p_w st) H0 H1) as [C0 [C1 CS]].
  assert (EF : p_ret st <> None -> p_failed (main_recv reduce veqb ms fail_at s st i chs) = p_failed st)
    by (intros N; congruence).
  destruct EW as [EW|EW].
  - apply check_ret_ok; [rewrite EW; exact H0|rewrite EW; exact H1|].
    apply (pre_ok_of_step s st _ H); [rewrite EW; apply step_rel_refl|exact ER|exact EF].
  - apply check_ret_ok; [rewrite EW; exact C0|rewrite EW; exact C1|].
    apply (pre_ok_of_step s st _ H); [rewrite EW; exact CS|exact ER|exact EF].
Qed.

Lemma pstep_PI2 : forall s st ev, PI2 st -> PI2 (pstep reduce veqb ms fail_at s st ev).
Proof.
  intros s st ev H. pose proof H as [H0 [H1 _]]. unfold pstep.
  destruct ev as [i chs|i|].
  - destruct (nth i (w_live (p_w st)) false); [|apply inv_nondet; auto].
    destruct (listening st) eqn:L.
    + destruct (w_cancel (p_w st)); [apply inv_nondet; auto|apply inv_main_recv; auto].
    + destruct (w_cancel (p_w st)); [|apply inv_nondet; auto].
      destruct (release_resp_wi ms (p_w st) s i (mkR i 0 bare_cancel_err) H0 H1) as [A [B C]].
      apply inv_with_w; auto.
  - destruct (nth i (w_live (p_w st)) false); [|apply inv_nondet; auto].
    rewrite release_is_resp.
    destruct (release_resp_wi ms (p_w st) s i (own_resp ms i) H0 H1) as [A [B C]].
    apply inv_with_w; auto.
  - destruct (cancel_ctx_wi ms s (p_w st) H0 H1) as [A [B C]]. apply inv_with_w; auto.
Qed.

Lemma pinit_PI2 : forall strategy, PI2 (pinit (V:=V) ms strategy).
Proof.
  intros strategy. unfold pinit.
  set (n := List.length ms).
  assert (I0 : WI0 (init_world (cons_of strategy n) n)).
  { unfold WI0, init_world. simpl. apply cons_of_not_done. }
  destruct (settle_wi 0 _ I0) as [S0 [S1 SS]].
  apply check_ret_ok; [exact S0|exact S1|]. unfold PreOK. simpl. unfold step_rel in SS. simpl in SS. exact SS.
Qed.

Lemma prun_inv : forall (P : pstate V -> Prop),
  (forall s st ev, P st -> P (pstep reduce veqb ms fail_at s st ev)) ->
  forall evs s st, P st -> P (prun reduce veqb ms fail_at s st evs).
Proof.
  intros P HP evs. induction evs as [|e t IH]; intros s st H; simpl; auto.
Qed.

Lemma pull_PI2 : forall strategy evs, PI2 (pull reduce veqb ms fail_at strategy evs).
Proof.
  intros strategy evs. unfold pull. apply prun_inv; [apply pstep_PI2|apply pinit_PI2].
Qed.

(* T2 *)
Theorem pull_returns_with_execute_s : forall strategy evs,
  let st := pull reduce veqb ms fail_at strategy evs in
  match p_ret st with
  | None => w_ret (p_w st) = None
  | Some (s, e) => w_ret (p_w st) = Some s /\
                   e = match p_failed st with Some e' => e' | None => exec_err (p_w st) end
  end.
Proof. intros strategy evs. cbv zeta. destruct (pull_PI2 strategy evs) as [_ [_ H]]. exact H. Qed.

(* T3 *)
Theorem pull_returns_once_members_returned_s : forall strategy evs,
  let st := pull reduce veqb ms fail_at strategy evs in
  forallb negb (w_live (p_w st)) = true -> p_ret st <> None.
Proof.
  intros strategy evs. cbv zeta. destruct (pull_PI2 strategy evs) as [H0 [H1 HR]].
  intros D E. apply H1 in D. unfold WI0 in H0. rewrite D in H0.
  unfold RetOK in HR. rewrite E in HR. rewrite HR in H0. discriminate.
Qed.

Theorem pull_failed_send_waits_s : forall strategy evs e,
  let st := pull reduce veqb ms fail_at strategy evs in
  p_failed st = Some e ->
  (p_ret st = None <-> w_ret (p_w st) = None) /\ forall s e', p_ret st = Some (s, e') -> e' = e.
Proof.
  intros strategy evs e. cbv zeta. intros F.
  pose proof (pull_returns_with_execute_s strategy evs) as H. cbv zeta in H.
  destruct (p_ret (pull reduce veqb ms fail_at strategy evs)) as [[s0 e0]|].
  - destruct H as [R E]. rewrite F in E. split.
    + split; [discriminate|]. rewrite R. discriminate.
    + intros s e' Q. inversion Q; subst. reflexivity.
  - split; [tauto|]. intros s e' Q. discriminate.
Qed.

(* ---------------- T1: what is sent ---------------- *)
Local Notation n := (List.length ms).

Definition sent_A (hist : list (nat * V)) (m : psent V) : Prop :=
  (1 <= s_at m <= List.length hist)%nat /\ reduce (changes_of n (firstn (s_at m) hist)) = Some (s_val m).
Definition none_between (hist : list (nat * V)) (a b : nat) : Prop :=
  exists j, (a < j < b)%nat /\ reduce (changes_of n (firstn j hist)) = None.
Definition sent_B (hist : list (nat * V)) (m' m : psent V) : Prop :=
  (s_at m' < s_at m)%nat /\ (veqb (s_val m') (s_val m) = false \/ none_between hist (s_at m') (s_at m)).
Definition sent_ok (hist : list (nat * V)) (sent : list (psent V)) : Prop :=
  forall k m, nth_error sent k = Some m ->
    sent_A hist m /\
    match k with O => True | S k' => forall m', nth_error sent k' = Some m' -> sent_B hist m' m end.
Definition last_ok (hist : list (nat * V)) (last : option V) (sent : list (psent V)) : Prop :=
  match rev sent with
  | [] => True
  | m' :: _ => last = Some (s_val m') \/ none_between hist (s_at m') (S (List.length hist))
  end.
Definition PI1 (st : pstate V) : Prop :=
  p_changes st = changes_of n (p_hist st) /\ sent_ok (p_hist st) (p_sent st) /\
  last_ok (p_hist st) (p_last st) (p_sent st).

Lemma sent_A_ext : forall hist x m, sent_A hist m -> sent_A (hist ++ x) m.
Proof.
  intros hist x m [A1 A2]. unfold sent_A. rewrite app_length. split; [lia|].
  rewrite firstn_app_le by lia. exact A2.
Qed.

Lemma none_between_ext : forall hist x a b b', none_between hist a b ->
  (b <= S (List.length hist))%nat -> (b <= b')%nat -> none_between (hist ++ x) a b'.
Proof.
  intros hist x a b b' [j [J1 J2]] B1 B2. exists j. split; [lia|].
  rewrite firstn_app_le by lia. exact J2.
Qed.

Lemma sent_B_ext : forall hist x m' m, sent_B hist m' m -> (s_at m <= List.length hist)%nat ->
  sent_B (hist ++ x) m' m.
Proof.
  intros hist x m' m [B1 B2] L. split; auto. destruct B2 as [B2|B2]; [left; auto|right].
  apply (none_between_ext hist x _ (s_at m)); auto; lia.
Qed.

Lemma sent_ok_ext : forall hist x sent, sent_ok hist sent -> sent_ok (hist ++ x) sent.
Proof.
  intros hist x sent H k m Hk. destruct (H k m Hk) as [A B]. split; [apply sent_A_ext; auto|].
  destruct k as [|k']; auto. intros m' Hm'. apply sent_B_ext; auto. destruct A as [A _]. lia.
Qed.

Lemma last_ok_ext : forall hist p last sent, last_ok hist last sent -> last_ok (hist ++ [p]) last sent.
Proof.
  intros hist p last sent. unfold last_ok. destruct (rev sent) as [|m' r]; auto.
  intros [H|H]; [left; auto|right].
  apply (none_between_ext hist [p] _ (S (List.length hist))); auto.
  rewrite app_length. simpl. lia.
Qed.

Lemma main_recv_PI1 : forall s st i chs, PI1 st -> PI1 (main_recv reduce veqb ms fail_at s st i chs).
Proof.
  intros s st i chs [HC [HS HL]]. unfold main_recv.
  destruct (rev chs) as [|[v t] l]; [split; auto|]. cbv zeta.
  rewrite HC, set_nth_changes.
  set (hist' := p_hist st ++ [(i, v)]).
  assert (LH : List.length hist' = S (List.length (p_hist st))).
  { unfold hist'. rewrite app_length. simpl. lia. }
  destruct (option_eqb veqb (p_last st) (reduce (changes_of n hist'))) eqn:E.
  - unfold PI1. simpl. split; [reflexivity|]. split; [apply sent_ok_ext; auto|apply last_ok_ext; auto].
  - destruct (reduce (changes_of n hist')) as [nv|] eqn:R.
    + set (m0 := mkSent (Z.of_nat s) nv t (List.length hist')).
      assert (X : sent_ok hist' (p_sent st ++ [m0])).
      { intros k m Hk. destruct (Nat.lt_ge_cases k (List.length (p_sent st))) as [Lk|Lk].
        - rewrite nth_error_app1 in Hk by auto. destruct (HS k m Hk) as [A B].
          split; [apply sent_A_ext; auto|]. destruct k as [|k']; auto. intros m' Hm'.
          rewrite nth_error_app1 in Hm' by lia. apply sent_B_ext; auto. destruct A as [A _]. lia.
        - rewrite nth_error_app2 in Hk by auto.
          destruct (k - List.length (p_sent st))%nat as [|d] eqn:D; simpl in Hk;
            [|destruct d; discriminate].
          inversion Hk; subst m. split.
          + unfold sent_A. simpl s_at. simpl s_val. split; [lia|]. rewrite firstn_all. exact R.
          + destruct k as [|k']; auto. intros m' Hm'.
            assert (EK : S k' = List.length (p_sent st)) by lia.
            rewrite nth_error_app1 in Hm' by lia.
            destruct (nth_error_last_rev _ _ _ _ Hm' EK) as [r Er].
            unfold last_ok in HL. rewrite Er in HL.
            destruct (HS k' m' Hm') as [[A1 A2] _].
            unfold sent_B. simpl s_at. simpl s_val. split; [lia|].
            destruct HL as [HL|HL].
            * left. rewrite HL in E. simpl in E. exact E.
            * right. apply (none_between_ext _ [(i, v)] _ (S (List.length (p_hist st)))); auto; lia. }
      assert (Y : last_ok hist' (Some nv) (p_sent st ++ [m0])).
      { unfold last_ok. rewrite rev_unit. left. reflexivity. }
      destruct (_ =? fail_at); unfold PI1; simpl; (split; [reflexivity|split; [exact X|exact Y]]).
    + unfold PI1. simpl. split; [reflexivity|]. split; [apply sent_ok_ext; auto|].
      unfold last_ok. destruct (rev (p_sent st)) as [|m' r] eqn:Er; auto. right.
      assert (IN : In m' (p_sent st)) by (apply in_rev; rewrite Er; left; auto).
      apply In_nth_error in IN as [k Hk]. destruct (HS k m' Hk) as [[A1 A2] _].
      exists (List.length hist'). split; [lia|]. rewrite firstn_all. exact R.
Qed.

Lemma check_ret_PI1 : forall s st, PI1 st -> PI1 (check_ret s st).
Proof.
  intros s st H. unfold check_ret. destruct (p_ret st); [exact H|].
  destruct (w_ret (p_w st)); exact H.
Qed.

Lemma pstep_PI1 : forall s st ev, PI1 st -> PI1 (pstep reduce veqb ms fail_at s st ev).
Proof.
  intros s st ev H. unfold pstep. apply check_ret_PI1.
  destruct ev as [i chs|i|].
  - destruct (nth i (w_live (p_w st)) false); [|exact H].
    destruct (listening st); destruct (w_cancel (p_w st)); try exact H.
    apply main_recv_PI1. exact H.
  - destruct (nth i (w_live (p_w st)) false); exact H.
  - exact H.
Qed.

Lemma pinit_PI1 : forall strategy, PI1 (pinit (V:=V) ms strategy).
Proof.
  intros strategy. unfold pinit. apply check_ret_PI1. unfold PI1. simpl.
  split; [symmetry; apply changes_of_nil|]. split.
  - intros k m Hk. destruct k; discriminate.
  - unfold last_ok. simpl. auto.
Qed.

Lemma pull_PI1 : forall strategy evs, PI1 (pull reduce veqb ms fail_at strategy evs).
Proof.
  intros strategy evs. unfold pull. apply prun_inv; [apply pstep_PI1|apply pinit_PI1].
Qed.

(* up to date *)
Definition PIU (st : pstate V) : Prop :=
  p_changes st = changes_of n (p_hist st) /\
  (p_hist st <> [] -> option_eqb veqb (p_last st) (reduce (changes_of n (p_hist st))) = true).

Lemma main_recv_PIU : (forall v, veqb v v = true) ->
  forall s st i chs, PIU st -> PIU (main_recv reduce veqb ms fail_at s st i chs).
Proof.
  intros Hrefl s st i chs [HC HU]. unfold main_recv.
  destruct (rev chs) as [|[v t] l]; [split; auto|]. cbv zeta.
  rewrite HC, set_nth_changes.
  destruct (option_eqb veqb (p_last st) (reduce (changes_of n (p_hist st ++ [(i, v)])))) eqn:E.
  - split; simpl; auto.
  - destruct (reduce (changes_of n (p_hist st ++ [(i, v)]))) as [nv|] eqn:R.
    + destruct (_ =? fail_at); (split; simpl; [reflexivity|]); intros _; rewrite R; simpl; apply Hrefl.
    + split; simpl; [reflexivity|]. intros _. rewrite R. reflexivity.
Qed.

Lemma check_ret_PIU : forall s st, PIU st -> PIU (check_ret s st).
Proof.
  intros s st H. unfold check_ret. destruct (p_ret st); [exact H|].
  destruct (w_ret (p_w st)); exact H.
Qed.

Lemma pstep_PIU : (forall v, veqb v v = true) ->
  forall s st ev, PIU st -> PIU (pstep reduce veqb ms fail_at s st ev).
Proof.
  intros Hrefl s st ev H. unfold pstep. apply check_ret_PIU.
  destruct ev as [i chs|i|].
  - destruct (nth i (w_live (p_w st)) false); [|exact H].
    destruct (listening st); destruct (w_cancel (p_w st)); try exact H.
    apply main_recv_PIU; auto.
  - destruct (nth i (w_live (p_w st)) false); exact H.
  - exact H.
Qed.

Lemma pull_PIU : (forall v, veqb v v = true) ->
  forall strategy evs, PIU (pull reduce veqb ms fail_at strategy evs).
Proof.
  intros Hrefl strategy evs. unfold pull. apply prun_inv; [apply pstep_PIU; auto|].
  unfold pinit. apply check_ret_PIU. split; simpl; [symmetry; apply changes_of_nil|].
  intros N. exfalso. apply N. reflexivity.
Qed.

(* ---------------- T5: strategy All, the first stream end cancels everyone ---------------- *)
Definition WL (w : world) : Prop := List.length (w_live w) = n /\ List.length (w_saw w) = n.
Definition WC (w : world) : Prop :=
  w_cancel w = None -> exists u, w_cons w = CUpTo 0 u /\ 0 <= u_cnt u.

Lemma deliver_live : forall s w r, w_live (fst (deliver s w r)) = w_live w.
Proof.
  intros s w r. unfold deliver. destruct (is_done (w_cons w)); simpl; auto.
  destruct (recv (w_cons w) r) as [c b]. destruct (is_done c); simpl; auto.
Qed.

Lemma deliver_cancel : forall s w r, w_cancel (fst (deliver s w r)) = w_cancel w.
Proof.
  intros s w r. unfold deliver. destruct (is_done (w_cons w)); simpl; auto.
  destruct (recv (w_cons w) r) as [c b]. destruct (is_done c); simpl; auto.
Qed.

Lemma flush_one_live_length : forall s w j,
  List.length (w_live (flush_one s ms w j)) = List.length (w_live w).
Proof.
  intros s w j. unfold flush_one. destruct (nth j (w_live w) false && aware_at ms j); auto.
  rewrite deliver_live. simpl. apply set_nth_length.
Qed.

Lemma flush_one_cancel : forall s w j, w_cancel (flush_one s ms w j) = w_cancel w.
Proof.
  intros s w j. unfold flush_one. destruct (nth j (w_live w) false && aware_at ms j); auto.
  rewrite deliver_cancel. reflexivity.
Qed.

Lemma flush_live_length : forall s w, List.length (w_live (flush s ms w)) = List.length (w_live w).
Proof.
  intros s w. unfold flush. generalize (seq 0 n). intros l. revert w.
  induction l as [|h t IH]; intros w; simpl; auto. rewrite IH. apply flush_one_live_length.
Qed.

Lemma flush_cancel : forall s w, w_cancel (flush s ms w) = w_cancel w.
Proof.
  intros s w. unfold flush. generalize (seq 0 n). intros l. revert w.
  induction l as [|h t IH]; intros w; simpl; auto. rewrite IH. apply flush_one_cancel.
Qed.

Lemma settle_live : forall s w, w_live (settle s w) = w_live w.
Proof.
  intros s w. unfold settle. destruct (is_done (w_cons w)); auto.
  destruct (forallb negb (w_live w)); auto.
Qed.

Lemma settle_cancel_some : forall s w x, w_cancel w = Some x -> w_cancel (settle s w) = Some x.
Proof.
  intros s w x H. unfold settle. destruct (is_done (w_cons w)); auto.
  destruct (forallb negb (w_live w)); auto. simpl. rewrite H. reflexivity.
Qed.

Lemma settle_WL : forall s w, WL w -> WL (settle s w).
Proof. intros s w [A B]. unfold WL. rewrite settle_live, settle_saw. auto. Qed.

Lemma flush_WL : forall s w, WL w -> WL (flush s ms w).
Proof. intros s w [A B]. unfold WL. rewrite flush_live_length, flush_saw_length. auto. Qed.

Lemma release_resp_WL : forall w s i r, WL w -> WL (release_resp ms w s i r).
Proof.
  intros w s i r H. unfold release_resp. destruct (nth i (w_live w) false); auto.
  pose proof (deliver_live s (member_returns i w) r) as DL.
  pose proof (deliver_saw s (member_returns i w) r) as DS.
  destruct (deliver s (member_returns i w) r) as [w1 c]. simpl in DL, DS.
  assert (W1 : WL w1).
  { destruct H as [A B]. unfold WL. rewrite DL, DS. rewrite set_nth_length. auto. }
  apply settle_WL. destruct (w_cancel w1); auto. destruct c; auto.
  apply flush_WL. exact W1.
Qed.

Lemma cancel_ctx_WL : forall w s, WL w -> WL (cancel_ctx ms s w).
Proof.
  intros w s H. unfold cancel_ctx. destruct (w_cancel w); auto.
  apply settle_WL. apply flush_WL. exact H.
Qed.

Lemma settle_WC : forall s w, WC w -> WC (settle s w).
Proof.
  intros s w H. unfold settle. destruct (is_done (w_cons w)); auto.
  destruct (forallb negb (w_live w)); auto.
  intros C. simpl in C. destruct (w_cancel w); discriminate.
Qed.

Lemma deliver_WC : forall s w r, WC w -> WC (fst (deliver s w r)).
Proof.
  intros s w r H C. rewrite deliver_cancel in C. destruct (H C) as [u [E U]].
  unfold deliver. rewrite E. simpl is_done. cbv iota. unfold recv.
  destruct (r_err r =? 0); simpl; eexists; (split; [reflexivity|simpl; lia]).
Qed.

Lemma release_resp_WC : forall w s i r, WC w -> WC (release_resp ms w s i r).
Proof.
  intros w s i r H. unfold release_resp. destruct (nth i (w_live w) false); auto.
  pose proof (deliver_WC s (member_returns i w) r H) as DW.
  destruct (deliver s (member_returns i w) r) as [w1 c]. simpl in DW.
  destruct (w_cancel w1) as [x|] eqn:C1.
  - intros C. rewrite (settle_cancel_some s w1 x C1) in C. discriminate.
  - destruct c; [|apply settle_WC; exact DW].
    intros C. rewrite (settle_cancel_some s _ s) in C; [discriminate|].
    rewrite flush_cancel. reflexivity.
Qed.

Lemma cancel_ctx_WC : forall w s, WC w -> WC (cancel_ctx ms s w).
Proof.
  intros w s H. unfold cancel_ctx. destruct (w_cancel w) eqn:C.
  - intros C'. congruence.
  - intros C'. rewrite (settle_cancel_some s _ s) in C'; [discriminate|].
    rewrite flush_cancel. reflexivity.
Qed.

Lemma pstep_world_cases : forall s st ev,
  p_w (pstep reduce veqb ms fail_at s st ev) = p_w st \/
  (exists i r, p_w (pstep reduce veqb ms fail_at s st ev) = release_resp ms (p_w st) s i r) \/
  p_w (pstep reduce veqb ms fail_at s st ev) = cancel_ctx ms s (p_w st).
Proof.
  intros s st ev. unfold pstep. rewrite check_ret_w.
  destruct ev as [i chs|i|].
  - destruct (nth i (w_live (p_w st)) false); [|left; reflexivity].
    destruct (listening st); destruct (w_cancel (p_w st)); try (left; reflexivity).
    + destruct (main_recv_world s st i chs) as [_ [E|E]]; rewrite E; auto.
    + right. left. exists i, (mkR i 0 bare_cancel_err). reflexivity.
  - destruct (nth i (w_live (p_w st)) false); [|left; reflexivity].
    right. left. exists i, (own_resp ms i). reflexivity.
  - right. right. reflexivity.
Qed.

Lemma pstep_world_inv : forall Q : world -> Prop,
  (forall w s i r, Q w -> Q (release_resp ms w s i r)) ->
  (forall w s, Q w -> Q (cancel_ctx ms s w)) ->
  forall s st ev, Q (p_w st) -> Q (p_w (pstep reduce veqb ms fail_at s st ev)).
Proof.
  intros Q HR HC s st ev H.
  destruct (pstep_world_cases s st ev) as [E|[[i [r E]]|E]]; rewrite E; auto.
Qed.

Lemma pull_WL : forall strategy evs, WL (p_w (pull reduce veqb ms fail_at strategy evs)).
Proof.
  intros strategy evs. unfold pull.
  apply (prun_inv (fun st => WL (p_w st))).
  - apply pstep_world_inv; [apply release_resp_WL|apply cancel_ctx_WL].
  - unfold pinit. rewrite check_ret_w. simpl. apply settle_WL.
    unfold WL, init_world. simpl. rewrite !repeat_length. auto.
Qed.

Lemma pull_WC : forall strategy evs,
  strategy <> 2 -> strategy <> 3 -> strategy <> 5 -> strategy <> 6 ->
  WC (p_w (pull reduce veqb ms fail_at strategy evs)).
Proof.
  intros strategy evs N2 N3 N5 N6. unfold pull.
  apply (prun_inv (fun st => WC (p_w st))).
  - apply pstep_world_inv; [apply release_resp_WC|apply cancel_ctx_WC].
  - unfold pinit. rewrite check_ret_w. simpl. apply settle_WC.
    unfold cons_of.
    destruct (Z.eqb_spec strategy 2) as [Q2|Q2]; [contradiction|].
    destruct (Z.eqb_spec strategy 3) as [Q3|Q3]; [contradiction|].
    destruct (Z.eqb_spec strategy 5) as [Q5|Q5]; [contradiction|].
    destruct (Z.eqb_spec strategy 6) as [Q6|Q6]; [contradiction|].
    intros _. exists (empty_upto (List.length ms)). split; [reflexivity|simpl; lia].
Qed.

Lemma members_ok_fail : forall i, members_ok ms = true -> (i < n)%nat -> out_at ms i = Fail.
Proof.
  intros i MO Hi. unfold members_ok in MO. rewrite forallb_forall in MO.
  specialize (MO (nth i ms dflt_member) (nth_In _ _ Hi)). unfold out_at.
  destruct (m_out (nth i ms dflt_member)); try discriminate; reflexivity.
Qed.

Lemma release_all_cancels : forall w s i,
  members_ok ms = true -> WL w -> WC w -> w_cancel w = None -> nth i (w_live w) false = true ->
  w_cancel (release ms w s i) = Some s /\
  forall j, (j < n)%nat -> aware_at ms j = true ->
    nth j (w_live (release ms w s i)) false = false /\
    (nth j (w_live w) false = true -> j <> i -> nth j (w_saw (release ms w s i)) (-1) = Z.of_nat s).
Proof.
  intros w s i MO [LL LS] HC C Li.
  destruct (HC C) as [u [E U]].
  assert (Hi : (i < n)%nat) by (rewrite <- LL; apply live_lt; auto).
  pose proof (members_ok_fail i MO Hi) as Hout.
  set (u1 := mkU (set_nth i 0 (u_res u)) (u_cnt u + 1) (if u_first u =? 0 then zi i else u_first u)).
  set (w1 := mkW (CUpTo 0 u1) None (w_ret w) (set_nth i false (w_live w)) (w_saw w) (w_lost w)).
  assert (ED : deliver s (member_returns i w) (own_resp ms i) = (w1, true)).
  { unfold deliver, member_returns. simpl w_cons. rewrite E. simpl is_done. cbv iota.
    unfold recv, own_resp. rewrite Hout. simpl r_err. simpl r_msg. simpl r_i. simpl u_res.
    simpl u_cnt. simpl u_first. rewrite zi_nonzero. fold u1. simpl is_done. cbv iota.
    simpl w_cancel. rewrite C. simpl w_ret. simpl w_live. simpl w_saw. simpl w_lost.
    unfold w1. f_equal. apply Z.ltb_lt. simpl. lia. }
  assert (ER : release ms w s i = settle s (flush s ms (set_cancel s w1))).
  { unfold release. rewrite Li, ED. reflexivity. }
  rewrite ER.
  assert (F1 : u_first u1 <> 0).
  { unfold u1. simpl. destruct (Z.eqb_spec (u_first u) 0); auto. unfold zi. lia. }
  assert (HLen : List.length (w_saw (set_cancel s w1)) = List.length (w_live (set_cancel s w1))).
  { simpl. rewrite set_nth_length. lia. }
  destruct (flush_fold_upto s ms 0 (seq 0 n) (set_cancel s w1) u1 eq_refl F1 (seq_NoDup _ _) HLen)
    as [u' [G1 [G2 [G3 [G4 [G5 [G6 [G7 [G8 [G9 [G10 G11]]]]]]]]]]].
  cbv zeta in *. fold (flush s ms (set_cancel s w1)) in *.
  split.
  - apply settle_cancel_some. rewrite G6. reflexivity.
  - intros j Hj Aj. rewrite settle_live, settle_saw.
    assert (IJ : ExecProofs.inb j (seq 0 n) = true).
    { apply ExecProofs.inb_true. apply in_seq. lia. }
    split.
    + rewrite G11, IJ, Aj. reflexivity.
    + intros Lj Nj. rewrite G10, IJ, Aj. simpl w_live. rewrite nth_set_nth_false.
      destruct (Nat.eqb_spec j i); [contradiction|]. rewrite Lj. reflexivity.
Qed.

Lemma pstep_end_all : forall s st i,
  members_ok ms = true -> WL (p_w st) -> WC (p_w st) ->
  w_cancel (p_w st) = None -> nth i (w_live (p_w st)) false = true ->
  let st' := pstep reduce veqb ms fail_at s st (EEnd i) in
  w_cancel (p_w st') = Some s /\
  forall j, (j < n)%nat -> aware_at ms j = true ->
    nth j (w_live (p_w st')) false = false /\
    (nth j (w_live (p_w st)) false = true -> j <> i -> nth j (w_saw (p_w st')) (-1) = Z.of_nat s).
Proof.
  intros s st i MO HL HC C Li. cbv zeta. unfold pstep. rewrite check_ret_w, Li. simpl p_w.
  apply release_all_cancels; auto.
Qed.

(* ---------------- the history only names members of the group ---------------- *)
Definition PIH (st : pstate V) : Prop :=
  WL (p_w st) /\ forall p, In p (p_hist st) -> (fst p < n)%nat.

Lemma check_ret_hist : forall s (st : pstate V), p_hist (check_ret s st) = p_hist st.
Proof. intros s st. unfold check_ret. destruct (p_ret st); [|destruct (w_ret (p_w st))]; reflexivity. Qed.

Lemma main_recv_hist : forall s st i chs,
  p_hist (main_recv reduce veqb ms fail_at s st i chs) = p_hist st \/
  exists v, p_hist (main_recv reduce veqb ms fail_at s st i chs) = p_hist st ++ [(i, v)].
Proof.
  intros s st i chs. unfold main_recv. destruct (rev chs) as [|[v t] l]; [auto|].
  right. exists v. cbv zeta.
  destruct (option_eqb veqb (p_last st) _); [reflexivity|].
  destruct (reduce _); [|reflexivity].
  destruct (_ =? fail_at); reflexivity.
Qed.

Lemma pstep_PIH : forall s st ev, PIH st -> PIH (pstep reduce veqb ms fail_at s st ev).
Proof.
  intros s st ev [HW HH]. split.
  - apply (pstep_world_inv WL); [intros; apply release_resp_WL; auto|intros; apply cancel_ctx_WL; auto|exact HW].
  - unfold pstep. rewrite check_ret_hist. destruct ev as [i chs|i|].
    + destruct (nth i (w_live (p_w st)) false) eqn:Li; [|exact HH].
      destruct (listening st); destruct (w_cancel (p_w st)); try exact HH.
      destruct (main_recv_hist s st i chs) as [E|[v E]]; rewrite E; [exact HH|].
      intros p Hp. apply in_app_or in Hp as [Hp|[Hp|[]]]; [auto|]. subst p. simpl.
      destruct HW as [LL _]. rewrite <- LL. apply live_lt. exact Li.
    + destruct (nth i (w_live (p_w st)) false); exact HH.
    + exact HH.
Qed.

Lemma pull_PIH : forall strategy evs, PIH (pull reduce veqb ms fail_at strategy evs).
Proof.
  intros strategy evs. unfold pull. apply prun_inv; [apply pstep_PIH|].
  split; [apply (pull_WL strategy [])|].
  unfold pinit. rewrite check_ret_hist. simpl. intros p [].
Qed.

Lemma latest_in : forall (hist : list (nat * V)) i v, In (i, v) hist -> latest hist i <> None.
Proof.
  intros hist i v H. unfold latest.
  destruct (find (fun p => Nat.eqb (fst p) i) (rev hist)) as [[a b]|] eqn:F; [discriminate|].
  apply find_none with (x := (i, v)) in F; [|rewrite <- in_rev; exact H].
  simpl in F. rewrite Nat.eqb_refl in F. discriminate.
Qed.

Lemma changes_has_some : forall (hist : list (nat * V)) j,
  (forall p, In p hist -> (fst p < n)%nat) -> (1 <= j <= List.length hist)%nat ->
  exists o, In o (changes_of n (firstn j hist)) /\ o <> None.
Proof.
  intros hist j HH Hj. destruct hist as [|[i0 v0] t]; [simpl in Hj; lia|].
  destruct j as [|j]; [lia|]. simpl firstn.
  assert (Hi : (i0 < n)%nat) by (apply (HH (i0, v0)); left; reflexivity).
  exists (latest ((i0, v0) :: firstn j t) i0). split.
  - unfold changes_of. apply in_map. apply in_seq. lia.
  - apply (latest_in _ i0 v0). left. reflexivity.
Qed.

End PullProofs.

(* ================= the theorems ================= *)
Theorem pull_returns_with_execute : forall V (reduce : list (option V) -> option V) veqb ms fail_at strategy evs,
  let st := pull reduce veqb ms fail_at strategy evs in
  match p_ret st with
  | None => w_ret (p_w st) = None
  | Some (s, e) => w_ret (p_w st) = Some s /\
                   e = match p_failed st with Some e' => e' | None => exec_err (p_w st) end
  end.
Proof. intros. apply pull_returns_with_execute_s. Qed.

Theorem pull_returns_once_members_returned : forall V reduce veqb ms fail_at strategy evs,
  let st := pull (V:=V) reduce veqb ms fail_at strategy evs in
  forallb negb (w_live (p_w st)) = true -> p_ret st <> None.
Proof. intros V reduce veqb ms fail_at strategy evs. apply pull_returns_once_members_returned_s. Qed.

Theorem pull_failed_send_waits : forall V reduce veqb ms fail_at strategy evs e,
  let st := pull (V:=V) reduce veqb ms fail_at strategy evs in
  p_failed st = Some e ->
  (p_ret st = None <-> w_ret (p_w st) = None) /\ forall s e', p_ret st = Some (s, e') -> e' = e.
Proof. intros V reduce veqb ms fail_at strategy evs e. apply pull_failed_send_waits_s. Qed.

(* T1.  The clause "differs from the previous message sent" holds in the form: the two values
   differ, OR the reduction was None at some message processed strictly in between (the loop then
   resets lastChange to nil without sending, so the same value can be sent again). *)
Theorem pull_sent_are_reductions : forall V (reduce : list (option V) -> option V) veqb ms fail_at strategy evs,
  let st := pull reduce veqb ms fail_at strategy evs in
  let n := List.length ms in
  p_changes st = changes_of n (p_hist st) /\
  (forall k m, nth_error (p_sent st) k = Some m ->
     (1 <= s_at m <= List.length (p_hist st))%nat /\
     reduce (changes_of n (firstn (s_at m) (p_hist st))) = Some (s_val m) /\
     match k with
     | O => True
     | S k' => forall m', nth_error (p_sent st) k' = Some m' ->
                 (s_at m' < s_at m)%nat /\
                 (veqb (s_val m') (s_val m) = false \/
                  exists j, (s_at m' < j < s_at m)%nat /\
                            reduce (changes_of n (firstn j (p_hist st))) = None)
     end).
Proof.
  intros V reduce veqb ms fail_at strategy evs. cbv zeta.
  destruct (pull_PI1 V reduce veqb ms fail_at strategy evs) as [HC [HS _]].
  split; [exact HC|]. intros k m Hk. destruct (HS k m Hk) as [[A1 A2] B].
  split; [exact A1|]. split; [exact A2|]. destruct k as [|k']; [exact I|].
  intros m' Hm'. exact (B m' Hm').
Qed.

(* the statement as asked, for reducers that are never None on a processed prefix of the history *)
Theorem pull_sent_are_reductions_strict : forall V (reduce : list (option V) -> option V) veqb ms fail_at strategy evs,
  let st := pull reduce veqb ms fail_at strategy evs in
  let n := List.length ms in
  (forall j, (1 <= j <= List.length (p_hist st))%nat ->
     reduce (changes_of n (firstn j (p_hist st))) <> None) ->
  p_changes st = changes_of n (p_hist st) /\
  (forall k m, nth_error (p_sent st) k = Some m ->
     (1 <= s_at m <= List.length (p_hist st))%nat /\
     reduce (changes_of n (firstn (s_at m) (p_hist st))) = Some (s_val m) /\
     match k with
     | O => True
     | S k' => forall m', nth_error (p_sent st) k' = Some m' ->
                 (s_at m' < s_at m)%nat /\ veqb (s_val m') (s_val m) = false
     end).
Proof.
  intros V reduce veqb ms fail_at strategy evs. cbv zeta. intros NN.
  destruct (pull_sent_are_reductions V reduce veqb ms fail_at strategy evs) as [HC HS]. cbv zeta in HS.
  split; [exact HC|]. intros k m Hk. destruct (HS k m Hk) as [A1 [A2 B]].
  split; [exact A1|]. split; [exact A2|]. destruct k as [|k']; [exact I|].
  intros m' Hm'. destruct (B m' Hm') as [B1 [B2|[j [J1 J2]]]]; [auto|].
  exfalso. apply (NN j); [lia|exact J2].
Qed.

(* the statement as asked holds for every reducer that is None only when no member has reported
   (both reducers of the trait groups are) *)
Theorem pull_sent_are_reductions_exact : forall V (reduce : list (option V) -> option V) veqb ms fail_at strategy evs,
  (forall l, reduce l = None -> forall o, In o l -> o = None) ->
  let st := pull reduce veqb ms fail_at strategy evs in
  let n := List.length ms in
  p_changes st = changes_of n (p_hist st) /\
  (forall k m, nth_error (p_sent st) k = Some m ->
     (1 <= s_at m <= List.length (p_hist st))%nat /\
     reduce (changes_of n (firstn (s_at m) (p_hist st))) = Some (s_val m) /\
     match k with
     | O => True
     | S k' => forall m', nth_error (p_sent st) k' = Some m' ->
                 (s_at m' < s_at m)%nat /\ veqb (s_val m') (s_val m) = false
     end).
Proof.
  intros V reduce veqb ms fail_at strategy evs Hnone.
  apply pull_sent_are_reductions_strict. intros j Hj R.
  destruct (pull_PIH V reduce veqb ms fail_at strategy evs) as [_ HH].
  destruct (changes_has_some V ms _ j HH Hj) as [o [I N]].
  apply N. exact (Hnone _ R o I).
Qed.

Lemma onoff_fold_some : forall l a, fold_left onoff_acc_p l (Some a) <> None.
Proof.
  induction l as [|h t IH]; intros a; simpl; [discriminate|].
  destruct h as [v|]; simpl; apply IH.
Qed.

Lemma onoff_none_only : forall l, onoff_reduce_p l = None -> forall o, In o l -> o = None.
Proof.
  unfold onoff_reduce_p. induction l as [|h t IH]; simpl; intros H o Hin; [contradiction|].
  destruct h as [v|]; simpl in H.
  - exfalso. exact (onoff_fold_some _ _ H).
  - destruct Hin as [<-|Hin]; [reflexivity|]. apply IH; auto.
Qed.

Lemma light_fold_some : forall sl i a, light_fold_p i (Some a) sl <> None.
Proof.
  induction sl as [|h t IH]; intros i a; simpl; [discriminate|].
  destruct h as [v|]; apply IH.
Qed.

Lemma light_none_only : forall l, light_reduce_p l = None -> forall o, In o l -> o = None.
Proof.
  unfold light_reduce_p. generalize 0%nat. intros i l. revert i.
  induction l as [|h t IH]; simpl; intros i H o Hin; [contradiction|].
  destruct h as [v|].
  - exfalso. exact (light_fold_some _ _ _ H).
  - destruct Hin as [<-|Hin]; [reflexivity|]. apply (IH (S i)); auto.
Qed.

Corollary pull_onoff_sent_differ : forall ms fail_at strategy evs k m m',
  let st := pull_onoff ms fail_at strategy evs in
  nth_error (p_sent st) k = Some m' -> nth_error (p_sent st) (S k) = Some m ->
  (s_at m' < s_at m)%nat /\ s_val m' <> s_val m.
Proof.
  intros ms fail_at strategy evs k m m'. cbv zeta. unfold pull_onoff. intros Hm' Hm.
  destruct (pull_sent_are_reductions_exact Z onoff_reduce_p Z.eqb ms fail_at strategy evs onoff_none_only)
    as [_ HS]. cbv zeta in HS.
  destruct (HS (S k) m Hm) as [_ [_ B]]. destruct (B m' Hm') as [B1 B2].
  split; [exact B1|]. apply Z.eqb_neq. exact B2.
Qed.

Corollary pull_light_sent_differ : forall ms fail_at strategy evs k m m',
  let st := pull_light ms fail_at strategy evs in
  nth_error (p_sent st) k = Some m' -> nth_error (p_sent st) (S k) = Some m ->
  (s_at m' < s_at m)%nat /\ ~ (s_val m' == s_val m)%Q.
Proof.
  intros ms fail_at strategy evs k m m'. cbv zeta. unfold pull_light. intros Hm' Hm.
  destruct (pull_sent_are_reductions_exact Q light_reduce_p Qeq_bool ms fail_at strategy evs light_none_only)
    as [_ HS]. cbv zeta in HS.
  destruct (HS (S k) m Hm) as [_ [_ B]]. destruct (B m' Hm') as [B1 B2].
  split; [exact B1|]. apply Qeq_bool_neq. exact B2.
Qed.

Theorem pull_stream_up_to_date : forall V reduce veqb ms fail_at strategy evs, (forall v : V, veqb v v = true) ->
  let st := pull reduce veqb ms fail_at strategy evs in
  p_hist st <> [] -> option_eqb veqb (p_last st) (reduce (changes_of (List.length ms) (p_hist st))) = true.
Proof.
  intros V reduce veqb ms fail_at strategy evs Hrefl. cbv zeta.
  destruct (pull_PIU V reduce veqb ms fail_at Hrefl strategy evs) as [_ H]. exact H.
Qed.

(* T5, for an arbitrary step number *)
Theorem pull_all_first_error_cancels_everyone_at : forall V reduce veqb ms fail_at strategy evs i s,
  let st := pull (V:=V) reduce veqb ms fail_at strategy evs in
  members_ok ms = true -> strategy <> 2 -> strategy <> 3 -> strategy <> 5 -> strategy <> 6 ->
  w_cancel (p_w st) = None -> nth i (w_live (p_w st)) false = true ->
  let st' := pstep reduce veqb ms fail_at s st (EEnd i) in
  w_cancel (p_w st') = Some s /\
  forall j, (j < List.length ms)%nat -> aware_at ms j = true ->
    nth j (w_live (p_w st')) false = false /\
    (nth j (w_live (p_w st)) false = true -> j <> i -> nth j (w_saw (p_w st')) (-1) = Z.of_nat s).
Proof.
  intros V reduce veqb ms fail_at strategy evs i s. cbv zeta. intros MO N2 N3 N5 N6 C Li.
  apply pstep_end_all; auto; [apply pull_WL|apply pull_WC; auto].
Qed.

Theorem pull_all_first_error_cancels_everyone : forall V reduce veqb ms fail_at strategy evs i,
  let st := pull (V:=V) reduce veqb ms fail_at strategy evs in
  let s := S (List.length evs) in
  members_ok ms = true -> strategy <> 2 -> strategy <> 3 -> strategy <> 5 -> strategy <> 6 ->
  w_cancel (p_w st) = None -> nth i (w_live (p_w st)) false = true ->
  let st' := pstep reduce veqb ms fail_at s st (EEnd i) in
  w_cancel (p_w st') = Some s /\
  forall j, (j < List.length ms)%nat -> aware_at ms j = true ->
    nth j (w_live (p_w st')) false = false /\
    (nth j (w_live (p_w st)) false = true -> j <> i -> nth j (w_saw (p_w st')) (-1) = Z.of_nat s).
Proof.
  intros V reduce veqb ms fail_at strategy evs i. cbv zeta.
  apply (pull_all_first_error_cancels_everyone_at V reduce veqb ms fail_at strategy evs i (S (List.length evs))).
Qed.

(* the step used above is the step the run gives to the next event *)
Lemma prun_snoc : forall V reduce veqb ms fail_at evs s (st : pstate V) e,
  prun reduce veqb ms fail_at s st (evs ++ [e]) =
  pstep reduce veqb ms fail_at (s + List.length evs) (prun reduce veqb ms fail_at s st evs) e.
Proof.
  intros V reduce veqb ms fail_at evs. induction evs as [|x t IH]; intros s st e; simpl.
  - rewrite Nat.add_0_r. reflexivity.
  - rewrite IH. f_equal. lia.
Qed.

Lemma pull_snoc : forall V reduce veqb ms fail_at strategy evs (e : pevent V),
  pull reduce veqb ms fail_at strategy (evs ++ [e]) =
  pstep reduce veqb ms fail_at (S (List.length evs)) (pull reduce veqb ms fail_at strategy evs) e.
Proof. intros. unfold pull. rewrite prun_snoc. reflexivity. Qed.

(* non-vacuity: a concrete run *)
Example pull_onoff_example :
  let st := pull onoff_reduce_p Z.eqb [mkM Fail true; mkM Fail true] 0 1
                 [EMsg 0 [(2, 7)]; EMsg 1 [(1, 0)]; EMsg 1 [(1, 9)]; EEnd 0] in
  map s_val (p_sent st) = [2; 1] /\ map s_at (p_sent st) = [1%nat; 2%nat] /\
  p_ret st = Some (4%nat, 1) /\ w_saw (p_w st) = [-1; 4] /\ w_cancel (p_w st) = Some 4%nat /\
  w_live (p_w st) = [false; false].
Proof. vm_compute. repeat split; reflexivity. Qed.

(* why the "differs from the previous one" clause of [pull_sent_are_reductions] carries the
   disjunct: with a reducer that can go back to None the same value is sent twice in a row *)
Example pull_resend_after_none :
  let red (l : list (option Z)) : option Z :=
    match l with [Some v] => if v =? 0 then None else Some v | _ => None end in
  let st := pull red Z.eqb [mkM Fail true] 0 1 [EMsg 0 [(5, 0)]; EMsg 0 [(0, 0)]; EMsg 0 [(5, 0)]] in
  map s_val (p_sent st) = [5; 5] /\ map s_at (p_sent st) = [1%nat; 3%nat].
Proof. vm_compute. split; reflexivity. Qed.
